#!/usr/bin/env python3
"""seedtest.py <Cxx> <n> [--checks Cxx,Cyy]

Confirms a seeded defect produced by an independent sub-agent and runs our checks on it.
Input:  /tmp/mut-<Cxx>/out/patch<n>.diff, demo<n>_test.go (or demo<n>/main.go), README.md
Output: /verif/seeded/<Cxx>-<n>/{patch.diff, demo*, meta.json}

Steps (all in a scratch worktree /tmp/seedtest-wt, never in /repo except step 4):
 1. the patch applies to /repo HEAD and builds;
 2. the unedited test suite still passes with the patch;
 3. the demonstration FAILS with the patch and PASSES without it;
 4. `git -C /repo apply patch; bin/check <id>; git -C /repo checkout -- .` for each check.
"""
import json, os, re, shutil, subprocess, sys, time

V = os.environ.get("SEED_VERIF", "/verif")
REPO = os.environ.get("SEED_REPO", "/repo")
OUT = "/verif"
ENV = dict(os.environ, UGO_REPO=os.environ.get("SEED_REPO", "/repo"), GOFLAGS="-mod=mod", GOPROXY="off", GOSUMDB="off", GOTOOLCHAIN="local")
PKGDIR = {"ugo": ".", "ugo_test": ".", "json": "stdlib/json", "json_test": "stdlib/json", "encoder": "encoder",
          "encoder_test": "encoder", "parser": "parser", "parser_test": "parser", "time": "stdlib/time",
          "time_test": "stdlib/time", "strings": "stdlib/strings", "strings_test": "stdlib/strings",
          "fmt": "stdlib/fmt", "fmt_test": "stdlib/fmt", "registry": "registry", "registry_test": "registry"}


def sh(cmd, cwd=None, timeout=1800):
    p = subprocess.run(cmd, cwd=cwd, env=ENV, shell=isinstance(cmd, str), stdout=subprocess.PIPE,
                       stderr=subprocess.STDOUT, text=True, errors="replace", timeout=timeout)
    return p.returncode, p.stdout


def main():
    pid, n = sys.argv[1], sys.argv[2]
    checks = [pid]
    if "--checks" in sys.argv:
        checks = sys.argv[sys.argv.index("--checks") + 1].split(",")
    src = f"/tmp/mut-{pid}/out"
    if "--src" in sys.argv:
        src = sys.argv[sys.argv.index("--src") + 1]
    asn = n
    if "--as" in sys.argv:  # number under which the change is kept (seeded/<id>-<as>)
        asn = sys.argv[sys.argv.index("--as") + 1]
    dst = f"{OUT}/seeded/{pid}-{asn}"
    os.makedirs(dst, exist_ok=True)
    demo = None
    if os.path.exists(f"{src}/patch{n}.diff"):
        shutil.copy(f"{src}/patch{n}.diff", f"{dst}/patch.diff")
        for cand in (f"demo{n}_test.go", f"demo{n}/main.go", f"demo{n}.go"):
            if os.path.exists(f"{src}/{cand}"):
                demo = cand
                shutil.copy(f"{src}/{cand}", f"{dst}/{os.path.basename(cand) if '/' not in cand else 'demo_main.go'}")
        if os.path.exists(f"{src}/README.md"):
            shutil.copy(f"{src}/README.md", f"{dst}/README.agent.md")
    else:
        # re-run of a seeded change already kept under seeded/<id>-<n>/ (the author's scratch tree is gone)
        src = dst
        for cand in sorted(os.listdir(dst)):
            if cand.startswith("demo") and cand.endswith("_test.go"):
                demo = cand
    meta = {"property": pid, "n": int(asn), "patch": "patch.diff", "demo": demo, "ran": []}

    wt = "/tmp/seedtest-wt-" + os.path.basename(V)
    sh(f"git -C {REPO} worktree remove --force {wt}")
    rc, out = sh(f"git -C {REPO} worktree add --detach {wt} HEAD")
    try:
        rc, out = sh(f"git apply --check {dst}/patch.diff", cwd=wt)
        meta["applies_to_head"] = rc == 0
        if rc != 0:
            # patches were made against an older HEAD: try a 3-way apply
            rc, out = sh(f"git apply --3way {dst}/patch.diff", cwd=wt)
            meta["applies_3way"] = rc == 0
            if rc != 0:
                meta["error"] = "patch does not apply: " + out[-500:]
                return finish(dst, meta)
            sh("git diff HEAD > /tmp/seedtest.rebased.diff", cwd=wt)
            shutil.copy("/tmp/seedtest.rebased.diff", f"{dst}/patch.diff")
        else:
            sh(f"git apply {dst}/patch.diff", cwd=wt)
        rc, out = sh("go build ./... && go vet ./... >/dev/null 2>&1; go build ./...", cwd=wt)
        meta["builds"] = rc == 0
        rc, out = sh("go test -vet=off -count=1 ./...", cwd=wt)
        fails = [l for l in out.split("\n") if l.startswith("FAIL") or l.startswith("--- FAIL")]
        meta["suite_passes_with_patch"] = rc == 0
        meta["ran"].append("go test -vet=off -count=1 ./...  (with patch) rc=%d" % rc)
        if rc != 0:
            meta["suite_failures"] = fails[:10]
        # demo
        if demo and demo.endswith("_test.go"):
            text = open(f"{src}/{demo}").read()
            m = re.search(r"^package (\w+)", text, re.M)
            pkg = m.group(1) if m else "ugo_test"
            d = PKGDIR.get(pkg, ".")
            tags = ""
            mt = re.search(r"//go:build (\w+)", text)
            if mt:
                tags = "-tags " + mt.group(1)
            target = f"{wt}/{d}/zz_seeded_demo_test.go"
            shutil.copy(f"{src}/{demo}", target)  # src == dst on a re-run
            names = re.findall(r"^func (Test\w+)", text, re.M)
            runarg = "-run '^(" + "|".join(names) + ")$'" if names else ""
            race = "-race" if re.search(r"go test -race", text) else ""  # demo says it must run under the race detector
            cmd = f"go test {race} -vet=off -count=1 {tags} {runarg} ./{d}/"
            rc1, out1 = sh(cmd, cwd=wt)
            meta["demo_fails_with_patch"] = rc1 != 0
            sh(f"git apply -R {dst}/patch.diff", cwd=wt)
            rc2, out2 = sh(cmd, cwd=wt)
            meta["demo_passes_without_patch"] = rc2 == 0
            meta["ran"].append(cmd + "  (with patch rc=%d, without rc=%d)" % (rc1, rc2))
            meta["demo_output_with_patch"] = out1[-1500:]
            os.remove(target)
        else:
            meta["demo_note"] = "demo is not a _test.go file: verified manually (see README.agent.md)"
    finally:
        sh(f"git -C {REPO} worktree remove --force {wt}")

    # our checks on /repo with the patch applied
    rc, out = sh("git status --porcelain", cwd=REPO)
    if out.strip():
        meta["error"] = "/repo is not clean"
        return finish(dst, meta)
    results = {}
    try:
        rc, out = sh(f"git apply {dst}/patch.diff", cwd=REPO)
        if rc != 0:
            meta["error"] = "patch does not apply to /repo: " + out[-300:]
            return finish(dst, meta)
        for c in checks:
            t0 = time.time()
            rc, out = sh(f"bin/check {c} --tier quick", cwd=V, timeout=3600)
            viol = [l for l in out.split("\n") if l.startswith("VIOLATION") or l.startswith("  broken")]
            results[c] = {"exit": rc, "lines": viol[:12], "wall_s": round(time.time() - t0, 1)}
            # keep one replay as an example
            m = re.search(r"replay=(\S+)", "\n".join(viol))
            if m and os.path.exists(m.group(1)):
                shutil.copy(m.group(1), f"{dst}/replay-{c}.json")
    finally:
        sh("git checkout -- . && git clean -fdq", cwd=REPO)
    meta["checks"] = results
    meta["detected_by"] = [c for c, r in results.items() if r["exit"] == 1]
    # restore the green evidence/replays state
    for c in checks:
        sh(f"bin/check {c} --tier quick", cwd=V, timeout=3600)
    return finish(dst, meta)


def finish(dst, meta):
    json.dump(meta, open(f"{dst}/meta.json", "w"), indent=1)
    print(json.dumps({k: meta.get(k) for k in ("property", "n", "applies_to_head", "suite_passes_with_patch",
                                                "demo_fails_with_patch", "demo_passes_without_patch", "detected_by", "error")}))
    for c, r in (meta.get("checks") or {}).items():
        print(" ", c, "exit", r["exit"], r["lines"][:4])
    return 0


if __name__ == "__main__":
    sys.exit(main())
