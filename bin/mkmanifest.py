#!/usr/bin/env python3
"""Regenerates /verif/MANIFEST.json from bin/props.py and bin/manifest_texts.py."""
import json, os, subprocess, sys
V = os.path.dirname(os.path.dirname(os.path.abspath(__file__)))
sys.path.insert(0, os.path.join(V, "bin"))
from props import PROPS
from manifest_texts import TEXTS, NOT_APPLICABLE, HOOK_COMMITS

props = [json.loads(l) for l in open(os.path.join(V, "properties.jsonl"))]
checks = []
for p in props:
    pid = p["id"]
    if pid not in PROPS:
        continue
    t = TEXTS[pid]
    checks.append({
        "property_id": pid,
        "quick_cmd": "bin/check %s --tier quick" % pid,
        "thorough_cmd": "bin/check %s --tier thorough" % pid,
        "evidence_file": "/verif/evidence/%s.json" % pid,
        "replay_cmd_template": "bin/check --replay {path}",
        "engine": "lean-proof+correspondence",
        "level_claimed": {"category": "proof", "text": t["level"], "design_ref": t.get("design_ref", "DESIGN.md section 7 " + pid)},
        "level_note": t["note"],
        "technique": t["technique"],
    })
na = [{"property_id": p["id"], "reason": NOT_APPLICABLE.get(p["id"], "check not built yet (build in progress); see DESIGN.md section 7")}
      for p in props if p["id"] not in PROPS]
m = {
    "version": 1,
    "setup_cmd": "bin/setup.sh",
    "hooks": {"guard": "verif", "enable": "go build -tags verif (harness/cmd/corr is built with the tag against /repo's working tree)",
              "baseline_off_cmd": "cd /repo && GOFLAGS=-mod=mod GOPROXY=off go test -vet=off -count=1 ./...",
              "source_commits": HOOK_COMMITS, "add_only": True},
    "engines": [{"name": "lean-proof+correspondence", "path": "/verif/bin/check",
                 "serves_properties": [c["property_id"] for c in checks],
                 "kind_free_text": "Lean 4 theorems over models regenerated from /repo by goextract or hand-written and tied by the corr differential harness (Lean driver ugomodel vs in-process implementation)"}],
    "checks": checks,
    "notes": "See DESIGN.md. known_findings.jsonl lists fixed/open findings. bin/check <id> --tier quick|thorough; bin/check --replay <file>.",
    "not_applicable": na,
}
json.dump(m, open(os.path.join(V, "MANIFEST.json"), "w"), indent=1)
print("checks:", [c["property_id"] for c in checks], "not claimed:", [n["property_id"] for n in na])
