#!/bin/sh
# MANIFEST.setup_cmd: build the framework from files on disk only (offline).
set -e
cd "$(dirname "$0")/.."
export GOFLAGS=-mod=mod GOPROXY=off GOSUMDB=off GOTOOLCHAIN=local CGO_ENABLED=0
REPO="${UGO_REPO:-/repo}"
mkdir -p work
sed "s#replace github.com/ozanh/ugo => .*#replace github.com/ozanh/ugo => $REPO#" harness/go.mod > work/harness.mod
cp "$REPO/go.sum" work/harness.sum 2>/dev/null || true
( cd harness && go build -modfile ../work/harness.mod -o ../bin/goextract ./cmd/goextract )
bin/goextract "$REPO" lean/UgoVerif/Gen || true
( cd lean && lake build UgoVerif UgoVerif.AuditLib ugomodel 2>&1 | grep -v '^trace' | tail -5 )
( cd harness && go build -modfile ../work/harness.mod -tags verif -o ../bin/corr ./cmd/corr )
