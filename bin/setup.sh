#!/bin/sh
# MANIFEST.setup_cmd: build the framework from files on disk only (offline).
set -e
cd "$(dirname "$0")/.."
export GOFLAGS=-mod=mod GOPROXY=off GOSUMDB=off GOTOOLCHAIN=local
( cd harness && cp /repo/go.sum . 2>/dev/null || true; go build -o ../bin/goextract ./cmd/goextract )
bin/goextract /repo lean/UgoVerif/Gen || true
( cd lean && lake build UgoVerif ugomodel 2>&1 | grep -v '^trace' | tail -5 )
