"""Manifest texts live next to the per-property configuration (bin/props.d/<id>.json)."""
from props import TEXTS  # noqa: F401

# commits in /repo that add verification hooks (build tag verif, add-only)
HOOK_COMMITS = ["695f40a", "5cb0ad0", "4dffa46", "41224e4", "bb046e1"]
NOT_APPLICABLE = {}
