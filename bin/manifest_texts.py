HOOK_COMMITS = []
NOT_APPLICABLE = {}
TEXTS = {
 "C15": {
  "technique": "Lean 4 theorems over operator cells regenerated from numeric.go/objects.go by a Go-to-Lean translator; hand model of array/map recursion tied by exhaustive pool^2 x operators correspondence",
  "level": "Machine-checked proof: equal_comm (symmetry of == on all nested well-formed values), neq_not_eq, binop_no_panic (no operator application reaches a Go panic), trichotomy, le_iff_lt_or_eq, lt_flip are Lean theorems quantified over all values and all float arithmetic instances, stated about definitions that goextract regenerates from the Go source on every run; a source edit changes the Lean term and the proof is re-checked.",
  "note": "Trusted: Lean kernel; goextract translator (fail-closed subset); hand model Model/Ops.lean for Array/Map recursion and left-operand dispatch, tied by the `ops` stream (pool^2 x 15 operators exhaustive + random nested values, model vs Object.BinaryOp/Equal and vs the VM); float arithmetic abstract (FloatOps), IEEE comparison defined on bit patterns. SyncMap/RuntimeError/user types outside the modelled value set.",
 },
 "C11": {
  "technique": "Lean 4 theorems over a byte-level hand model of the (repaired) v1->v2 converter and opcode tables regenerated from opcodes.go / encoder/opv1 / MakeInstruction / the converter's switches; model tied by a correspondence stream that down-converts compiled programs with an independent relocator, decodes them through the implementation and runs both",
  "level": "Machine-checked proof: conv_decodes (for every decodable version-1 stream the converter succeeds and the result decodes to the same instructions with every offset, jump/try operand and source-map key mapped through the boundary map; zero SETUPTRY operands stay zero), newOff_strict_mono, conv_no_panic, conv_total (arbitrary bytes: error or ok, never a panic), decode_encode; reloc_sim + C11_partial: any VM semantics equivariant under the offset map runs the converted function to the same outcome (full statement C11_full visible; equivariance of the real VM model not yet discharged).",
  "note": "Partial: the behavioural conclusion is proved against an abstract machine (Spec/Reloc.lean) under the stated Equivariant / hpos hypotheses; on the implementation it is tested by the `v1` stream's oracle (original vs decoded-from-v1 program: outcome and stack-trace positions on generated programs). Trusted: Lean kernel; goextract opcode-table generator (fail-closed); hand model Model/V1.lean tied by stream `v1`; harness down-converter. Two fix commits in ugo: relocation (the C11 defect) and error instead of panic on unknown opcode / truncated instruction.",
 },
}
