HOOK_COMMITS = ["53d6013"]
NOT_APPLICABLE = {}
TEXTS = {
 "C15": {
  "technique": "Lean 4 theorems over operator cells regenerated from numeric.go/objects.go by a Go-to-Lean translator; hand model of array/map recursion tied by exhaustive pool^2 x operators correspondence",
  "level": "Machine-checked proof: equal_comm (symmetry of == on all nested well-formed values), neq_not_eq, binop_no_panic (no operator application reaches a Go panic), trichotomy, le_iff_lt_or_eq, lt_flip are Lean theorems quantified over all values and all float arithmetic instances, stated about definitions that goextract regenerates from the Go source on every run; a source edit changes the Lean term and the proof is re-checked.",
  "note": "Trusted: Lean kernel; goextract translator (fail-closed subset); hand model Model/Ops.lean for Array/Map recursion and left-operand dispatch, tied by the `ops` stream (pool^2 x 15 operators exhaustive + random nested values, model vs Object.BinaryOp/Equal and vs the VM); float arithmetic abstract (FloatOps), IEEE comparison defined on bit patterns. SyncMap/RuntimeError/user types outside the modelled value set.",
 },
 "C09": {
  "technique": "Lean 4 inductive-invariant proof over an interleaving model of Run/Abort/Invoker/vmPool/Eval.run at sync-point granularity; synchronisation-operation lists regenerated from vm.go/eval.go/cmd/ugo/main.go and compared with the model's step order (shape facts); exhaustive forcing of the product of sync points on the real code through the verifSync hook",
  "level": "Machine-checked proof of the part that is true (C09_partial / abort_after_reset_not_lost: an Abort whose stores land outside the reset windows and after which no child is registered is honoured within one further instruction in every interleaving of any length; abort_idempotent; reset_allows_rerun) and machine-checked refutation of the full statement (C09_full_false, plus witnesses lost_at_invoke_window, lost_at_late_acquire, lost_at_eval_start); the lost aborts are reproduced deterministically on the real code on every run (open findings).",
  "note": "PARTIAL: C09_full is false of the code (open findings C09:abort-before-reset@Run-entry, @Invoke, @Eval-run and C09:abort-before-acquire@Invoke); the repair (epoch / different reset point) is a design decision because optimizer.go relies on Abort-then-Run on an idle VM. Trusted: Lean kernel; hand model Model/Conc.lean tied by shape facts over regenerated Gen/AbortOps.lean and by stream `sched`; sequential consistency of Go atomics/mutexes, scheduler fairness; nesting depth 1, one runner and one aborter; callbacks that neither call back nor poll Aborted() are outside the claim.",
 },
}
