HOOK_COMMITS = []
NOT_APPLICABLE = {}
TEXTS = {
 "C15": {
  "technique": "Lean 4 theorems over operator cells regenerated from numeric.go/objects.go by a Go-to-Lean translator; hand model of array/map recursion tied by exhaustive pool^2 x operators correspondence",
  "level": "Machine-checked proof: equal_comm (symmetry of == on all nested well-formed values), neq_not_eq, binop_no_panic (no operator application reaches a Go panic), trichotomy, le_iff_lt_or_eq, lt_flip are Lean theorems quantified over all values and all float arithmetic instances, stated about definitions that goextract regenerates from the Go source on every run; a source edit changes the Lean term and the proof is re-checked.",
  "note": "Trusted: Lean kernel; goextract translator (fail-closed subset); hand model Model/Ops.lean for Array/Map recursion and left-operand dispatch, tied by the `ops` stream (pool^2 x 15 operators exhaustive + random nested values, model vs Object.BinaryOp/Equal and vs the VM); float arithmetic abstract (FloatOps), IEEE comparison defined on bit patterns. SyncMap/RuntimeError/user types outside the modelled value set.",
 },
 "C17": {
  "technique": "Lean 4 theorems over a hand model of stdlib/json (encoder with escape tables regenerated from tables.go, scanner automaton, Compact, Indent) against an RFC 8259 recogniser; two-oracle differential stream: model vs implementation and implementation vs encoding/json on generated values and documents",
  "level": "Machine-checked proof (partial): escape_valid (every escaped byte string, incl. invalid UTF-8 and both HTML settings, is one JSON string token), marshal_valid_partial / marshal_valid_rawfree (Marshal output is a JSON text for every value, nesting and option wrapper; side conditions: not a bare top-level error value, raw messages compact to a value), marshal_unsupported_is_error (a value holding an object without encoder never gets a document), valid_no_panic / indent_no_panic (the scanner automaton never reaches its index/slice panic sites). The scanner (Valid), Compact, Indent and Unmarshal halves are tied by differential testing against the model, the RFC recogniser and encoding/json, not proved.",
  "note": "Partial. Trusted: Lean kernel; Spec/Json recogniser (checked against encoding/json.Valid by the stream); hand models tied by stream `json`; jsontables generator; strconv.AppendFloat abstract under hypothesis JsonLib.OK (checked by the driver). Open finding: Marshal of a bare error value returns the empty document (pinned by module_test.go), refuted full statement marshal_full_false. Not proved: scanner_sound/complete, compact/indent validity, round trip (decoder not modelled).",
 },
}
