HOOK_COMMITS = []
NOT_APPLICABLE = {}
TEXTS = {
 "C15": {
  "technique": "Lean 4 theorems over operator cells regenerated from numeric.go/objects.go by a Go-to-Lean translator; hand model of array/map recursion tied by exhaustive pool^2 x operators correspondence",
  "level": "Machine-checked proof: equal_comm (symmetry of == on all nested well-formed values), neq_not_eq, binop_no_panic (no operator application reaches a Go panic), trichotomy, le_iff_lt_or_eq, lt_flip are Lean theorems quantified over all values and all float arithmetic instances, stated about definitions that goextract regenerates from the Go source on every run; a source edit changes the Lean term and the proof is re-checked.",
  "note": "Trusted: Lean kernel; goextract translator (fail-closed subset); hand model Model/Ops.lean for Array/Map recursion and left-operand dispatch, tied by the `ops` stream (pool^2 x 15 operators exhaustive + random nested values, model vs Object.BinaryOp/Equal and vs the VM); float arithmetic abstract (FloatOps), IEEE comparison defined on bit patterns. SyncMap/RuntimeError/user types outside the modelled value set.",
 },
 "C12": {
  "technique": "Lean 4 theorems over a hand model of the compiler's module store (cycle/unknown rejection, one triple per name) and over the VM model's module cache (frame lemmas for all 44 opcodes proved by a small tactic, ghost-counter invariant over arbitrary executions, freshness of Copy()); both models tied to the code by the `modules` correspondence stream (lock-step VM runs, NumModules/error prediction) whose generator carries an independent one-instance-per-module reference semantics as oracle",
  "level": "Machine-checked proof, partial: store_functional, cycle_rejected, unknown_rejected, copy_fresh, only_storemodule_writes_cache, storemodule_writes_one, prologue_grows_cache, cache_nil_until_stored are proved for all module maps / states / executions; the full statement 'a body is started at most once' (def C12_full) is false of the code and recorded as two open findings.",
  "note": "Open findings (judged against the property text, both reproduce on the real VM every run): C12:body-rerun-after-throw (a body that throws leaves the cache entry nil; the next import runs it again) and C12:body-reentered-via-global (a body reaches an import of its own module through a global function: re-entered, or StackOverflowError at run time). Trusted: Lean kernel; hand models tied by lock-step stream; ExtImporter outside the model.",
 },
 "C14": {
  "technique": "Lean 4 model of Invoker/_acquire/_release/vmSyncPool over the VM model; theorems pool_fresh, acquire_fields and a decide-checked completeness fact over field lists regenerated from vm.go by goextract (VM struct fields, _acquire and Run-prologue assignments, reads of Run's call graph, _release literal); `invoke` correspondence stream: in-script call vs Go-side Invoker call (pooled/unpooled/reused/nested) as oracle and in lock-step with the model",
  "level": "Machine-checked proof, partial: acquire_complete (every field Run reads is initialised for a child), release_zeroes, pool_fresh, pool_acquire_eq_new, acquire_fields are proved; initLocals_eq_callbind and the simulation frame_shift (def C14_full) are stated, not proved, and covered by lock-step comparison only.",
  "note": "Trusted: Lean kernel; goextract vmfields extraction; VM/Invoke.lean tied by the `invoke` stream (250 generated scripts x 2 variants per seed: closures, variadic, recursive, nested, throwing, panicking, importing functions; accepted arities only). Error messages of recovered Go panics contain Go stack text and are never compared.",
 },
}
