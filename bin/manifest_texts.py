HOOK_COMMITS = []
NOT_APPLICABLE = {}
TEXTS = {
 "C15": {
  "technique": "Lean 4 theorems over operator cells regenerated from numeric.go/objects.go by a Go-to-Lean translator; hand model of array/map recursion tied by exhaustive pool^2 x operators correspondence",
  "level": "Machine-checked proof: equal_comm (symmetry of == on all nested well-formed values), neq_not_eq, binop_no_panic (no operator application reaches a Go panic), trichotomy, le_iff_lt_or_eq, lt_flip are Lean theorems quantified over all values and all float arithmetic instances, stated about definitions that goextract regenerates from the Go source on every run; a source edit changes the Lean term and the proof is re-checked.",
  "note": "Trusted: Lean kernel; goextract translator (fail-closed subset); hand model Model/Ops.lean for Array/Map recursion and left-operand dispatch, tied by the `ops` stream (pool^2 x 15 operators exhaustive + random nested values, model vs Object.BinaryOp/Equal and vs the VM); float arithmetic abstract (FloatOps), IEEE comparison defined on bit patterns. SyncMap/RuntimeError/user types outside the modelled value set.",
 },
 "C06": {
  "technique": "Lean 4 theorems (Hoare triples, mvcgen, opcode by opcode) over a hand-written statement-order model of vm.go in a state+exception monad whose panic exits keep the partial state; model tied to the real VM by two lock-step correspondence streams (trace hook per instruction) and a recover()-oracle on scripts built to fail",
  "level": "Machine-checked proof over the VM model, for ALL states satisfying the invariant, ARBITRARY bytecode, all fuel/globals/arguments: step_VInv (every opcode, every panic site preserves the recovery-path invariant VInv: handler frames have functions, handler sp >= 0, array sizes), loop_VInv, throw_fuel_adequate, recovery_total (handlePanic/throw/handleThrownError raise nothing from a VInv state), delivered_or_returned, Run_no_panic (with SetRecover(true) Run never ends in goPanic), reusable (the state after Run satisfies VInv again). Full statements, no partial theorems.",
  "note": "Trusted: Lean kernel; the hand model (lean/UgoVerif/VM) and its tie: streams `vmtrace` (random programs) and `vmfail` (scripts built to fail: zero division, negative shifts, bad indexes/slices, non-callables, wrong argument counts, frame-limit and value-stack exhaustion at the exact boundaries, failures inside catch/finally/callees, panicking Go callbacks) compare outcome, instruction count, trace hash and globals in lock-step, plus the oracle: no panic escapes Run under recover(), the same VM re-runs identically and then runs a known script correctly. Host callbacks/most builtins are outside the model (oracle only); Go fatal errors are outside Run.",
 },
}
