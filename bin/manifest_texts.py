HOOK_COMMITS = []
NOT_APPLICABLE = {}
TEXTS = {
 "C15": {
  "technique": "Lean 4 theorems over operator cells regenerated from numeric.go/objects.go by a Go-to-Lean translator; hand model of array/map recursion tied by exhaustive pool^2 x operators correspondence",
  "level": "Machine-checked proof: equal_comm (symmetry of == on all nested well-formed values), neq_not_eq, binop_no_panic (no operator application reaches a Go panic), trichotomy, le_iff_lt_or_eq, lt_flip are Lean theorems quantified over all values and all float arithmetic instances, stated about definitions that goextract regenerates from the Go source on every run; a source edit changes the Lean term and the proof is re-checked.",
  "note": "Trusted: Lean kernel; goextract translator (fail-closed subset); hand model Model/Ops.lean for Array/Map recursion and left-operand dispatch, tied by the `ops` stream (pool^2 x 15 operators exhaustive + random nested values, model vs Object.BinaryOp/Equal and vs the VM); float arithmetic abstract (FloatOps), IEEE comparison defined on bit patterns. SyncMap/RuntimeError/user types outside the modelled value set.",
 },
}
