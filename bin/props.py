"""Per-property configuration of bin/check."""

COMMON_TRUSTED = [
    "Lean 4.33.0 kernel (thorough tier: re-checked with leanchecker)",
    "axioms allowed per theorem: propext, Classical.choice, Quot.sound (audited by #audit_ns on every run); no native_decide, no bv_decide, no sorry, no axioms of our own",
    "goextract (harness/xlate + harness/cmd/goextract): Go-to-Lean translator for the operator/fold/conversion tables, fails closed",
    "corr harness (harness/cmd/corr) and Lean driver codec (lean/Driver): correspondence and canonicalisation",
]

PROPS = {
    "C13": {
        "lean": ["UgoVerif.Props.C13"],
        "gen": ["SymFacts.lean"],
        "streams": ["symops", "disable"],
        "required_theorems": ["resolve_disabled", "resolve_disabled_undeclared", "fork_keeps_disabled",
                              "module_table_keeps_disabled", "evaluator_table_disabled", "shadow_then_resolve",
                              "shadow_then_resolve_nested", "eval_fragments_persist", "no_getbuiltin_partial",
                              "fact_resolve_guard", "fact_compileModule_copies", "fact_evaluator_copies",
                              "fact_getbuiltin_sites", "fact_builtin_scope_sites", "fact_newSymbolTable_sites",
                              "fact_disable_evicts", "fact_builtins_distinct"],
        "trusted": [
            "hand model Model/Sym.lean (symbol_table.go statement by statement on a heap of tables; module-table lines of compileModule; first lines of optimizerEval.resetCompiler) tied by stream `symops` through the verif hooks of symbol_table_verif.go",
            "goextract symfacts.go: prints Go statements/conditions with go/printer; the decide facts compare them with the expected text",
            "stream `disable`: the property's own oracle on the implementation (compile errors, GETBUILTIN scan of every CompiledFunction, instrumented BuiltinObjects at compile and run time)",
        ],
        "assumptions": [
            "no_getbuiltin is proved as a reduction (no_getbuiltin_partial): the compiler is abstracted as a trace of symbol-table calls on its own family of tables plus compileIdent/destructuring emissions (CompilerDiscipline); the compile* functions themselves are not modelled",
            "*Symbol pointers are modelled by value (mutation of Assigned/Constant/Index through a pointer is outside the model); Go int is Int",
            "a reused evaluator table is represented by a fresh one in the compiler trace (justified by evaluator_table_disabled, which covers both)",
            "Bytecode produced by other means than the compiler (hand-made or decoded Bytecode) is out of scope",
        ],
        "partial": [
            {"theorem": "no_getbuiltin_partial", "full_statement": "C13_full",
             "missing": "a Lean model of compile* establishing CompilerDiscipline (that every GETBUILTIN of the Bytecode comes from compileIdent's BUILTIN case or from destructuring, and that the compiler only uses tables of its family); pinned by the regenerated facts fact_getbuiltin_sites, fact_newSymbolTable_sites, fact_builtin_scope_sites and tested by stream `disable`"},
        ],
    },
    "C15": {
        "lean": ["UgoVerif.Props.C15"],
        "gen": ["Numeric.lean", "NumericSimp.lean"],
        "streams": ["ops"],
        "required_theorems": ["equal_comm", "neq_not_eq", "binop_no_panic", "trichotomy",
                              "le_iff_lt_or_eq", "lt_flip"],
        "trusted": [
            "hand model Model/Ops.lean (Array/Map Equal and BinaryOp recursion, dispatch on the left operand) tied by stream `ops`",
            "FloatOps: float + - * / and int->float conversions are parameters; theorems hold for every instance",
        ],
        "assumptions": [
            "IEEE-754 comparison is the bit-pattern definition Go.feq/flt/fle (validated against Go on the boundary pool by stream `ops`)",
            "user-defined Object implementations, *SyncMap and *RuntimeError are outside the modelled value set",
            "trichotomy assumes int/uint->float conversions never produce NaN (FloatOps.ConvNoNaN)",
        ],
    },
    "C17": {
        "lean": ["UgoVerif.Props.C17"],
        "gen": ["JsonTables.lean"],
        "streams": ["json"],
        "required_theorems": ["escape_valid", "escape_valid_doc", "marshal_valid_partial", "marshal_valid_rawfree",
                              "encode_valid", "marshal_unsupported_is_error", "marshal_toplevel_error_empty",
                              "marshal_full_false", "C17_full_false", "valid_no_panic", "indent_no_panic"],
        "trusted": [
            "Spec/Json.lean: RFC 8259 recogniser isJson (fuel = length + 1); compared with encoding/json.Valid on every byte string of stream `json`",
            "hand models Model/JsonEnc.lean (Marshal), Model/JsonScan.lean (scanner, Valid, Compact, Indent), Go/Utf8.lean (utf8.DecodeRune), tied by stream `json`",
            "JsonLib: strconv.AppendFloat is a parameter; hypothesis JsonLib.OK (text written for a finite float is a JSON number token made of bytes that need no escaping) is checked by the driver on every float of the stream",
            "strconv.AppendInt/AppendUint and base64.StdEncoding are modelled concretely (fmtInt, fmtNat, base64) and tied by the stream",
        ],
        "assumptions": [
            "JsonLib.OK (strconv.AppendFloat 'f'/'e' output, after the e-0N clean-up, is a JSON number token)",
            "values are finite trees: cycle detection (ptrLevel/ptrSeen) is outside the model",
            "raw messages (bytes returned by a Marshaler) are covered by marshal_valid_partial only under CompactWritesValue; TextMarshaler objects and stdlib/time values are outside the modelled value set",
            "agreement with encoding/json (same bytes, same accepted documents, Compact/Indent/Unmarshal results) is established by differential sampling, not by proof; the decoder (decode.go) is not modelled",
        ],
        "partial": [
            "marshal_valid_partial: hypotheses isTopErr v = false (open finding C17:marshal-empty:toplevel-error-value, refutation marshal_full_false) and rawsOK CompactWritesValue v (compact validity not proved)",
            "C17_full: scanner_sound/scanner_complete, compact/indent validity and the Unmarshal round trip are stated/tested, not proved; of the scanner only valid_no_panic / indent_no_panic are proved (compact's slice bounds are not)",
    "C20": {
        "lean": ["UgoVerif.Props.C20"],
        "gen": ["Conv.lean", "ConvReg.lean"],
        "streams": ["conv"],
        "required_theorems": ["toObject_toInterface", "toObjectAlt_toInterface", "toInterface_toObject",
                              "toInterface_toObjectAlt", "width_value", "width_value_toObject",
                              "width_unsupported_toObject", "width_value_float", "unsupported_is_error",
                              "registry_nil_safe", "conv_no_panic", "toInterface_total", "sim_scalar"],
        "trusted": [
            "goextract conv.go: scalar cases of ToObject/ToObjectAlt/ToInterface translated expression by expression; the element loops, the SyncMap case and the registry fall-back are recognised by exact comparison of the printed case body with a template (anything else fails closed)",
            "hand model Model/ConvReg.lean of package registry and the converters registered by stdlib/time, stdlib/json, stdlib/fmt (which types are registered and whether a converter dereferences its pointer unguarded is the regenerated table Gen/ConvReg.lean), tied by stream `conv`",
            "ConvOps.f32to64: float64(float32) is a parameter; theorems hold for every instance",
        ],
        "assumptions": [
            "int, uint and uintptr are 64 bits wide (64-bit targets)",
            "float64(float32) is exact (Go specification, Conversions between numeric types); float width_value is stated relative to it",
            "Error() of a non-nil error value returns (a panic inside a user-supplied Error method is the caller's); an error holding a nil pointer is modelled as the worst case (its Error method dereferences the receiver)",
            "Go maps are association lists with unique keys; which of several failing entries of one map[string]any is reported first depends on Go's map iteration order and is excluded by the generator",
            "user-defined Object implementations are opaque (`Obj.other`): the conversions return them unchanged and never call their methods",
            "ToObjectAlt is documented to turn every signed integer into Int: its round-trip theorems exclude rune/char (toObjectAlt_char shows the value is kept)",
        ],
    },
}
