"""Per-property configuration of bin/check."""

COMMON_TRUSTED = [
    "Lean 4.33.0 kernel (thorough tier: re-checked with leanchecker)",
    "axioms allowed per theorem: propext, Classical.choice, Quot.sound (audited by #audit_ns on every run); no native_decide, no bv_decide, no sorry, no axioms of our own",
    "goextract (harness/xlate + harness/cmd/goextract): Go-to-Lean translator for the operator/fold/conversion tables, fails closed",
    "corr harness (harness/cmd/corr) and Lean driver codec (lean/Driver): correspondence and canonicalisation",
]

PROPS = {
    "C15": {
        "lean": ["UgoVerif.Props.C15"],
        "gen": ["Numeric.lean", "NumericSimp.lean"],
        "streams": ["ops"],
        "required_theorems": ["equal_comm", "neq_not_eq", "binop_no_panic", "trichotomy",
                              "le_iff_lt_or_eq", "lt_flip"],
        "trusted": [
            "hand model Model/Ops.lean (Array/Map Equal and BinaryOp recursion, dispatch on the left operand) tied by stream `ops`",
            "FloatOps: float + - * / and int->float conversions are parameters; theorems hold for every instance",
        ],
        "assumptions": [
            "IEEE-754 comparison is the bit-pattern definition Go.feq/flt/fle (validated against Go on the boundary pool by stream `ops`)",
            "user-defined Object implementations, *SyncMap and *RuntimeError are outside the modelled value set",
            "trichotomy assumes int/uint->float conversions never produce NaN (FloatOps.ConvNoNaN)",
        ],
    },
    "C12": {
        "lean": ["UgoVerif.Props.C12"],
        "gen": [],
        "streams": ["modules"],
        "required_theorems": ["store_functional", "store_stable", "cycle_rejected", "cycle_rejected_at", "reachable_compiled",
                              "unknown_rejected", "unknown_rejected_at", "copy_fresh", "only_storemodule_writes_cache",
                              "step_keeps_cache", "storemodule_writes_one", "prologue_grows_cache",
                              "cache_nil_until_stored", "ghost_is_step", "C12_partial"],
        "partial": [
            "C12_partial (of def C12_full: every module is missed - its load/body started - at most once per run): proved is that the only writer of the module cache is STOREMODULE, that a non-nil entry has an executed STOREMODULE behind it (a hit needs an earlier store and yields the stored object) and that counters only grow; NOT proved, and false of the code, is 'at most one start': open findings C12:body-rerun-after-throw and C12:body-reentered-via-global",
            "the link 'a body is entered only by the CALL that follows a LOADMODULE miss' rests on the shape LOADMODULE;JUMPFALSY;[NULL..];CALL;STOREMODULE emitted by compileImportExpr, which is checked by the lock-step stream, not proved from a compiler model",
        ],
        "trusted": [
            "hand model Model/ModStore.lean (moduleStore, checkCyclicImports, store part of compileImportExpr) tied by request `ms` of stream `modules` (NumModules / error class and named module for every generated graph)",
            "hand VM model VM/{Types,Base,Copy,Step,Run}.lean tied by the lock-step `vm` requests of stream `modules` (outcome, instruction count, H1 trace hash, final globals)",
        ],
        "assumptions": [
            "a source module is abstracted to the list of its import expressions in compile order; ExtImporter (file importers) is outside the model",
            "Copy() of values outside the modelled kinds (SyncMap, embedder objects that are not Copiers) is outside the claim; captured-variable boxes of closures are shared by Copy() on purpose",
            "Go slice capacity / map iteration order are not modelled (DESIGN section 3)",
        ],
    },
    "C14": {
        "lean": ["UgoVerif.Props.C14"],
        "gen": ["VmFields.lean"],
        "streams": ["invoke"],
        "required_theorems": ["acquire_complete", "reads_are_fields", "release_zeroes", "pool_fresh", "pool_acquire_eq_new",
                              "pool_release_inv", "acquire_fields"],
        "partial": [
            "C14_full (def): for every function, accepted argument list, pool history and caller state, Invoke through a child VM returns the value/error and leaves the heap, globals and module cache that the in-script call leaves (frame_shift). Proved: acquire_complete (regenerated field lists), pool_fresh / pool_acquire_eq_new (a pooled child equals a new one whatever it did before), acquire_fields; NOT proved: initLocals_eq_callbind (stated over the two binding specifications initLocalsSpec / callbindSpec, checked on instances by evaluation), that the monadic initLocals / callCompiled compute these specifications, and the simulation between the child's frame 0 and the parent's frame k (frame_shift) - both are exercised by the lock-step `inv` requests only",
        ],
        "trusted": [
            "hand model VM/Invoke.lean (Invoker, _acquire, _release, vmSyncPool, shared module-cache slice header) tied by the lock-step `inv` requests of stream `invoke`",
            "goextract vmfields.go: field lists of struct VM, assignments of _acquire / Run prologue, reads of Run's call graph, literals of _release / child creation",
        ],
        "assumptions": [
            "zeroOk fields (stack, frames, mu): contents above sp / frameIndex are dead (C07 step_live); a zero mutex is unlocked",
            "Go-side calls with too few or too many arguments are lenient and not compared (property text)",
            "non-compiled callees run Go code (Invoker.invokeObject) and are outside the model",
            "a module cache shorter than NumModules but not empty (root that ran an older, smaller Bytecode) depends on slice capacity: answered `unsupported` by the model",
        ],
    },
}
