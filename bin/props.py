"""Per-property configuration of bin/check."""

COMMON_TRUSTED = [
    "Lean 4.33.0 kernel (thorough tier: re-checked with leanchecker)",
    "axioms allowed per theorem: propext, Classical.choice, Quot.sound (audited by #audit_ns on every run); no native_decide, no bv_decide, no sorry, no axioms of our own",
    "goextract (harness/xlate + harness/cmd/goextract): Go-to-Lean translator for the operator/fold/conversion tables, fails closed",
    "corr harness (harness/cmd/corr) and Lean driver codec (lean/Driver): correspondence and canonicalisation",
]

PROPS = {
    "C15": {
        "lean": ["UgoVerif.Props.C15"],
        "gen": ["Numeric.lean", "NumericSimp.lean"],
        "streams": ["ops"],
        "required_theorems": ["equal_comm", "neq_not_eq", "binop_no_panic", "trichotomy",
                              "le_iff_lt_or_eq", "lt_flip"],
        "trusted": [
            "hand model Model/Ops.lean (Array/Map Equal and BinaryOp recursion, dispatch on the left operand) tied by stream `ops`",
            "FloatOps: float + - * / and int->float conversions are parameters; theorems hold for every instance",
        ],
        "assumptions": [
            "IEEE-754 comparison is the bit-pattern definition Go.feq/flt/fle (validated against Go on the boundary pool by stream `ops`)",
            "user-defined Object implementations, *SyncMap and *RuntimeError are outside the modelled value set",
            "trichotomy assumes int/uint->float conversions never produce NaN (FloatOps.ConvNoNaN)",
        ],
    },
    "C09": {
        "lean": ["UgoVerif.Props.C09"],
        "gen": ["AbortOps.lean"],
        "streams": ["sched"],
        "required_theorems": ["abort_after_reset_not_lost", "abort_exits_root_loop", "abort_exits_child_loop",
                              "invoke_after_abort_returns", "C09_partial", "abort_idempotent", "reset_allows_rerun",
                              "C09_full_false", "lost_at_invoke_window", "lost_at_late_acquire", "lost_at_eval_start",
                              "eval_covered", "shape_VM_Run", "shape_VM_Abort", "shape_VM_loop", "shape_Invoker_Invoke",
                              "shape_vmPool_abort", "shape_vmPool__acquire", "shape_vmPool__release", "shape_Eval_run",
                              "shape_executeScript"],
        "partial": ["C09_partial", "abort_after_reset_not_lost"],
        "trusted": [
            "hand model Model/Conc.lean (interleaving semantics at sync-point granularity) tied to the source by the shape_* facts over the regenerated Gen/AbortOps.lean and by stream `sched` (every schedule forced on the real code through hook H2)",
            "harness scheduler (harness/cmd/corr/sched.go): parks goroutines at verifSync points; goroutine identity via runtime.Stack",
        ],
        "assumptions": [
            "Go atomics and mutexes are sequentially consistent; scheduler fairness, timers and goroutine start-up belong to the Go runtime",
            "between two consecutive sync points a thread performs at most one access to a shared variable besides lock/unlock, so interleavings at sync-point granularity cover the finer ones",
            "scripts and callbacks are abstracted to linear instruction / Invoker-operation streams (every execution of a branching program is an execution of the stream along its path); child VMs do not start callbacks of their own (nesting depth 1); one runner goroutine and one aborting goroutine",
            "a Go callback that never calls back into the VM and never checks Aborted() is outside the claim (time.sleep polls Aborted() every 10 ms)",
        ],
    },
}
