"""Per-property configuration of bin/check."""

COMMON_TRUSTED = [
    "Lean 4.33.0 kernel (thorough tier: re-checked with leanchecker)",
    "axioms allowed per theorem: propext, Classical.choice, Quot.sound (audited by #audit_ns on every run); no native_decide, no bv_decide, no sorry, no axioms of our own",
    "goextract (harness/xlate + harness/cmd/goextract): Go-to-Lean translator for the operator/fold/conversion tables, fails closed",
    "corr harness (harness/cmd/corr) and Lean driver codec (lean/Driver): correspondence and canonicalisation",
]

PROPS = {
    "C15": {
        "lean": ["UgoVerif.Props.C15"],
        "gen": ["Numeric.lean", "NumericSimp.lean"],
        "streams": ["ops"],
        "required_theorems": ["equal_comm", "neq_not_eq", "binop_no_panic", "trichotomy",
                              "le_iff_lt_or_eq", "lt_flip"],
        "trusted": [
            "hand model Model/Ops.lean (Array/Map Equal and BinaryOp recursion, dispatch on the left operand) tied by stream `ops`",
            "FloatOps: float + - * / and int->float conversions are parameters; theorems hold for every instance",
        ],
        "assumptions": [
            "IEEE-754 comparison is the bit-pattern definition Go.feq/flt/fle (validated against Go on the boundary pool by stream `ops`)",
            "user-defined Object implementations, *SyncMap and *RuntimeError are outside the modelled value set",
            "trichotomy assumes int/uint->float conversions never produce NaN (FloatOps.ConvNoNaN)",
        ],
    },
    "C16": {
        "lean": ["UgoVerif.Props.C16"],
        "gen": [],
        "streams": ["pos"],
        "required_theorems": ["position_spec", "lineStart_spec", "position_in_file", "file_unique",
                              "newFileSet_wf", "addFile_wf", "lines_spec", "shift_lines", "shift_table",
                              "sourcepos_nearest", "addTrace_spec", "trace_shape", "C16_partial"],
        "partial": [
            "C16_partial: C16_full Reach holds given `SavedIpInCallStmt` for every reachable throw site "
            "(current ip maps to the failing statement; saved ip+1 of each active frame maps into its call "
            "statement; no handler below) - this VM/compiler fact needs Model/VM + Model/Compile and is only "
            "tested (stream `pos` oracle); `def C16_full` stays visible in Props/C16.lean",
            "optimizer_keeps_pos and encoder-preserves-FileSet/SourceMap are not Lean theorems here: tested by the "
            "oracle (optimizer on/off, encode/decode round trip) and owned by C01/C04",
        ],
        "trusted": [
            "hand models Model/SourceFile.lean (AddFile, AddLine, searchInts, sort.Search, Position, File incl. the "
            "LastFile cache, LineStart, Offset, SourcePos, scanner line table) and Model/Trace.lean (addTrace, "
            "StackTrace, trace part of throw) tied by stream `pos`",
            "verif hook verif_pos.go (RuntimeError.VerifAddTrace / VerifSetFileSet)",
        ],
        "assumptions": [
            "AST positions (node.Pos()) come from the unmodelled scanner/parser; only the scanner's AddLine call "
            "sequence is modelled (scanLines) and compared with the real scanner on random texts",
            "the trace part of vm.throw (Model/Trace.throwTrace) is tied only through whole-program runs "
            "(oracle + StackTrace of real traces), not lock-step",
            "Go int is 64 bit; nil entries in SourceFileSet.Files and the unsynchronised LastFile write (C08) are not modelled",
        ],
    },
}
