"""Per-property configuration of bin/check."""

COMMON_TRUSTED = [
    "Lean 4.33.0 kernel (thorough tier: re-checked with leanchecker)",
    "axioms allowed per theorem: propext, Classical.choice, Quot.sound (audited by #audit_ns on every run); no native_decide, no bv_decide, no sorry, no axioms of our own",
    "goextract (harness/xlate + harness/cmd/goextract): Go-to-Lean translator for the operator/fold/conversion tables, fails closed",
    "corr harness (harness/cmd/corr) and Lean driver codec (lean/Driver): correspondence and canonicalisation",
]

PROPS = {
    "C15": {
        "lean": ["UgoVerif.Props.C15"],
        "gen": ["Numeric.lean", "NumericSimp.lean"],
        "streams": ["ops"],
        "required_theorems": ["equal_comm", "neq_not_eq", "binop_no_panic", "trichotomy",
                              "le_iff_lt_or_eq", "lt_flip"],
        "trusted": [
            "hand model Model/Ops.lean (Array/Map Equal and BinaryOp recursion, dispatch on the left operand) tied by stream `ops`",
            "FloatOps: float + - * / and int->float conversions are parameters; theorems hold for every instance",
        ],
        "assumptions": [
            "IEEE-754 comparison is the bit-pattern definition Go.feq/flt/fle (validated against Go on the boundary pool by stream `ops`)",
            "user-defined Object implementations, *SyncMap and *RuntimeError are outside the modelled value set",
            "trichotomy assumes int/uint->float conversions never produce NaN (FloatOps.ConvNoNaN)",
        ],
    },
}
