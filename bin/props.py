"""Per-property configuration of bin/check."""

COMMON_TRUSTED = [
    "Lean 4.33.0 kernel (thorough tier: re-checked with leanchecker)",
    "axioms allowed per theorem: propext, Classical.choice, Quot.sound (audited by #audit_ns on every run); no native_decide, no bv_decide, no sorry, no axioms of our own",
    "goextract (harness/xlate + harness/cmd/goextract): Go-to-Lean translator for the operator/fold/conversion tables, fails closed",
    "corr harness (harness/cmd/corr) and Lean driver codec (lean/Driver): correspondence and canonicalisation",
]

PROPS = {
    "C15": {
        "lean": ["UgoVerif.Props.C15"],
        "gen": ["Numeric.lean", "NumericSimp.lean"],
        "streams": ["ops"],
        "required_theorems": ["equal_comm", "neq_not_eq", "binop_no_panic", "trichotomy",
                              "le_iff_lt_or_eq", "lt_flip"],
        "trusted": [
            "hand model Model/Ops.lean (Array/Map Equal and BinaryOp recursion, dispatch on the left operand) tied by stream `ops`",
            "FloatOps: float + - * / and int->float conversions are parameters; theorems hold for every instance",
        ],
        "assumptions": [
            "IEEE-754 comparison is the bit-pattern definition Go.feq/flt/fle (validated against Go on the boundary pool by stream `ops`)",
            "user-defined Object implementations, *SyncMap and *RuntimeError are outside the modelled value set",
            "trichotomy assumes int/uint->float conversions never produce NaN (FloatOps.ConvNoNaN)",
        ],
    },
    "C11": {
        "lean": ["UgoVerif.Props.C11"],
        "gen": ["Opcodes.lean"],
        "streams": ["v1"],
        "required_theorems": ["decode_encode", "newOff_strict_mono", "conv_decodes", "conv_no_panic",
                              "conv_total", "widen_nonneg", "unchanged_same_layout", "reloc_sim", "C11_partial"],
        "trusted": [
            "hand model Model/V1.lean of encoder/v1.go convCompFuncV1ToV2 (three loops, byte level, panic sites explicit) and Model/Bytecode.lean of ReadOperands/MakeInstruction layout, tied by stream `v1` (converter output per function of generated programs and on malformed byte strings)",
            "independent down-converter v2->v1 of the harness (harness/cmd/corr/v1.go) with the frozen version-1 width table",
        ],
        "assumptions": [
            "behavioural conclusion (C11_full) is proved for every abstract machine that is Equivariant under the converter's offset map (Spec/Reloc.lean); Equivariant for the real VM awaits Model/VM",
            "C11_partial assumes the converted source map answers SourcePos queries like the original (true when every source-map key is an instruction offset)",
            "convBytecodeV1ToV2 = convFn on Main and on every *CompiledFunction constant; decodeBytecodeV2 itself belongs to C04/C18",
            "MakeInstruction arguments are modelled as naturals (ReadOperands yields non-negative ints on 64-bit platforms)",
        ],
        "partial": [
            {"theorem": "C11_partial", "full": "C11_full", "missing": "Machine.Equivariant for the real VM model; source-map lookup agreement hpos"},
        ],
    },
}
