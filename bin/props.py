"""Per-property configuration of bin/check: one JSON file per property in bin/props.d/
({"props": {...}, "texts": {...}}), so that parallel work does not conflict."""
import glob
import json
import os

COMMON_TRUSTED = [
    "Lean 4.33.0 kernel (thorough tier: re-checked with leanchecker)",
    "axioms allowed per theorem: propext, Classical.choice, Quot.sound (audited by #audit_ns on every run); no native_decide, no bv_decide, no sorry, no axioms of our own",
    "goextract (harness/xlate + harness/cmd/goextract): Go-to-Lean translator for the operator/fold/conversion tables, fails closed",
    "corr harness (harness/cmd/corr) and Lean driver codec (lean/Driver): correspondence and canonicalisation",
]

_D = os.path.join(os.path.dirname(os.path.abspath(__file__)), "props.d")
PROPS = {}
TEXTS = {}
for _f in sorted(glob.glob(os.path.join(_D, "*.json"))):
    _pid = os.path.basename(_f)[:-5]
    _j = json.load(open(_f))
    PROPS[_pid] = _j["props"]
    TEXTS[_pid] = _j["texts"]
