"""Per-property configuration of bin/check."""

COMMON_TRUSTED = [
    "Lean 4.33.0 kernel (thorough tier: re-checked with leanchecker)",
    "axioms allowed per theorem: propext, Classical.choice, Quot.sound (audited by #audit_ns on every run); no native_decide, no bv_decide, no sorry, no axioms of our own",
    "goextract (harness/xlate + harness/cmd/goextract): Go-to-Lean translator for the operator/fold/conversion tables, fails closed",
    "corr harness (harness/cmd/corr) and Lean driver codec (lean/Driver): correspondence and canonicalisation",
]

PROPS = {
    "C15": {
        "lean": ["UgoVerif.Props.C15"],
        "gen": ["Numeric.lean", "NumericSimp.lean"],
        "streams": ["ops"],
        "required_theorems": ["equal_comm", "neq_not_eq", "binop_no_panic", "trichotomy",
                              "le_iff_lt_or_eq", "lt_flip"],
        "trusted": [
            "hand model Model/Ops.lean (Array/Map Equal and BinaryOp recursion, dispatch on the left operand) tied by stream `ops`",
            "FloatOps: float + - * / and int->float conversions are parameters; theorems hold for every instance",
        ],
        "assumptions": [
            "IEEE-754 comparison is the bit-pattern definition Go.feq/flt/fle (validated against Go on the boundary pool by stream `ops`)",
            "user-defined Object implementations, *SyncMap and *RuntimeError are outside the modelled value set",
            "trichotomy assumes int/uint->float conversions never produce NaN (FloatOps.ConvNoNaN)",
        ],
    },
    "C07": {
        "lean": ["UgoVerif.Props.C07"],
        "gen": ["VmWrites.lean"],
        "streams": ["history"],
        "timeout": 3000,
        "required_theorems": ["prologue_live", "prologue_live_cleared", "bytecode_immutable", "step_keeps_bytecode",
                              "no_shared_store_outside_allowlist", "lifting_run",
                              "run_history_independent_cleared_partial", "run_history_independent_partial",
                              "rerun_same_partial"],
        "partial": [
            {"theorem": "run_history_independent_cleared_partial / run_history_independent_partial / rerun_same_partial",
             "missing_hypothesis": "StepLive F R and PanicLive R: one instruction (`step`, all 44 opcodes incl. their panic paths) and `handlePanic`/`throwF` preserve the liveness relation R (liveEqS after Clear, liveEq after SetBytecode alone). Proved: prologue_live for ANY residue state, the lifting through loopF / recovered-panic reruns / clearCurrentFrame / the epilogue for every fuel (lifting_run), clearCurrentFrame and abort preserve liveEq. C07_full is the statement without the two hypotheses."},
            {"theorem": "bytecode_immutable", "missing_hypothesis": "full for codes/consts/mainFn/numModules; that constant FUNCTION CELLS in the heap are never overwritten (heapSet targets are box/array/map/iterator cells) is not a theorem: execSetLocal/execSetFree write `heapSet a (.box v)` without re-checking the cell kind, which needs a heap-typing invariant. Covered structurally (VmWrites: no store to fn.Free/Instructions/SourceMap in vm.go) and dynamically (history stream: structural dump incl. identities + encoder image of every Bytecode before/after)."},
        ],
        "trusted": [
            "hand model VM/{Types,Base,Step,Run,Reset}.lean of vm.go tied by the lock-step `vmtrace` stream and by `history` (chained runs on one model state: outcome, instruction count, H1 trace hash, globals of EVERY run of the history + the model's own new-VM run)",
            "goextract vmwrites.go: syntactic store extraction (go/ast); stores through local aliases are only seen through the alias' own selector path",
        ],
        "assumptions": [
            "SetBytecode without Clear: bytecode that reads stack slots at or above sp (hand-made, never emitted by the compiler) sees the previous run's stack on the real VM and in the model; outside the claim (the cleared case holds for every bytecode)",
            "map iteration order excluded by the statement; the model runs for-in only over maps with <= 1 key",
            "the encoder oracle compares the decoded image of the encoder's bytes (raw bytes differ between two encodings of one Bytecode: source maps and Map constants are written in Go map iteration order)",
        ],
    },
    "C08": {
        "lean": ["UgoVerif.Props.C08"],
        "gen": ["VmWrites.lean"],
        "streams": ["concurrent"],
        "timeout": 3000,
        "required_theorems": ["no_shared_write", "shared_stays_shared", "steps_commute", "independent",
                              "race_free_partial", "C08_model", "stores_allowlisted", "fileset_lookups_pure"],
        "partial": [
            {"theorem": "race_free_partial / C08_model",
             "missing_hypothesis": "the shared region of the model is codes + consts + bytecode header; heap objects referenced by constants (builtin-module Map constants, function cells) live in each model VM's own heap, and OpStoreModule's Copy() of containers is outside the model (`unsupported`), so copy_fresh is not a theorem. Those parts rest on the regenerated store table (stores_allowlisted, fileset_lookups_pure), the builtin-module privacy probe and the race detector in stream `concurrent`."},
        ],
        "trusted": [
            "the Go memory model, sync.Pool, sync.Mutex and atomics (sequentially consistent)",
            "Go race detector (child process built with -race; if the race build is unavailable the evidence says so under race-build-unavailable)",
            "hand model VM/*.lean tied by `vmtrace`; solo runs of scripts inside the modelled subset are compared with the model in `concurrent`",
        ],
        "assumptions": [
            "non-Copier objects an embedder puts into a builtin module are outside the claim",
            "interleaving granularity of the model is one VM instruction; VMs have disjoint State values by construction, sharing is represented by equal codes/consts fields which no instruction assigns (C07 bytecode_immutable)",
        ],
    },
}
