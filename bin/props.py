"""Per-property configuration of bin/check."""

COMMON_TRUSTED = [
    "Lean 4.33.0 kernel (thorough tier: re-checked with leanchecker)",
    "axioms allowed per theorem: propext, Classical.choice, Quot.sound (audited by #audit_ns on every run); no native_decide, no bv_decide, no sorry, no axioms of our own",
    "goextract (harness/xlate + harness/cmd/goextract): Go-to-Lean translator for the operator/fold/conversion tables, fails closed",
    "corr harness (harness/cmd/corr) and Lean driver codec (lean/Driver): correspondence and canonicalisation",
]

PROPS = {
    "C04": {
        "lean": ["UgoVerif.Props.C04"],
        "gen": ["EncTags.lean", "EncBuiltins.lean"],
        "streams": ["enc"],
        "required_theorems": ["varint_roundtrip", "uvarint_roundtrip", "varintConv_roundtrip", "object_roundtrip",
                              "object_roundtrip_default_fuel", "object_roundtrip_exact", "negative_zero_roundtrip", "bytecode_roundtrip", "bytecode_roundtrip_default_fuel",
                              "positions_survive", "norm_only_representation", "normCF_spec", "norm_idem",
                              "decode_twice", "fix_rebinds", "tags_distinct", "field_numbers", "C04_partial"],
        "trusted": [
            "hand model Model/Enc.lean (varints, every tagged codec, CompiledFunction field elision, SourceFile(Set), header and field loop, fixObjects) tied by stream `enc`: implementation-encoded constants and bytecodes decoded by the model (structural comparison) and re-encoded by the model byte-identically",
            "gob (encoding/gob fallback for object types without a binary marshaler) is a parameter assumed to round-trip (Encodable C (.gob ..))",
            "varints are modelled arithmetically (x | b<<s on disjoint bits as x + b*2^s, zig-zag as 2x / -2x-1)",
        ],
        "assumptions": [
            "behavioural half: C04_full is stated over an abstract `run`; C04_partial proves it from the hypothesis that `run` does not observe what norm/fixObjects change (VM model not yet available); the `enc` stream checks original vs decoded vs re-decoded runs (value / error name+message / stack trace) on the implementation",
            "nil and empty slices/maps are identified in the model (except SyncMap.Value, Instructions, SourceMap, Constants, where the encoder itself distinguishes them)",
            "lengths fit Go's int (< 2^63); fuel: theorems hold for every fuel >= need o, and the default fuel 3|input|+16 is proved sufficient (object_roundtrip_default_fuel, bytecode_roundtrip_default_fuel)",
            "ugo.AttrModuleName (\"__module_name__\") is a hand-copied constant of the model (tied by the module cases of stream `enc`)",
        ],
        "partial": [
            {"theorem": "C04_partial", "full": "C04_full",
             "missing": "instantiation of `run` by the VM model and the proof that norm (Free dropped, non-positive counts -> 0) and fixObjects (module items re-bound to the live objects) are unobservable by it; compile-model lemma: constants never carry free variables"},
        ],
    },
    "C18": {
        "lean": ["UgoVerif.Props.C18"],
        "gen": ["EncTags.lean", "EncBuiltins.lean", "EncDispatch.lean"],
        "streams": ["dec"],
        "timeout": 3000,
        "thorough_seeds": 2,   # 3 seeds took 21 min on a loaded machine (limit 20)
        "required_theorems": ["decode_no_panic", "decodeObject_no_panic", "decode_no_panic_versions", "decode_alloc",
                              "decodeObject_alloc", "decode_alloc_partial", "C18_alloc_full_false", "dispatch_shape", "decode_never_out_of_fuel", "liftConv_total", "decode_no_panic_lifted"],
        "trusted": [
            "hand model Model/Enc.lean of the repaired decoder; every slice expression, `data[0]` in toVarint and (before the repair) every unchecked type assertion and make() is a panic branch; tied by stream `dec` (all truncations, sampled single/double-byte corruptions, arbitrary bytes: decoded object text / error / panic compared with the implementation)",
            "gob is a parameter assumed total, not un-reading input (GobRest) and allocation-bounded (GobAlloc)",
            "the version-1 instruction converter (encoder/v1.go, property C11) is the parameter `conv`, assumed not to panic (C11 conv_total)",
        ],
        "assumptions": [
            "allocation: decode_alloc bounds every single allocation by a*|bs|+b; the *sum* is not linear (each nesting level re-buffers its payload): C18_alloc_full (sum <= 64|bs|+64KiB) is refuted in Lean by a concrete witness (C18_alloc_full_false) and reported as known finding C18:alloc-nesting",
            "Go stack exhaustion on extreme nesting and the allocations of encoding/gob itself are outside the model",
        ],
        "partial": [
            {"theorem": "decode_alloc_partial", "full": "C18_alloc_full",
             "missing": "total (summed) allocation linear in the input: refuted (C18_alloc_full_false: arrays nested 2001 deep, <= 48033 bytes, allocate >= 10009002 bytes in the model), known finding C18:alloc-nesting"},
        ],
    },
    "C15": {
        "lean": ["UgoVerif.Props.C15"],
        "gen": ["Numeric.lean", "NumericSimp.lean"],
        "streams": ["ops"],
        "required_theorems": ["equal_comm", "neq_not_eq", "binop_no_panic", "trichotomy",
                              "le_iff_lt_or_eq", "lt_flip"],
        "trusted": [
            "hand model Model/Ops.lean (Array/Map Equal and BinaryOp recursion, dispatch on the left operand) tied by stream `ops`",
            "FloatOps: float + - * / and int->float conversions are parameters; theorems hold for every instance",
        ],
        "assumptions": [
            "IEEE-754 comparison is the bit-pattern definition Go.feq/flt/fle (validated against Go on the boundary pool by stream `ops`)",
            "user-defined Object implementations, *SyncMap and *RuntimeError are outside the modelled value set",
            "trichotomy assumes int/uint->float conversions never produce NaN (FloatOps.ConvNoNaN)",
        ],
    },
}
