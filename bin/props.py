"""Per-property configuration of bin/check."""

COMMON_TRUSTED = [
    "Lean 4.33.0 kernel (thorough tier: re-checked with leanchecker)",
    "axioms allowed per theorem: propext, Classical.choice, Quot.sound (audited by #audit_ns on every run); no native_decide, no bv_decide, no sorry, no axioms of our own",
    "goextract (harness/xlate + harness/cmd/goextract): Go-to-Lean translator for the operator/fold/conversion tables, fails closed",
    "corr harness (harness/cmd/corr) and Lean driver codec (lean/Driver): correspondence and canonicalisation",
]

PROPS = {
    "C15": {
        "lean": ["UgoVerif.Props.C15"],
        "gen": ["Numeric.lean", "NumericSimp.lean"],
        "streams": ["ops"],
        "required_theorems": ["equal_comm", "neq_not_eq", "binop_no_panic", "trichotomy",
                              "le_iff_lt_or_eq", "lt_flip"],
        "trusted": [
            "hand model Model/Ops.lean (Array/Map Equal and BinaryOp recursion, dispatch on the left operand) tied by stream `ops`",
            "FloatOps: float + - * / and int->float conversions are parameters; theorems hold for every instance",
        ],
        "assumptions": [
            "IEEE-754 comparison is the bit-pattern definition Go.feq/flt/fle (validated against Go on the boundary pool by stream `ops`)",
            "user-defined Object implementations, *SyncMap and *RuntimeError are outside the modelled value set",
            "trichotomy assumes int/uint->float conversions never produce NaN (FloatOps.ConvNoNaN)",
        ],
    },
    "C19": {
        "lean": ["UgoVerif.Props.C19"],
        "gen": ["Adapters.lean"],
        "streams": ["builtins"],
        "timeout": 3000,
        "required_theorems": ["adapters_table_safe", "adapters_safe", "dispatch_complete",
                              "makeArray_no_panic", "repeat_no_panic", "repeat_unguarded_refuted",
                              "stringsRepeat_no_panic", "pad_no_panic", "append_no_panic", "bytes_no_panic",
                              "sprintf_no_panic", "println_no_panic", "isError_no_panic", "globals_no_panic",
                              "errorNew_no_panic", "replace_no_panic", "split_no_panic", "toValidUTF8_no_panic",
                              "stringInvoke_no_panic", "fmtPrint_no_panic", "fmtPrintf_no_panic",
                              "unix_no_panic", "date_no_panic"],
        "trusted": [
            "hand models Model/Builtins.lean (Call.Get/shift, adapter template, :makeArray, repeat, append, bytes, sprintf/printf/println, isError, globals, error New, strings Repeat/Pad*/Replace/Split*/ToValidUTF8/*Func, fmt Print*/Printf, time Date/Unix) tied by stream `builtins`",
            "goextract adapters.go: reads the guard and the literal indices of every generated adapter and time method closure; fails closed on any other use of the argument list",
            "ugo.ToGoInt/ToGoInt64/ToGoString/ToBytes and Object.String()/TypeName() are parameters of the model (total type switches; ToGoInt uses strconv.ParseInt)",
        ],
        "assumptions": [
            "Go library callees (strings, bytes, fmt, time, strconv, sort, unicode/utf8, errors) are total on their documented domains; documented panics (strings.Repeat negative count / overflow, Builder.Grow negative, make out of range) are panic branches of the model",
            "hL: make / Builder.Grow / strings.Repeat do not *panic* for sizes up to 2^32 elements (Go's limit is maxAlloc = 2^48 bytes on 64-bit); running out of memory for a size the runtime accepts is a fatal error of the Go runtime, outside every model, and the oracle skips sizes between 2^22 and 2^47",
            "hS: existing strings are shorter than B with 2*B + 2^32 <= makeLimit (PadLeft/PadRight repeat the pad string at least twice)",
            "typed bodies behind adapters that only wrap a library call or a type switch (list wrapperTyped in Props/C19.lean) and the bodies newSscan/newSscanf/newScanArgFunc/parseFunc(Ex)/sleepFunc have no Lean model: they are covered by the exhaustive direct oracle only",
            "time.Sleep is not called with more than 20ms (sleeping is what the call means); ValueEx/CallEx/CallName routes are given a VM (a Call with a nil VM is documented as valid only for callees that do not need one)",
        ],
        "partial": [],
    },
}
