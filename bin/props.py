"""Per-property configuration of bin/check."""

COMMON_TRUSTED = [
    "Lean 4.33.0 kernel (thorough tier: re-checked with leanchecker)",
    "axioms allowed per theorem: propext, Classical.choice, Quot.sound (audited by #audit_ns on every run); no native_decide, no bv_decide, no sorry, no axioms of our own",
    "goextract (harness/xlate + harness/cmd/goextract): Go-to-Lean translator for the operator/fold/conversion tables, fails closed",
    "corr harness (harness/cmd/corr) and Lean driver codec (lean/Driver): correspondence and canonicalisation",
]

PROPS = {
    "C15": {
        "lean": ["UgoVerif.Props.C15"],
        "gen": ["Numeric.lean", "NumericSimp.lean"],
        "streams": ["ops"],
        "required_theorems": ["equal_comm", "neq_not_eq", "binop_no_panic", "trichotomy",
                              "le_iff_lt_or_eq", "lt_flip"],
        "trusted": [
            "hand model Model/Ops.lean (Array/Map Equal and BinaryOp recursion, dispatch on the left operand) tied by stream `ops`",
            "FloatOps: float + - * / and int->float conversions are parameters; theorems hold for every instance",
        ],
        "assumptions": [
            "IEEE-754 comparison is the bit-pattern definition Go.feq/flt/fle (validated against Go on the boundary pool by stream `ops`)",
            "user-defined Object implementations, *SyncMap and *RuntimeError are outside the modelled value set",
            "trichotomy assumes int/uint->float conversions never produce NaN (FloatOps.ConvNoNaN)",
        ],
    },
    "C20": {
        "lean": ["UgoVerif.Props.C20"],
        "gen": ["Conv.lean", "ConvReg.lean"],
        "streams": ["conv"],
        "required_theorems": ["toObject_toInterface", "toObjectAlt_toInterface", "toInterface_toObject",
                              "toInterface_toObjectAlt", "width_value", "width_value_toObject",
                              "width_unsupported_toObject", "width_value_float", "unsupported_is_error",
                              "registry_nil_safe", "conv_no_panic", "toInterface_total", "sim_scalar"],
        "trusted": [
            "goextract conv.go: scalar cases of ToObject/ToObjectAlt/ToInterface translated expression by expression; the element loops, the SyncMap case and the registry fall-back are recognised by exact comparison of the printed case body with a template (anything else fails closed)",
            "hand model Model/ConvReg.lean of package registry and the converters registered by stdlib/time, stdlib/json, stdlib/fmt (which types are registered and whether a converter dereferences its pointer unguarded is the regenerated table Gen/ConvReg.lean), tied by stream `conv`",
            "ConvOps.f32to64: float64(float32) is a parameter; theorems hold for every instance",
        ],
        "assumptions": [
            "int, uint and uintptr are 64 bits wide (64-bit targets)",
            "float64(float32) is exact (Go specification, Conversions between numeric types); float width_value is stated relative to it",
            "Error() of a non-nil error value returns (a panic inside a user-supplied Error method is the caller's); an error holding a nil pointer is modelled as the worst case (its Error method dereferences the receiver)",
            "Go maps are association lists with unique keys; which of several failing entries of one map[string]any is reported first depends on Go's map iteration order and is excluded by the generator",
            "user-defined Object implementations are opaque (`Obj.other`): the conversions return them unchanged and never call their methods",
            "ToObjectAlt is documented to turn every signed integer into Int: its round-trip theorems exclude rune/char (toObjectAlt_char shows the value is kept)",
        ],
    },
}
