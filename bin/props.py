"""Per-property configuration of bin/check."""

COMMON_TRUSTED = [
    "Lean 4.33.0 kernel (thorough tier: re-checked with leanchecker)",
    "axioms allowed per theorem: propext, Classical.choice, Quot.sound (audited by #audit_ns on every run); no native_decide, no bv_decide, no sorry, no axioms of our own",
    "goextract (harness/xlate + harness/cmd/goextract): Go-to-Lean translator for the operator/fold/conversion tables, fails closed",
    "corr harness (harness/cmd/corr) and Lean driver codec (lean/Driver): correspondence and canonicalisation",
]

PROPS = {
    "C15": {
        "lean": ["UgoVerif.Props.C15"],
        "gen": ["Numeric.lean", "NumericSimp.lean"],
        "streams": ["ops"],
        "required_theorems": ["equal_comm", "neq_not_eq", "binop_no_panic", "trichotomy",
                              "le_iff_lt_or_eq", "lt_flip"],
        "trusted": [
            "hand model Model/Ops.lean (Array/Map Equal and BinaryOp recursion, dispatch on the left operand) tied by stream `ops`",
            "FloatOps: float + - * / and int->float conversions are parameters; theorems hold for every instance",
        ],
        "assumptions": [
            "IEEE-754 comparison is the bit-pattern definition Go.feq/flt/fle (validated against Go on the boundary pool by stream `ops`)",
            "user-defined Object implementations, *SyncMap and *RuntimeError are outside the modelled value set",
            "trichotomy assumes int/uint->float conversions never produce NaN (FloatOps.ConvNoNaN)",
        ],
    },
    "C06": {
        "lean": ["UgoVerif.Props.C06"],
        "gen": [],
        "streams": ["vmfail", "vmtrace"],
        "required_theorems": ["step_VInv", "loop_VInv", "throw_fuel_adequate", "recovery_total",
                              "delivered_or_returned", "Run_no_panic", "reusable"],
        "trusted": [
            "hand model UgoVerif/VM/{Types,Base,Step,Run}.lean of vm.go (every Go index/slice/nil-dereference/assertion an explicit panic branch keeping the partial state), tied to the implementation by the lock-step streams `vmtrace` and `vmfail` (real compiler's bytecode, H1 trace hook: frameIndex, ip, sp, #handlers, opcode per instruction)",
            "Std.Do (mvcgen) Hoare-triple framework of the Lean distribution: proofs are kernel-checked terms, only the standard axioms occur",
        ],
        "assumptions": [
            "Go fatal errors (real goroutine-stack exhaustion, out of memory) and panics on goroutines started by callbacks are outside Run and outside the model",
            "host objects (ugo.Function, user Object implementations), builtins other than len/typeName/append/:makeArray, STOREMODULE of containers, string iteration and multi-key map iteration are `unsupported` in the model: for them the recovery path is covered by the theorems (a panic at ANY point leaves a VInv state) and the behaviour only by the vmfail oracle (panicking Go callbacks, nil results, Invoker)",
            "the trace bookkeeping of throw (getSourcePos, SourcePos, addTrace, debugStack, fmt.Errorf) has no panic site and is not modelled",
            "MainWF (NumLocals <= 2048, NumParams <= NumLocals for the main function) is what the compiler guarantees; hand-made bytecode violating it panics in initLocals before recover is armed",
        ],
        "partial": [],
    },
}
