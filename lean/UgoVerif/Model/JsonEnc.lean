import UgoVerif.Go.Utf8
import UgoVerif.Model.JsonScan
import UgoVerif.Spec.Json
/-
  stdlib/json/encode.go: `Marshal` for the uGO value types.  Hand model tied to the
  implementation by the `json` stream (output bytes and error kinds).

  * string escaping (`encodeState.string` / `stringBytes`) uses the tables regenerated
    from tables.go (`Gen/JsonTables.lean`) and the hand model of `utf8.DecodeRune`;
  * `strconv.AppendInt/AppendUint` and base64 `StdEncoding` are modelled concretely;
  * `strconv.AppendFloat` is a parameter (`JsonLib`); what the theorems need from it is
    the explicit hypothesis `JsonLib.OK`, which the driver checks on every float it formats;
  * cycle detection (`ptrLevel`/`ptrSeen`) is outside the model: values are finite trees.
-/
namespace UgoVerif.Model.JsonEnc
open UgoVerif UgoVerif.Go UgoVerif.Gen.JsonTables UgoVerif.Model.JsonScan

/-- values `objectEncoder` distinguishes -/
inductive JV where
  | undefined                                   -- *UndefinedType
  | nil                                         -- a nil Object
  | int (v : BitVec 64)
  | uint (v : BitVec 64)
  | float (v : F64)
  | char (v : BitVec 32)
  | bool (b : Bool)
  | str (s : Bytes)
  | bytes (s : Bytes)
  | array (xs : List JV)
  | map (kvs : List (Bytes × JV))               -- Map and *SyncMap; the harness sends keys sorted
  | opts (quote escapeHTML : Bool) (v : JV)     -- *EncoderOptions
  | ptrNil                                      -- *ObjectPtr with Value == nil
  | ptr (v : JV)                                -- *ObjectPtr
  | rawNil                                      -- *RawMessage with Value == nil
  | raw (b : Bytes)                             -- *RawMessage (the in-tree Marshaler)
  | errval                                      -- *Error
  | opaque (tn : String)                        -- any other object: no encoder
  deriving Repr, Inhabited

/-- Go library callees that stay abstract -/
structure JsonLib where
  /-- `strconv.AppendFloat(nil, f, fmt, -1, 64)`; `fmt` is 'e' when the flag is set, else 'f' -/
  appendFloat : F64 → Bool → Bytes

/-! ### numbers -/

def digitByte (n : Nat) : UInt8 := UInt8.ofNat (0x30 + n % 10)

/-- decimal digits of `n`, most significant first (`fuel` ≥ number of digits) -/
def decDigitsAux : Nat → Nat → Bytes → Bytes
  | 0, _, acc => acc
  | fuel + 1, n, acc =>
    if n < 10 then digitByte n :: acc else decDigitsAux fuel (n / 10) (digitByte n :: acc)

/-- `strconv.AppendUint(nil, n, 10)` -/
def fmtNat (n : Nat) : Bytes := decDigitsAux (n + 1) n []

/-- `strconv.AppendInt(nil, i, 10)` -/
def fmtInt (i : Int) : Bytes :=
  if i < 0 then 0x2D :: fmtNat i.natAbs else fmtNat i.toNat

def F64.isInf (x : F64) : Bool := (x &&& 0x7FFFFFFFFFFFFFFF#64) == 0x7FF0000000000000#64

/-- `strconv.FormatFloat(f, 'g', -1, 64)` for the values `floatEncoder` rejects -/
def nanInfText (f : F64) : String :=
  if f.isNaN then "NaN" else if f.msb then "-Inf" else "+Inf"

/-- clean up `e-09` to `e-9` -/
def cleanExp (b : Bytes) : Bytes :=
  match b.reverse with
  | d :: z :: m :: e :: rest =>
    if e == 0x65 && m == 0x2D && z == 0x30 then (d :: m :: e :: rest).reverse else b
  | _ => b

/-- the number text written by `floatEncoder` for a finite float -/
def floatText (L : JsonLib) (f : F64) : Bytes :=
  let abs : F64 := f &&& 0x7FFFFFFFFFFFFFFF#64
  -- abs != 0 && (abs < 1e-6 || abs >= 1e21)
  let useE := !abs.isZero && (flt abs 0x3EB0C6F7A0B5ED8D#64 || fle 0x444B1AE4D6E2EF50#64 abs)
  let b := L.appendFloat f useE
  if useE then cleanExp b else b

/-- What the theorems assume about `strconv.AppendFloat` (checked by the driver on every
    float the `json` stream formats): the text `floatEncoder` writes for a finite float is a
    JSON number token, and every byte of it may stand inside a JSON string (quoted mode). -/
structure JsonLib.OK (L : JsonLib) : Prop where
  float_token : ∀ f : F64, F64.isInf f = false → f.isNaN = false →
    Spec.Json.isNumber (floatText L f) = true
  float_plain : ∀ f : F64, F64.isInf f = false → f.isNaN = false →
    ∀ x ∈ floatText L f, x.toNat ≠ 0x22 ∧ x.toNat ≠ 0x5C ∧ 0x20 ≤ x.toNat

/-! ### base64.StdEncoding -/

def b64char (n : Nat) : UInt8 :=
  if n < 26 then UInt8.ofNat (65 + n)
  else if n < 52 then UInt8.ofNat (97 + (n - 26))
  else if n < 62 then UInt8.ofNat (48 + (n - 52))
  else if n == 62 then 0x2B else 0x2F

def base64 : Bytes → Bytes
  | [] => []
  | [a] =>
    let v := a.toNat <<< 16
    [b64char ((v >>> 18) % 64), b64char ((v >>> 12) % 64), 0x3D, 0x3D]
  | [a, b] =>
    let v := (a.toNat <<< 16) ||| (b.toNat <<< 8)
    [b64char ((v >>> 18) % 64), b64char ((v >>> 12) % 64), b64char ((v >>> 6) % 64), 0x3D]
  | a :: b :: c :: r =>
    let v := (a.toNat <<< 16) ||| (b.toNat <<< 8) ||| c.toNat
    b64char ((v >>> 18) % 64) :: b64char ((v >>> 12) % 64) :: b64char ((v >>> 6) % 64)
      :: b64char (v % 64) :: base64 r

/-! ### string escaping -/

set_option maxRecDepth 4000 in
theorem safeSet_size : safeSet.size = 128 := by decide
set_option maxRecDepth 4000 in
theorem htmlSafeSet_size : htmlSafeSet.size = 128 := by decide

/-- `safeSet[b]` under the guard `b < utf8.RuneSelf` -/
def safeAt (b : UInt8) (h : b.toNat < 128) : Bool := safeSet[b.toNat]'(by rw [safeSet_size]; exact h)
/-- `htmlSafeSet[b]` under the guard `b < utf8.RuneSelf` -/
def htmlSafeAt (b : UInt8) (h : b.toNat < 128) : Bool :=
  htmlSafeSet[b.toNat]'(by rw [htmlSafeSet_size]; exact h)

/-- what follows the backslash for an ASCII byte that is not written as it is -/
def escByte (b : UInt8) : Bytes :=
  if b == 0x5C || b == 0x22 then [b]
  else if b == 0x08 then [0x62]
  else if b == 0x0C then [0x66]
  else if b == 0x0A then [0x6E]
  else if b == 0x0D then [0x72]
  else if b == 0x09 then [0x74]
  else [0x75, 0x30, 0x30, hexHi b, hexLo b]

/-- the loop of `encodeState.string` / `stringBytes` (`fuel` ≥ length; every iteration consumes a byte) -/
def escapeAux (escapeHTML : Bool) : Nat → Bytes → Bytes
  | 0, _ => []
  | _, [] => []
  | fuel + 1, b :: r =>
    if h : b.toNat < 0x80 then
      if htmlSafeAt b h || (!escapeHTML && safeAt b h) then b :: escapeAux escapeHTML fuel r
      else 0x5C :: (escByte b ++ escapeAux escapeHTML fuel r)
    else
      let cs := decodeRune (b :: r)
      if cs.1 == runeError && cs.2 == 1 then
        [0x5C, 0x75, 0x66, 0x66, 0x66, 0x64] ++ escapeAux escapeHTML fuel r
      else if cs.1 == 0x2028 || cs.1 == 0x2029 then
        [0x5C, 0x75, 0x32, 0x30, 0x32, hexAt (cs.1 % 16) (Nat.mod_lt _ (by decide))]
          ++ escapeAux escapeHTML fuel ((b :: r).drop cs.2)
      else (b :: r).take cs.2 ++ escapeAux escapeHTML fuel ((b :: r).drop cs.2)

/-- `e.string(s, escapeHTML)`: the quoted, escaped string -/
def quoteString (escapeHTML : Bool) (s : Bytes) : Bytes :=
  0x22 :: (escapeAux escapeHTML s.length s ++ [0x22])

def quoteIf (q : Bool) (b : Bytes) : Bytes := if q then 0x22 :: (b ++ [0x22]) else b

/-! ### the encoders -/

def nullB : Bytes := [0x6E, 0x75, 0x6C, 0x6C]
def trueB : Bytes := [0x74, 0x72, 0x75, 0x65]
def falseB : Bytes := [0x66, 0x61, 0x6C, 0x73, 0x65]

def unsupportedValue (s : String) : Err := .other "UnsupportedValueError" s
def unsupportedType (tn : String) : Err := .other "UnsupportedTypeError" tn
def marshalerError : Err := .other "MarshalerError" ""

/-- insertion into a key-sorted list (`sort.Strings(keys)`) -/
def insertSorted (p : Bytes × Bytes) : List (Bytes × Bytes) → List (Bytes × Bytes)
  | [] => [p]
  | q :: r => if bytesCompare p.1 q.1 == -1 then p :: q :: r else q :: insertSorted p r

def sortMembers (ms : List (Bytes × Bytes)) : List (Bytes × Bytes) := ms.foldr insertSorted []

/-- `"key":value` joined by commas -/
def joinMembers (escapeHTML : Bool) : List (Bytes × Bytes) → Bytes
  | [] => []
  | [(k, v)] => quoteString escapeHTML k ++ 0x3A :: v
  | (k, v) :: r => quoteString escapeHTML k ++ 0x3A :: (v ++ 0x2C :: joinMembers escapeHTML r)

def joinElems : List Bytes → Bytes
  | [] => []
  | [v] => v
  | v :: r => v ++ 0x2C :: joinElems r

/-- `marshalerEncoder` for the bytes returned by `MarshalJSON` -/
def encRaw (escapeHTML : Bool) (b : Bytes) : Res Bytes :=
  match compact escapeHTML b with
  | .ok (some o) => .ok o
  | .ok none => .err marshalerError
  | .err e => .err e
  | .panic m => .panic m

mutual
/-- `e.encode(v, opts)`; `empty` says that nothing has been written to the buffer yet -/
def enc (L : JsonLib) (quoted escapeHTML : Bool) (empty : Bool) : JV → Res Bytes
  | .undefined => .ok nullB
  | .nil => .ok nullB
  | .bool b => .ok (quoteIf quoted (if b then trueB else falseB))
  | .int v => .ok (quoteIf quoted (fmtInt v.toInt))
  | .uint v => .ok (quoteIf quoted (fmtNat v.toNat))
  | .char v => .ok (quoteIf quoted (fmtInt v.toInt))
  | .float f =>
    if F64.isInf f || f.isNaN then .err (unsupportedValue (nanInfText f))
    else .ok (quoteIf quoted (floatText L f))
  | .str s =>
    if quoted then .ok (quoteString false (quoteString escapeHTML s))
    else .ok (quoteString escapeHTML s)
  | .bytes s => .ok (0x22 :: (base64 s ++ [0x22]))
  | .array xs =>
    match encList L quoted escapeHTML xs with
    | .ok es => .ok (0x5B :: (joinElems es ++ [0x5D]))
    | .err e => .err e
    | .panic m => .panic m
  | .map kvs =>
    match encMembers L quoted escapeHTML kvs with
    | .ok ms => .ok (0x7B :: (joinMembers escapeHTML (sortMembers ms) ++ [0x7D]))
    | .err e => .err e
    | .panic m => .panic m
  | .opts q e v => enc L q e empty v
  | .ptrNil => .ok nullB
  | .ptr v => enc L quoted escapeHTML empty v
  | .rawNil => encRaw escapeHTML nullB
  | .raw b => encRaw escapeHTML b
  | .errval => if empty then .ok [] else .err (unsupportedType "error")
  | .opaque tn => .err (unsupportedType tn)
/-- the elements of an array, in order; the first failure aborts -/
def encList (L : JsonLib) (quoted escapeHTML : Bool) : List JV → Res (List Bytes)
  | [] => .ok []
  | x :: xs =>
    match enc L quoted escapeHTML false x with
    | .ok b =>
      match encList L quoted escapeHTML xs with
      | .ok bs => .ok (b :: bs)
      | .err e => .err e
      | .panic m => .panic m
    | .err e => .err e
    | .panic m => .panic m
/-- the members of a map in the order given (the implementation walks the sorted keys) -/
def encMembers (L : JsonLib) (quoted escapeHTML : Bool) : List (Bytes × JV) → Res (List (Bytes × Bytes))
  | [] => .ok []
  | (k, x) :: xs =>
    match enc L quoted escapeHTML false x with
    | .ok b =>
      match encMembers L quoted escapeHTML xs with
      | .ok bs => .ok ((k, b) :: bs)
      | .err e => .err e
      | .panic m => .panic m
    | .err e => .err e
    | .panic m => .panic m
end

/-- the value is an error value once the wrappers that write nothing are removed -/
def isTopErr : JV → Bool
  | .errval => true
  | .opts _ _ v => isTopErr v
  | .ptr v => isTopErr v
  | _ => false

mutual
/-- the value contains an object for which `objectEncoder` has no encoder -/
def hasUnsupported : JV → Bool
  | .opaque _ => true
  | .errval => true
  | .array xs => anyUnsupported xs
  | .map kvs => anyUnsupportedM kvs
  | .opts _ _ v => hasUnsupported v
  | .ptr v => hasUnsupported v
  | _ => false
def anyUnsupported : List JV → Bool
  | [] => false
  | x :: xs => hasUnsupported x || anyUnsupported xs
def anyUnsupportedM : List (Bytes × JV) → Bool
  | [] => false
  | (_, x) :: xs => hasUnsupported x || anyUnsupportedM xs
end

mutual
/-- every raw message (the bytes a `Marshaler` returns) inside the value satisfies `P` -/
def rawsOK (P : Bytes → Prop) : JV → Prop
  | .raw b => P b
  | .rawNil => P nullB
  | .array xs => rawsOKL P xs
  | .map kvs => rawsOKM P kvs
  | .opts _ _ v => rawsOK P v
  | .ptr v => rawsOK P v
  | _ => True
def rawsOKL (P : Bytes → Prop) : List JV → Prop
  | [] => True
  | x :: xs => rawsOK P x ∧ rawsOKL P xs
def rawsOKM (P : Bytes → Prop) : List (Bytes × JV) → Prop
  | [] => True
  | (_, x) :: xs => rawsOK P x ∧ rawsOKM P xs
end

/-- the value holds no raw message -/
def rawFree (v : JV) : Prop := rawsOK (fun _ => False) v

/-- `Marshal(v)` -/
def marshal (L : JsonLib) (v : JV) : Res Bytes := enc L false true true v

end UgoVerif.Model.JsonEnc
