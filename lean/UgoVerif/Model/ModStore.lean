/-
  Model of the compile-time module bookkeeping (compiler.go `moduleStore`, `addModule`,
  `getModule`, `checkCyclicImports`; compiler_nodes.go `compileImportExpr`, the part that
  decides which (kind, constant index, module index) an import expression is compiled with).
  Hand-written, core Lean only; tied to the compiler by the `modules` stream (request `ms`:
  NumModules, or the error class and the module it names, for every generated import graph).

  What is abstracted: a source module is the list of module names its import expressions
  name, in the order the compiler meets them (every import expression of the module text,
  including those inside functions, loops and conditions: all are compiled); constants are
  only counted (`addConstant` returns some index; the theorems do not depend on which).
-/
namespace UgoVerif.Model.ModStore

/-- `moduleStoreItem` -/
structure Item where
  typ : Nat            -- 1 = source module (compiled function), 2 = builtin module (object)
  constIdx : Nat
  modIdx : Nat
  deriving Repr, DecidableEq, Inhabited

/-- `moduleStore{store, count}`; the Go map is an association list, newest binding first -/
structure Store where
  entries : List (String × Item) := []
  count : Nat := 0
  deriving Repr, Inhabited

def lookup (name : String) : List (String × Item) → Option Item
  | [] => none
  | (n, it) :: rest => if n = name then some it else lookup name rest

/-- `getModule` -/
def Store.get (ms : Store) (name : String) : Option Item := lookup name ms.entries

/-- `addModule`: `moduleIndex := ms.count; ms.count++; ms.store[name] = item` (overwrites) -/
def Store.add (ms : Store) (name : String) (typ constIdx : Nat) : Item × Store :=
  let it : Item := { typ := typ, constIdx := constIdx, modIdx := ms.count }
  (it, { entries := (name, it) :: ms.entries, count := ms.count + 1 })

/-- what `importer.Import(name)` returns -/
inductive Src where
  | source (imports : List String)     -- []byte: module text, abstracted to its import expressions
  | builtin                            -- Object
  deriving Repr, Inhabited

/-- `ModuleMap.Get` -/
abbrev ModMap := List (String × Src)

def ModMap.get (mm : ModMap) (name : String) : Option Src :=
  match mm with
  | [] => none
  | (n, s) :: rest => if n = name then some s else ModMap.get rest name

inductive CErr where
  | notFound (name : String)           -- "module '%s' not found"
  | cyclic (name : String)             -- "cyclic module import: %s"
  | fuel                               -- model artefact: recursion budget exhausted
  deriving Repr, DecidableEq, Inhabited

/-- compiler state shared by all forks: module store, number of constants, and (ghost) the
    operands of every LOADMODULE emitted so far -/
structure St where
  store : Store := {}
  nconsts : Nat := 0
  emitted : List (String × Item) := []
  deriving Repr, Inhabited

/-- `checkCyclicImports`: `path` holds the `modulePath` of the current compiler and of all its
    parents (innermost first) -/
def checkCyclic (path : List String) (modulePath : String) : Bool := path.contains modulePath

mutual
/-- `compileImportExpr` (module-store part) in a compiler whose parent chain is `path` -/
def compileImport (mm : ModMap) : Nat → List String → String → St → Except CErr St
  | 0, _, _, _ => .error .fuel
  | fuel+1, path, name, st =>
    match mm.get name with
    | none => .error (.notFound name)
    | some src =>
      match st.store.get name with
      | some it => .ok { st with emitted := (name, it) :: st.emitted }
      | none =>
        match src with
        | .builtin =>
          -- module = c.moduleStore.addModule(moduleName, 2, c.addConstant(v))
          let (it, store) := st.store.add name 2 st.nconsts
          .ok { store := store, nconsts := st.nconsts + 1, emitted := (name, it) :: st.emitted }
        | .source imports =>
          -- compileModule: checkCyclicImports, fork, compile the module text, addConstant(bc.Main)
          if checkCyclic path name then .error (.cyclic name)
          else
            match compileImports mm fuel (name :: path) imports st with
            | .error e => .error e
            | .ok st1 =>
              let (it, store) := st1.store.add name 1 st1.nconsts
              .ok { store := store, nconsts := st1.nconsts + 1, emitted := (name, it) :: st1.emitted }

/-- the import expressions of one module text, in order -/
def compileImports (mm : ModMap) : Nat → List String → List String → St → Except CErr St
  | 0, _, _, _ => .error .fuel
  | _+1, _, [], st => .ok st
  | fuel+1, path, i :: rest, st =>
    match compileImport mm fuel path i st with
    | .error e => .error e
    | .ok st1 => compileImports mm fuel path rest st1
end

/-- `ugo.Compile` of a main script whose import expressions are `imports` (modulePath "(main)") -/
def compileMain (mm : ModMap) (fuel : Nat) (imports : List String) : Except CErr St :=
  compileImports mm fuel ["(main)"] imports {}

/-- `Bytecode.NumModules` -/
def numModules (st : St) : Nat := st.store.count

end UgoVerif.Model.ModStore
