import UgoVerif.Gen.ConvReg
/-
  Hand model of the `default` branches of ToObject / ToObjectAlt / ToInterface:
  package `registry` (a map from `reflect.Type` to converter) and the converters
  that stdlib/time, stdlib/json and stdlib/fmt register in their `init`.

  Which types are registered, and whether a converter reads through its pointer
  argument without a nil check, comes from the regenerated table
  `Gen.ConvReg.registry`; what each converter returns is written here and tied
  to the implementation by the `conv` correspondence stream.  A dereference of a
  nil pointer is a `.panic` at the place where the Go code has it.
-/
namespace UgoVerif.Model.Conv
open UgoVerif UgoVerif.Go

def nilDeref : String := "runtime error: invalid memory address or nil pointer dereference"

/-- `converters[reflect.TypeOf(in)]` -/
def regFind (dir ty : String) : Option RegEntry :=
  Gen.ConvReg.registry.find? (fun e => e.dir == dir && e.ty == ty)

/-- `reflect.TypeOf(v)` for the Go values whose type some package registers -/
def goRegType : GoVal → Option String
  | .duration _ => some "time.Duration"
  | .time _ => some "time.Time"
  | .timePtrNil | .timePtr _ => some "*time.Time"
  | .locPtrNil | .locPtr _ => some "*time.Location"
  | .rawNil | .raw _ => some "json.RawMessage"
  | _ => none

/-- `reflect.TypeOf(o)` for the objects whose type some package registers -/
def objRegType : Obj → Option String
  | .timeNil | .time _ => some "*ugotime.Time"
  | .locationNil | .location _ => some "*ugotime.Location"
  | .rawMessageNil | .rawMessage _ => some "*ugojson.RawMessage"
  | .scanArgNil | .scanArg _ => some "*ugofmt.scanArg"
  | _ => none

/-- the converter bodies registered with `RegisterObjectConverter` (stdlib/time/time.go,
    stdlib/json/json.go): result `(out, ok)`; `none` is `ok = false` -/
def objConverter (e : RegEntry) : GoVal → Res (Option GoVal)
  | .duration v => .ok (some (.object (.int v)))              -- ugo.Int(in.(time.Duration))
  | .time t => .ok (some (.object (.time t)))                 -- &Time{Value: in.(time.Time)}
  | .timePtrNil =>                                            -- v == nil → Undefined; else &Time{Value: *v}
    if e.nilSafe then .ok (some (.object .undefined)) else .panic nilDeref
  | .timePtr t => .ok (some (.object (.time t)))
  | .locPtrNil =>                                             -- v == nil → Undefined
    if e.nilSafe then .ok (some (.object .undefined)) else .panic nilDeref
  | .locPtr l => .ok (some (.object (.location (some l))))    -- &Location{Value: v}
  | .rawNil => .ok (some (.object (.rawMessage (some []))))   -- rm == nil → &RawMessage{Value: Bytes{}}
  | .raw s => .ok (some (.object (.rawMessage (some s))))     -- &RawMessage{Value: rm}
  | _ => .ok none

/-- `registry.ToObject(v)` -/
def regToObject (g : GoVal) : Res (Option GoVal) :=
  match goRegType g with
  | none => .ok none
  | some ty =>
    match regFind "obj" ty with
    | none => .ok none
    | some e => objConverter e g

/-- `default:` of ToObject and ToObjectAlt:
    `if out, ok := registry.ToObject(v); ok { ret, ok = out.(Object); if ok { return } }`
    `err = fmt.Errorf("cannot convert to object: %T", v)` -/
def toObjectDefault (g : GoVal) : Res Obj :=
  match regToObject g with
  | .ok (some (.object o)) => .ok o
  | .ok _ => .err (.other "error" ("cannot convert to object: " ++ g.typeName))
  | .err e => .err e
  | .panic m => .panic m

/-- the converter bodies registered with `RegisterAnyConverter` -/
def anyConverter (e : RegEntry) : Obj → Res (Option GoVal)
  | .timeNil => if e.nilSafe then .ok (some .nil) else .panic nilDeref      -- v == nil → nil
  | .time t => .ok (some (.time t))                                          -- v.Value
  | .locationNil => if e.nilSafe then .ok (some .nil) else .panic nilDeref  -- v == nil → nil
  | .location (some l) => .ok (some (.locPtr l))                             -- v.Value
  | .location none => .ok (some .locPtrNil)
  | .rawMessageNil => if e.nilSafe then .ok (some .rawNil) else .panic nilDeref  -- rm == nil → RawMessage(nil)
  | .rawMessage (some b) => .ok (some (.raw b))                              -- json.RawMessage(rm.Value)
  | .rawMessage none => .ok (some .rawNil)
  | .scanArgNil => if e.nilSafe then .ok none else .panic nilDeref          -- sa != nil && … else (Undefined, false)
  | .scanArg (some (tn, id)) => .ok (some (.ptr tn id))                      -- sa.Arg()
  | .scanArg none => .ok none
  | _ => .ok none

/-- `registry.ToInterface(o)` -/
def regToInterface (o : Obj) : Res (Option GoVal) :=
  match objRegType o with
  | none => .ok none
  | some ty =>
    match regFind "any" ty with
    | none => .ok none
    | some e => anyConverter e o

/-- an Object assigned to `any` -/
def objAsAny : Obj → GoVal
  | .goNil => .nil
  | o => .object o

/-- `default:` of ToInterface:
    `if out, ok := registry.ToInterface(o); ok { ret = out } else { ret = o }` -/
def toInterfaceDefault (o : Obj) : Res GoVal :=
  match regToInterface o with
  | .ok (some g) => .ok g
  | .ok none => .ok (objAsAny o)
  | .err e => .err e
  | .panic m => .panic m

end UgoVerif.Model.Conv
