import UgoVerif.Model.Compile
import UgoVerif.Model.Bytecode
import UgoVerif.VM.Run
/-
  Eval session model: eval.go (`NewEval`, `Eval.Run`, `fixOpPop`), the parts of
  compiler.go `compileScript`/`newCompiler` that continue from the caller's symbol table
  and constants, and vm.go `SetBytecode`, `GetLocals`, `Clear`.  Core Lean only.

  What persists from one `Eval.Run` to the next (fields of `Session`):
    * `table`      `r.Opts.SymbolTable` — the ROOT table, mutated in place by every compile,
                   also by one that ends in an error (symbols defined before the error stay);
    * `constants`  `r.Opts.Constants` — replaced only after a successful compile;
    * `locals`     `r.Locals` — the first `NumLocals` stack slots of the last run, pointer
                   boxes of captured variables included, followed by the arguments/locals
                   that lie beyond them;
    * `modules`    `r.ModulesCache`;  `globals` `r.Globals`;  the VM object (`vm`): heap,
                   frames, constants of the last bytecode.
  Not modelled: the context (never cancelled), the goroutine of `Eval.run`, the optimizer
  (`NoOptimize`), import expressions (the compiler model answers `unsupported`), printing.

  Tie: stream `eval` (lock-step per fragment: bytes after `fixOpPop`, NumParams/NumLocals,
  source map, new constants, result, Locals image, globals).
-/
namespace UgoVerif.Eval
open UgoVerif UgoVerif.Go UgoVerif.Ast UgoVerif.Compile UgoVerif.VM

/-! ### fixOpPop (eval.go) -/

/-- the three variables of `fixOpPop` captured by the callback -/
structure FixSt where
  prevOp : Nat := 0
  lastOp : Nat := 0
  fixPos : Int := 0
  deriving Repr, DecidableEq, Inhabited

/-- the callback passed to `IterateInstructions`, one call.  `operands[0]` is read only when
    the two opcode tests succeeded (Go's `&&`); an empty operand slice there is an index panic. -/
def fixStep (st : FixSt) (pos op : Nat) (operands : List Nat) : Res FixSt :=
  let prevOp := if st.prevOp == 0 then op else st.lastOp
  if prevOp == Gen.Opcodes.OpPop && op == Gen.Opcodes.OpReturn then
    match operands with
    | [] => .panic "runtime error: index out of range [0] with length 0"
    | o :: _ => .ok { prevOp := prevOp, lastOp := op, fixPos := if o == 0 then (pos : Int) - 1 else -1 }
  else .ok { prevOp := prevOp, lastOp := op, fixPos := -1 }

/-- `IterateInstructions(insts, callback)` with the callback above (it always returns true).
    `OpcodeOperands[op]` with `op ≥ len` and operands running past the end are Go panics.
    `fuel` only makes the recursion structural (`fixScan` is called with `length + 1`). -/
def fixScan : Nat → Bytes → Nat → FixSt → Res FixSt
  | 0, _, _, st => .ok st
  | _+1, [], _, st => .ok st
  | fuel+1, b :: bs, pos, st =>
    match Gen.Opcodes.opcodeOperands b.toNat with
    | none => .panic s!"runtime error: index out of range [{b.toNat}] with length {Gen.Opcodes.numOpcodes}"
    | some ws =>
      match Model.Bytecode.readOperands ws bs with
      | .ok (args, rest) =>
        match fixStep st pos b.toNat args with
        | .ok st' => fixScan fuel rest (pos + (ws.sum + 1)) st'
        | .err e => .err e
        | .panic m => .panic m
      | .err e => .err e
      | .panic m => .panic m

/-- `fixOpPop`: overwrite the trailing `POP; RETURN 0` by `NOOP; RETURN 1` -/
def fixOpPop (insts : Bytes) : Res Bytes :=
  match fixScan (insts.length + 1) insts 0 {} with
  | .ok st =>
    if st.fixPos > 0 then
      let p := st.fixPos.toNat
      if p + 2 < insts.length then
        .ok ((insts.set p (UInt8.ofNat Gen.Opcodes.OpNoOp)).set (p + 2) 1)
      else .panic s!"runtime error: index out of range [{p + 2}] with length {insts.length}"
    else .ok insts
  | .err e => .err e
  | .panic m => .panic m

/-! ### compileScript continuing from the session's table and constants -/

/-- a constant no lookup of the compiler model ever matches (a NaN float) -/
def maskConst : Const := .val (.float 0x7FF8000000000001#64)

/-- `newCompiler` rebuilds `constsCache` from `opts.Constants` (scalars only) and starts with an
    EMPTY `cfuncCache`: function constants of earlier scripts are never found again.  The compiler
    model looks constants up in the pool itself, so the earlier function constants are masked for
    the duration of the compile and restored afterwards. -/
def maskFns (cs : Array Const) : Array Const :=
  cs.map fun c => match c with | .fn _ => maskConst | c => c

def unmaskFns (old new : Array Const) : Array Const :=
  old ++ new.extract old.size new.size

/-- `SetGlobalSymbolsIndex`: global symbols handed in with index −1 get their name constant.
    (The session never leaves such a symbol behind; Go ranges over a map here, the model over
    the store in insertion order.) -/
def setGlobalSymbolsIndex : CM Unit := do
  let t ← headTable
  for (n, sym) in t.store do
    if sym.scope == .global && sym.index == -1 then
      let idx ← addConstant (.str sym.name.toUTF8.toList)
      updateSym n fun y => { y with index := idx }

structure CompileOut where
  result : Except CErr Bytecode
  table : Table                 -- the root table after the compile, also after an error
  deriving Inhabited

/-- `compileScript(script, &opts, &moduleStore)` with `opts.SymbolTable = table`,
    `opts.Constants = constants`, `NoOptimize`. -/
def compileSession (builtins : List (String × Nat)) (table : Table) (constants : Array Const)
    (file : List Stmt) : CompileOut :=
  let init : CState := { tables := [table], constants := maskFns constants, builtins := builtins }
  let prog : CM Bytecode := do
    setGlobalSymbolsIndex
    compileStmts file
    let fn ← finishFn
    if fn.numLocals > maxNumLocals then throw (.bare "SymbolLimitError: number of local symbols exceeds the limit")
    pure { main := fn, constants := unmaskFns constants (← get).constants }
  match prog.run.run init with
  | (r, s) => { result := r, table := (s.tables.getLast?).getD table }

/-! ### the session -/

structure Session where
  table : Table
  constants : Array Const
  vm : VM.State                  -- r.VM; `vm.consts` are the runtime objects of `constants`
  locals : List V
  modules : Array V
  globals : V
  builtins : List (String × Nat)
  deriving Inhabited

/-- `NewEval(opts, globals, args…)`: `globals` must be a map on `heap` (NewEval replaces nil by a new Map) -/
def newSession (builtins : List (String × Nat)) (disabled : List String) (heap : Array Cell) (globals : V)
    (args : List V) : Session :=
  let vm := newState #[] heap #[] 0 0
  { table := { disabled := disabled }, constants := #[], vm := { vm with noPanic := true },
    locals := args, modules := #[], globals := globals, builtins := builtins }

def scalarOfCVal : CVal → V
  | .int v => .int v | .uint v => .uint v | .float v => .float v | .char v => .char v
  | .bool b => .bool b | .str s => .str s | .undefined => .undefined

def codeOfCFn (f : CFn) : Code :=
  { insts := f.insts, numParams := f.numParams, numLocals := f.numLocals, variadic := f.variadic }

/-- a `*CompiledFunction` object for `f` on the VM's heap -/
def allocFn (vm : State) (f : CFn) : V × State :=
  let ci := vm.codes.size
  let a := vm.heap.size
  (.cfun a, { vm with codes := vm.codes.push (codeOfCFn f), heap := vm.heap.push (.fn ci none) })

/-- runtime objects of the constants with index ≥ `from` (the earlier ones are the same Go
    objects as before: the slice was only appended to) -/
def materialize (vm : State) (cs : List Const) : Array V × State :=
  cs.foldl (fun (acc : Array V × State) c =>
    match c with
    | .val v => (acc.1.push (scalarOfCVal v), acc.2)
    | .fn f => let (v, vm') := allocFn acc.2 f; (acc.1.push v, vm')) (#[], vm)

/-- `VM.SetBytecode(bc)` followed by `r.VM.modulesCache = r.ModulesCache` -/
def setBytecode (vm : State) (main : CFn) (oldN : Nat) (constants : Array Const) (modules : Array V) : State :=
  let (newVs, vm) := materialize vm (constants.toList.drop oldN)
  let (mainV, vm) := allocFn vm main
  let ma := match mainV with | .cfun a => a | _ => 0
  { vm with consts := (vm.consts.extract 0 oldN) ++ newVs, mainFn := ma, numModules := 0,
            modules := modules, steps := 0, trace := #[] }

/-- `VM.GetLocals` as called by `Eval.Run`, plus the tail of the previous `r.Locals`:
    `stack[:NumLocals]` (a slice-bounds panic when `NumLocals` exceeds the stack) -/
def getLocals (vm : State) (numLocals : Nat) (prev : List V) : Res (List V) :=
  if numLocals > stackSize then
    .panic s!"runtime error: slice bounds out of range [:{numLocals}] with capacity {stackSize}"
  else
    let ls := vm.stack.toList.take numLocals
    .ok (ls ++ prev.drop ls.length)

/-- `VM.Clear()` -/
def clearVM (vm : State) : State :=
  { vm with stack := Array.replicate stackSize .nil, modules := #[], globals := .nil }

inductive RunResult where
  | compileError (e : CErr)        -- `Eval.Run` returned the compiler's error: nothing ran
  | value (v : V)
  | error (e : VmErr)
  | crash (msg : String)           -- a Go panic escaping `Eval.Run`
  | unsupported (msg : String)
  | outOfFuel
  deriving Inhabited

structure RunOut where
  result : RunResult
  bytecode : Option Bytecode       -- as returned by `Eval.Run` (after the NumParams and fixOpPop rewrites)
  session : Session
  deriving Inhabited

/-- `Eval.Run(ctx, script)` for a context that is never cancelled -/
def evalRun (F : FloatOps) (fuel : Nat) (s : Session) (file : List Stmt) : RunOut :=
  let co := compileSession s.builtins s.table s.constants file
  let s := { s with table := co.table }
  match co.result with
  | .error e => { result := .compileError e, bytecode := none, session := s }
  | .ok bc =>
    -- bytecode.Main.NumParams = bytecode.Main.NumLocals; r.Opts.Constants = bytecode.Constants
    let oldN := s.constants.size
    let s := { s with constants := bc.constants }
    match fixOpPop bc.main.insts.toList with
    | .panic m => { result := .crash m, bytecode := none, session := s }
    | .err _ => { result := .crash "error", bytecode := none, session := s }
    | .ok insts =>
      let main : CFn := { bc.main with numParams := bc.main.numLocals, insts := insts.toArray }
      let bc : Bytecode := { main := main, constants := bc.constants }
      let vm := setBytecode s.vm main oldN bc.constants s.modules
      let (out, vm) := runFrom F fuel s.globals s.locals vm
      -- r.ModulesCache = r.VM.modulesCache; r.Locals = GetLocals ++ rest; r.VM.Clear()
      match getLocals vm main.numLocals s.locals with
      | .panic m => { result := .crash m, bytecode := some bc, session := { s with vm := vm } }
      | .err _ => { result := .crash "error", bytecode := some bc, session := { s with vm := vm } }
      | .ok ls =>
        let s := { s with modules := vm.modules, locals := ls, vm := clearVM vm }
        let res := match out with
          | .value v => RunResult.value v
          | .error e => .error e
          | .goPanic m => .crash m
          | .unsupported m => .unsupported m
          | .outOfFuel => .outOfFuel
        { result := res, bytecode := some bc, session := s }

/-- a whole session: the fragments one after another, stopping after the first that does not
    return a value (the property compares nothing after the first failure) -/
def evalSession (F : FloatOps) (fuel : Nat) : Session → List (List Stmt) → List RunOut
  | _, [] => []
  | s, f :: fs =>
    let o := evalRun F fuel s f
    match o.result with
    | .value _ => o :: evalSession F fuel o.session fs
    | _ => [o]

end UgoVerif.Eval
