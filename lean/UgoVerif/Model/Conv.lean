import UgoVerif.Gen.Conv
/-
  Vocabulary of property C20 over the regenerated conversions (`Gen/Conv.lean`):
  which uGO values are *plain*, which Go values are *canonical*, the relation `≃`
  that identifies nil and empty containers (and nothing else), and the numeric
  value of integer values on both sides.  Core Lean only (linked into the driver).
-/
namespace UgoVerif.Model.Conv
open UgoVerif UgoVerif.Go

mutual
/-- plain uGO values: int, uint, float, bool, char, string, bytes, array, map, undefined,
    arbitrarily nested -/
def plain : Obj → Bool
  | .undefined | .int _ | .uint _ | .float _ | .char _ | .bool _ | .str _ | .bytesNil | .bytes _ => true
  | .array xs => plainList xs
  | .map kvs => plainKvs kvs
  | _ => false
def plainList : List Obj → Bool
  | [] => true
  | x :: xs => plain x && plainList xs
def plainKvs : List (Bytes × Obj) → Bool
  | [] => true
  | (_, x) :: rest => plain x && plainKvs rest
end

mutual
/-- plain values without chars (ToObjectAlt turns every signed integer, rune included, into Int) -/
def plainAlt : Obj → Bool
  | .undefined | .int _ | .uint _ | .float _ | .bool _ | .str _ | .bytesNil | .bytes _ => true
  | .array xs => plainAltList xs
  | .map kvs => plainAltKvs kvs
  | _ => false
def plainAltList : List Obj → Bool
  | [] => true
  | x :: xs => plainAlt x && plainAltList xs
def plainAltKvs : List (Bytes × Obj) → Bool
  | [] => true
  | (_, x) :: rest => plainAlt x && plainAltKvs rest
end

mutual
/-- uGO equality of plain values up to the one distinction uGO cannot observe:
    `Bytes(nil)` is replaced by the empty `Bytes{}` -/
def normObj : Obj → Obj
  | .bytesNil => .bytes []
  | .array xs => .array (normObjList xs)
  | .map kvs => .map (normObjKvs kvs)
  | o => o
def normObjList : List Obj → List Obj
  | [] => []
  | x :: xs => normObj x :: normObjList xs
def normObjKvs : List (Bytes × Obj) → List (Bytes × Obj)
  | [] => []
  | (k, x) :: rest => (k, normObj x) :: normObjKvs rest
end

mutual
/-- Go values made of the canonical counterparts: nil, int64, uint64, float64, bool, rune,
    string, []byte, []any, map[string]any (nil or not), arbitrarily nested -/
def canon : GoVal → Bool
  | .nil | .int64 _ | .uint64 _ | .float64 _ | .bool _ | .int32 _ | .string _
  | .bytesNil | .bytes _ | .sliceNil | .mapNil => true
  | .slice xs => canonList xs
  | .map kvs => canonKvs kvs
  | _ => false
def canonList : List GoVal → Bool
  | [] => true
  | x :: xs => canon x && canonList xs
def canonKvs : List (Bytes × GoVal) → Bool
  | [] => true
  | (_, x) :: rest => canon x && canonKvs rest
end

mutual
/-- canonical Go values without rune -/
def canonAlt : GoVal → Bool
  | .nil | .int64 _ | .uint64 _ | .float64 _ | .bool _ | .string _
  | .bytesNil | .bytes _ | .sliceNil | .mapNil => true
  | .slice xs => canonAltList xs
  | .map kvs => canonAltKvs kvs
  | _ => false
def canonAltList : List GoVal → Bool
  | [] => true
  | x :: xs => canonAlt x && canonAltList xs
def canonAltKvs : List (Bytes × GoVal) → Bool
  | [] => true
  | (_, x) :: rest => canonAlt x && canonAltKvs rest
end

mutual
/-- replaces every nil `[]byte`, `[]any`, `map[string]any` by the empty one; changes nothing else -/
def normGo : GoVal → GoVal
  | .bytesNil => .bytes []
  | .sliceNil => .slice []
  | .mapNil => .map []
  | .slice xs => .slice (normGoList xs)
  | .map kvs => .map (normGoKvs kvs)
  | g => g
def normGoList : List GoVal → List GoVal
  | [] => []
  | x :: xs => normGo x :: normGoList xs
def normGoKvs : List (Bytes × GoVal) → List (Bytes × GoVal)
  | [] => []
  | (k, x) :: rest => (k, normGo x) :: normGoKvs rest
end

/-- `g ≃ g'`: the same Go value, nil and empty containers being interchangeable -/
def GoSim (g g' : GoVal) : Prop := normGo g = normGo g'
@[inherit_doc] infix:50 " ≃ " => GoSim

/-- Go values that are neither a container nor (possibly) nil containers: `≃` is `=` on them -/
def isContainer : GoVal → Bool
  | .bytesNil | .bytes _ | .sliceNil | .slice _ | .mapNil | .map _ => true
  | _ => false

/-- the mathematical value of a Go integer of any width -/
def goIntValue : GoVal → Option Int
  | .int64 v | .int v => some v.toInt
  | .int32 v => some v.toInt
  | .int16 v => some v.toInt
  | .int8 v => some v.toInt
  | .uint64 v | .uint v | .uintptr v => some (v.toNat : Int)
  | .uint32 v => some (v.toNat : Int)
  | .uint16 v => some (v.toNat : Int)
  | .uint8 v => some (v.toNat : Int)
  | _ => none

/-- signedness of a Go integer type -/
def goIntSigned : GoVal → Option Bool
  | .int64 _ | .int _ | .int32 _ | .int16 _ | .int8 _ => some true
  | .uint64 _ | .uint _ | .uintptr _ | .uint32 _ | .uint16 _ | .uint8 _ => some false
  | _ => none

/-- the Go integer types `ToObject` has a case for (`int64`, `int`, `rune`, `uint64`, `uint`,
    `uintptr`, `byte`); `ToObjectAlt` has one for every integer type -/
def toObjectWidth : GoVal → Bool
  | .int64 _ | .int _ | .int32 _ | .uint64 _ | .uint _ | .uintptr _ | .uint8 _ => true
  | _ => false

/-- the mathematical value of a uGO int, uint or char -/
def objIntValue : Obj → Option Int
  | .int v => some v.toInt
  | .uint v => some (v.toNat : Int)
  | .char v => some v.toInt
  | _ => none

mutual
/-- the value mentions a Go type that neither conversion switch nor the registry knows -/
def hasUnsupported : GoVal → Bool
  | .unsupported _ | .ptr _ _ => true
  | .slice xs => hasUnsupportedList xs
  | .map kvs => hasUnsupportedKvs kvs
  | _ => false
def hasUnsupportedList : List GoVal → Bool
  | [] => false
  | x :: xs => hasUnsupported x || hasUnsupportedList xs
def hasUnsupportedKvs : List (Bytes × GoVal) → Bool
  | [] => false
  | (_, x) :: rest => hasUnsupported x || hasUnsupportedKvs rest
end

end UgoVerif.Model.Conv
