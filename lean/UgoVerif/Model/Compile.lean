import UgoVerif.Spec.Ast
/-
  Compiler model: compiler.go / compiler_nodes.go / symbol_table.go with the
  optimizer off, in Go statement order.  Byte-identical output (instructions,
  constants, NumLocals/NumParams/Variadic, source map) is the tie: stream `compile`.

  Not modelled here: import expressions (module compilation), tracing, and the
  optimizer hook taken when const literals are in scope *and* the optimizer is on.
-/
namespace UgoVerif.Compile
open UgoVerif UgoVerif.Go UgoVerif.Ast

inductive Scope where
  | global | local_ | builtin | free | constLit
  deriving Repr, DecidableEq, Inhabited

/-- constant literal values (`constLiteral`) and scalar constants of the pool -/
inductive CVal where
  | int (v : BitVec 64) | uint (v : BitVec 64) | float (v : F64) | char (v : BitVec 32)
  | bool (b : Bool) | str (s : Bytes) | undefined
  deriving Repr, DecidableEq, Inhabited

structure Symbol where
  name : String
  index : Int
  scope : Scope
  constant : Bool := false
  constLit : Option CVal := none
  deriving Repr, Inhabited

/-- one `SymbolTable` node; the parent is the next table in the compiler's list -/
structure Table where
  store : List (String × Symbol) := []
  block : Bool := false
  maxDefinition : Nat := 0
  numDefinition : Nat := 0
  numParams : Nat := 0
  frees : List Symbol := []
  hasConstLit : Bool := false
  hasParentConstLit : Bool := false
  disableParams : Bool := false
  disabled : List String := []        -- disabledBuiltins (root only)
  shadowed : List String := []
  deriving Repr, Inhabited

structure CFn where
  numParams : Nat
  numLocals : Nat
  variadic : Bool
  insts : Array UInt8
  sourceMap : List (Nat × Nat)        -- ip ↦ file position (sorted by ip, unique keys)
  deriving Repr, Inhabited, BEq

inductive Const where
  | val (v : CVal)
  | fn (f : CFn)
  deriving Repr, Inhabited

structure Loop where
  continues : List Nat := []
  breaks : List Nat := []
  lastTryCatchIndex : Int
  deriving Repr, Inhabited

inductive CErr where
  | err (pos : Pos) (msg : String)     -- *CompilerError
  | bare (msg : String)                -- errors returned without a node (ErrSymbolLimit)
  | panic (msg : String)               -- Go panic inside the compiler (emit / changeOperand)
  | unsupported (msg : String)
  deriving Repr, Inhabited

structure CState where
  tables : List Table                  -- innermost first; the last one is the root
  insts : Array UInt8 := #[]
  sourceMap : List (Nat × Nat) := []
  constants : Array Const := #[]
  loops : List Loop := []              -- innermost first
  tryCatchIndex : Int := -1
  iotaVal : Int := -1
  variadic : Bool := false
  builtins : List (String × Nat)       -- BuiltinsMap (regenerated table, passed in)
  deriving Inhabited

abbrev CM := ExceptT CErr (StateM CState)

def cerr {α} (pos : Pos) (msg : String) : CM α := throw (.err pos msg)
def cpanic {α} (msg : String) : CM α := throw (.panic msg)
def cunsupported {α} (msg : String) : CM α := throw (.unsupported msg)

/-! ### opcodes (numbers re-checked against Gen/Opcodes when available) -/
def OpConstant := 1
def OpCall := 2
def OpGetGlobal := 3
def OpSetGlobal := 4
def OpGetLocal := 5
def OpSetLocal := 6
def OpGetBuiltin := 7
def OpBinaryOp := 8
def OpUnary := 9
def OpEqual := 10
def OpNotEqual := 11
def OpJump := 12
def OpJumpFalsy := 13
def OpAndJump := 14
def OpOrJump := 15
def OpMap := 16
def OpArray := 17
def OpSliceIndex := 18
def OpGetIndex := 19
def OpSetIndex := 20
def OpNull := 21
def OpPop := 22
def OpGetFree := 23
def OpSetFree := 24
def OpGetLocalPtr := 25
def OpGetFreePtr := 26
def OpClosure := 27
def OpIterInit := 28
def OpIterNext := 29
def OpIterKey := 30
def OpIterValue := 31
def OpLoadModule := 32
def OpStoreModule := 33
def OpSetupTry := 34
def OpSetupCatch := 35
def OpSetupFinally := 36
def OpThrow := 37
def OpFinalizer := 38
def OpReturn := 39
def OpDefineLocal := 40
def OpTrue := 41
def OpFalse := 42
def OpCallName := 43

/-- `OpcodeOperands` -/
def operandWidths (op : Nat) : List Nat :=
  if op == OpConstant || op == OpGetGlobal || op == OpSetGlobal || op == OpMap || op == OpArray
      || op == OpStoreModule then [2]
  else if op == OpCall || op == OpCallName then [1, 1]
  else if op == OpGetLocal || op == OpSetLocal || op == OpGetBuiltin || op == OpBinaryOp || op == OpUnary
      || op == OpGetIndex || op == OpGetFree || op == OpSetFree || op == OpGetLocalPtr || op == OpGetFreePtr
      || op == OpReturn || op == OpThrow || op == OpFinalizer || op == OpDefineLocal then [1]
  else if op == OpJump || op == OpJumpFalsy || op == OpAndJump || op == OpOrJump then [4]
  else if op == OpClosure then [2, 1]
  else if op == OpLoadModule then [2, 2]
  else if op == OpSetupTry then [4, 4]
  else []

def maxOf (w : Nat) : Int :=
  if w == 1 then 255 else if w == 2 then 65535 else 2147483647

def beBytes (w : Nat) (v : Nat) : List UInt8 :=
  (List.range w).map fun i => UInt8.ofNat ((v >>> (8 * (w - 1 - i))) % 256)

/-- `MakeInstruction`: error (→ panic in emit/changeOperand) when an operand does not fit -/
def makeInstruction (op : Nat) (args : List Int) : Except String (List UInt8) :=
  let ws := operandWidths op
  if ws.length != args.length then
    .error s!"MakeInstruction: expected {ws.length} operands, but got {args.length}"
  else
    let rec go : List Nat → List Int → Except String (List UInt8)
      | w :: ws, a :: as =>
        if a > maxOf w then .error s!"MakeInstruction: operand {a} is greater than {maxOf w}"
        else if a < 0 then .error s!"MakeInstruction: operand {a} is less than 0"
        else do pure (beBytes w a.toNat ++ (← go ws as))
      | _, _ => pure []
    do pure (UInt8.ofNat op :: (← go ws args))

def setSourceMap (m : List (Nat × Nat)) (k v : Nat) : List (Nat × Nat) :=
  match m with
  | [] => [(k, v)]
  | (k', v') :: r => if k == k' then (k, v) :: r else (k', v') :: setSourceMap r k v

/-- `emit(node, op, operands…)`; `pos = 0` stands for `parser.NoPos` (node == nil) -/
def emit (pos : Pos) (op : Nat) (args : List Int := []) : CM Nat := do
  match makeInstruction op args with
  | .error m => cpanic m
  | .ok bs =>
    let s ← get
    let at_ := s.insts.size
    set { s with insts := s.insts ++ bs.toArray, sourceMap := setSourceMap s.sourceMap at_ pos }
    pure at_

def curPos : CM Nat := do return (← get).insts.size

/-- `changeOperand(opPos, operands…)` -/
def changeOperand (opPos : Nat) (args : List Int) : CM Unit := do
  let s ← get
  match s.insts[opPos]? with
  | none => cpanic s!"runtime error: index out of range [{opPos}]"
  | some op =>
    match makeInstruction op.toNat args with
    | .error m => cpanic m
    | .ok bs =>
      -- copy(c.instructions[pos:], inst)
      let ins := (List.range bs.length).foldl (fun (acc : Array UInt8) i =>
        if opPos + i < acc.size then acc.set! (opPos + i) (bs[i]!) else acc) s.insts
      set { s with insts := ins }

/-! ### constants -/

/-- Go map-key equality of the scalar constant kinds (`constsCache[obj]`) -/
def keyEq : CVal → CVal → Bool
  | .int a, .int b => a == b
  | .uint a, .uint b => a == b
  | .char a, .char b => a == b
  | .bool a, .bool b => a == b
  | .str a, .str b => a == b
  | .float a, .float b => feq a b         -- IEEE ==: −0.0 hits +0.0, NaN never hits
  | .undefined, .undefined => true
  | _, _ => false

/-- `isNegativeZero`: the float constant −0.0 is never cached -/
def isNegZero : CVal → Bool
  | .float v => v == 0x8000000000000000#64
  | _ => false

def findConst (cs : Array Const) (k : CVal) : Option Nat :=
  if isNegZero k then none else
  (List.range cs.size).find? fun i =>
    match cs[i]! with
    | .val v => !isNegZero v && keyEq v k
    | _ => false

def sameSourceMap (a b : List (Nat × Nat)) : Bool :=
  a.length == b.length && a.all fun (k, v) => b.any fun (k', v') => k == k' && v == v'

def findFn (cs : Array Const) (f : CFn) : Option Nat :=
  (List.range cs.size).find? fun i =>
    match cs[i]! with
    | .fn g => g.numParams == f.numParams && g.numLocals == f.numLocals && g.variadic == f.variadic
        && g.insts == f.insts && sameSourceMap g.sourceMap f.sourceMap
    | _ => false

def addConstant (k : CVal) : CM Nat := do
  let s ← get
  -- NaN is never found in the cache, and never stored retrievably
  match findConst s.constants k with
  | some i => pure i
  | none =>
    set { s with constants := s.constants.push (.val k) }
    pure s.constants.size

def addFnConstant (f : CFn) : CM Nat := do
  let s ← get
  match findFn s.constants f with
  | some i => pure i
  | none =>
    set { s with constants := s.constants.push (.fn f) }
    pure s.constants.size

/-! ### symbol table (symbol_table.go) -/

def lookupSym (n : String) : List (String × Symbol) → Option Symbol
  | [] => none
  | (k, v) :: r => if k == n then some v else lookupSym n r

def putSym (n : String) (sym : Symbol) : List (String × Symbol) → List (String × Symbol)
  | [] => [(n, sym)]
  | (k, v) :: r => if k == n then (n, sym) :: r else (k, v) :: putSym n sym r

/-- `nextIndex()` of the innermost table -/
def nextIndex : List Table → Nat
  | [] => 0
  | t :: rest => if t.block then nextIndex rest + t.numDefinition else t.numDefinition

/-- `updateMaxDefs(n)` -/
def updateMaxDefs (n : Nat) : List Table → List Table
  | [] => []
  | t :: rest =>
    let t' := if n > t.maxDefinition then { t with maxDefinition := n } else t
    if t.block then t' :: updateMaxDefs n rest else t' :: rest

def isBuiltinName (bs : List (String × Nat)) (n : String) : Bool := bs.any (·.1 == n)

def shadowBuiltin (bs : List (String × Nat)) (n : String) (t : Table) : Table :=
  if isBuiltinName bs n then { t with shadowed := t.shadowed ++ [n] } else t

def modTables (f : List Table → List Table) : CM Unit := modify fun s => { s with tables := f s.tables }

def headTable : CM Table := do
  match (← get).tables with
  | t :: _ => pure t
  | [] => cpanic "runtime error: invalid memory address or nil pointer dereference"

def modHead (f : Table → Table) : CM Unit :=
  modTables fun ts => match ts with | t :: r => f t :: r | [] => []

/-- `DefineLocal(name)` → (symbol, existed) -/
def defineLocal (name : String) : CM (Symbol × Bool) := do
  let s ← get
  let t ← headTable
  match lookupSym name t.store with
  | some sym => pure (sym, true)
  | none =>
    let idx := nextIndex s.tables
    let sym : Symbol := { name := name, index := idx, scope := .local_ }
    modHead fun t => shadowBuiltin s.builtins name { t with numDefinition := t.numDefinition + 1, store := putSym name sym t.store }
    modTables (updateMaxDefs (idx + 1))
    pure (sym, false)

def updateSym (name : String) (f : Symbol → Symbol) : CM Unit :=
  modHead fun t => match lookupSym name t.store with
    | some sym => { t with store := putSym name (f sym) t.store }
    | none => t

/-- `SetParams(params…)` -/
def setParams (pos : Pos) (params : List String) : CM Unit := do
  if params.isEmpty then return
  let t ← headTable
  if t.numParams > 0 then cerr pos "parameters already defined"
  if t.disableParams then cerr pos "parameters disabled"
  modHead fun t => { t with numParams := params.length }
  for p in params do
    let s ← get
    let t ← headTable
    if (lookupSym p t.store).isSome then cerr pos s!"\"{p}\" redeclared in this block"
    let idx := nextIndex s.tables
    let sym : Symbol := { name := p, index := idx, scope := .local_ }
    modHead fun t => shadowBuiltin s.builtins p { t with numDefinition := t.numDefinition + 1, store := putSym p sym t.store }
    modTables (updateMaxDefs (idx + 1))

def rootDisabled : List Table → List String
  | [] => []
  | [t] => t.disabled
  | _ :: r => rootDisabled r

/-- `Resolve(name)` on a chain of tables; returns the symbol and the updated chain -/
def resolveIn (bs : List (String × Nat)) (disabled : List String) (name : String) :
    List Table → Option Symbol × List Table
  | [] => (none, [])
  | t :: rest =>
    match lookupSym name t.store with
    | some sym => (some sym, t :: rest)
    | none =>
      match rest with
      | [] =>
        -- root: builtin fallback unless disabled
        if !disabled.contains name then
          match bs.find? (·.1 == name) with
          | some (_, idx) =>
            let sym : Symbol := { name := name, index := idx, scope := .builtin }
            (some sym, [{ t with store := putSym name sym t.store }])
          | none => (none, [t])
        else (none, [t])
      | _ =>
        let (r, rest') := resolveIn bs disabled name rest
        match r with
        | none => (none, t :: rest')
        | some sym =>
          if !t.block && sym.scope != .global && sym.scope != .builtin && sym.scope != .constLit then
            -- defineFree(original)
            let fs : Symbol := { name := sym.name, index := t.frees.length, scope := .free, constant := sym.constant }
            let t' := shadowBuiltin bs sym.name { t with frees := t.frees ++ [sym], store := putSym sym.name fs t.store }
            (some fs, t' :: rest')
          else (some sym, t :: rest')

def resolve (name : String) : CM (Option Symbol) := do
  let s ← get
  let (r, ts) := resolveIn s.builtins (rootDisabled s.tables) name s.tables
  set { s with tables := ts }
  pure r

def hasAnyConstLit : CM Bool := do
  let t ← headTable
  pure (t.hasConstLit || t.hasParentConstLit)

/-- `Fork(block)` -/
def forkTable (block : Bool) : CM Unit := do
  let t ← headTable
  modTables fun ts => { block := block, disableParams := t.disableParams,
                        hasParentConstLit := t.hasConstLit || t.hasParentConstLit } :: ts

/-- `Parent(false)` -/
def popTable : CM Table := do
  let t ← headTable
  modTables fun ts => ts.drop 1
  pure t

def defineConstLitSym (name : String) : CM (Option Unit) := do
  -- returns none when the name already exists in this table
  let s ← get
  let t ← headTable
  match lookupSym name t.store with
  | some _ => pure none
  | none =>
    let sym : Symbol := { name := name, index := -1, scope := .constLit, constant := true }
    modHead fun t => shadowBuiltin s.builtins name { t with hasConstLit := true, store := putSym name sym t.store }
    pure (some ())

def findSymbolSelf (name : String) : CM (Option Symbol) := do
  pure (lookupSym name (← headTable).store)

def findByNameAll (name : String) : List Table → Option Symbol
  | [] => none
  | t :: r => match lookupSym name t.store with | some s => some s | none => findByNameAll name r

/-! ### statements and expressions (compiler.go Compile, compiler_nodes.go) -/

def constLitOfExpr : Expr → Option CVal
  | .int _ v => some (.int v) | .uint _ v => some (.uint v) | .float _ v => some (.float v)
  | .bool _ b => some (.bool b) | .str _ s => some (.str s) | .char _ v => some (.char v)
  | .undef _ => some .undefined
  | _ => none

def emitConstLit (pos : Pos) (v : CVal) : CM Unit := do
  match v with
  | .bool true => discard <| emit pos OpTrue
  | .bool false => discard <| emit pos OpFalse
  | .undefined => discard <| emit pos OpNull
  | v => do let i ← addConstant v; discard <| emit pos OpConstant [i]

/-- `resolveAssignLHS` -/
def resolveAssignLHS : Expr → String × List Expr
  | .selector _ e sel => let (n, ss) := resolveAssignLHS e; (n, ss ++ [sel])
  | .index _ e i => let (n, ss) := resolveAssignLHS e; (n, ss ++ [i])
  | .ident _ n => (n, [])
  | _ => ("", [])

/-- `resolveIndexExprs` -/
def resolveIndexExprs : Expr → Expr × List Expr
  | .index _ e i => let (b, is) := resolveIndexExprs e; (b, is ++ [i])
  | e => (e, [])

def isBinaryOperator (tok : Nat) : Bool :=
  (tAdd ≤ tok && tok ≤ tAndNot) || tok == tLAnd || tok == tLOr || tok == tEqual || tok == tNotEqual
  || tok == tLess || tok == tGreater || tok == tLessEq || tok == tGreaterEq

def compoundOp (tok : Nat) : Option Nat :=
  if tok == tAddAssign then some tAdd else if tok == tSubAssign then some tSub
  else if tok == tMulAssign then some tMul else if tok == tQuoAssign then some tQuo
  else if tok == tRemAssign then some tRem else if tok == tAndAssign then some tAnd
  else if tok == tOrAssign then some tOr else if tok == tAndNotAssign then some tAndNot
  else if tok == tXorAssign then some tXor else if tok == tShlAssign then some tShl
  else if tok == tShrAssign then some tShr else none

def currentLoop : CM (Option Loop) := do return (← get).loops.head?

def modLoop (f : Loop → Loop) : CM Unit :=
  modify fun s => { s with loops := match s.loops with | l :: r => f l :: r | [] => [] }

/-- `Bytecode()` epilogue: append RETURN 0 unless the stream already ends in RETURN and no
    jump targets the position after it. -/
def jumpTargetsPending (insts : Array UInt8) : Nat → Nat → Nat → List Nat → Nat × List Nat
  | 0, _, lastOp, pend => (lastOp, pend)
  | fuel+1, i, lastOp, pend =>
    if i ≥ insts.size then (lastOp, pend)
    else
      let op := (insts[i]!).toNat
      let ws := operandWidths op
      let width := ws.foldl (· + ·) 0
      let rd (off w : Nat) : Nat := (List.range w).foldl (fun acc k => acc * 256 + (insts[i + 1 + off + k]!).toNat) 0
      let pend := if op == OpJump || op == OpJumpFalsy || op == OpAndJump || op == OpOrJump
        then (if pend.contains (rd 0 4) then pend else rd 0 4 :: pend) else pend
      let pend := pend.filter (· != i)
      jumpTargetsPending insts fuel (i + width + 1) op pend

def finishFn : CM CFn := do
  let s ← get
  let (lastOp, pend) := jumpTargetsPending s.insts (s.insts.size + 1) 0 0 []
  if lastOp != OpReturn || !pend.isEmpty then
    discard <| emit 0 OpReturn [0]
  let s ← get
  let t ← headTable
  pure { numParams := t.numParams, numLocals := t.maxDefinition, variadic := s.variadic,
         insts := s.insts, sourceMap := s.sourceMap }

mutual
partial def compileExpr (e : Expr) : CM Unit := do
  match e with
  | .paren _ e => compileExpr e
  | .binary pos tok l r =>
    -- (with const literals in scope the real compiler asks the optimizer; a no-op when it is off)
    if tok == tLAnd || tok == tLOr then
      compileExpr l
      let jp ← emit pos (if tok == tLAnd then OpAndJump else OpOrJump) [0]
      compileExpr r
      changeOperand jp [(← curPos)]
    else
      compileExpr l
      compileExpr r
      if tok == tEqual then discard <| emit pos OpEqual
      else if tok == tNotEqual then discard <| emit pos OpNotEqual
      else if !isBinaryOperator tok then cerr pos "invalid binary operator"
      else discard <| emit pos OpBinaryOp [tok]
  | .int pos v => do let i ← addConstant (.int v); discard <| emit pos OpConstant [i]
  | .uint pos v => do let i ← addConstant (.uint v); discard <| emit pos OpConstant [i]
  | .float pos v => do let i ← addConstant (.float v); discard <| emit pos OpConstant [i]
  | .bool pos b => discard <| emit pos (if b then OpTrue else OpFalse)
  | .str pos s => do let i ← addConstant (.str s); discard <| emit pos OpConstant [i]
  | .char pos v => do let i ← addConstant (.char v); discard <| emit pos OpConstant [i]
  | .undef pos => discard <| emit pos OpNull
  | .unary pos tok e =>
    compileExpr e
    if tok == tNot || tok == tSub || tok == tXor || tok == tAdd then discard <| emit pos OpUnary [tok]
    else cerr pos "invalid unary operator"
  | .ident pos name =>
    match (← resolve name) with
    | none =>
      let s ← get
      if s.iotaVal < 0 || name != "iota" then cerr pos s!"unresolved reference \"{name}\""
      let i ← addConstant (.int (BitVec.ofInt 64 s.iotaVal))
      discard <| emit pos OpConstant [i]
    | some sym =>
      match sym.scope with
      | .global => discard <| emit pos OpGetGlobal [sym.index]
      | .local_ => discard <| emit pos OpGetLocal [sym.index]
      | .builtin => discard <| emit pos OpGetBuiltin [sym.index]
      | .free => discard <| emit pos OpGetFree [sym.index]
      | .constLit =>
        match sym.constLit with
        | some v => if sym.constant then emitConstLit pos v else cpanic "symbol is not defined as constant"
        | none => cpanic "constLit without value"
  | .array pos es =>
    for x in es do compileExpr x
    discard <| emit pos OpArray [es.length]
  | .map pos es =>
    for (k, v) in es do
      let i ← addConstant (.str k.toUTF8.toList)
      discard <| emit pos OpConstant [i]
      compileExpr v
    discard <| emit pos OpMap [es.length * 2]
  | .selector pos e sel =>
    let (base, sels) := resolveIndexExprs e
    compileExpr base
    for x in sels ++ [sel] do compileExpr x
    discard <| emit pos OpGetIndex [(sels.length + 1 : Nat)]
  | .index pos e i =>
    let (base, idxs) := resolveIndexExprs (.index pos e i)
    compileExpr base
    for x in idxs do compileExpr x
    discard <| emit pos OpGetIndex [idxs.length]
  | .slice pos e lo hi =>
    compileExpr e
    match lo with | some x => compileExpr x | none => discard <| emit pos OpNull
    match hi with | some x => compileExpr x | none => discard <| emit pos OpNull
    discard <| emit pos OpSliceIndex
  | .func pos variadic params bodyPos body =>
    -- symbolTable.Fork(false); SetParams; fork compiler
    forkTable false
    setParams pos params
    let outer ← get
    set { outer with insts := #[], sourceMap := [], loops := [], tryCatchIndex := -1, iotaVal := -1, variadic := variadic }
    compileStmt (.block bodyPos body)
    let fn ← finishFn
    let inner ← get
    let ft ← popTable
    -- back in the enclosing compiler: constants come from the fork, tables are shared
    let inner' ← get
    set { outer with tables := inner'.tables, constants := inner.constants }
    for s in ft.frees do
      match s.scope with
      | .local_ => discard <| emit pos OpGetLocalPtr [s.index]
      | .free => discard <| emit pos OpGetFreePtr [s.index]
      | _ => pure ()
    if fn.numLocals > 256 then throw (.err pos "SymbolLimitError: number of local symbols exceeds the limit")
    let idx ← addFnConstant fn
    if ft.frees.length > 0 then discard <| emit pos OpClosure [idx, ft.frees.length]
    else discard <| emit pos OpConstant [idx]
  | .call pos ellipsis f args =>
    match f with
    | .selector _ se ssel =>
      compileExpr se
      for a in args do compileExpr a
      compileExpr ssel
      discard <| emit pos OpCallName [args.length, if ellipsis then 1 else 0]
    | f =>
      compileExpr f
      for a in args do compileExpr a
      discard <| emit pos OpCall [args.length, if ellipsis then 1 else 0]
  | .import_ _ _ => cunsupported "import expression"
  | .cond pos c t f =>
    match c with
    | .bool _ b => if b then compileExpr t else compileExpr f
    | c =>
      compileExpr c
      let j1 ← emit pos OpJumpFalsy [0]
      compileExpr t
      let j2 ← emit pos OpJump [0]
      changeOperand j1 [(← curPos)]
      compileExpr f
      changeOperand j2 [(← curPos)]

partial def compileStmts (ss : List Stmt) : CM Unit := do
  for s in ss do compileStmt s

/-- `compileDefine` -/
partial def compileDefine (pos : Pos) (ident : String) (allowRedefine : Bool) (keyword : Nat) : CM Unit := do
  let (sym, exists_) ← defineLocal ident
  if !allowRedefine && exists_ && ident != "_" then cerr pos s!"\"{ident}\" redeclared in this block"
  if sym.constant then cerr pos s!"assignment to constant variable \"{ident}\""
  let s ← get
  if s.iotaVal > -1 && ident == "iota" && keyword == tConst then cerr pos "assignment to iota"
  discard <| emit pos OpDefineLocal [sym.index]
  updateSym ident fun y => { y with constant := keyword == tConst && ident != "_" }

/-- `compileDefineAssign` -/
partial def compileDefineAssign (pos : Pos) (lhs : Expr) (keyword op : Nat) (allowRedefine : Bool) : CM Unit := do
  let (ident, selectors) := resolveAssignLHS lhs
  let numSel := selectors.length
  if numSel == 0 && op == tDefine then
    return (← compileDefine pos ident allowRedefine keyword)
  match (← resolve ident) with
  | none => cerr pos s!"unresolved reference \"{ident}\""
  | some sym =>
    if numSel == 0 then
      if sym.constant then cerr pos s!"assignment to constant variable \"{ident}\""
      match sym.scope with
      | .local_ => discard <| emit pos OpSetLocal [sym.index]
      | .free => discard <| emit pos OpSetFree [sym.index]
      | .global => discard <| emit pos OpSetGlobal [sym.index]
      | _ => cerr pos s!"unresolved reference \"{ident}\""
    else
      match sym.scope with
      | .local_ => discard <| emit pos OpGetLocal [sym.index]
      | .free => discard <| emit pos OpGetFree [sym.index]
      | .global => discard <| emit pos OpGetGlobal [sym.index]
      | _ => cerr pos s!"unexpected scope for symbol \"{ident}\""
      if numSel > 1 then
        for x in selectors.take (numSel - 1) do compileExpr x
        discard <| emit pos OpGetIndex [(numSel - 1 : Nat)]
      compileExpr (selectors[numSel - 1]!)
      discard <| emit pos OpSetIndex

/-- `compileAssignStmt(node, lhs, rhs, keyword, op)` -/
partial def compileAssign (pos : Pos) (lhs rhs : List Expr) (keyword op : Nat) : CM Unit := do
  if rhs.length > 1 then cerr pos "multiple expressions on the right side not supported"
  let selector := lhs.any fun e => match e with | .selector .. | .index .. => true | _ => false
  if selector && op == tDefine then cerr pos "operator ':=' not allowed with selector"
  let mut isArrDestruct := false
  let mut tempIdx : Int := 0
  if op != tAssign && op != tDefine then
    compileExpr (lhs[0]!)
  else if lhs.length > 1 then
    isArrDestruct := true
    let (sym, _) ← defineLocal ":array"
    tempIdx := sym.index
    discard <| emit pos OpGetBuiltin [Gen.builtinMakeArray]
    let i ← addConstant (.int (BitVec.ofNat 64 lhs.length))
    discard <| emit pos OpConstant [i]
  for e in rhs do compileExpr e
  if isArrDestruct then
    -- compileDestructuring
    discard <| emit pos OpCall [2, 0]
    discard <| emit pos OpDefineLocal [tempIdx]
    let numLHS := lhs.length
    let mut found := 0
    let mut k := 0
    for e in lhs do
      if op == tDefine then
        match e with
        | .ident _ n => if (← findSymbolSelf n).isSome then found := found + 1
        | _ => pure ()
        if found == numLHS then cerr pos "no new variable on the left side"
      discard <| emit pos OpGetLocal [tempIdx]
      let i ← addConstant (.int (BitVec.ofNat 64 k))
      discard <| emit pos OpConstant [i]
      discard <| emit pos OpGetIndex [1]
      compileDefineAssign pos e keyword op (keyword != tConst)
      k := k + 1
    if !(← headTable).block then
      discard <| emit pos OpNull
      discard <| emit pos OpSetLocal [tempIdx]
    return
  if op != tAssign && op != tDefine then
    match compoundOp op with
    | some t => discard <| emit pos OpBinaryOp [t]
    | none => pure ()
  compileDefineAssign pos (lhs[0]!) keyword op false

partial def compileStmt (st : Stmt) : CM Unit := do
  match st with
  | .empty _ => pure ()
  | .expr pos e => compileExpr e; discard <| emit pos OpPop
  | .incdec pos tok tokPos e =>
    compileAssign pos [e] [.int tokPos 1#64] tVar (if tok == tDec then tSubAssign else tAddAssign)
  | .assign pos tok lhs rhs => compileAssign pos lhs rhs tVar tok
  | .block _ body =>
    if body.isEmpty then return
    forkTable true
    compileStmts body
    discard <| popTable
  | .if_ pos init cond bodyPos body else_ =>
    forkTable true
    match init with | some i => compileStmt i | none => pure ()
    let mut jumpPos1 : Option Nat := none
    let mut skipElse := false
    match cond with
    | .bool _ true => compileStmt (.block bodyPos body); skipElse := true
    | .bool _ false => jumpPos1 := some (← emit pos OpJump [0])
    | c =>
      compileExpr c
      jumpPos1 := some (← emit pos OpJumpFalsy [0])
      compileStmt (.block bodyPos body)
    if !skipElse && else_.isSome then
      let jumpPos2 ← emit pos OpJump [0]
      match jumpPos1 with | some j => changeOperand j [(← curPos)] | none => pure ()
      match else_ with | some e => compileStmt e | none => pure ()
      changeOperand jumpPos2 [(← curPos)]
    else
      match jumpPos1 with | some j => changeOperand j [(← curPos)] | none => pure ()
    discard <| popTable
  | .try_ pos _ body catch_ finally_ =>
    forkTable true
    modify fun s => { s with tryCatchIndex := s.tryCatchIndex + 1 }
    let optry ← emit pos OpSetupTry [0, 0]
    compileStmts body
    let mut catchPos := 0
    let mut finallyPos := 0
    let mut opjump := 0
    match catch_ with
    | some (cpos, ident, _, cbody) =>
      match ident with
      | some name =>
        discard <| emit cpos OpNull
        let (sym, exists_) ← defineLocal name
        if exists_ then discard <| emit pos OpSetLocal [sym.index]
        else discard <| emit pos OpDefineLocal [sym.index]
      | none => pure ()
      opjump ← emit pos OpJump [0]
      catchPos ← curPos
      -- compileCatchStmt
      discard <| emit cpos OpSetupCatch
      match ident with
      | some name =>
        let (sym, exists_) ← defineLocal name
        if exists_ then discard <| emit cpos OpSetLocal [sym.index]
        else discard <| emit cpos OpDefineLocal [sym.index]
      | none => discard <| emit cpos OpPop
      compileStmts cbody
    | none => pure ()
    match finally_ with
    | some (fpos, _, fbody) =>
      finallyPos ← emit fpos OpSetupFinally
      compileStmts fbody
    | none => finallyPos ← emit pos OpSetupFinally
    changeOperand optry [catchPos, finallyPos]
    if catch_.isSome then changeOperand opjump [finallyPos]
    -- deferred: Parent(false); emit THROW 0; tryCatchIndex--
    discard <| popTable
    discard <| emit pos OpThrow [0]
    modify fun s => { s with tryCatchIndex := s.tryCatchIndex - 1 }
  | .throw pos e =>
    match e with | some x => compileExpr x | none => pure ()
    discard <| emit pos OpThrow [1]
  | .branch pos tok =>
    if tok == tBreak || tok == tContinue then
      match (← currentLoop) with
      | none => cerr pos (if tok == tBreak then "break not allowed outside of loop" else "continue not allowed outside of loop")
      | some loop =>
        let s ← get
        if loop.lastTryCatchIndex != s.tryCatchIndex then
          discard <| emit pos OpFinalizer [loop.lastTryCatchIndex + 1]
        let p ← emit pos OpJump [0]
        if tok == tBreak then modLoop fun l => { l with breaks := l.breaks ++ [p] }
        else modLoop fun l => { l with continues := l.continues ++ [p] }
    else cerr pos "invalid branch statement"
  | .return_ pos e =>
    match e with
    | none =>
      if (← get).tryCatchIndex > -1 then discard <| emit pos OpFinalizer [0]
      discard <| emit pos OpReturn [0]
    | some x =>
      compileExpr x
      if (← get).tryCatchIndex > -1 then discard <| emit pos OpFinalizer [0]
      discard <| emit pos OpReturn [1]
  | .for_ pos init cond post bodyPos body =>
    forkTable true
    match init with | some i => compileStmt i | none => pure ()
    let preCondPos ← curPos
    let mut postCondPos : Option Nat := none
    match cond with
    | some c => compileExpr c; postCondPos := some (← emit pos OpJumpFalsy [0])
    | none => pure ()
    modify fun s => { s with loops := { lastTryCatchIndex := s.tryCatchIndex } :: s.loops }
    compileStmt (.block bodyPos body)
    let loop := (← currentLoop).getD { lastTryCatchIndex := -1 }
    modify fun s => { s with loops := s.loops.drop 1 }
    let postBodyPos ← curPos
    match post with | some p => compileStmt p | none => pure ()
    discard <| emit pos OpJump [preCondPos]
    let postStmtPos ← curPos
    match postCondPos with | some j => changeOperand j [postStmtPos] | none => pure ()
    for p in loop.breaks do changeOperand p [postStmtPos]
    for p in loop.continues do changeOperand p [postBodyPos]
    discard <| popTable
  | .forin pos key value iter bodyPos body =>
    forkTable true
    let (itSym, exists_) ← defineLocal ":it"
    if exists_ then cerr pos ":it redeclared in this block"
    compileExpr iter
    discard <| emit pos OpIterInit
    discard <| emit pos OpDefineLocal [itSym.index]
    let preCondPos ← curPos
    discard <| emit pos OpGetLocal [itSym.index]
    discard <| emit pos OpIterNext
    let postCondPos ← emit pos OpJumpFalsy [0]
    modify fun s => { s with loops := { lastTryCatchIndex := s.tryCatchIndex } :: s.loops }
    if key != "_" then
      let (ks, ex) ← defineLocal key
      if ex then cerr pos s!"\"{key}\" redeclared in this block"
      discard <| emit pos OpGetLocal [itSym.index]
      discard <| emit pos OpIterKey
      discard <| emit pos OpDefineLocal [ks.index]
    if value != "_" then
      let (vs, ex) ← defineLocal value
      if ex then cerr pos s!"\"{value}\" redeclared in this block"
      discard <| emit pos OpGetLocal [itSym.index]
      discard <| emit pos OpIterValue
      discard <| emit pos OpDefineLocal [vs.index]
    compileStmt (.block bodyPos body)
    let loop := (← currentLoop).getD { lastTryCatchIndex := -1 }
    modify fun s => { s with loops := s.loops.drop 1 }
    let postBodyPos ← curPos
    discard <| emit pos OpJump [preCondPos]
    let postStmtPos ← curPos
    changeOperand postCondPos [postStmtPos]
    for p in loop.breaks do changeOperand p [postStmtPos]
    for p in loop.continues do changeOperand p [postBodyPos]
    discard <| popTable
  | .declParam pos specs =>
    if (← get).tables.length > 1 then cerr pos "param not allowed in this scope"
    for (_, _, va) in specs do
      if va then
        if (← get).variadic then cerr pos "multiple variadic param declaration"
        modify fun s => { s with variadic := true }
    setParams pos (specs.map fun (_, n, _) => n)
  | .declGlobal pos specs =>
    if (← get).tables.length > 1 then cerr pos "global not allowed in this scope"
    for (_, name, _) in specs do
      let s ← get
      let t ← headTable
      match lookupSym name t.store with
      | some sym =>
        if sym.scope != .global then cerr pos s!"\"{name}\" redeclared in this block"
        let idx ← addConstant (.str name.toUTF8.toList)
        updateSym name fun y => { y with index := idx }
      | none =>
        modHead fun t => shadowBuiltin s.builtins name { t with store := putSym name { name := name, index := -1, scope := .global } t.store }
        let idx ← addConstant (.str name.toUTF8.toList)
        updateSym name fun y => { y with index := idx }
  | .declValue pos tok specs =>
    if specs.isEmpty then cerr pos "empty declaration not allowed"
    let isConst := tok == tConst
    let mut lastExpr : Option Expr := none
    for (iota, idents, values) in specs do
      if isConst then
        match iota with
        | some v => modify fun s => { s with iotaVal := v }
        | none => cerr pos "invalid iota value"
      let mut i := 0
      for (ipos, name) in idents do
        let v? : Option Expr := (values[i]?).bind id
        let v : Expr := match v? with
          | some v => v
          | none =>
            match isConst, lastExpr with
            | true, some le => le
            | _, _ => Expr.undef ipos
        if v?.isSome then lastExpr := v?
        i := i + 1
        let mut defined := false
        if isConst && name != "iota" && name != "_" then
          -- defineConstLit
          match constLitOfExpr v with
          | some cv =>
            match (← defineConstLitSym name) with
            | some () => updateSym name (fun y => { y with constLit := some cv }); defined := true
            | none => pure ()
          | none =>
            match v with
            | .ident _ rn =>
              if rn == "iota" then
                if (← findSymbolSelf "iota").isNone then
                  match (← defineConstLitSym name) with
                  | some () =>
                    let iv := (← get).iotaVal
                    updateSym name (fun y => { y with constLit := some (.int (BitVec.ofInt 64 iv)) }); defined := true
                  | none => pure ()
              else if rn != "_" then
                if (← hasAnyConstLit) then
                  match findByNameAll rn (← get).tables with
                  | some s1 =>
                    if s1.scope == .constLit then
                      match (← defineConstLitSym name) with
                      | some () => updateSym name (fun y => { y with constLit := s1.constLit }); defined := true
                      | none => pure ()
                  | none => pure ()
            | _ => pure ()
        if !defined then
          compileAssign pos [.ident ipos name] [v] tok tDefine
    if isConst then modify fun s => { s with iotaVal := -1 }
end

/-- result of `Compile(script, {NoOptimize: true, SymbolTable: fresh})` -/
structure Bytecode where
  main : CFn
  constants : Array Const
  deriving Repr, Inhabited

def maxNumLocals := 256

def compileFile (builtins : List (String × Nat)) (disabled : List String) (file : List Stmt) : Except CErr Bytecode :=
  let init : CState := { tables := [{ disabled := disabled }], builtins := builtins }
  let prog : CM Bytecode := do
    compileStmts file
    let fn ← finishFn
    if fn.numLocals > maxNumLocals then throw (.bare "SymbolLimitError: number of local symbols exceeds the limit")
    pure { main := fn, constants := (← get).constants }
  (prog.run.run init).1

end UgoVerif.Compile
