import UgoVerif.Spec.Ast
/-
  Compiler model: compiler.go / compiler_nodes.go / symbol_table.go with the
  optimizer off, in Go statement order.  Byte-identical output (instructions,
  constants, NumLocals/NumParams/Variadic, source map) is the tie: stream `compile`.

  Not modelled here: import expressions (module compilation), tracing, and the
  optimizer hook taken when const literals are in scope *and* the optimizer is on.
-/
namespace UgoVerif.Compile
open UgoVerif UgoVerif.Go UgoVerif.Ast

inductive Scope where
  | global | local_ | builtin | free | constLit
  deriving Repr, DecidableEq, Inhabited

/-- constant literal values (`constLiteral`) and scalar constants of the pool -/
inductive CVal where
  | int (v : BitVec 64) | uint (v : BitVec 64) | float (v : F64) | char (v : BitVec 32)
  | bool (b : Bool) | str (s : Bytes) | undefined
  deriving Repr, DecidableEq, Inhabited

structure Symbol where
  name : String
  index : Int
  scope : Scope
  constant : Bool := false
  constLit : Option CVal := none
  deriving Repr, Inhabited

/-- one `SymbolTable` node; the parent is the next table in the compiler's list -/
structure Table where
  store : List (String × Symbol) := []
  block : Bool := false
  maxDefinition : Nat := 0
  numDefinition : Nat := 0
  numParams : Nat := 0
  frees : List Symbol := []
  hasConstLit : Bool := false
  hasParentConstLit : Bool := false
  disableParams : Bool := false
  disabled : List String := []        -- disabledBuiltins (root only)
  shadowed : List String := []
  deriving Repr, Inhabited

structure CFn where
  numParams : Nat
  numLocals : Nat
  variadic : Bool
  insts : Array UInt8
  sourceMap : List (Nat × Nat)        -- ip ↦ file position (sorted by ip, unique keys)
  deriving Repr, Inhabited, BEq

inductive Const where
  | val (v : CVal)
  | fn (f : CFn)
  deriving Repr, Inhabited

structure Loop where
  continues : List Nat := []
  breaks : List Nat := []
  lastTryCatchIndex : Int
  deriving Repr, Inhabited

inductive CErr where
  | err (pos : Pos) (msg : String)     -- *CompilerError
  | bare (msg : String)                -- errors returned without a node (ErrSymbolLimit)
  | panic (msg : String)               -- Go panic that escapes Compile (nil dereference, index out of range, constLit misuse)
  | unsupported (msg : String)
  deriving Repr, Inhabited

structure CState where
  tables : List Table                  -- innermost first; the last one is the root
  insts : Array UInt8 := #[]
  sourceMap : List (Nat × Nat) := []
  constants : Array Const := #[]
  loops : List Loop := []              -- innermost first
  tryCatchIndex : Int := -1
  iotaVal : Int := -1
  variadic : Bool := false
  builtins : List (String × Nat)       -- BuiltinsMap (regenerated table, passed in)
  deriving Inhabited

abbrev CM := ExceptT CErr (StateM CState)

def cerr {α} (pos : Pos) (msg : String) : CM α := throw (.err pos msg)
def cpanic {α} (msg : String) : CM α := throw (.panic msg)
def cunsupported {α} (msg : String) : CM α := throw (.unsupported msg)

/-! ### opcodes (numbers re-checked against Gen/Opcodes when available) -/
def OpConstant := 1
def OpCall := 2
def OpGetGlobal := 3
def OpSetGlobal := 4
def OpGetLocal := 5
def OpSetLocal := 6
def OpGetBuiltin := 7
def OpBinaryOp := 8
def OpUnary := 9
def OpEqual := 10
def OpNotEqual := 11
def OpJump := 12
def OpJumpFalsy := 13
def OpAndJump := 14
def OpOrJump := 15
def OpMap := 16
def OpArray := 17
def OpSliceIndex := 18
def OpGetIndex := 19
def OpSetIndex := 20
def OpNull := 21
def OpPop := 22
def OpGetFree := 23
def OpSetFree := 24
def OpGetLocalPtr := 25
def OpGetFreePtr := 26
def OpClosure := 27
def OpIterInit := 28
def OpIterNext := 29
def OpIterKey := 30
def OpIterValue := 31
def OpLoadModule := 32
def OpStoreModule := 33
def OpSetupTry := 34
def OpSetupCatch := 35
def OpSetupFinally := 36
def OpThrow := 37
def OpFinalizer := 38
def OpReturn := 39
def OpDefineLocal := 40
def OpTrue := 41
def OpFalse := 42
def OpCallName := 43

/-- `OpcodeOperands` -/
def operandWidths (op : Nat) : List Nat :=
  if op == OpConstant || op == OpGetGlobal || op == OpSetGlobal || op == OpMap || op == OpArray
      || op == OpStoreModule then [2]
  else if op == OpCall || op == OpCallName then [1, 1]
  else if op == OpGetLocal || op == OpSetLocal || op == OpGetBuiltin || op == OpBinaryOp || op == OpUnary
      || op == OpGetIndex || op == OpGetFree || op == OpSetFree || op == OpGetLocalPtr || op == OpGetFreePtr
      || op == OpReturn || op == OpThrow || op == OpFinalizer || op == OpDefineLocal then [1]
  else if op == OpJump || op == OpJumpFalsy || op == OpAndJump || op == OpOrJump then [4]
  else if op == OpClosure then [2, 1]
  else if op == OpLoadModule then [2, 2]
  else if op == OpSetupTry then [4, 4]
  else []

/-- number of opcodes: `OpcodeOperands` / `OpcodeNames` are arrays of this length, indexing them
    with a larger opcode byte is a Go index-out-of-range panic -/
def numOpcodes : Nat := 44

/-- number of operand bytes of an instruction -/
def opWidth (op : Nat) : Nat := (operandWidths op).sum

def maxOf (w : Nat) : Int :=
  if w == 1 then 255 else if w == 2 then 65535 else 2147483647

def beBytes (w : Nat) (v : Nat) : List UInt8 :=
  (List.range w).map fun i => UInt8.ofNat ((v >>> (8 * (w - 1 - i))) % 256)

/-- range check and big-endian encoding of the operands, first offending operand first -/
def encodeOperands : List Nat → List Int → Except String (List UInt8)
  | w :: ws, a :: as =>
    if a > maxOf w then .error s!"MakeInstruction: operand {a} is greater than {maxOf w}"
    else if a < 0 then .error s!"MakeInstruction: operand {a} is less than 0"
    else match encodeOperands ws as with
      | .ok bs => .ok (beBytes w a.toNat ++ bs)
      | .error m => .error m
  | _, _ => .ok []

/-- `MakeInstruction` for a known opcode (`op < numOpcodes`; the callers check): an error when the
    operand count is wrong or an operand does not fit its width -/
def makeInstruction (op : Nat) (args : List Int) : Except String (List UInt8) :=
  if (operandWidths op).length != args.length then
    .error s!"MakeInstruction: expected {(operandWidths op).length} operands, but got {args.length}"
  else match encodeOperands (operandWidths op) args with
    | .ok bs => .ok (UInt8.ofNat op :: bs)
    | .error m => .error m

def setSourceMap (m : List (Nat × Nat)) (k v : Nat) : List (Nat × Nat) :=
  match m with
  | [] => [(k, v)]
  | (k', v') :: r => if k == k' then (k, v) :: r else (k', v') :: setSourceMap r k v

/-- `emit(node, op, operands…)`; `pos = 0` stands for `parser.NoPos` (node == nil).
    An operand that does not fit is `panic(&operandError{…})`, which `compileScript` recovers and
    returns as an error (`c.error(node, err)` when there is a node): it is an *error* of `Compile`. -/
def emit (pos : Pos) (op : Nat) (args : List Int := []) : CM Nat := do
  if op ≥ numOpcodes then cpanic s!"runtime error: index out of range [{op}] with length {numOpcodes}"
  else match makeInstruction op args with
  | .error m => if pos == 0 then throw (.bare m) else throw (.err pos m)
  | .ok bs =>
    let s ← get
    set { s with insts := s.insts ++ bs.toArray, sourceMap := setSourceMap s.sourceMap s.insts.size pos }
    pure s.insts.size

/-- `emit` whose position result is not used -/
def emit_ (pos : Pos) (op : Nat) (args : List Int := []) : CM Unit := do
  let _ ← emit pos op args
  pure ()

def curPos : CM Nat := do return (← get).insts.size

/-- `copy(c.instructions[pos:], inst)`: never writes past the end -/
def patch (a : Array UInt8) (p : Nat) : List UInt8 → Array UInt8
  | [] => a
  | b :: r => patch (a.setIfInBounds p b) (p + 1) r

/-- `changeOperand(opPos, operands…)`: `c.instructions[opPos]` and `OpcodeOperands[op]` are index
    expressions (Go panics, not recovered); a `MakeInstruction` error is the recovered `operandError`. -/
def changeOperand (opPos : Nat) (args : List Int) : CM Unit := do
  let s ← get
  match s.insts[opPos]? with
  | none => cpanic s!"runtime error: index out of range [{opPos}]"
  | some op =>
    if op.toNat ≥ numOpcodes then cpanic s!"runtime error: index out of range [{op.toNat}] with length {numOpcodes}"
    else match makeInstruction op.toNat args with
    | .error m => throw (.bare m)
    | .ok bs => set { s with insts := patch s.insts opPos bs }

/-! ### constants -/

/-- Go map-key equality of the scalar constant kinds (`constsCache[obj]`) -/
def keyEq : CVal → CVal → Bool
  | .int a, .int b => a == b
  | .uint a, .uint b => a == b
  | .char a, .char b => a == b
  | .bool a, .bool b => a == b
  | .str a, .str b => a == b
  | .float a, .float b => feq a b         -- IEEE ==: −0.0 hits +0.0, NaN never hits
  | .undefined, .undefined => true
  | _, _ => false

/-- `isNegativeZero`: the float constant −0.0 is never cached -/
def isNegZero : CVal → Bool
  | .float v => v == 0x8000000000000000#64
  | _ => false

def findConst (cs : Array Const) (k : CVal) : Option Nat :=
  if isNegZero k then none else
  (List.range cs.size).find? fun i =>
    match cs[i]! with
    | .val v => !isNegZero v && keyEq v k
    | _ => false

def sameSourceMap (a b : List (Nat × Nat)) : Bool :=
  a.length == b.length && a.all fun (k, v) => b.any fun (k', v') => k == k' && v == v'

def findFn (cs : Array Const) (f : CFn) : Option Nat :=
  (List.range cs.size).find? fun i =>
    match cs[i]! with
    | .fn g => g.numParams == f.numParams && g.numLocals == f.numLocals && g.variadic == f.variadic
        && g.insts == f.insts && sameSourceMap g.sourceMap f.sourceMap
    | _ => false

def addConstant (k : CVal) : CM Nat := do
  let s ← get
  -- NaN is never found in the cache, and never stored retrievably
  match findConst s.constants k with
  | some i => pure i
  | none =>
    set { s with constants := s.constants.push (.val k) }
    pure s.constants.size

def addFnConstant (f : CFn) : CM Nat := do
  let s ← get
  match findFn s.constants f with
  | some i => pure i
  | none =>
    set { s with constants := s.constants.push (.fn f) }
    pure s.constants.size

/-! ### symbol table (symbol_table.go) -/

def lookupSym (n : String) : List (String × Symbol) → Option Symbol
  | [] => none
  | (k, v) :: r => if k == n then some v else lookupSym n r

def putSym (n : String) (sym : Symbol) : List (String × Symbol) → List (String × Symbol)
  | [] => [(n, sym)]
  | (k, v) :: r => if k == n then (n, sym) :: r else (k, v) :: putSym n sym r

/-- `nextIndex()` of the innermost table -/
def nextIndex : List Table → Nat
  | [] => 0
  | t :: rest => if t.block then nextIndex rest + t.numDefinition else t.numDefinition

/-- `updateMaxDefs(n)` -/
def updateMaxDefs (n : Nat) : List Table → List Table
  | [] => []
  | t :: rest =>
    let t' := if n > t.maxDefinition then { t with maxDefinition := n } else t
    if t.block then t' :: updateMaxDefs n rest else t' :: rest

def isBuiltinName (bs : List (String × Nat)) (n : String) : Bool := bs.any (·.1 == n)

def shadowBuiltin (bs : List (String × Nat)) (n : String) (t : Table) : Table :=
  if isBuiltinName bs n then { t with shadowed := t.shadowed ++ [n] } else t

def modTables (f : List Table → List Table) : CM Unit := modify fun s => { s with tables := f s.tables }

def headTable : CM Table := do
  match (← get).tables with
  | t :: _ => pure t
  | [] => cpanic "runtime error: invalid memory address or nil pointer dereference"

def modHead (f : Table → Table) : CM Unit :=
  modTables fun ts => match ts with | t :: r => f t :: r | [] => []

/-- the symbol `DefineLocal` finds in the store: a BUILTIN entry is only the cache left by an
    earlier `Resolve` of the builtin, not a definition -/
def definedSym (name : String) (t : Table) : Option Symbol :=
  match lookupSym name t.store with
  | some sym => if sym.scope == .builtin then none else some sym
  | none => none

/-- `DefineLocal(name)` → (symbol, existed) -/
def defineLocal (name : String) : CM (Symbol × Bool) := do
  let s ← get
  let t ← headTable
  match definedSym name t with
  | some sym => pure (sym, true)
  | none =>
    let idx := nextIndex s.tables
    let sym : Symbol := { name := name, index := idx, scope := .local_ }
    modHead fun t => shadowBuiltin s.builtins name { t with numDefinition := t.numDefinition + 1, store := putSym name sym t.store }
    modTables (updateMaxDefs (idx + 1))
    pure (sym, false)

def updateSym (name : String) (f : Symbol → Symbol) : CM Unit :=
  modHead fun t => match lookupSym name t.store with
    | some sym => { t with store := putSym name (f sym) t.store }
    | none => t

/-- the loop of `SetParams`; `k` = number of parameters defined so far (at a duplicate `numParams`
    is set back to it before the error is returned) -/
def setParamsLoop (pos : Pos) : List String → Nat → CM Unit
  | [], _ => pure ()
  | p :: rest, k => do
    let s ← get
    let t ← headTable
    if (lookupSym p t.store).isSome then do
      modHead fun t => { t with numParams := k }
      cerr pos s!"\"{p}\" redeclared in this block"
    else do
      let idx := nextIndex s.tables
      let sym : Symbol := { name := p, index := idx, scope := .local_ }
      modHead fun t => shadowBuiltin s.builtins p { t with numDefinition := t.numDefinition + 1, store := putSym p sym t.store }
      modTables (updateMaxDefs (idx + 1))
      setParamsLoop pos rest (k + 1)

/-- `SetParams(params…)` -/
def setParams (pos : Pos) (params : List String) : CM Unit := do
  if params.isEmpty then pure ()
  else do
    let t ← headTable
    if t.numParams > 0 then cerr pos "parameters already defined"
    else if t.disableParams then cerr pos "parameters disabled"
    else do
      -- Go stores `st.numParams = len(params)` before the loop and sets it back to the number of
      -- parameters defined when the loop fails; nothing in the loop reads it, so the store is
      -- made here, after the loop (same final state on every path)
      setParamsLoop pos params 0
      modHead fun t => { t with numParams := params.length }

def rootDisabled : List Table → List String
  | [] => []
  | [t] => t.disabled
  | _ :: r => rootDisabled r

/-- `Resolve(name)` on a chain of tables; returns the symbol and the updated chain -/
def resolveIn (bs : List (String × Nat)) (disabled : List String) (name : String) :
    List Table → Option Symbol × List Table
  | [] => (none, [])
  | t :: rest =>
    match lookupSym name t.store with
    | some sym => (some sym, t :: rest)
    | none =>
      match rest with
      | [] =>
        -- root: builtin fallback unless disabled
        if !disabled.contains name then
          match bs.find? (·.1 == name) with
          | some (_, idx) =>
            let sym : Symbol := { name := name, index := idx, scope := .builtin }
            (some sym, [{ t with store := putSym name sym t.store }])
          | none => (none, [t])
        else (none, [t])
      | _ =>
        let (r, rest') := resolveIn bs disabled name rest
        match r with
        | none => (none, t :: rest')
        | some sym =>
          if !t.block && sym.scope != .global && sym.scope != .builtin && sym.scope != .constLit then
            -- defineFree(original)
            let fs : Symbol := { name := sym.name, index := t.frees.length, scope := .free, constant := sym.constant }
            let t' := shadowBuiltin bs sym.name { t with frees := t.frees ++ [sym], store := putSym sym.name fs t.store }
            (some fs, t' :: rest')
          else (some sym, t :: rest')

def resolve (name : String) : CM (Option Symbol) := do
  let s ← get
  let (r, ts) := resolveIn s.builtins (rootDisabled s.tables) name s.tables
  set { s with tables := ts }
  pure r

def hasAnyConstLit : CM Bool := do
  let t ← headTable
  pure (t.hasConstLit || t.hasParentConstLit)

/-- `Fork(block)` -/
def forkTable (block : Bool) : CM Unit := do
  let t ← headTable
  modTables fun ts => { block := block, disableParams := t.disableParams,
                        hasParentConstLit := t.hasConstLit || t.hasParentConstLit } :: ts

/-- `Parent(false)` -/
def popTable : CM Table := do
  let t ← headTable
  modTables fun ts => ts.drop 1
  pure t

/-- `defineConstLit(name)` followed by `s.constLit = v`: `none` when the name already exists in
    this table -/
def defineConstLitSym (name : String) (v : Option CVal) : CM (Option Unit) := do
  let s ← get
  let t ← headTable
  match lookupSym name t.store with
  | some _ => pure none
  | none =>
    let sym : Symbol := { name := name, index := -1, scope := .constLit, constant := true, constLit := v }
    modHead fun t => shadowBuiltin s.builtins name { t with hasConstLit := true, store := putSym name sym t.store }
    pure (some ())

def findSymbolSelf (name : String) : CM (Option Symbol) := do
  pure (lookupSym name (← headTable).store)

def findByNameAll (name : String) : List Table → Option Symbol
  | [] => none
  | t :: r => match lookupSym name t.store with | some s => some s | none => findByNameAll name r


/-! ### statements and expressions (compiler.go Compile, compiler_nodes.go) -/

def constLitOfExpr : Expr → Option CVal
  | .int _ v => some (.int v) | .uint _ v => some (.uint v) | .float _ v => some (.float v)
  | .bool _ b => some (.bool b) | .str _ s => some (.str s) | .char _ v => some (.char v)
  | .undef _ => some .undefined
  | _ => none

/-- `c.emit(node, OpConstant, c.addConstant(v))` -/
def emitConstant (pos : Pos) (v : CVal) : CM Unit := do
  let i ← addConstant v
  emit_ pos OpConstant [i]

/-- `index := c.addConstant(fn)` followed by CLOSURE index nfree, or CONSTANT index when nothing is captured -/
def emitFnConstant (pos : Pos) (fn : CFn) (nfree : Nat) : CM Unit := do
  let idx ← addFnConstant fn
  if nfree > 0 then emit_ pos OpClosure [idx, nfree]
  else emit_ pos OpConstant [idx]

def emitConstLit (pos : Pos) (v : CVal) : CM Unit := do
  match v with
  | .bool true => emit_ pos OpTrue
  | .bool false => emit_ pos OpFalse
  | .undefined => emit_ pos OpNull
  | v => emitConstant pos v

/-- first component of `resolveAssignLHS` -/
def lhsName : Expr → String
  | .selector _ e _ => lhsName e
  | .index _ e _ => lhsName e
  | .ident _ n => n
  | _ => ""

/-- length of the second component of `resolveAssignLHS` -/
def lhsNumSel : Expr → Nat
  | .selector _ e _ => lhsNumSel e + 1
  | .index _ e _ => lhsNumSel e + 1
  | _ => 0

def isSelOrIndex : Expr → Bool
  | .selector .. | .index .. => true
  | _ => false

def isBinaryOperator (tok : Nat) : Bool :=
  (tAdd ≤ tok && tok ≤ tAndNot) || tok == tLAnd || tok == tLOr || tok == tEqual || tok == tNotEqual
  || tok == tLess || tok == tGreater || tok == tLessEq || tok == tGreaterEq

def compoundOp (tok : Nat) : Option Nat :=
  if tok == tAddAssign then some tAdd else if tok == tSubAssign then some tSub
  else if tok == tMulAssign then some tMul else if tok == tQuoAssign then some tQuo
  else if tok == tRemAssign then some tRem else if tok == tAndAssign then some tAnd
  else if tok == tOrAssign then some tOr else if tok == tAndNotAssign then some tAndNot
  else if tok == tXorAssign then some tXor else if tok == tShlAssign then some tShl
  else if tok == tShrAssign then some tShr else none

def currentLoop : CM (Option Loop) := do return (← get).loops.head?

def modLoop (f : Loop → Loop) : CM Unit :=
  modify fun s => { s with loops := match s.loops with | l :: r => f l :: r | [] => [] }

/-- `enterLoop` -/
def pushLoop : CM Unit :=
  modify fun s => { s with loops := { lastTryCatchIndex := s.tryCatchIndex } :: s.loops }

/-- `leaveLoop`; returns the loop object `enterLoop` created -/
def popLoop : CM Loop := do
  let s ← get
  set { s with loops := s.loops.drop 1 }
  pure (s.loops.head?.getD { lastTryCatchIndex := -1 })

/-- `enterLoop()` … `leaveLoop()` around the loop body; returns the loop object -/
def withLoop (body : CM Unit) : CM Loop := do
  pushLoop
  body
  popLoop

/-- `for _, pos := range ps { c.changeOperand(pos, target) }` -/
def patchAll (target : Nat) : List Nat → CM Unit
  | [] => pure ()
  | p :: r => do changeOperand p [target]; patchAll target r

/-- big-endian read of the `w`-byte operand at `i` -/
def readBE (insts : Array UInt8) (i w : Nat) : Nat :=
  (List.range w).foldl (fun acc k => acc * 256 + (insts[i + k]?.getD 0).toNat) 0

/-- The scan of `Bytecode()`: last opcode and the set of jump targets not (yet) reached.
    `none` = a Go index panic (`OpcodeOperands[op]` with an unknown opcode byte, or `ReadOperands`
    reading past the end of a truncated instruction). -/
def scanFn (insts : Array UInt8) : Nat → Nat → Nat → List Nat → Option (Nat × List Nat)
  | 0, _, lastOp, pend => some (lastOp, pend)
  | fuel+1, i, lastOp, pend =>
    match insts[i]? with
    | none => some (lastOp, pend)
    | some opb =>
      let op := opb.toNat
      if op ≥ numOpcodes then none
      else
        let width := opWidth op
        if i + 1 + width > insts.size then none
        else
          let pend := if op == OpJump || op == OpJumpFalsy || op == OpAndJump || op == OpOrJump
            then (if pend.contains (readBE insts (i + 1) 4) then pend else readBE insts (i + 1) 4 :: pend) else pend
          let pend := pend.filter (· != i)
          scanFn insts fuel (i + width + 1) op pend

/-- `Bytecode()` after the scan: append RETURN 0 unless the stream already ends in RETURN and no
    jump targets the position after it; then collect the function. -/
def finishTail (lastOp : Nat) (pend : List Nat) : CM CFn := do
  (if lastOp != OpReturn || !pend.isEmpty then emit_ 0 OpReturn [0] else pure ())
  let s ← get
  let t ← headTable
  pure { numParams := t.numParams, numLocals := t.maxDefinition, variadic := s.variadic,
         insts := s.insts, sourceMap := s.sourceMap }

/-- `Bytecode()` -/
def finishFn : CM CFn := do
  let s ← get
  match scanFn s.insts (s.insts.size + 1) 0 0 [] with
  | none => cpanic "runtime error: index out of range"
  | some (lastOp, pend) => finishTail lastOp pend

/-- `c.symbolTable = c.symbolTable.Fork(true)` … `c.symbolTable = c.symbolTable.Parent(false)` -/
def withBlock (body : CM Unit) : CM Unit := do
  forkTable true
  body
  let _ ← popTable
  pure ()

/-- `compileBlockStmt`: nothing for an empty block, else the statements (`act`) in a forked table -/
def blockOf (body : List Stmt) (act : CM Unit) : CM Unit :=
  if body.isEmpty then pure () else withBlock act

/-- `compileDefine` -/
def compileDefine (pos : Pos) (ident : String) (allowRedefine : Bool) (keyword : Nat) : CM Unit := do
  let (sym, exists_) ← defineLocal ident
  if !allowRedefine && exists_ && ident != "_" then cerr pos s!"\"{ident}\" redeclared in this block"
  else if exists_ && sym.scope != .local_ && sym.scope != .constLit then
    -- only a local can be defined again: a global of the same name has no local slot
    cerr pos s!"\"{ident}\" redeclared in this block"
  else if sym.constant then cerr pos s!"assignment to constant variable \"{ident}\""
  else do
    let s ← get
    if s.iotaVal > -1 && ident == "iota" && keyword == tConst then cerr pos "assignment to iota"
    else do
      emit_ pos OpDefineLocal [sym.index]
      updateSym ident fun y => { y with constant := keyword == tConst && ident != "_" }

/-- `compileAssign(node, symbol, ident)` -/
def compileAssignSym (pos : Pos) (sym : Symbol) (ident : String) : CM Unit := do
  if sym.constant then cerr pos s!"assignment to constant variable \"{ident}\""
  else match sym.scope with
    | .local_ => emit_ pos OpSetLocal [sym.index]
    | .free => emit_ pos OpSetFree [sym.index]
    | .global => emit_ pos OpSetGlobal [sym.index]
    | _ => cerr pos s!"unresolved reference \"{ident}\""

/-- what `compileDeclValue` / `defineConstLit` look at in a value expression -/
inductive VSum where
  | lit (v : CVal)
  | ident (name : String)
  | other
  deriving Inhabited

def vsumOf (e : Expr) : VSum :=
  match constLitOfExpr e with
  | some v => .lit v
  | none => match e with
    | .ident _ n => .ident n
    | _ => .other

/-- `defineConstLit(lhs, rhs)` (called for `const` specs only) -/
def defineConstLit (name : String) (v : VSum) : CM Bool := do
  if name == "iota" || name == "_" then pure false
  else match v with
    | .lit cv => do
      match (← defineConstLitSym name (some cv)) with
      | some () => pure true
      | none => pure false
    | .ident rn =>
      if rn == "iota" then do
        if (← findSymbolSelf "iota").isNone then do
          let iv := (← get).iotaVal
          match (← defineConstLitSym name (some (.int (BitVec.ofInt 64 iv)))) with
          | some () => pure true
          | none => pure false
        else pure false
      else if rn != "_" then do
        if (← hasAnyConstLit) then
          match findByNameAll rn (← get).tables with
          | some s1 =>
            if s1.scope == .constLit then do
              match (← defineConstLitSym name s1.constLit) with
              | some () => pure true
              | none => pure false
            else pure false
          | none => pure false
        else pure false
      else pure false
    | .other => pure false

/-- one identifier of a value spec: `defineConstLit`, else `compileAssignStmt(node, [ident], [v], tok, Define)` -/
def compileValueIdent (pos : Pos) (tok : Nat) (name : String) (act : CM Unit) (sum : VSum) : CM Unit := do
  let defined ← (if tok == tConst then defineConstLit name sum else pure false)
  if defined then pure ()
  else do
    act
    compileDefine pos name false tok

/-- identifiers of a value spec that are left when its value list is exhausted -/
def compileIdentsNoValue (pos : Pos) (tok : Nat) (last : Option (CM Unit × VSum)) : List (Pos × String) → CM Unit
  | [] => pure ()
  | (ipos, name) :: rest => do
    (match (if tok == tConst then last else none) with
     | some (act, sum) => compileValueIdent pos tok name act sum
     | none => compileValueIdent pos tok name (emit_ ipos OpNull) (.lit .undefined))
    compileIdentsNoValue pos tok last rest

def declParamVariadic (pos : Pos) : List (Pos × String × Bool) → CM Unit
  | [] => pure ()
  | (_, _, va) :: rest => do
    (if va then do
      if (← get).variadic then cerr pos "multiple variadic param declaration"
      else modify fun s => { s with variadic := true }
     else pure ())
    declParamVariadic pos rest

def declGlobals (pos : Pos) : List (Pos × String × Bool) → CM Unit
  | [] => pure ()
  | (_, name, _) :: rest => do
    let s ← get
    let t ← headTable
    match lookupSym name t.store with
    | some sym =>
      if sym.scope != .global then cerr pos s!"\"{name}\" redeclared in this block"
      else do
        let idx ← addConstant (.str name.toUTF8.toList)
        updateSym name fun y => { y with index := idx }
        declGlobals pos rest
    | none => do
      modHead fun t => shadowBuiltin s.builtins name { t with store := putSym name { name := name, index := -1, scope := .global } t.store }
      let idx ← addConstant (.str name.toUTF8.toList)
      updateSym name fun y => { y with index := idx }
      declGlobals pos rest

def emitFreePtrs (pos : Pos) : List Symbol → CM Unit
  | [] => pure ()
  | s :: r => do
    (match s.scope with
     | .local_ => emit_ pos OpGetLocalPtr [s.index]
     | .free => emit_ pos OpGetFreePtr [s.index]
     | _ => pure ())
    emitFreePtrs pos r

def compileIdent (pos : Pos) (name : String) : CM Unit := do
  match (← resolve name) with
  | none =>
    let s ← get
    if s.iotaVal < 0 || name != "iota" then cerr pos s!"unresolved reference \"{name}\""
    else do
      emitConstant pos (.int (BitVec.ofInt 64 s.iotaVal))
  | some sym =>
    match sym.scope with
    | .global => emit_ pos OpGetGlobal [sym.index]
    | .local_ => emit_ pos OpGetLocal [sym.index]
    | .builtin => emit_ pos OpGetBuiltin [sym.index]
    | .free => emit_ pos OpGetFree [sym.index]
    | .constLit =>
      if sym.constant then
        match sym.constLit with
        | some v => emitConstLit pos v
        | none => cpanic "unexpected object type: <nil>"
      else cpanic "symbol is not defined as constant but its scope is CONSTLIT"

/-- the `catch` identifier (both before the jump and in `compileCatchStmt`) -/
def defineCatchIdent (pos : Pos) (name : String) : CM Unit := do
  let (sym, exists_) ← defineLocal name
  if exists_ then emit_ pos OpSetLocal [sym.index]
  else emit_ pos OpDefineLocal [sym.index]

def compileBranch (pos : Pos) (tok : Nat) : CM Unit := do
  if tok == tBreak || tok == tContinue then
    match (← currentLoop) with
    | none => cerr pos (if tok == tBreak then "break not allowed outside of loop" else "continue not allowed outside of loop")
    | some loop => do
      let s ← get
      (if loop.lastTryCatchIndex != s.tryCatchIndex then emit_ pos OpFinalizer [loop.lastTryCatchIndex + 1]
       else pure ())
      let p ← emit pos OpJump [0]
      if tok == tBreak then modLoop fun l => { l with breaks := l.breaks ++ [p] }
      else modLoop fun l => { l with continues := l.continues ++ [p] }
  else cerr pos "invalid branch statement"

/-- key / value variable of a for-in statement -/
def forinVar (pos : Pos) (itIdx : Int) (op : Nat) (name : String) : CM Unit := do
  if name != "_" then do
    let (ks, ex) ← defineLocal name
    if ex then cerr pos s!"\"{name}\" redeclared in this block"
    else do
      emit_ pos OpGetLocal [itIdx]
      emit_ pos op
      emit_ pos OpDefineLocal [ks.index]
  else pure ()

/-- the fork of `compileFuncLit`: a fresh instruction stream, source map and loop stack; the
    symbol tables and the constant pool are shared with the enclosing compiler -/
def enterFn (variadic : Bool) : CM CState := do
  let outer ← get
  set { outer with insts := #[], sourceMap := [], loops := [], tryCatchIndex := -1, iotaVal := -1, variadic := variadic }
  pure outer

/-- back in the enclosing compiler after `fork.Bytecode()` -/
def leaveFn (outer : CState) : CM Table := do
  let inner ← get
  let ft ← popTable
  let inner' ← get
  set { outer with tables := inner'.tables, constants := inner.constants }
  pure ft

/-- `compileAssignStmt(node, lhs, rhs, keyword, op)`.  The pieces that recurse into the
    operands arrive as compile actions: `rhsAct` (all right-hand sides, `nrhs` of them), `lhs0Act`
    (`c.Compile(lhs[0])`; a Go index panic for an empty list), `defAssign0`
    (`compileDefineAssign(node, lhs[0], …)`, likewise) and `destruct tempIdx` (the loop of
    `compileDestructuring`). -/
def compileAssign (pos : Pos) (lhs : List Expr) (nrhs : Nat) (rhsAct lhs0Act defAssign0 : CM Unit)
    (destruct : Int → CM Unit) (op : Nat) : CM Unit := do
  if nrhs > 1 then cerr pos "multiple expressions on the right side not supported"
  else if lhs.any isSelOrIndex && op == tDefine then cerr pos "operator ':=' not allowed with selector"
  else if op != tAssign && op != tDefine then do
    lhs0Act
    rhsAct
    (match compoundOp op with
     | some t => emit_ pos OpBinaryOp [t]
     | none => pure ())
    defAssign0
  else if lhs.length > 1 then do
    let (sym, _) ← defineLocal ":array"
    emit_ pos OpGetBuiltin [Gen.builtinMakeArray]
    emitConstant pos (.int (BitVec.ofNat 64 lhs.length))
    rhsAct
    -- compileDestructuring
    emit_ pos OpCall [2, 0]
    emit_ pos OpDefineLocal [sym.index]
    destruct sym.index
    if !(← headTable).block then do
      emit_ pos OpNull
      emit_ pos OpSetLocal [sym.index]
  else do
    rhsAct
    defAssign0

/-- `compileFuncLit` around the body: `Fork(false)`, `SetParams`, the forked compiler, `Bytecode()`;
    returns the compiled function and the function's symbol table -/
def withFn (pos : Pos) (variadic : Bool) (params : List String) (body : CM Unit) : CM (CFn × Table) := do
  -- (the forked compiler is entered first: in Go the two compilers have separate instruction
  -- buffers, and `Fork` / `SetParams` touch the symbol table only)
  let outer ← enterFn variadic
  forkTable false
  setParams pos params
  body
  let fn ← finishFn
  let ft ← leaveFn outer
  pure (fn, ft)

mutual
def compileExpr : Expr → CM Unit
  | .paren _ e => compileExpr e
  | .binary pos tok l r => do
    -- (with const literals in scope the real compiler asks the optimizer; a no-op when it is off)
    if tok == tLAnd || tok == tLOr then do
      compileExpr l
      let jp ← emit pos (if tok == tLAnd then OpAndJump else OpOrJump) [0]
      compileExpr r
      changeOperand jp [(← curPos)]
    else do
      compileExpr l
      compileExpr r
      if tok == tEqual then emit_ pos OpEqual
      else if tok == tNotEqual then emit_ pos OpNotEqual
      else if !isBinaryOperator tok then cerr pos "invalid binary operator"
      else emit_ pos OpBinaryOp [tok]
  | .int pos v => emitConstant pos (.int v)
  | .uint pos v => emitConstant pos (.uint v)
  | .float pos v => emitConstant pos (.float v)
  | .bool pos b => if b then emit_ pos OpTrue else emit_ pos OpFalse
  | .str pos s => emitConstant pos (.str s)
  | .char pos v => emitConstant pos (.char v)
  | .undef pos => emit_ pos OpNull
  | .unary pos tok e => do
    compileExpr e
    if tok == tNot || tok == tSub || tok == tXor || tok == tAdd then emit_ pos OpUnary [tok]
    else cerr pos "invalid unary operator"
  | .ident pos name => compileIdent pos name
  | .array pos es => do
    compileExprs es
    emit_ pos OpArray [es.length]
  | .map pos es => do
    compileMapElems pos es
    emit_ pos OpMap [es.length * 2]
  | .selector pos e sel => do
    let n ← compileIndexChain e (compileExpr e)
    compileExpr sel
    emit_ pos OpGetIndex [(n + 1 : Nat)]
  | .index pos e i => do
    let n ← compileIndexChain e (compileExpr e)
    compileExpr i
    emit_ pos OpGetIndex [(n + 1 : Nat)]
  | .slice pos e lo hi => do
    compileExpr e
    (match lo with | some x => compileExpr x | none => emit_ pos OpNull)
    (match hi with | some x => compileExpr x | none => emit_ pos OpNull)
    emit_ pos OpSliceIndex
  | .func pos variadic params _ body => do
    let (fn, ft) ← withFn pos variadic params (blockOf body (compileStmts body))
    emitFreePtrs pos ft.frees
    if fn.numLocals > 256 then throw (.err pos "SymbolLimitError: number of local symbols exceeds the limit")
    else do
      emitFnConstant pos fn ft.frees.length
  | .call pos ellipsis f args =>
    match f with
    | .selector _ se ssel => do
      compileExpr se
      compileExprs args
      compileExpr ssel
      emit_ pos OpCallName [args.length, if ellipsis then 1 else 0]
    | f => do
      compileExpr f
      compileExprs args
      emit_ pos OpCall [args.length, if ellipsis then 1 else 0]
  | .import_ _ _ => cunsupported "import expression"
  | .cond pos c t f =>
    match c with
    | .bool _ b => if b then compileExpr t else compileExpr f
    | c => do
      compileExpr c
      let j1 ← emit pos OpJumpFalsy [0]
      compileExpr t
      let j2 ← emit pos OpJump [0]
      changeOperand j1 [(← curPos)]
      compileExpr f
      changeOperand j2 [(← curPos)]

def compileExprs : List Expr → CM Unit
  | [] => pure ()
  | e :: r => do compileExpr e; compileExprs r

def compileMapElems (pos : Pos) : List (String × Expr) → CM Unit
  | [] => pure ()
  | (k, v) :: r => do
    emitConstant pos (.str k.toUTF8.toList)
    compileExpr v
    compileMapElems pos r

/-- `resolveIndexExprs(e)` compiled in place: the base expression, then every index of the chain
    in source order; returns the number of indexes.  `self` is the compile action of `e` itself
    (`compileExpr e`, supplied by the caller so that the recursion stays structural); it is run
    when `e` is not an index expression, i.e. when `e` is the base. -/
def compileIndexChain : Expr → CM Unit → CM Nat
  | .index _ e i, _ => do
    let n ← compileIndexChain e (compileExpr e)
    compileExpr i
    pure (n + 1)
  | _, self => do self; pure 0

/-- the selectors of `resolveAssignLHS(e)` compiled in source order -/
def compileSelChain : Expr → CM Unit
  | .selector _ e s => do compileSelChain e; compileExpr s
  | .index _ e i => do compileSelChain e; compileExpr i
  | _ => pure ()

def compileStmts : List Stmt → CM Unit
  | [] => pure ()
  | s :: r => do compileStmt s; compileStmts r

/-- `compileDefineAssign` -/
def compileDefineAssign (pos : Pos) (lhs : Expr) (keyword op : Nat) (allowRedefine : Bool) : CM Unit :=
  match lhs with
  | .selector _ e last | .index _ e last => do
    -- numSel = lhsNumSel e + 1 > 0
    match (← resolve (lhsName e)) with
    | none => cerr pos s!"unresolved reference \"{lhsName e}\""
    | some sym => do
      (match sym.scope with
       | .local_ => emit_ pos OpGetLocal [sym.index]
       | .free => emit_ pos OpGetFree [sym.index]
       | .global => emit_ pos OpGetGlobal [sym.index]
       | _ => cerr pos s!"unexpected scope for symbol \"{lhsName e}\"")
      (if lhsNumSel e > 0 then do
        compileSelChain e
        emit_ pos OpGetIndex [(lhsNumSel e : Nat)]
       else pure ())
      compileExpr last
      emit_ pos OpSetIndex
  | lhs =>
    -- numSel = 0
    if op == tDefine then compileDefine pos (lhsName lhs) allowRedefine keyword
    else do
      match (← resolve (lhsName lhs)) with
      | none => cerr pos s!"unresolved reference \"{lhsName lhs}\""
      | some sym => compileAssignSym pos sym (lhsName lhs)

/-- the loop of `compileDestructuring` -/
def compileDestructure (pos : Pos) (keyword op : Nat) (numLHS : Nat) (tempIdx : Int) : List Expr → Nat → Nat → CM Unit
  | [], _, _ => pure ()
  | e :: rest, k, found => do
    let found ← (if op == tDefine then
        (match e with
         | .ident _ n => do if (← findSymbolSelf n).isSome then pure (found + 1) else pure found
         | _ => pure found)
      else pure found)
    if op == tDefine && found == numLHS then cerr pos "no new variable on the left side"
    else do
      emit_ pos OpGetLocal [tempIdx]
      emitConstant pos (.int (BitVec.ofNat 64 k))
      emit_ pos OpGetIndex [1]
      compileDefineAssign pos e keyword op (keyword != tConst)
      compileDestructure pos keyword op numLHS tempIdx rest (k + 1) found

/-- identifiers and values of one value spec, in step; `last` is the last explicit value seen in
    this declaration (its compile action and what `defineConstLit` looks at) -/
def compileValueIdents (pos : Pos) (tok : Nat) : List (Pos × String) → List (Option Expr) →
    Option (CM Unit × VSum) → CM (Option (CM Unit × VSum))
  | [], _, last => pure last
  | idents, [], last => do compileIdentsNoValue pos tok last idents; pure last
  | (ipos, name) :: irest, v? :: vrest, last =>
    match v? with
    | some v => do
      compileValueIdent pos tok name (compileExpr v) (vsumOf v)
      compileValueIdents pos tok irest vrest (some (compileExpr v, vsumOf v))
    | none => do
      (match (if tok == tConst then last else none) with
       | some (act, sum) => compileValueIdent pos tok name act sum
       | none => compileValueIdent pos tok name (emit_ ipos OpNull) (.lit .undefined))
      compileValueIdents pos tok irest vrest last

def compileValueSpecs (pos : Pos) (tok : Nat) : List (Option Nat × List (Pos × String) × List (Option Expr)) →
    Option (CM Unit × VSum) → CM Unit
  | [], _ => pure ()
  | (iota, idents, values) :: rest, last => do
    (if tok == tConst then
      (match iota with
       | some v => modify fun s => { s with iotaVal := v }
       | none => cerr pos "invalid iota value")
     else pure ())
    let last ← compileValueIdents pos tok idents values last
    compileValueSpecs pos tok rest last

def compileStmt : Stmt → CM Unit
  | .empty _ => pure ()
  | .expr pos e => do compileExpr e; emit_ pos OpPop
  | .incdec pos tok tokPos e => do
    -- compileAssignStmt(node, [e], [IntLit 1 @tokPos], Var, op) with op a compound assignment
    compileExpr e
    emitConstant tokPos (.int 1#64)
    (match compoundOp (if tok == tDec then tSubAssign else tAddAssign) with
     | some t => emit_ pos OpBinaryOp [t]
     | none => pure ())
    compileDefineAssign pos e tVar (if tok == tDec then tSubAssign else tAddAssign) false
  | .assign pos tok lhs rhs =>
    compileAssign pos lhs rhs.length (compileExprs rhs)
      (match lhs with
       | e0 :: _ => compileExpr e0
       | [] => cpanic "runtime error: index out of range [0] with length 0")
      (match lhs with
       | e0 :: _ => compileDefineAssign pos e0 tVar tok false
       | [] => cpanic "runtime error: index out of range [0] with length 0")
      (fun tempIdx => compileDestructure pos tVar tok lhs.length tempIdx lhs 0 0) tok
  | .block _ body => blockOf body (compileStmts body)
  | .if_ pos init cond _ body else_ =>
    withBlock do
      (match init with | some i => compileStmt i | none => pure ())
      match cond with
      | .bool _ true => blockOf body (compileStmts body)
      | .bool _ false => do
        let j ← emit pos OpJump [0]
        match else_ with
        | some e => do
          let j2 ← emit pos OpJump [0]
          changeOperand j [(← curPos)]
          compileStmt e
          changeOperand j2 [(← curPos)]
        | none => changeOperand j [(← curPos)]
      | c => do
        compileExpr c
        let j ← emit pos OpJumpFalsy [0]
        blockOf body (compileStmts body)
        match else_ with
        | some e => do
          let j2 ← emit pos OpJump [0]
          changeOperand j [(← curPos)]
          compileStmt e
          changeOperand j2 [(← curPos)]
        | none => changeOperand j [(← curPos)]
  | .try_ pos _ body catch_ finally_ => do
    withBlock do
      modify fun s => { s with tryCatchIndex := s.tryCatchIndex + 1 }
      let optry ← emit pos OpSetupTry [0, 0]
      compileStmts body
      match catch_ with
      | some (cpos, ident, _, cbody) => do
        (match ident with
         | some name => do emit_ cpos OpNull; defineCatchIdent pos name
         | none => pure ())
        let opjump ← emit pos OpJump [0]
        let catchPos ← curPos
        -- compileCatchStmt
        emit_ cpos OpSetupCatch
        (match ident with
         | some name => defineCatchIdent cpos name
         | none => emit_ cpos OpPop)
        compileStmts cbody
        let finallyPos ← (match finally_ with
          | some (fpos, _, fbody) => do let p ← emit fpos OpSetupFinally; compileStmts fbody; pure p
          | none => emit pos OpSetupFinally)
        changeOperand optry [catchPos, finallyPos]
        changeOperand opjump [finallyPos]
      | none => do
        let finallyPos ← (match finally_ with
          | some (fpos, _, fbody) => do let p ← emit fpos OpSetupFinally; compileStmts fbody; pure p
          | none => emit pos OpSetupFinally)
        changeOperand optry [0, finallyPos]
    -- deferred: Parent(false) (end of withBlock); emit THROW 0; tryCatchIndex--
    emit_ pos OpThrow [0]
    modify fun s => { s with tryCatchIndex := s.tryCatchIndex - 1 }
  | .throw pos e => do
    (match e with | some x => compileExpr x | none => pure ())
    emit_ pos OpThrow [1]
  | .branch pos tok => compileBranch pos tok
  | .return_ pos e =>
    match e with
    | none => do
      let s ← get
      (if s.tryCatchIndex > -1 then emit_ pos OpFinalizer [0] else pure ())
      emit_ pos OpReturn [0]
    | some x => do
      compileExpr x
      let s ← get
      (if s.tryCatchIndex > -1 then emit_ pos OpFinalizer [0] else pure ())
      emit_ pos OpReturn [1]
  | .for_ pos init cond post _ body =>
    withBlock do
      (match init with | some i => compileStmt i | none => pure ())
      let preCondPos ← curPos
      let postCondPos ← (match cond with
        | some c => do compileExpr c; let p ← emit pos OpJumpFalsy [0]; pure (some p)
        | none => pure none)
      let loop ← withLoop (blockOf body (compileStmts body))
      let postBodyPos ← curPos
      (match post with | some p => compileStmt p | none => pure ())
      emit_ pos OpJump [preCondPos]
      let postStmtPos ← curPos
      (match postCondPos with | some j => changeOperand j [postStmtPos] | none => pure ())
      patchAll postStmtPos loop.breaks
      patchAll postBodyPos loop.continues
  | .forin pos key value iter _ body =>
    withBlock do
      let (itSym, exists_) ← defineLocal ":it"
      if exists_ then cerr pos ":it redeclared in this block"
      else do
        compileExpr iter
        emit_ pos OpIterInit
        emit_ pos OpDefineLocal [itSym.index]
        let preCondPos ← curPos
        emit_ pos OpGetLocal [itSym.index]
        emit_ pos OpIterNext
        let postCondPos ← emit pos OpJumpFalsy [0]
        let loop ← withLoop (do
          forinVar pos itSym.index OpIterKey key
          forinVar pos itSym.index OpIterValue value
          blockOf body (compileStmts body))
        let postBodyPos ← curPos
        emit_ pos OpJump [preCondPos]
        let postStmtPos ← curPos
        changeOperand postCondPos [postStmtPos]
        patchAll postStmtPos loop.breaks
        patchAll postBodyPos loop.continues
  | .declParam pos specs => do
    -- compileDeclStmt: `len(decl.Specs) == 0` is checked for every declaration kind
    if specs.isEmpty then cerr pos "empty declaration not allowed"
    else if (← get).tables.length > 1 then cerr pos "param not allowed in this scope"
    else do
      declParamVariadic pos specs
      setParams pos (specs.map fun (_, n, _) => n)
  | .declGlobal pos specs => do
    if specs.isEmpty then cerr pos "empty declaration not allowed"
    else if (← get).tables.length > 1 then cerr pos "global not allowed in this scope"
    else declGlobals pos specs
  | .declValue pos tok specs => do
    if specs.isEmpty then cerr pos "empty declaration not allowed"
    else do
      compileValueSpecs pos tok specs none
      if tok == tConst then modify fun s => { s with iotaVal := -1 }
end

/-- result of `Compile(script, {NoOptimize: true, SymbolTable: fresh})` -/
structure Bytecode where
  main : CFn
  constants : Array Const
  deriving Repr, Inhabited

def maxNumLocals := 256

/-- `compileScript` after parsing, with the optimizer off: `Compile(file)`, `Bytecode()`, the
    `NumLocals > maxNumLocals` check; the deferred `recover()` of `*operandError` is the `.err` /
    `.bare` result of `emit` / `changeOperand`. -/
def compileProg (file : List Stmt) : CM Bytecode := do
  compileStmts file
  let fn ← finishFn
  if fn.numLocals > maxNumLocals then throw (.bare "SymbolLimitError: number of local symbols exceeds the limit")
  else pure { main := fn, constants := (← get).constants }

def initState (builtins : List (String × Nat)) (disabled : List String) : CState :=
  { tables := [{ disabled := disabled }], builtins := builtins }

def compileFile (builtins : List (String × Nat)) (disabled : List String) (file : List Stmt) : Except CErr Bytecode :=
  ((compileProg file).run.run (initState builtins disabled)).1

end UgoVerif.Compile
