import UgoVerif.Gen.Numeric
/-
  Hand-written part of the operator model: recursion through arrays and maps
  (`Array.Equal`, `Map.Equal`, `Array.BinaryOp`, `Map.BinaryOp` of objects.go) and
  the dispatch on the dynamic type of the left operand (what a Go interface
  method call does).  The scalar cells are the regenerated `Gen.*` definitions.
  Tied to the implementation by the `ops` correspondence stream.
-/
namespace UgoVerif.Model
open UgoVerif UgoVerif.Go UgoVerif.Gen

def lookup (k : Bytes) : List (Bytes × Val) → Option Val
  | [] => none
  | (k', v) :: rest => if k == k' then some v else lookup k rest

mutual
/-- `left.Equal(right)` -/
def valEqual (F : FloatOps) : Val → Val → Bool
  | .undefined, r => Undefined_Equal F () r
  | .int o, r => Int_Equal F o r
  | .uint o, r => Uint_Equal F o r
  | .float o, r => Float_Equal F o r
  | .char o, r => Char_Equal F o r
  | .bool o, r => Bool_Equal F o r
  | .str o, r => String_Equal F o r
  | .bytes o, r => Bytes_Equal F o r
  | .array xs, .array ys => listEqual F xs ys
  | .array _, _ => false
  | .map m, .map n => m.length == n.length && mapEqual F m n
  | .map _, _ => false
  -- *Function, *BuiltinFunction, *Error, *ObjectPtr: same dynamic type and same pointer
  | .opaque tn i, .opaque tn' i' => tn == tn' && i == i'
  | .opaque _ _, _ => false
/-- objects.go `Array.Equal`: same length and element-wise `Equal`. -/
def listEqual (F : FloatOps) : List Val → List Val → Bool
  | [], [] => true
  | x :: xs, y :: ys => valEqual F x y && listEqual F xs ys
  | _, _ => false
/-- objects.go `Map.Equal` loop: every key of the left map is present on the right with an equal value. -/
def mapEqual (F : FloatOps) : List (Bytes × Val) → List (Bytes × Val) → Bool
  | [], _ => true
  | (k, x) :: rest, n =>
    (match lookup k n with
     | some y => valEqual F x y
     | none => false) && mapEqual F rest n
end

/-- `left.BinaryOp(tok, right)` (vm.go OpBinaryOp dispatches on the dynamic type of `left`). -/
def binaryOp (F : FloatOps) (S : ObjOps) (tok : Tok) (left right : Val) : Res Val :=
  match left with
  | .undefined => Undefined_BinaryOp F S tok () right
  | .int o => Int_BinaryOp F S tok o right
  | .uint o => Uint_BinaryOp F S tok o right
  | .float o => Float_BinaryOp F S tok o right
  | .char o => Char_BinaryOp F S tok o right
  | .bool o => Bool_BinaryOp F S tok o right
  | .str o => String_BinaryOp F S tok o right
  | .bytes o => Bytes_BinaryOp F S tok o right
  | .array xs =>
    -- objects.go Array.BinaryOp
    match tok with
    | .Add => match right with
      | .array ys => .ok (.array (xs ++ ys))
      | r => .ok (.array (xs ++ [r]))
    | .Less | .LessEq =>
      match right with
      | .undefined => .ok (.bool false)
      | r => .err (.operandType tok.str "array" r.typeName)
    | .Greater | .GreaterEq =>
      match right with
      | .undefined => .ok (.bool true)
      | r => .err (.operandType tok.str "array" r.typeName)
    | _ => .err (.operandType tok.str "array" right.typeName)
  | .map _ =>
    -- objects.go Map.BinaryOp
    match right, tok with
    | .undefined, .Less | .undefined, .LessEq => .ok (.bool false)
    | .undefined, .Greater | .undefined, .GreaterEq => .ok (.bool true)
    | r, _ => .err (.operandType tok.str "map" r.typeName)
  | .opaque tn _ =>
    -- ObjectImpl.BinaryOp for function-like objects: ErrInvalidOperator, which the VM
    -- rewrites to InvalidOperatorError(tok); not a built-in *value* type of C15.
    .err (.invalidOperator (tok.str ++ " " ++ tn))

/-- vm.go OpEqual / OpNotEqual. -/
def opEqual (F : FloatOps) (l r : Val) : Val := .bool (valEqual F l r)
def opNotEqual (F : FloatOps) (l r : Val) : Val := .bool (!valEqual F l r)

end UgoVerif.Model
