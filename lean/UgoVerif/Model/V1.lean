import UgoVerif.Model.Bytecode
/-
  encoder/v1.go `convCompFuncV1ToV2` (after the two `fix:` commits of C11): the
  conversion of one compiled function from the version-1 instruction layout
  (jump-class operands 2 bytes wide) to the current one (4 bytes), on byte
  strings, in Go statement order, with every panic site explicit.

  Representation: a Go loop `for i := 0; i < len(ins); { … i += 1 + w }` is a
  function of the suffix `rest = ins[i:]` (and `i`); `ins[i]` is the head of the
  suffix, `ins[i+1:i+1+w]` is `tail.take w` and panics unless `w ≤ tail.length`.
  The `fuel` argument only makes the recursion structural (every iteration
  consumes at least the opcode byte); `convFn` supplies `len+1`, and
  `Props.C11.conv_total` shows the out-of-fuel branch is never taken.

  The source map `map[int]int` is an association list with distinct keys; the
  converted map is listed in the order the Go loop inserts the entries (which is
  ascending key order).  `CompiledFunction` fields other than Instructions and
  SourceMap are untouched by the converter.  `convBytecodeV1ToV2` applies
  `convFn` to Main and to every `*CompiledFunction` constant.
-/
namespace UgoVerif.Model.V1
open UgoVerif.Go UgoVerif.Gen.Opcodes UgoVerif.Model.Bytecode

abbrev SrcMap := List (Nat × Nat)

/-- `opWidth[op]` of convBytecodeV1ToV2: total operand width in version 1 -/
def opWidthTable : List Nat := V1.opcodeOperandsTable.map List.sum

/-- `case opv1.OpJump, opv1.OpJumpFalsy, opv1.OpAndJump, opv1.OpOrJump, opv1.OpSetupTry` -/
def isJumpClass (op : Nat) : Bool := convJumpClass.contains op

def goErr (msg : String) : Err := .other "error" msg

/-- `ugo.MakeInstruction(buf[:0], op, args...)` for non-negative arguments (the arguments
    here come from `ReadOperands`, which yields values `≥ 0`, plus a non-negative shift). -/
def makeInstruction (op : Nat) (args : List Nat) : Res Bytes :=
  match opcodeOperands op with
  | none => .panic "runtime error: index out of range"            -- OpcodeOperands[op]
  | some ws =>
    if ws.length ≠ args.length then .err (goErr "MakeInstruction: wrong number of operands")
    else if (List.zip ws args).any (fun wa => decide (wa.2 > makeInstructionMax wa.1)) then
      .err (goErr "MakeInstruction: operand is greater than the maximum")
    else
      match makeInstructionLayout op with
      | none => .err (.other "MakeInstruction" "unknown Opcode")
      | some lay =>
        let bytes := lay.mapM (fun ks => (args[ks.1]?).map (fun a => UInt8.ofNat (a >>> ks.2)))
        match bytes with
        | some bs => .ok (UInt8.ofNat op :: bs)
        | none => .panic "runtime error: index out of range"      -- args[k]

/-- first loop: is there an instruction the converter has to widen? -/
def hasJumpLoop : Nat → Bytes → Res Bool
  | 0, _ => .panic "out of fuel"
  | _+1, [] => .ok false
  | fuel+1, b :: tail =>
    if isJumpClass b.toNat then .ok true
    else
      match opWidthTable[b.toNat]? with
      | none => .err (goErr "unknown opcode")                       -- int(op) >= len(opWidth)
      | some w => hasJumpLoop fuel (tail.drop w)

/-- first pass: `newPos` from offset `i` on (one entry per old offset `i, i+1, …, len`) and the
    final `shift`.  After the truncation check `i+w < len`, so the guard `j < len` of the fill
    loop never cuts the segment `i … i+w`.  The subtraction `shift - w` is exact because every
    re-encoded opcode is at least as wide in the current table (`Props.C11.widen_nonneg`). -/
def pass1 : Nat → Bytes → Nat → Nat → Res (List Nat × Nat)
  | 0, _, _, _ => .panic "out of fuel"
  | _+1, [], i, shift => .ok ([i + shift], shift)                   -- newPos[len] = len + shift
  | fuel+1, b :: tail, i, shift =>
    match opWidthTable[b.toNat]? with
    | none => .err (goErr "unknown opcode")
    | some w =>
      if tail.length < w then .err (goErr "truncated instruction")  -- i+1+w > len
      else
        let seg := (List.range (1 + w)).map (fun k => i + k + shift)
        let next (shift' : Nat) : Res (List Nat × Nat) :=
          match pass1 fuel (tail.drop w) (i + (w + 1)) shift' with
          | .ok (np, sh) => .ok (seg ++ np, sh)
          | .err e => .err e
          | .panic m => .panic m
        if isJumpClass b.toNat then
          match opcodeOperands b.toNat with
          | none => .panic "runtime error: index out of range"      -- ugo.OpcodeOperands[op]
          | some ws2 => next (shift + ws2.sum - w)
        else next shift

/-- the closure `relocate` -/
def relocate (newPos : List Nat) (shift : Nat) (pos : Nat) : Nat :=
  match newPos[pos]? with
  | some n => n
  | none => pos + shift

/-- operands of a re-encoded instruction: every position is relocated, except that a zero
    (absent catch / finally) operand of `convKeepZeroOp` (SETUPTRY) stays zero -/
def relocArgs (φ : Nat → Nat) (op : Nat) (args : List Nat) : List Nat :=
  args.map (fun pos => if op ≠ convKeepZeroOp ∨ pos ≠ 0 then φ pos else pos)

/-- second pass from offset `i`, with `n = len(newInsts)`: converted bytes and source-map
    entries of the suffix -/
def pass2 (φ : Nat → Nat) (sm : SrcMap) : Nat → Bytes → Nat → Nat → Res (Bytes × SrcMap)
  | 0, _, _, _ => .panic "out of fuel"
  | _+1, [], _, _ => .ok ([], [])
  | fuel+1, b :: tail, i, n =>
    let op := b.toNat
    let here : SrcMap := match sm.lookup i with | some p => [(n, p)] | none => []
    match opWidthTable[op]? with
    | none => .panic "runtime error: index out of range"            -- opWidth[op]
    | some w =>
      let next (emitted : Bytes) : Res (Bytes × SrcMap) :=
        match pass2 φ sm fuel (tail.drop w) (i + (w + 1)) (n + emitted.length) with
        | .ok (out, m) => .ok (emitted ++ out, here ++ m)
        | .err e => .err e
        | .panic m => .panic m
      if isJumpClass op then
        match V1.opcodeOperands op with
        | none => .panic "runtime error: index out of range"        -- opv1.OpcodeOperands[op]
        | some ws1 =>
          match readOperands ws1 tail with
          | .panic m => .panic m
          | .err e => .err e
          | .ok (operands, _) =>
            match makeInstruction op (relocArgs φ op operands) with
            | .ok inst => next (b :: inst.drop 1)                   -- op byte, then instBuf[1:]
            | .err e => .err e
            | .panic m => .panic m
      else if tail.length < w then .panic "runtime error: slice bounds out of range"
      else next (b :: tail.take w)

/-- `convCompFuncV1ToV2` on (Instructions, SourceMap) -/
def convFn (ins : Bytes) (sm : SrcMap) : Res (Bytes × SrcMap) :=
  match hasJumpLoop (ins.length + 1) ins with
  | .ok false => .ok (ins, sm)
  | .ok true =>
    match pass1 (ins.length + 1) ins 0 0 with
    | .ok (newPos, shift) => pass2 (relocate newPos shift) sm (ins.length + 1) ins 0 0
    | .err e => .err e
    | .panic m => .panic m
  | .err e => .err e
  | .panic m => .panic m

/-- the offset map the converter computes for a stream (identity when it has nothing to widen
    or rejects the stream) -/
def newOff (ins : Bytes) (pos : Nat) : Nat :=
  match pass1 (ins.length + 1) ins 0 0 with
  | .ok (newPos, shift) => relocate newPos shift pos
  | _ => pos

/-! ### what the conversion is meant to be (specification side of `Props.C11.conv_decodes`) -/

/-- an instruction moved by the offset map `φ`: same opcode; operands of the re-encoded
    (jump-class) opcodes mapped through `φ`, a zero SETUPTRY operand kept; other operands kept -/
def relocInstr (φ : Nat → Nat) (x : Instr) : Instr :=
  ⟨φ x.off, x.op, if isJumpClass x.op then relocArgs φ x.op x.args else x.args⟩

/-- the same, laying the instructions out one behind the other from offset `n` in the current
    format (used to state the inductive step; equal to `map (relocInstr φ)` by `relocInstrs_eq`) -/
def relocInstrs (φ : Nat → Nat) : List Instr → Nat → List Instr
  | [], _ => []
  | x :: xs, n =>
    ⟨n, x.op, if isJumpClass x.op then relocArgs φ x.op x.args else x.args⟩ ::
      relocInstrs φ xs (n + (((opcodeOperands x.op).getD []).sum + 1))

/-- length of the instructions laid out in the current format -/
def v2len : List Instr → Nat
  | [] => 0
  | x :: xs => ((opcodeOperands x.op).getD []).sum + 1 + v2len xs

/-- source-map entries of old instructions re-keyed to the offsets of the new ones -/
def convSm (sm : SrcMap) : List Instr → List Instr → SrcMap
  | x :: xs, y :: ys => (match sm.lookup x.off with | some p => [(y.off, p)] | none => []) ++ convSm sm xs ys
  | _, _ => []

end UgoVerif.Model.V1
