import UgoVerif.Spec.Sem
import UgoVerif.Gen.Fold
/-
  Model of optimizer.go for the EXPRESSION fragment (core Lean only; linked into the driver).

  Follows `(*SimpleOptimizer).transform`, `evalExpr`, `slowEvalExpr`, `canEval`, `setNoEval`,
  `enterExprLevel`, `leaveExprLevel` and the pass loop of `optimize` statement by statement for
  literals, identifiers, ParenExpr, UnaryExpr, BinaryExpr (incl. `&&`, `||`, `==`, `!=`),
  CondExpr and expression statements.  The table-driven folds are the REGENERATED
  `Gen.binaryop` / `Gen.unaryop` / `Gen.isLiteralFalsy` (Gen/Fold.lean).

  `evalExpr` compiles `return <expr>` and runs it on a private VM.  On this fragment the model
  replaces "compile, check the instruction whitelist, run" by
    * `compilable`: does `Compiler.Compile` succeed and does `canOptimizeInsts` accept the code
      (unresolved identifier → compile error; `?:` on anything but a BoolLit emits
      OpJumpFalsy/OpJump which are not whitelisted; `?:` on a BoolLit compiles only the taken branch),
    * `cEval`: the value or run-time error of the expression, computed with the operator layer
      of the VM model (`vBinaryOp`, `vUnary`, `vEqual`, `isFalsy` — the regenerated cells).
  Everything that needs more of the private VM (builtin calls, identifiers that name builtins or
  folded constants, containers, index/selector/slice, function literals, import) is OUTSIDE the
  fragment: the model answers `none` and the `optast` tie skips the program.

  Tied to the real `ugo.NewOptimizer(...).Optimize()` by stream `optast`.
-/
namespace UgoVerif.Model.Optim
open UgoVerif UgoVerif.Go UgoVerif.Ast UgoVerif.VM

/-! ### literals -/

/-- a node as the folding tables' type switches see it -/
def litOf : Expr → Lit
  | .int _ v => .int v | .uint _ v => .uint v | .float _ v => .float v | .char _ v => .char v
  | .bool _ b => .bool b | .str _ s => .str s | .undef _ => .undefined | _ => .other

/-- the literal node built by a fold (`ValuePos: p`; the `Literal` text is not modelled: the
    compiler reads `Value` only) -/
def litExpr (p : Pos) : Lit → Option Expr
  | .int v => some (.int p v) | .uint v => some (.uint p v) | .float v => some (.float p v)
  | .char v => some (.char p v) | .bool b => some (.bool p b) | .str s => some (.str p s)
  | .undefined => some (.undef p) | .other => none

/-- `slowEvalExpr`: the type switch over the object the private VM returned -/
def litOfV : V → Option Lit
  | .str s => some (.str s) | .undefined => some .undefined | .bool b => some (.bool b)
  | .int v => some (.int v) | .uint v => some (.uint v) | .float v => some (.float v)
  | .char v => some (.char v) | _ => none

def isLit (e : Expr) : Bool :=
  match e with
  | .int .. | .uint .. | .float .. | .char .. | .bool .. | .str .. | .undef .. => true
  | _ => false

/-! ### the private evaluator on the fragment -/

/-- run an operator-layer computation that does not depend on the VM state -/
def runM {α} (m : VM.M α) : Except Exc α := (m.run.run default).1

def isBuiltinName (n : String) : Bool := (Sem.builtinIndex n).isSome || Sem.otherBuiltins.contains n

def unaryToks : List Nat := [tNot, tSub, tXor, tAdd]

/-- tokens the parser puts into a BinaryExpr (token.IsBinaryOperator plus && ||) -/
def binaryToks : List Nat :=
  [tAdd, tSub, tMul, tQuo, tRem, tAnd, tOr, tXor, tAndNot, tShl, tShr, tLess, tLessEq, tGreater, tGreaterEq,
   tEqual, tNotEqual, tLAnd, tLOr]

def both (a b : Option Bool) : Option Bool :=
  match a, b with
  | some x, some y => some (x && y)
  | _, _ => none

/-- `ev.compiler.Compile(return e)` succeeds and `canOptimizeInsts` accepts the instructions:
    `some true`; `some false`: the evaluator gives up without an error; `none`: outside the fragment -/
def compilable : Expr → Option Bool
  | .int .. | .uint .. | .float .. | .char .. | .bool .. | .str .. | .undef .. => some true
  | .ident _ n => if isBuiltinName n then none else some false      -- unresolved reference
  | .paren _ e => compilable e
  | .unary _ tok e => if unaryToks.contains tok then compilable e else none
  | .binary _ tok l r => if binaryToks.contains tok then both (compilable l) (compilable r) else none
  | .cond _ (.bool _ b) t f =>
    -- compileCondExpr on a BoolLit condition compiles the taken branch only
    if b then compilable t else compilable f
  | .cond _ c t f =>
    -- OpJumpFalsy / OpJump are not in allowedOps (a compile error gives up as well)
    match compilable c, compilable t, compilable f with
    | some _, some _, some _ => some false
    | _, _, _ => none
  | _ => none

/-- outcome of running `return e` on the private VM -/
inductive CR where
  | val (v : V)
  | err (e : OpErr)
  | unknown
  deriving Inhabited

def crOp (r : Except Exc (Except OpErr V)) : CR :=
  match r with
  | .ok (.ok v) => .val v
  | .ok (.error e) => .err e
  | .error _ => .unknown

/-- value or run-time error of a compilable expression (operator layer of the VM model) -/
def cEval (F : FloatOps) : Expr → CR
  | .int _ v => .val (.int v)
  | .uint _ v => .val (.uint v)
  | .float _ v => .val (.float v)
  | .char _ v => .val (.char v)
  | .bool _ b => .val (.bool b)
  | .str _ s => .val (.str s)
  | .undef _ => .val .undefined
  | .paren _ e => cEval F e
  | .unary _ tok e =>
    match cEval F e with
    | .val v => crOp (runM (vUnary F (tokOfNat tok) v))
    | r => r
  | .binary _ tok l r =>
    match cEval F l with
    | .val lv =>
      if tok == tLAnd then
        match runM (isFalsy lv) with
        | .ok true => .val lv
        | .ok false => cEval F r
        | .error _ => .unknown
      else if tok == tLOr then
        match runM (isFalsy lv) with
        | .ok true => cEval F r
        | .ok false => .val lv
        | .error _ => .unknown
      else
        match cEval F r with
        | .val rv =>
          if tok == tEqual then
            match runM (vEqual F lv rv) with
            | .ok b => .val (.bool b)
            | .error _ => .unknown
          else if tok == tNotEqual then
            match runM (vEqual F lv rv) with
            | .ok b => .val (.bool (!b))
            | .error _ => .unknown
          else crOp (runM (vBinaryOp F (tokOfNat tok) lv rv))
        | r => r
    | r => r
  | .cond _ c t f =>
    match cEval F c with
    | .val cv =>
      match runM (isFalsy cv) with
      | .ok true => cEval F f
      | .ok false => cEval F t
      | .error _ => .unknown
    | r => r
  | _ => .unknown

/-! ### optimizer state -/

structure OSt where
  count : Nat := 0                      -- so.count
  evalBits : BitVec 64 := 0             -- so.evalBits (uint64)
  exprLevel : BitVec 8 := 0             -- so.exprLevel (uint8, wraps)
  errors : List (Pos × OpErr) := []     -- so.errors: (Node.Pos(), Err)
  deriving Inhabited

/-- `so.evalBits>>so.exprLevel == 0` (a Go shift by ≥ 64 gives 0) -/
def canEval (st : OSt) : Bool := st.evalBits >>> st.exprLevel.toNat == 0#64

/-- `so.evalBits |= 1 << (so.exprLevel - 1)` (uint8 subtraction wraps) -/
def setNoEval (st : OSt) : OSt :=
  { st with evalBits := st.evalBits ||| (1#64 <<< (st.exprLevel - 1#8).toNat) }

/-- `shift := 64 - so.exprLevel; so.evalBits = so.evalBits << shift >> shift; so.exprLevel++` -/
def enterLevel (st : OSt) : OSt :=
  let shift := (64#8 - st.exprLevel).toNat
  { st with evalBits := (st.evalBits <<< shift) >>> shift, exprLevel := st.exprLevel + 1#8 }

def leaveLevel (st : OSt) : OSt := { st with exprLevel := st.exprLevel - 1#8 }

/-- `canOptimizeExpr` (expressions are never statements) -/
def canOptimizeExpr (e : Expr) : Bool := !isLit e

/-- "do not evaluate erroneous line again" -/
def sameLineAsLastError (lineOf : Pos → Nat) (st : OSt) (e : Expr) : Bool :=
  match st.errors.getLast? with
  | some (p, _) => lineOf e.pos == lineOf p
  | none => false

/-- `evalExpr`: `(replacement, state)`; `none` = outside the fragment -/
def evalExpr (F : FloatOps) (lineOf : Pos → Nat) (st : OSt) (e : Expr) : Option (Option Expr × OSt) :=
  if sameLineAsLastError lineOf st e then some (none, st)
  else if !canEval st || !canOptimizeExpr e then some (none, st)
  else
    match compilable e with
    | none => none
    | some false => some (none, setNoEval st)
    | some true =>
      match cEval F e with
      | .unknown => none
      | .err oe => some (none, setNoEval { st with errors := st.errors ++ [(e.pos, oe)] })
      | .val v =>
        match (litOfV v).bind (litExpr e.pos) with
        | some e' => some (some e', { st with count := st.count + 1 })
        | none => some (none, setNoEval st)

/-- `if expr, ok = so.evalExpr(x); ok { x = expr }` -/
def evalStep (F : FloatOps) (lineOf : Pos → Nat) (st : OSt) (e : Expr) : Option (Expr × OSt) :=
  match evalExpr F lineOf st e with
  | none => none
  | some (some e', st') => some (e', st')
  | some (none, st') => some (e, st')

/-- table fold of a BinaryExpr: `so.binaryop(node.Token, node.LHS, node.RHS)`; a panic of the table
    (excluded by `fold_no_panic`) is outside the model -/
def foldBinary (F : FloatOps) (tok : Nat) (l r : Expr) : Option (Option Expr) :=
  match Gen.binaryop F (tokOfNat tok) (litOf l) (litOf r) with
  | .ok (some lit) => some (litExpr l.pos lit)
  | .ok none => some none
  | _ => none

def foldUnary (F : FloatOps) (tok : Nat) (x : Expr) : Option (Option Expr) :=
  match Gen.unaryop F (tokOfNat tok) (litOf x) with
  | .ok (some lit) => some (litExpr x.pos lit)
  | .ok none => some none
  | _ => none

/-- the CondExpr rewrite of a literal condition into a BoolLit -/
def condLit (F : FloatOps) (c : Expr) : Option Expr :=
  match Gen.isLiteralFalsy F (litOf c) with
  | .ok (some falsy) => some (.bool c.pos (!falsy))
  | .ok none => some c
  | _ => none

/-- `transform` on an expression node: `(node after the in-place updates or its replacement, ok, state)`.
    When `ok` the first component is the returned replacement, otherwise the updated node.
    `pos` of Unary/Binary/Cond nodes is `Pos()` of their first child in the parser, so it is
    recomputed from the updated child. -/
def transform (F : FloatOps) (lineOf : Pos → Nat) (st : OSt) : Expr → Option (Expr × Bool × OSt)
  | .paren p x =>
    match transform F lineOf (enterLevel st) x with
    | none => none
    | some (x', ok, st1) =>
      if ok then some (x', true, leaveLevel st1) else some (.paren p x', false, leaveLevel st1)
  | .binary _ tok l r =>
    match transform F lineOf (enterLevel st) l with
    | none => none
    | some (l', _, st1) =>
      match transform F lineOf st1 r with
      | none => none
      | some (r', _, st2) =>
        match foldBinary F tok l' r' with
        | none => none
        | some (some lit) => some (lit, true, leaveLevel { st2 with count := st2.count + 1 })
        | some none =>
          let node := Expr.binary l'.pos tok l' r'
          match evalExpr F lineOf st2 node with
          | none => none
          | some (some e', st3) => some (e', true, leaveLevel st3)
          | some (none, st3) => some (node, false, leaveLevel st3)
  | .unary _ tok x =>
    match transform F lineOf (enterLevel st) x with
    | none => none
    | some (x', _, st1) =>
      match foldUnary F tok x' with
      | none => none
      | some (some lit) => some (lit, true, leaveLevel { st1 with count := st1.count + 1 })
      | some none =>
        let node := Expr.unary x'.pos tok x'
        match evalExpr F lineOf st1 node with
        | none => none
        | some (some e', st2) => some (e', true, leaveLevel st2)
        | some (none, st2) => some (node, false, leaveLevel st2)
  | .cond _ c t f =>
    match transform F lineOf (enterLevel st) c with
    | none => none
    | some (c1, _, st1) =>
      match evalStep F lineOf st1 c1 with
      | none => none
      | some (c2, st2) =>
        match condLit F c2 with
        | none => none
        | some c3 =>
          match transform F lineOf st2 t with
          | none => none
          | some (t1, _, st3) =>
            match evalStep F lineOf st3 t1 with
            | none => none
            | some (t2, st4) =>
              match transform F lineOf st4 f with
              | none => none
              | some (f1, _, st5) =>
                match evalStep F lineOf st5 f1 with
                | none => none
                | some (f2, st6) => some (.cond c3.pos c3 t2 f2, false, leaveLevel st6)
  | .int p v => some (.int p v, false, leaveLevel (enterLevel st))
  | .uint p v => some (.uint p v, false, leaveLevel (enterLevel st))
  | .float p v => some (.float p v, false, leaveLevel (enterLevel st))
  | .char p v => some (.char p v, false, leaveLevel (enterLevel st))
  | .bool p v => some (.bool p v, false, leaveLevel (enterLevel st))
  | .str p v => some (.str p v, false, leaveLevel (enterLevel st))
  | .undef p => some (.undef p, false, leaveLevel (enterLevel st))
  | .ident p n =>
    -- handleConstLits is false under Optimize(): the node stays
    some (.ident p n, false, leaveLevel (enterLevel st))
  | _ => none

/-- `case *parser.ExprStmt`: transform, then evalExpr (statements do not enter a level) -/
def transformStmt (F : FloatOps) (lineOf : Pos → Nat) (st : OSt) : Stmt → Option (Stmt × OSt)
  | .expr _ e =>
    match transform F lineOf st e with
    | none => none
    | some (e1, _, st1) =>
      match evalStep F lineOf st1 e1 with
      | none => none
      | some (e2, st2) => some (.expr e2.pos e2, st2)
  | .return_ p (some e) =>
    match transform F lineOf st e with
    | none => none
    | some (e1, _, st1) =>
      match evalStep F lineOf st1 e1 with
      | none => none
      | some (e2, st2) => some (.return_ p (some e2), st2)
  | .return_ p none => some (.return_ p none, st)
  | .empty p => some (.empty p, st)
  -- `param` / `global`: only `scope.define` (records names that shadow builtins; identifiers named like
  -- builtins are outside the fragment, see `compilable`)
  | .declParam p specs => some (.declParam p specs, st)
  | .declGlobal p specs => some (.declGlobal p specs, st)
  | _ => none

def transformStmts (F : FloatOps) (lineOf : Pos → Nat) (st : OSt) : List Stmt → Option (List Stmt × OSt)
  | [] => some ([], st)
  | s :: ss =>
    match transformStmt F lineOf st s with
    | none => none
    | some (s', st1) =>
      match transformStmts F lineOf st1 ss with
      | none => none
      | some (ss', st2) => some (s' :: ss', st2)

/-- one pass of `optimize`: `so.count = 0; so.exprLevel = 0; transform(file)`; `*parser.File` is not a
    statement, so the file itself is level 1; evalBits and errors persist from pass to pass -/
def pass (F : FloatOps) (lineOf : Pos → Nat) (st : OSt) (file : List Stmt) : Option (List Stmt × OSt) :=
  match transformStmts F lineOf (enterLevel { st with count := 0, exprLevel := 0 }) file with
  | none => none
  | some (file', st1) => some (file', leaveLevel st1)

structure Out where
  file : List Stmt
  st : OSt
  total : Nat
  limit : Int
  passes : Nat
  deriving Inhabited

/-- the loop of `optimize` (`fuel` ≥ the number of passes; each pass that continues lowers the limit) -/
def loop (F : FloatOps) (lineOf : Pos → Nat) : Nat → Out → Option Out
  | 0, o => some o
  | fuel+1, o =>
    if o.limit ≤ 0 then some o
    else
      match pass F lineOf o.st o.file with
      | none => none
      | some (file', st') =>
        let o' := { o with file := file', st := st', passes := o.passes + 1 }
        if st'.count == 0 then some o'
        else if st'.errors.length > 2 then some o'
        else loop F lineOf fuel { o' with total := o.total + st'.count, limit := o.limit - st'.count }

/-- `NewOptimizer(file, symtab, {OptimizerLimit: limit}).Optimize(file)` -/
def optimize (F : FloatOps) (lineOf : Pos → Nat) (limit : Int) (file : List Stmt) : Option Out :=
  loop F lineOf limit.toNat { file := file, st := {}, total := 0, limit := limit, passes := 0 }

/-- the expression-level entry used by the theorems: one `transform` followed by `evalExpr`,
    as every statement form does with its operand expressions -/
def optExpr (F : FloatOps) (lineOf : Pos → Nat) (st : OSt) (e : Expr) : Option (Expr × OSt) :=
  match transform F lineOf st e with
  | none => none
  | some (e1, _, st1) => evalStep F lineOf st1 e1

end UgoVerif.Model.Optim
