import UgoVerif.Go.Basic
/-
  C16 — hand model of parser/source_file.go (file set, line tables, Position,
  binary searches) and of bytecode.go `CompiledFunction.SourcePos`.
  Core Lean only (linked into `ugomodel`); tied to the code by stream `pos`.

  Go `int` values are `Int`; every place where the Go code can panic
  (explicit `panic(..)`, slice index) is a `.panic` branch at the same place.
  The loops of `searchInts` / `sort.Search` take fuel; `search_fuel` (Proofs)
  shows the answer is the same for every fuel ≥ j - i, and `searchInts_total`
  that fuel `len a` never runs out.

  Not modelled here: nil entries in `SourceFileSet.Files` (a nil dereference in
  `searchFiles`; the stream never builds such a set) and the data race on the
  `LastFile` cache (DESIGN §6, a C08 matter): `last` is a plain field.
-/
namespace UgoVerif.Model
open UgoVerif.Go

/-- `parser.Pos` -/
abbrev Pos := Int
def NoPos : Pos := 0

structure SrcFile where
  name  : String
  base  : Int
  size  : Int
  lines : List Int
  deriving Repr, DecidableEq, Inhabited

/-- `SourceFileSet`; `last` is the index in `files` of the file `LastFile` points to. -/
structure FileSet where
  base  : Int
  files : List SrcFile
  last  : Option Nat
  deriving Repr, DecidableEq, Inhabited

structure FilePos where
  filename : String
  offset   : Int
  line     : Int
  column   : Int
  deriving Repr, DecidableEq, Inhabited

def FilePos.zero : FilePos := ⟨"", 0, 0, 0⟩

/-- `NewFileSet` -/
def newFileSet : FileSet := { base := 1, files := [], last := none }

def maxInt : Int := 9223372036854775807

/-- `(*SourceFileSet).AddFile`; returns the new set and the index of the new file. -/
def addFile (s : FileSet) (filename : String) (base size : Int) : Res (FileSet × Nat) :=
  let base := if base < 0 then s.base else base
  if base < s.base ∨ size < 0 then .panic "illegal base or size" else
  let f : SrcFile := { name := filename, base := base, size := size, lines := [0] }
  let base := base + size + 1
  -- `base += size + 1` wraps to a negative int exactly when the sum exceeds MaxInt64
  if base > maxInt then .panic "offset overflow (> 2G of source code in file set)" else
  .ok ({ base := base, files := s.files ++ [f], last := some s.files.length }, s.files.length)

/-- body of `(*SourceFile).AddLine` on the line table -/
def addLineL (lines : List Int) (size offset : Int) : List Int :=
  let ok₁ : Bool := match lines.getLast? with
    | none => true                       -- i == 0
    | some l => decide (l < offset)       -- f.Lines[i-1] < offset
  if ok₁ ∧ offset < size then lines ++ [offset] else lines

def addLine (f : SrcFile) (offset : Int) : SrcFile :=
  { f with lines := addLineL f.lines f.size offset }

/-- the loop shared by `searchInts` (mid = i + (j-i)/2) and `sort.Search`
    (mid = (i+j)/2 computed on uint): smallest index whose key is `> x`. -/
def bsLoop (mid : Nat → Nat → Nat) (a : List Int) (x : Int) : Nat → Nat → Nat → Res Nat
  | 0, i, j => if i < j then .panic "out of fuel" else .ok i
  | fuel+1, i, j =>
    if i < j then
      let h := mid i j
      match a[h]? with
      | none => .panic "index out of range"
      | some v => if v ≤ x then bsLoop mid a x fuel (h+1) j else bsLoop mid a x fuel i h
    else .ok i

def midInts (i j : Nat) : Nat := i + (j - i) / 2
def midSort (i j : Nat) : Nat := (i + j) / 2

/-- `searchInts(a, x)`: index of the last element `≤ x`, or -1 -/
def searchInts (a : List Int) (x : Int) : Res Int := do
  let i ← bsLoop midInts a x a.length 0 a.length
  pure ((i : Int) - 1)

/-- `searchFiles(a, x)` = `sort.Search(len(a), a[i].Base > x) - 1` -/
def searchFiles (a : List SrcFile) (x : Int) : Res Int := do
  let i ← bsLoop midSort (a.map (·.base)) x a.length 0 a.length
  pure ((i : Int) - 1)

/-- `(*SourceFile).unpack`: (line, column) -/
def unpack (f : SrcFile) (offset : Int) : Res (Int × Int) := do
  let i ← searchInts f.lines offset
  if i ≥ 0 then
    match f.lines[i.toNat]? with
    | none => .panic "index out of range"
    | some l => pure (i + 1, offset - l + 1)
  else pure (0, 0)

/-- `(*SourceFile).position` -/
def position (f : SrcFile) (p : Pos) : Res FilePos := do
  let offset := p - f.base
  let (line, col) ← unpack f offset
  pure { filename := f.name, offset := offset, line := line, column := col }

/-- `(*SourceFile).Position` (exported, range-checked) -/
def filePosition (f : SrcFile) (p : Pos) : Res FilePos :=
  if p ≠ NoPos then
    if p < f.base ∨ p > f.base + f.size then .panic "illegal SourcePos value" else position f p
  else pure FilePos.zero

/-- `(*SourceFile).LineStart` -/
def lineStart (f : SrcFile) (line : Int) : Res Pos :=
  if line < 1 then .panic "illegal line number (line numbering starts at 1)" else
  if line > f.lines.length then .panic "illegal line number" else
  match f.lines[(line - 1).toNat]? with
  | none => .panic "index out of range"
  | some l => pure (f.base + l)

/-- `(*SourceFile).Offset` -/
def fileOffset (f : SrcFile) (p : Pos) : Res Int :=
  if p < f.base ∨ p > f.base + f.size then .panic "illegal SourcePos value" else pure (p - f.base)

/-- the `LastFile` test at the top of `(*SourceFileSet).file` -/
def cacheHit (s : FileSet) (p : Pos) : Option Nat :=
  match s.last with
  | none => none
  | some li => match s.files[li]? with
    | none => none
    | some f => if f.base ≤ p ∧ p ≤ f.base + f.size then some li else none

/-- `(*SourceFileSet).file`: index of the file containing `p` (the set is returned unchanged:
    only `AddFile` sets the `LastFile` cache) -/
def fileOf (s : FileSet) (p : Pos) : Res (Option Nat × FileSet) :=
  match cacheHit s p with
  | some li => pure (some li, s)
  | none => do
    let i ← searchFiles s.files p
    if i ≥ 0 then
      match s.files[i.toNat]? with
      | none => .panic "index out of range"
      | some f =>
        -- since fix 957f1cc the lookup no longer writes the LastFile cache (the set is shared by all VMs)
        if p ≤ f.base + f.size then pure (some i.toNat, s)
        else pure (none, s)
    else pure (none, s)

/-- `(*SourceFileSet).File` -/
def fsFile (s : FileSet) (p : Pos) : Res (Option Nat × FileSet) :=
  if p ≠ NoPos then fileOf s p else pure (none, s)

/-- `(*SourceFileSet).Position` -/
def fsPosition (s : FileSet) (p : Pos) : Res (FilePos × FileSet) :=
  if p ≠ NoPos then do
    let (fi, s') ← fileOf s p
    match fi with
    | some i =>
      match s'.files[i]? with
      | none => .panic "nil dereference"
      | some f => do let r ← position f p; pure (r, s')
    | none => pure (FilePos.zero, s')
  else pure (FilePos.zero, s)

/-! ### line table produced by the scanner

`Scanner.next` calls `file.AddLine(offset)` with the offset of the byte that
follows every `'\n'` (scanner.go:249-279), in increasing order. -/

def scanFrom (size : Int) : List UInt8 → Nat → List Int → List Int
  | [], _, ls => ls
  | c :: cs, i, ls =>
    scanFrom size cs (i+1) (if c = 10 then addLineL ls size ((i : Int) + 1) else ls)

/-- line table of a file whose text is `text` (`AddFile` starts it as `[0]`) -/
def scanLines (text : List UInt8) : List Int := scanFrom text.length text 0 [0]

/-! ### `CompiledFunction.SourcePos` -/

/-- `SourceMap map[int]int` as an association list (keys unique: a Go map) -/
abbrev SourceMap := List (Int × Int)

def smLookup (sm : SourceMap) (ip : Int) : Option Int :=
  match sm with
  | [] => none
  | (k, v) :: r => if k = ip then some v else smLookup r ip

/-- the `begin: … ip--; goto begin` loop for `ip = n ≥ 0` -/
def sourcePosN (sm : SourceMap) : Nat → Pos
  | 0 => match smLookup sm 0 with
    | some p => p
    | none => NoPos
  | n+1 => match smLookup sm ((n : Int) + 1) with
    | some p => p
    | none => sourcePosN sm n

/-- `(*CompiledFunction).SourcePos(ip)` -/
def sourcePos (sm : SourceMap) (ip : Int) : Pos :=
  if ip ≥ 0 then sourcePosN sm ip.toNat else NoPos

end UgoVerif.Model
