import UgoVerif.Go.Basic
/-
  Hand model of symbol_table.go (ozanh/ugo), statement by statement.  Core Lean only.

  * A `*SymbolTable` is a handle (`Option Nat`, `none` = nil) into a heap of
    entries; every entry carries its scope (`Tab`) and its `parent` handle, so
    aliasing (two scopes forked from one parent, tables kept alive after the
    compiler left them) behaves as with Go pointers.
  * The methods are written on *chains*: the list `st :: st.parent :: … :: root`
    (`[]` is the nil pointer).  Every method that follows `parent` pointers in
    Go (`Resolve`, `nextIndex`, `updateMaxDefs`, `root`, `Parent`, …) is
    structural recursion on the chain, at the same places where Go dereferences
    the pointer; a nil dereference is an explicit `.panic`.
  * Go maps are association lists (lookup = first match, insert replaces);
    anything that depends on map iteration order is compared sorted by the
    correspondence stream `symops`.
  * Go `int` fields are `Int` (they only count definitions; wrap-around at 2^63
    is out of reach and not modelled).
  * `*Symbol` pointers are modelled by value: `frees` holds a copy of the
    original symbol.  Mutation of a symbol through a pointer by the compiler
    (`Assigned`, `Constant`, `Index` of globals) is outside this model.
  * The table of builtin names `B` (Go: `BuiltinsMap`) is a parameter of every
    function; theorems hold for every table, the driver and the non-vacuity
    examples instantiate it with the table regenerated from builtins.go
    (`Gen/SymFacts.lean`).
-/
namespace UgoVerif.Model.Sym
open UgoVerif.Go

abbrev Name := Bytes

/-- symbol_table.go:16-22 (`iota + 1`) -/
inductive SymbolScope where
  | global | «local» | builtin | free | constLit
  deriving DecidableEq, Repr, Inhabited

def SymbolScope.toNat : SymbolScope → Nat
  | .global => 1 | .local => 2 | .builtin => 3 | .free => 4 | .constLit => 5

/-- symbol_table.go:42-50 (without `Original`/`constLit`, see the header) -/
structure Symbol where
  name : Name
  index : Int
  scope : SymbolScope
  assigned : Bool := false
  constant : Bool := false
  deriving DecidableEq, Repr, Inhabited

/-- symbol_table.go:58-71; `parent` lives in the heap entry / is the tail of the chain -/
structure Tab where
  maxDefinition : Int := 0
  numDefinition : Int := 0
  numParams : Int := 0
  store : List (Name × Symbol) := []
  /-- `none` = nil map -/
  disabledBuiltins : Option (List Name) := none
  frees : List Symbol := []
  shadowedBuiltins : List Name := []
  block : Bool := false
  disableParams : Bool := false
  hasConstLit : Bool := false
  hasParentConstLit : Bool := false
  deriving DecidableEq, Repr, Inhabited

/-- `BuiltinsMap` -/
abbrev Builtins := List (Name × Nat)

abbrev Chain := List Tab

def nilDeref {α} : Res α := .panic "invalid memory address or nil pointer dereference"

/-! ### Go map primitives on association lists -/

def mapGet {β} (m : List (Name × β)) (k : Name) : Option β :=
  match m with
  | [] => none
  | (k', v) :: r => if k' = k then some v else mapGet r k

def mapDelete {β} (m : List (Name × β)) (k : Name) : List (Name × β) :=
  m.filter (fun p => decide (p.1 ≠ k))

/-- `m[k] = v` -/
def mapSet {β} (m : List (Name × β)) (k : Name) (v : β) : List (Name × β) :=
  (k, v) :: mapDelete m k

/-- `set[k] = struct{}{}` on a `map[string]struct{}` modelled as a duplicate-free list -/
def setAdd (s : List Name) (k : Name) : List Name :=
  if k ∈ s then s else s ++ [k]

/-- `NewSymbolTable` (symbol_table.go:74-78) -/
def newTab : Tab := {}

/-- `Fork` (symbol_table.go:99-106): the new scope; its parent is `st` -/
def forkTab (st : Tab) (block : Bool) : Tab :=
  { newTab with
    block := block
    disableParams := st.disableParams
    hasParentConstLit := st.hasConstLit || st.hasParentConstLit }

/-- `root` (symbol_table.go:372-377) -/
def root : Chain → Res Tab
  | [] => nilDeref
  | [st] => .ok st
  | _ :: p :: ps => root (p :: ps)

/-- apply `f` to the root scope of the chain (writes through `root := st.root()`) -/
def modifyRoot (f : Tab → Tab) : Chain → Res Chain
  | [] => nilDeref
  | [st] => .ok [f st]
  | st :: p :: ps => do let r ← modifyRoot f (p :: ps); pure (st :: r)

/-- `_, ok := root.disabledBuiltins[name]` on the root scope; reading a nil map yields "absent" -/
def memDisabled (r : Tab) (name : Name) : Bool :=
  match r.disabledBuiltins with
  | none => false
  | some d => decide (name ∈ d)

/-- `isBuiltinDisabled` (symbol_table.go:401-405) -/
def isBuiltinDisabled (ch : Chain) (name : Name) : Res Bool := do
  let r ← root ch
  pure (memDisabled r name)

/-- `shadowBuiltin` (symbol_table.go:407-411) -/
def shadowBuiltin (B : Builtins) (st : Tab) (name : Name) : Tab :=
  match mapGet B name with
  | some _ => { st with shadowedBuiltins := st.shadowedBuiltins ++ [name] }
  | none => st

/-- `nextIndex` (symbol_table.go:260-265) -/
def nextIndex : Chain → Res Int
  | [] => nilDeref
  | st :: ps =>
    if st.block then do
      let i ← nextIndex ps
      pure (i + st.numDefinition)
    else .ok st.numDefinition

/-- `updateMaxDefs` (symbol_table.go:249-257) on scope `st` with parents `ps` -/
def updateMaxDefs (st : Tab) (ps : Chain) (numDefs : Int) : Res (Tab × Chain) :=
  let st1 := if numDefs > st.maxDefinition then { st with maxDefinition := numDefs } else st
  if st.block then
    match ps with
    | [] => nilDeref
    | p :: pps => do
      let (p', pps') ← updateMaxDefs p pps numDefs
      pure (st1, p' :: pps')
  else .ok (st1, ps)

/-- `defineFree` (symbol_table.go:232-247) on the scope `st` -/
def defineFree (B : Builtins) (st : Tab) (original : Symbol) : Tab × Symbol :=
  let frees := st.frees ++ [original]
  let symbol : Symbol :=
    { name := original.name, index := (frees.length : Int) - 1, scope := .free,
      constant := original.constant }
  let st1 := { st with frees := frees, store := mapSet st.store original.name symbol }
  (shadowBuiltin B st1 original.name, symbol)

/-- `Resolve` (symbol_table.go:160-188).  Returns the chain after the call (free
    symbols defined on the way, builtin symbol cached in the root) and
    `(symbol, ok)` as an `Option`. -/
def resolve (B : Builtins) : Chain → Name → Res (Chain × Option Symbol)
  | [], _ => nilDeref
  | st :: ps, name =>
    -- symbol, ok = st.store[name]
    match mapGet st.store name with
    | some symbol => .ok (st :: ps, some symbol)       -- ok: both `if !ok && …` are skipped
    | none =>
      match ps with
      | p :: pps =>
        -- if !ok && st.parent != nil { symbol, ok = st.parent.Resolve(name)
        match resolve B (p :: pps) name with
        | .panic m => .panic m
        | .err e => .err e
        | .ok (ps', none) => .ok (st :: ps', none)       -- if !ok { return }
        | .ok (ps', some symbol) =>
          if !st.block && symbol.scope != .global && symbol.scope != .builtin
              && symbol.scope != .constLit then
            let (st', s) := defineFree B st symbol
            .ok (st' :: ps', some s)                     -- return st.defineFree(symbol), true
          else
            -- ok is true now: `if !ok && st.parent == nil && …` is skipped; return
            .ok (st :: ps', some symbol)
      | [] =>
        -- if !ok && st.parent == nil && !st.isBuiltinDisabled(name)   (st is its own root)
        if !memDisabled st name then
          -- if idx, exists := BuiltinsMap[name]; exists
          match mapGet B name with
          | some idx =>
            let symbol : Symbol := { name := name, index := (idx : Int), scope := .builtin }
            .ok ([{ st with store := mapSet st.store name symbol }], some symbol)
          | none => .ok ([st], none)
        else .ok ([st], none)

/-- the part of `DefineLocal` that creates the local symbol -/
def defineNewLocal (B : Builtins) (st : Tab) (ps : Chain) (name : Name) : Res (Chain × Symbol × Bool) := do
  let index ← nextIndex (st :: ps)
  let symbol : Symbol := { name := name, index := index, scope := .local }
  let st1 := { st with numDefinition := st.numDefinition + 1,
                       store := mapSet st.store name symbol }
  let (st2, ps2) ← updateMaxDefs st1 ps (symbol.index + 1)
  pure (shadowBuiltin B st2 name :: ps2, symbol, false)

/-- `DefineLocal` (symbol_table.go): chain after the call, symbol, `exists`.  A BUILTIN entry in
    the store is only the cache left by an earlier `Resolve`; it is replaced by the new local. -/
def defineLocal (B : Builtins) : Chain → Name → Res (Chain × Symbol × Bool)
  | [], _ => nilDeref
  | st :: ps, name =>
    match mapGet st.store name with
    | some symbol =>
      if symbol.scope = .builtin then defineNewLocal B st ps name
      else .ok (st :: ps, symbol, true)
    | none => defineNewLocal B st ps name

/-- `defineConstLit` (symbol_table.go:214-230) -/
def defineConstLit (B : Builtins) : Chain → Name → Res (Chain × Symbol × Bool)
  | [], _ => nilDeref
  | st :: ps, name =>
    match mapGet st.store name with
    | some symbol => .ok (st :: ps, symbol, true)
    | none =>
      let symbol : Symbol := { name := name, index := -1, scope := .constLit, constant := true }
      let st1 := { st with hasConstLit := true, store := mapSet st.store name symbol }
      .ok (shadowBuiltin B st1 name :: ps, symbol, false)

/-- result of `DefineGlobal`: the error is a plain Go `error` (message only) -/
inductive GlobalRes where
  | sym (s : Symbol)
  | error (msg : String)
  deriving Repr, DecidableEq

/-- `DefineGlobal` (symbol_table.go:268-290).  `qname` is the `%q` rendering of the
    name, supplied by the caller (fmt is not modelled). -/
def defineGlobal (B : Builtins) (qname : String) : Chain → Name → Res (Chain × GlobalRes)
  | [], _ => nilDeref
  | st :: ps, name =>
    match ps with
    | _ :: _ => .ok (st :: ps, .error "global declaration can be at top scope")
    | [] =>
      match mapGet st.store name with
      | some sym =>
        if sym.scope != .global then
          .ok ([st], .error (qname ++ " redeclared in this block"))
        else .ok ([st], .sym sym)
      | none =>
        let s : Symbol := { name := name, index := -1, scope := .global }
        let st1 := { st with store := mapSet st.store name s }
        .ok ([shadowBuiltin B st1 name], .sym s)

/-- loop body of `SetParams` (symbol_table.go); `k` = number of parameters defined so far: at a
    duplicate `numParams` is set back to it -/
def setParamsLoop (B : Builtins) (qname : Name → String) :
    List Name → Nat → Tab → Chain → Res (Tab × Chain × Option String)
  | [], _, st, ps => .ok (st, ps, none)
  | param :: rest, k, st, ps =>
    match mapGet st.store param with
    | some _ => .ok ({ st with numParams := (k : Int) }, ps, some (qname param ++ " redeclared in this block"))
    | none => do
      let index ← nextIndex (st :: ps)
      let symbol : Symbol := { name := param, index := index, scope := .local }
      let st1 := { st with numDefinition := st.numDefinition + 1,
                           store := mapSet st.store param symbol }
      let (st2, ps2) ← updateMaxDefs st1 ps (symbol.index + 1)
      setParamsLoop B qname rest (k + 1) (shadowBuiltin B st2 param) ps2

/-- `SetParams` (symbol_table.go): chain and the returned error (if any) -/
def setParams (B : Builtins) (qname : Name → String) (ch : Chain) (params : List Name) :
    Res (Chain × Option String) :=
  if params.length = 0 then .ok (ch, none)       -- returns before any dereference
  else match ch with
  | [] => nilDeref
  | st :: ps =>
    if st.numParams > 0 then .ok (st :: ps, some "parameters already defined")
    else if st.disableParams then .ok (st :: ps, some "parameters disabled")
    else do
      let st1 := { st with numParams := (params.length : Int) }
      let (st2, ps2, e) ← setParamsLoop B qname params 0 st1 ps
      pure (st2 :: ps2, e)

/-- `EnableParams` (symbol_table.go:117-120) -/
def enableParams : Chain → Bool → Res Chain
  | [], _ => nilDeref
  | st :: ps, v => .ok ({ st with disableParams := !v } :: ps)

/-- `Parent` (symbol_table.go:109-114): number of scopes to go up from `st`
    (`drop` of the chain); the result chain `[]` is the nil pointer. -/
def parent : Chain → Bool → Res Chain
  | [], _ => nilDeref
  | st :: ps, skipBlock =>
    if skipBlock && st.block then parent ps skipBlock
    else .ok ps

/-- `initDisabledBuiltinsMap` (symbol_table.go:365-370) applied to the root scope -/
def initDisabled (r : Tab) : Tab :=
  match r.disabledBuiltins with
  | none => { r with disabledBuiltins := some [] }
  | some _ => r

/-- one iteration of the loop of `DisableBuiltin` on the root scope
    (symbol_table.go, after `fix: DisableBuiltin evicts …`): the name joins the set
    and a builtin symbol cached by an earlier `Resolve` is removed. -/
def disableOne (r : Tab) (n : Name) : Tab :=
  let r1 := { r with disabledBuiltins := some (setAdd (r.disabledBuiltins.getD []) n) }
  match mapGet r1.store n with
  | some s => if s.scope = .builtin then { r1 with store := mapDelete r1.store n } else r1
  | none => r1

/-- `DisableBuiltin` (symbol_table.go:338-…) -/
def disableBuiltin (ch : Chain) (names : List Name) : Res Chain :=
  if names.length = 0 then .ok ch     -- returns before any dereference
  else
    modifyRoot (fun r => names.foldl disableOne (initDisabled r)) ch

/-- `DisabledBuiltins` (symbol_table.go:352-363); order is Go map order (compared sorted) -/
def disabledBuiltins (ch : Chain) : Res (List Name) := do
  let r ← root ch
  pure (r.disabledBuiltins.getD [])

/-- `disabledBuiltinsMap` (symbol_table.go:379-385): nil-safe -/
def disabledBuiltinsMap : Chain → Res (Option (List Name))
  | [] => .ok none
  | ch => do let r ← root ch; pure r.disabledBuiltins

/-- `hasAnyShadowedBuiltins` (symbol_table.go:387-398): nil-safe -/
def hasAnyShadowedBuiltins : Chain → Bool
  | [] => false
  | st :: ps => if st.shadowedBuiltins.length > 0 then true else hasAnyShadowedBuiltins ps

/-- `reset` (symbol_table.go:80-96): everything zeroed (including `parent`), the
    emptied `store` and `disabledBuiltins` maps are kept (a nil map stays nil). -/
def resetTab (st : Tab) : Tab :=
  { newTab with disabledBuiltins := st.disabledBuiltins.map (fun _ => []) }

/-- `copyMapStringSet` (symbol_table.go:449-458) -/
def copyMapStringSet (m : Option (List Name)) : Option (List Name) :=
  match m with
  | none => none
  | some l => some (l.foldl setAdd [])

/-- compiler.go:597-598 in `compileModule`:
    `symbolTable := NewSymbolTable(); symbolTable.disabledBuiltins = copyMapStringSet(c.symbolTable.disabledBuiltinsMap())` -/
def newModuleTab (compilerTable : Chain) : Res Tab := do
  let m ← disabledBuiltinsMap compilerTable
  pure { newTab with disabledBuiltins := copyMapStringSet m }

/-- all names in `shadowedBuiltins` from `src` up to its root (the loop
    `for ptr != nil` of `optimCopyBuiltinStates`) -/
def shadowedAlong : Chain → List Name
  | [] => []
  | st :: ps => st.shadowedBuiltins ++ shadowedAlong ps

/-- `optimCopyBuiltinStates(dest, src)` (symbol_table.go:460-481), writes
    `root.disabledBuiltins[name] = struct{}{}` directly -/
def optimCopyBuiltinStates (dest src : Chain) : Res Chain := do
  let otherMap ← disabledBuiltinsMap src
  let hasShadowed := hasAnyShadowedBuiltins src
  if (otherMap.getD []).length = 0 && !hasShadowed then
    pure dest
  else
    let add := fun (r : Tab) (n : Name) =>
      { r with disabledBuiltins := some (setAdd (r.disabledBuiltins.getD []) n) }
    modifyRoot (fun r =>
      let r1 := initDisabled r
      let r2 := (otherMap.getD []).foldl add r1
      (shadowedAlong src).foldl add r2) dest

/-- `optimCopyBuiltinStatesFromScope(dest, src)` (symbol_table.go:483-493): `scopes`
    is the `shadowed` list of `src`, `src.parent`, …; `src == nil` dereferences nil. -/
def optimCopyBuiltinStatesFromScope (dest : Chain) : List (List Name) → Res Chain
  | [] => do let _ ← root dest; nilDeref
  | [s] => disableBuiltin' dest s
  | s :: t :: rest => do
    let d ← disableBuiltin' dest s
    optimCopyBuiltinStatesFromScope d (t :: rest)
where
  /-- `root := dest.root(); root.DisableBuiltin(names...)` -/
  disableBuiltin' (dest : Chain) (names : List Name) : Res Chain := do
    let _ ← root dest
    if names.length = 0 then pure dest
    else modifyRoot (fun r => names.foldl disableOne (initDisabled r)) dest

/-- first statements of `optimizerEval.resetCompiler` (optimizer.go:926-935): the
    evaluator's table is created or reset, parameters are disabled, the disabled
    and shadowed builtin names of the compiler's table and of the optimizer's own
    scope chain are copied.  `ev = none` is `ev.symtab == nil`. -/
def evalStartTab (ev : Option Tab) : Tab :=
  match ev with
  | none => newTab            -- ev.symtab = NewSymbolTable()
  | some t => resetTab t      -- ev.symtab.reset()

def evalResetTab (ev : Option Tab) (compSymTab : Chain) (scopes : List (List Name)) : Res Tab := do
  let c1 ← enableParams [evalStartTab ev] false
  let c2 ← optimCopyBuiltinStates c1 compSymTab
  let c3 ← optimCopyBuiltinStatesFromScope c2 scopes
  root c3

/-! ### heap of tables (Go pointers) -/

structure Entry where
  tab : Tab
  parent : Option Nat
  deriving Repr, DecidableEq

/-- newest entry first; the handle of an entry is the length of the list behind it -/
abbrev Heap := List Entry

abbrev Handle := Option Nat

/-- `(id, tab)` of `h`, of its parent, …, of its root -/
def chainOf : Heap → Nat → List (Nat × Tab)
  | [], _ => []
  | e :: older, id =>
    if older.length = id then
      (id, e.tab) :: (match e.parent with
                      | none => []
                      | some p => chainOf older p)
    else chainOf older id

/-- replace the entry `id` -/
def setEntry : Heap → Nat → Entry → Heap
  | [], _, _ => []
  | e :: older, id, n =>
    if older.length = id then n :: older
    else e :: setEntry older id n

/-- write the scopes `ts` back to `id`, `id.parent`, … (the walk of `chainOf`) -/
def writeChain : Heap → Nat → List Tab → Heap
  | [], _, _ => []
  | e :: older, id, ts =>
    if older.length = id then
      match ts with
      | [] => e :: older
      | t :: ts' =>
        { e with tab := t } :: (match e.parent with
                                | none => older
                                | some p => writeChain older p ts')
    else e :: writeChain older id ts

def writeBack (H : Heap) (h : Handle) (ts : List Tab) : Heap :=
  match h with
  | none => H
  | some id => writeChain H id ts

def tabsOf (H : Heap) (h : Handle) : Chain :=
  match h with
  | none => []
  | some id => (chainOf H id).map (·.2)

def idsOf (H : Heap) (h : Handle) : List Nat :=
  match h with
  | none => []
  | some id => (chainOf H id).map (·.1)

def alloc (H : Heap) (t : Tab) (parent : Option Nat) : Heap × Nat :=
  ({ tab := t, parent := parent } :: H, H.length)

/-- operations of the symbol-table API (and of the two places that create tables
    outside symbol_table.go) -/
inductive Op where
  | newTable
  | fork (h : Handle) (block : Bool)
  | parent (h : Handle) (skipBlock : Bool)
  | defineLocal (h : Handle) (n : Name)
  | defineGlobal (h : Handle) (n : Name)
  | defineConstLit (h : Handle) (n : Name)
  | setParams (h : Handle) (ns : List Name)
  | enableParams (h : Handle) (v : Bool)
  | resolve (h : Handle) (n : Name)
  | disable (h : Handle) (ns : List Name)
  | disabled (h : Handle)
  | nextIndex (h : Handle)
  | state (h : Handle)
  /-- compiler.go:597-598 -/
  | newModuleTable (compilerTable : Handle)
  /-- optimizer.go:926-935 -/
  | evalReset (ev : Handle) (compSymTab : Handle) (scopes : List (List Name))
  deriving Repr, DecidableEq

inductive Out where
  | unit
  | handle (h : Handle)
  | sym (s : Option Symbol) (flag : Bool)
  | error (msg : String)
  | names (ns : List Name)
  | int (i : Int)
  | state (t : Tab) (hasParent : Bool)
  | panic (msg : String)
  deriving Repr, DecidableEq

/-- rendering of `%q` for the names the streams use (printable ASCII without quote/backslash) -/
def quoteName (n : Name) : String :=
  "\"" ++ String.ofList (n.map (fun b => Char.ofNat b.toNat)) ++ "\""

def hasParentOf (H : Heap) (id : Nat) : Bool :=
  match (chainOf H id) with
  | _ :: _ :: _ => true
  | _ => false

/-- run a chain-level method on the table `h` and write the modified scopes back -/
def onChain {α} (H : Heap) (h : Handle) (f : Chain → Res (Chain × α)) (k : α → Out) : Heap × Out :=
  match f (tabsOf H h) with
  | .ok (ch', a) => (writeBack H h ch', k a)
  | .err _ => (H, .panic "unexpected error")
  | .panic m => (H, .panic m)

/-- one API call on the heap -/
def step (B : Builtins) (H : Heap) : Op → Heap × Out
  | .newTable => let (H', id) := alloc H newTab none; (H', .handle (some id))
  | .fork h block =>
    match tabsOf H h with
    | [] => (H, .panic "invalid memory address or nil pointer dereference")
    | st :: _ => let (H', id) := alloc H (forkTab st block) h; (H', .handle (some id))
  | .parent h skipBlock =>
    match parent (tabsOf H h) skipBlock with
    | .ok ch' => (H, .handle (((idsOf H h).drop ((idsOf H h).length - ch'.length)).head?))
    | .err _ => (H, .panic "unexpected error")
    | .panic m => (H, .panic m)
  | .defineLocal h n =>
    onChain H h (fun ch => (defineLocal B ch n).bind fun (c, s, e) => .ok (c, (s, e)))
      (fun (s, e) => .sym (some s) e)
  | .defineConstLit h n =>
    onChain H h (fun ch => (defineConstLit B ch n).bind fun (c, s, e) => .ok (c, (s, e)))
      (fun (s, e) => .sym (some s) e)
  | .defineGlobal h n =>
    onChain H h (fun ch => defineGlobal B (quoteName n) ch n)
      (fun r => match r with | .sym s => .sym (some s) true | .error m => .error m)
  | .setParams h ns =>
    onChain H h (fun ch => setParams B quoteName ch ns)
      (fun e => match e with | none => .unit | some m => .error m)
  | .enableParams h v =>
    onChain H h (fun ch => (enableParams ch v).bind fun c => .ok (c, ())) (fun _ => .unit)
  | .resolve h n =>
    onChain H h (fun ch => resolve B ch n) (fun r => .sym r r.isSome)
  | .disable h ns =>
    onChain H h (fun ch => (disableBuiltin ch ns).bind fun c => .ok (c, ())) (fun _ => .unit)
  | .disabled h =>
    match disabledBuiltins (tabsOf H h) with
    | .ok ns => (H, .names ns)
    | .err _ => (H, .panic "unexpected error")
    | .panic m => (H, .panic m)
  | .nextIndex h =>
    match nextIndex (tabsOf H h) with
    | .ok i => (H, .int i)
    | .err _ => (H, .panic "unexpected error")
    | .panic m => (H, .panic m)
  | .state h =>
    match h, tabsOf H h with
    | some id, st :: _ => (H, .state st (hasParentOf H id))
    | _, _ => (H, .panic "invalid memory address or nil pointer dereference")
  | .newModuleTable c =>
    match newModuleTab (tabsOf H c) with
    | .ok t => let (H', id) := alloc H t none; (H', .handle (some id))
    | .err _ => (H, .panic "unexpected error")
    | .panic m => (H, .panic m)
  | .evalReset ev comp scopes =>
    -- `reset()` runs first (it also clears `parent`), then the copies read `compSymTab`
    match ev with
    | none =>
      match evalResetTab none (tabsOf H comp) scopes with
      | .ok t => let (H', id) := alloc H t none; (H', .handle (some id))
      | .err _ => (H, .panic "unexpected error")
      | .panic m => (H, .panic m)
    | some id =>
      match tabsOf H ev with
      | [] => (H, .panic "invalid memory address or nil pointer dereference")
      | st :: _ =>
        let H1 := setEntry H id { tab := resetTab st, parent := none }
        match evalResetTab (some st) (tabsOf H1 comp) scopes with
        | .ok t => (setEntry H1 id { tab := t, parent := none }, .handle (some id))
        | .err _ => (H1, .panic "unexpected error")
        | .panic m => (H1, .panic m)

/-- run a sequence of API calls -/
def run (B : Builtins) (H : Heap) : List Op → Heap
  | [] => H
  | op :: ops => run B (step B H op).1 ops

end UgoVerif.Model.Sym
