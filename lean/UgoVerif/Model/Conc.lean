import UgoVerif.Gen.AbortOps
/-
  Model/Conc — interleaving semantics of the abort / cancellation protocol (C09).

  Two threads over shared state:
    R  the runner: `VM.Run` on the root VM (any number of times), whose instructions may be
       Go callbacks that acquire / invoke / release child VMs through an `Invoker`
       (`Invoker.Acquire/Invoke/Release`, `vmPool._acquire/_release`, child `VM.Run`);
    C  the controller: `VM.Abort` on the root VM, any number of times
       (`vmPool.abort` = lock, abort every registered child, unlock; then `abort.Store(1)`).
  `Eval.run` (select / go Run / select / Abort / wait) is the wrapper `EState` below, every
  step of which is at most one step of the base system.

  A step of a thread runs from one named sync point (hook H2, `verifSync`) to the next one;
  the program counter names the sync point the thread is parked at.  Between two
  consecutive sync points there is at most one access to a shared variable besides
  lock/unlock, so interleavings at this granularity cover the finer ones.  The order and
  content of the segments is the order of the regenerated operation lists `Gen/AbortOps`
  (tied by the `shape_*` facts in `Props/C09.lean`).

  Scripts are abstracted to their instruction streams: `prog run ip` says whether the
  ip-th executed instruction is plain, a return, or a callback with a linear sequence of
  Invoker operations; any concrete execution of a branching script / callback is an
  execution of the linear stream along its path, so quantifying over all `Cfg` covers them.
  Nesting is limited to root + one level of children (a child's instructions are plain).

  Ghost fields (never read by the non-ghost part of a step) record what the theorems talk
  about: whether an Abort completed during the current Run (`armedAny`), whether it did so
  outside the reset windows (`armedOK`), whether a child was registered after the abort's
  pool snapshot (`lateAcq`), and how many instructions were executed since (`extraAny`,
  `extraOK`).  Core Lean only.
-/
namespace UgoVerif.Model.Conc

inductive CbOp where
  | acquire | invoke | release
  deriving DecidableEq, Repr

inductive Instr where
  | plain | ret | cb (ops : List CbOp)
  deriving DecidableEq, Repr

inductive CInstr where
  | plain | ret
  deriving DecidableEq, Repr

/-- instruction streams: `prog run ip` for the root VM, `cprog child ip` for a child VM -/
structure Cfg where
  prog : Nat → Nat → Instr
  cprog : Nat → Nat → CInstr

inductive Tid where
  | R | C
  deriving DecidableEq, Repr

/-- the rest of a running callback: remaining Invoker operations, ip of the calling
    instruction, `inv.dorelease` -/
structure Cb where
  ops : List CbOp
  ip : Nat
  dorel : Bool
  deriving DecidableEq, Repr

/-- runner program counter = the sync point R is parked at -/
inductive RPc where
  | idle                                   -- not inside Run
  | enter | beforeReset | afterReset | loopEnter
  | body (ip : Nat)                        -- loop.body: flag was 0, instruction `ip` is next
  | acqOut (cb : Cb) (pooled thenInv : Bool)   -- _acquire.outside
  | acqIn (cb : Cb) (pooled thenInv : Bool)    -- _acquire.inside (holds pool.mu)
  | invBefore (cb : Cb) (c : Nat)          -- Invoke.beforeCheck
  | invAfter (cb : Cb) (c : Nat)           -- Invoke.afterCheck
  | kEnter (cb : Cb) (c : Nat)             -- child Run.enter
  | kBeforeReset (cb : Cb) (c : Nat)
  | kAfterReset (cb : Cb) (c : Nat)
  | kLoopEnter (cb : Cb) (c : Nat)
  | kBody (cb : Cb) (c : Nat) (j : Nat)    -- child loop.body
  | relOut (cb : Cb) (c : Nat)             -- _release.outside
  | relIn (cb : Cb) (c : Nat)              -- _release.inside (holds pool.mu)
  | relAfter (cb : Cb) (c : Nat)           -- _release.after
  deriving DecidableEq, Repr

/-- controller program counter -/
inductive CPc where
  | idle
  | enter                                  -- Abort.enter (root)
  | chEnter (c : Nat) (rest : List Nat)    -- Abort.enter of child c (holds pool.mu)
  | chBetween (c : Nat) (rest : List Nat)  -- Abort.between of child c (holds pool.mu)
  | between                                -- Abort.between (root)
  deriving DecidableEq, Repr

inductive Outcome where
  | completed | aborted
  deriving DecidableEq, Repr

structure State where
  rootFlag : Nat
  childFlag : Nat → Nat
  pool : List Nat
  poolMu : Option Tid
  nextChild : Nat
  rpc : RPc
  run : Nat
  results : List Outcome
  cpc : CPc
  aborts : Nat
  -- ghost
  armedAny : Bool
  armedOK : Bool
  lateAcq : Bool
  excl : Bool
  extraAny : Nat
  extraOK : Nat
  storesSinceReset : Nat

def init : State :=
  { rootFlag := 0, childFlag := fun _ => 0, pool := [], poolMu := none, nextChild := 0,
    rpc := .idle, run := 0, results := [], cpc := .idle, aborts := 0,
    armedAny := false, armedOK := false, lateAcq := false, excl := false,
    extraAny := 0, extraOK := 0, storesSinceReset := 0 }

def setFlag (f : Nat → Nat) (c v : Nat) : Nat → Nat := fun x => if x = c then v else f x

/-- next sync point inside a callback, or `none` when the callback returns -/
def cbNext (ip : Nat) : List CbOp → Option Nat → Bool → Option RPc
  | [], _, _ => none
  | .acquire :: ops, none, d => some (.acqOut ⟨ops, ip, d⟩ true false)
  | .acquire :: ops, some c, d => cbNext ip ops (some c) d
  | .invoke :: ops, none, d => some (.acqOut ⟨ops, ip, d⟩ false true)
  | .invoke :: ops, some c, d => some (.invBefore ⟨ops, ip, d⟩ c)
  | .release :: ops, some c, true => some (.relOut ⟨ops, ip, true⟩ c)
  | .release :: ops, some _, false => cbNext ip ops none false
  | .release :: ops, none, _ => cbNext ip ops none false

/-- Run returns: back to idle, per-Run ghosts cleared -/
def finishRun (s : State) (o : Outcome) : State :=
  { s with rpc := .idle, run := s.run + 1, results := o :: s.results,
           armedAny := false, armedOK := false, lateAcq := false, extraAny := 0, extraOK := 0 }

/-- the loop-condition load of the root VM after instruction `ip` -/
def rootLoad (s : State) (ip : Nat) : State :=
  if s.rootFlag = 0 then { s with rpc := .body (ip + 1) } else finishRun s .aborted

/-- continue the callback at its next sync point, or return to the root loop -/
def afterCb (s : State) (ip : Nat) : Option RPc → State
  | some pc => { s with rpc := pc }
  | none => rootLoad s ip

/-- one instruction is executed (ghost counters) -/
def count (s : State) : State :=
  { s with extraAny := if s.armedAny then s.extraAny + 1 else s.extraAny,
           extraOK := if s.armedOK then s.extraOK + 1 else s.extraOK }

/-- R is between `child.Aborted()` and child `c`'s reset -/
def childWin (pc : RPc) (c : Nat) : Bool :=
  match pc with
  | .invAfter _ c' | .kEnter _ c' | .kBeforeReset _ c' => c' == c
  | _ => false

/-- R is between Run entry and the root reset -/
def rootWin (pc : RPc) : Bool :=
  match pc with
  | .enter | .beforeReset => true
  | _ => false

def stepR (cfg : Cfg) (s : State) : Option State :=
  match s.rpc with
  | .idle => some { s with rpc := .enter }
  | .enter => some { s with rpc := .beforeReset }
  | .beforeReset => some { s with rpc := .afterReset, rootFlag := 0, storesSinceReset := 0 }
  | .afterReset => some { s with rpc := .loopEnter }
  | .loopEnter => some (if s.rootFlag = 0 then { s with rpc := .body 0 } else finishRun s .aborted)
  | .body ip =>
    match cfg.prog s.run ip with
    | .plain => some (rootLoad (count s) ip)
    | .ret => some (finishRun (count s) .completed)
    | .cb ops => some (afterCb (count s) ip (cbNext ip ops none false))
  | .acqOut cb p t =>
    if s.poolMu = none then some { s with poolMu := some .R, rpc := .acqIn cb p t } else none
  | .acqIn cb p t =>
    let c := s.nextChild
    let s' := { s with pool := c :: s.pool, nextChild := c + 1, childFlag := setFlag s.childFlag c 0,
                       poolMu := none,
                       lateAcq := s.lateAcq || (s.cpc == .between) || (s.rootFlag == 1) }
    let d := cb.dorel || p
    if t then some { s' with rpc := .invBefore { cb with dorel := d } c }
    else some (afterCb s' cb.ip (cbNext cb.ip cb.ops (some c) d))
  | .invBefore cb c =>
    if s.childFlag c = 1 then some (afterCb s cb.ip (cbNext cb.ip cb.ops (some c) cb.dorel))
    else some { s with rpc := .invAfter cb c }
  | .invAfter cb c => some { s with rpc := .kEnter cb c }
  | .kEnter cb c => some { s with rpc := .kBeforeReset cb c }
  | .kBeforeReset cb c => some { s with rpc := .kAfterReset cb c, childFlag := setFlag s.childFlag c 0 }
  | .kAfterReset cb c => some { s with rpc := .kLoopEnter cb c }
  | .kLoopEnter cb c =>
    if s.childFlag c = 0 then some { s with rpc := .kBody cb c 0 }
    else some (afterCb s cb.ip (cbNext cb.ip cb.ops (some c) cb.dorel))
  | .kBody cb c j =>
    match cfg.cprog c j with
    | .plain =>
      let s' := count s
      if s'.childFlag c = 0 then some { s' with rpc := .kBody cb c (j + 1) }
      else some (afterCb s' cb.ip (cbNext cb.ip cb.ops (some c) cb.dorel))
    | .ret => some (afterCb (count s) cb.ip (cbNext cb.ip cb.ops (some c) cb.dorel))
  | .relOut cb c =>
    if s.poolMu = none then some { s with poolMu := some .R, rpc := .relIn cb c } else none
  | .relIn cb c => some { s with pool := s.pool.erase c, poolMu := none, rpc := .relAfter cb c }
  | .relAfter cb c =>
    some (afterCb { s with childFlag := setFlag s.childFlag c 0 } cb.ip (cbNext cb.ip cb.ops none false))

/-- `order` lists the registered children in the order `range v.vms` happens to visit them -/
def sameMembers (order pool : List Nat) : Bool :=
  order.all (fun c => pool.contains c) && pool.all (fun c => order.contains c)

def stepC (s : State) (order : List Nat) : Option State :=
  match s.cpc with
  | .idle => some { s with cpc := .enter, excl := false }
  | .enter =>
    if s.poolMu = none && sameMembers order s.pool then
      match order with
      | [] => some { s with cpc := .between }
      | c :: rest => some { s with cpc := .chEnter c rest, poolMu := some .C }
    else none
  | .chEnter c rest => some { s with cpc := .chBetween c rest }
  | .chBetween c rest =>
    let s' := { s with childFlag := setFlag s.childFlag c 1, excl := s.excl || childWin s.rpc c }
    match rest with
    | [] => some { s' with cpc := .between, poolMu := none }
    | c' :: r => some { s' with cpc := .chEnter c' r }
  | .between =>
    let active := s.rpc != .idle
    let ex := s.excl || rootWin s.rpc
    some { s with cpc := .idle, rootFlag := 1, aborts := s.aborts + 1,
                  storesSinceReset := s.storesSinceReset + 1,
                  excl := ex,
                  armedAny := s.armedAny || active,
                  armedOK := s.armedOK || (active && !ex) }

inductive Label where
  | r
  | c (order : List Nat)
  deriving Repr

def step (cfg : Cfg) (s : State) : Label → Option State
  | .r => stepR cfg s
  | .c order => stepC s order

/-- all states reachable by any interleaving of any length -/
inductive Reach (cfg : Cfg) : State → Prop where
  | init : Reach cfg init
  | step {s s' : State} (l : Label) : Reach cfg s → step cfg s l = some s' → Reach cfg s'

/-- run a list of labels (used for witness schedules and by the driver) -/
def runLabels (cfg : Cfg) (s : State) : List Label → Option State
  | [] => some s
  | l :: ls => match step cfg s l with
    | some s' => runLabels cfg s' ls
    | none => none

theorem runLabels_reach {cfg : Cfg} {s s' : State} (h : Reach cfg s) :
    ∀ {ls : List Label}, runLabels cfg s ls = some s' → Reach cfg s' := by
  intro ls
  induction ls generalizing s with
  | nil => intro e; simp [runLabels] at e; exact e ▸ h
  | cons l ls ih =>
    intro e
    simp only [runLabels] at e
    split at e
    · next s1 h1 => exact ih (Reach.step l h h1) e
    · simp at e

/-! ### sync-point names (what the hook reports on the real code) -/

def rHook : RPc → String
  | .idle => "end"
  | .enter => "Run.enter" | .beforeReset => "Run.beforeReset" | .afterReset => "Run.afterReset"
  | .loopEnter => "loop.enter" | .body _ => "loop.body"
  | .acqOut .. => "_acquire.outside" | .acqIn .. => "_acquire.inside"
  | .invBefore .. => "Invoke.beforeCheck" | .invAfter .. => "Invoke.afterCheck"
  | .kEnter .. => "Run.enter" | .kBeforeReset .. => "Run.beforeReset" | .kAfterReset .. => "Run.afterReset"
  | .kLoopEnter .. => "loop.enter" | .kBody .. => "loop.body"
  | .relOut .. => "_release.outside" | .relIn .. => "_release.inside" | .relAfter .. => "_release.after"

def cHook : CPc → String
  | .idle => "end"
  | .enter => "Abort.enter" | .chEnter .. => "Abort.enter"
  | .chBetween .. => "Abort.between" | .between => "Abort.between"

/-! ### Eval.run: select / go Run / select / Abort / wait for done -/

inductive EPc where
  | sel1          -- Eval.run.beforeSelect1
  | abort1        -- first select saw ctx.Done: inside r.VM.Abort()
  | beforeGo      -- Eval.run.beforeGo
  | sel2          -- Eval.run.beforeSelect2
  | abort2        -- second select saw ctx.Done: inside r.VM.Abort()
  | waitDone      -- <-doneCh
  | done (ctxErr : Bool)
  deriving DecidableEq, Repr

structure EState where
  s : State
  epc : EPc
  cancelled : Bool

inductive ELabel where
  | e (order : List Nat)   -- a step of the Eval.run goroutine
  | r                      -- a step of the goroutine started by `go`
  | cancel                 -- the context is cancelled
  deriving Repr

def runFinished (s : State) (before : Nat) : Bool := s.rpc == .idle && s.run > before

def stepE (cfg : Cfg) (es : EState) : ELabel → Option EState
  | .cancel => some { es with cancelled := true }
  | .r =>
    -- the Run goroutine exists only after `go`; it performs exactly one Run
    match es.epc with
    | .sel1 | .abort1 | .beforeGo | .done _ => none
    | _ => if es.s.rpc = .idle then none else
        match stepR cfg es.s with
        | some s' => some { es with s := s' }
        | none => none
  | .e order =>
    match es.epc with
    | .sel1 =>
      if es.cancelled then
        match stepC es.s order with
        | some s' => some { es with s := s', epc := .abort1 }
        | none => none
      else some { es with epc := .beforeGo }
    | .abort1 =>
      match stepC es.s order with
      | some s' => some { es with s := s', epc := if s'.cpc = .idle then .done true else .abort1 }
      | none => none
    | .beforeGo =>
      if es.s.rpc = .idle then
        match stepR cfg es.s with
        | some s' => some { es with s := s', epc := .sel2 }
        | none => none
      else none
    | .sel2 =>
      -- `done` is preferred when both are ready (Go chooses at random; the harness never
      -- schedules E here when both are ready)
      if es.s.rpc = .idle then some { es with epc := .done false }
      else if es.cancelled then
        match stepC es.s order with
        | some s' => some { es with s := s', epc := .abort2 }
        | none => none
      else none
    | .abort2 =>
      match stepC es.s order with
      | some s' => some { es with s := s', epc := if s'.cpc = .idle then .waitDone else .abort2 }
      | none => none
    | .waitDone => if es.s.rpc = .idle then some { es with epc := .done true } else none
    | .done _ => none

def einit : EState := { s := init, epc := .sel1, cancelled := false }

inductive EReach (cfg : Cfg) : EState → Prop where
  | init : EReach cfg einit
  | step {es es' : EState} (l : ELabel) : EReach cfg es → stepE cfg es l = some es' → EReach cfg es'

/-- a step of the `Eval.run` system is no step or one step of the base system -/
theorem stepE_base {cfg : Cfg} {es es' : EState} {l : ELabel} (h : stepE cfg es l = some es') :
    es'.s = es.s ∨ ∃ l', Conc.step cfg es.s l' = some es'.s := by
  cases l with
  | cancel => simp [stepE] at h; subst h; exact Or.inl rfl
  | r =>
    simp only [stepE] at h
    repeat' split at h
    all_goals (try (simp at h; done))
    all_goals (simp at h; subst h)
    all_goals (refine Or.inr ⟨.r, ?_⟩; simp [Conc.step, *]; done)
  | e order =>
    simp only [stepE] at h
    repeat' split at h
    all_goals (try (simp at h; done))
    all_goals (simp at h; subst h)
    all_goals first
      | exact Or.inl rfl
      | (refine Or.inr ⟨.c order, ?_⟩; simp [Conc.step, *]; done)
      | (refine Or.inr ⟨.r, ?_⟩; simp [Conc.step, *]; done)

/-- every state of an `Eval.run` execution is a state of the base system: the theorems about
    `Reach` apply to evaluation under a context -/
theorem EReach.base {cfg : Cfg} {es : EState} (h : EReach cfg es) : Reach cfg es.s := by
  induction h with
  | init => exact Reach.init
  | step l _ hs ih =>
    rcases stepE_base hs with e | ⟨l', e⟩
    · rw [e]; exact ih
    · exact Reach.step l' ih e

def runELabels (cfg : Cfg) (es : EState) : List ELabel → Option EState
  | [] => some es
  | l :: ls => match stepE cfg es l with
    | some es' => runELabels cfg es' ls
    | none => none

theorem runELabels_reach {cfg : Cfg} {es es' : EState} (h : EReach cfg es) :
    ∀ {ls : List ELabel}, runELabels cfg es ls = some es' → EReach cfg es' := by
  intro ls
  induction ls generalizing es with
  | nil => intro e; simp [runELabels] at e; exact e ▸ h
  | cons l ls ih =>
    intro e
    simp only [runELabels] at e
    split at e
    · next s1 h1 => exact ih (EReach.step l h h1) e
    · simp at e

def eHook : EPc → String
  | .sel1 => "Eval.run.beforeSelect1" | .beforeGo => "Eval.run.beforeGo" | .sel2 => "Eval.run.beforeSelect2"
  | .abort1 | .abort2 => "Abort" | .waitDone => "wait" | .done _ => "end"

end UgoVerif.Model.Conc
