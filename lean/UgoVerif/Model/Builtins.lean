import UgoVerif.Go.Val
import UgoVerif.Gen.Adapters
/-
  C19 — hand models of the call machinery and of the hand-written bodies of
  builtins.go, stdlib/strings, stdlib/fmt, stdlib/time and objects.go (`New` of
  error objects) in which indexing, slicing or size arithmetic happens.

  Every Go operation that can panic is an explicit `.panic` branch at the same
  place: `Call.Get` past the argument list, `make` with a length the runtime
  refuses, slicing past the capacity, `/` by zero, `strings.Repeat` /
  `Builder.Grow` outside their documented domains, an unchecked type assertion.
  Go library callees are parameters (`Env`), their documented preconditions are
  the `.panic` branches of the wrappers `libRepeat`, `libGrow`, `goMake`.

  Integers that come out of `ToGoInt` are Go `int`s: `Int` restricted to the 64-bit
  range by `Env.int_range`; products are wrapped (`wrap64`) as Go wraps them.
  Tied to the implementation by the `builtins` correspondence stream.
-/
namespace UgoVerif.Model.Builtins
open UgoVerif UgoVerif.Go UgoVerif.Gen.Adapters

/-! ### the Call value of objects.go -/

structure Call where
  args : List Val
  vargs : List Val
  hasVM : Bool := true
  deriving Inhabited

def Call.len (c : Call) : Nat := c.args.length + c.vargs.length

/-- `Call.Get(n)` (objects.go:150): two Go index expressions, each of which panics
    when out of range. -/
def Call.get (c : Call) (n : Nat) : Res Val :=
  if n < c.args.length then
    match c.args[n]? with
    | some v => .ok v
    | none => .panic "index out of range"
  else
    match c.vargs[n - c.args.length]? with
    | some v => .ok v
    | none => .panic "index out of range"

/-- `Call.shift()` -/
def Call.shift (c : Call) : Option (Val × Call) :=
  match c.args with
  | v :: rest => some (v, { c with args := rest })
  | [] =>
    match c.vargs with
    | v :: rest => some (v, { c with vargs := rest })
    | [] => none

/-- all arguments in order (`callArgs`, and the `c.args`/`c.vargs` double loops) -/
def Call.all (c : Call) : List Val := c.args ++ c.vargs

def wrongNumArgs (msg : String) : Err := .other "WrongNumberOfArgumentsError" msg
def argTypeErr (pos want got : String) : Err :=
  .typeErr s!"invalid type for argument '{pos}': expected {want}, found {got}"
def notCallable : Err := .other "NotCallableError" ""

/-! ### generated adapters: the template's behaviour on the argument list -/

/-- reads `a.reads` in order through `Call.Get` / `args[i]` -/
def readAll (c : Call) : List Nat → Res (List Val)
  | [] => .ok []
  | i :: rest =>
    match c.get i with
    | .ok v => (match readAll c rest with
                | .ok vs => .ok (v :: vs)
                | .err e => .err e
                | .panic m => .panic m)
    | .err e => .err e
    | .panic m => .panic m

/-- The part of an adapter that touches the argument list: the guard (when it is the
    first statement) and then every index read.  Conversions and the wrapped body see
    only the values read. -/
def argPhase (a : Adapter) (c : Call) : Res (List Val) :=
  match a.checked with
  | some n => if c.len ≠ n then .err (wrongNumArgs s!"want={n} got={c.len}") else readAll c a.reads
  | none => readAll c a.reads

/-- the structural fact checked by `decide` over the regenerated table -/
def adapterSafe (a : Adapter) : Bool :=
  match a.checked with
  | some n => a.reads.all (· < n)
  | none => a.reads.isEmpty

/-! ### the environment: conversions and Go library callees -/

def maxInt : Int := 9223372036854775807
def minInt : Int := -9223372036854775808
/-- `math.MaxInt32`: the size limit of builtins.go / stdlib/strings (`maxAllocLen`) -/
def maxAllocLen : Int := 2147483647

/-- Go `int` arithmetic wraps -/
def wrap64 (x : Int) : Int := (x + 9223372036854775808) % 18446744073709551616 - 9223372036854775808

structure Env where
  /-- `ugo.ToGoInt` / `ToGoInt64` (a type switch plus `strconv.ParseInt`) -/
  toGoInt : Val → Option Int
  int_range : ∀ v n, toGoInt v = some n → minInt ≤ n ∧ n ≤ maxInt
  /-- `Object.String()` -/
  toStr : Val → Bytes
  /-- largest length for which `make([]T, n)` / `Builder.Grow(n)` do not panic
      (runtime `maxAlloc` over the element size) -/
  makeLimit : Nat
  /-- the value is a Go `error` (`*Error`, `*RuntimeError`, user types) -/
  isError : Val → Bool
  canCall : Val → Bool
  isCompiled : Val → Bool
  /-- opaque results of library calls whose value the model does not compute -/
  lib : String → List Val → Val

/-- `make([]T, n)` / `make([]T, 0, n)`: panics for negative or too large n. -/
def goMake (E : Env) (n : Int) : Res Unit :=
  if n < 0 ∨ n > E.makeLimit then .panic "runtime error: makeslice: len out of range" else .ok ()

/-- `strings.Repeat` / `bytes.Repeat`: documented to panic for a negative count and
    when `len(s)*count` overflows; the allocation panics above `makeLimit`. -/
def libRepeat (E : Env) (s : Bytes) (count : Int) : Res Bytes :=
  if count < 0 then .panic "strings: negative Repeat count"
  else if (s.length : Int) * count > maxInt then .panic "strings: Repeat output length overflow"
  else if (s.length : Int) * count > E.makeLimit then .panic "runtime error: makeslice: len out of range"
  else .ok (if s.isEmpty then [] else (List.replicate count.toNat s).flatten)   -- `if len(s) == 0 { return "" }`

/-- `strings.Builder.Grow(n)` -/
def libGrow (E : Env) (n : Int) : Res Unit :=
  if n < 0 then .panic "strings.Builder.Grow: negative count"
  else if n > E.makeLimit then .panic "runtime error: makeslice: len out of range"
  else .ok ()

/-- `s[:n]` on a string or slice of length `len` -/
def sliceTo {α} (xs : List α) (n : Int) : Res (List α) :=
  if n < 0 ∨ n > xs.length then .panic "runtime error: slice bounds out of range" else .ok (xs.take n.toNat)

/-- Go `a / b` on ints -/
def goDiv (a b : Int) : Res Int :=
  if b = 0 then .panic "runtime error: integer divide by zero" else .ok (Int.tdiv a b)

/-! ### builtins.go -/

/-- `builtinMakeArrayFunc(n, arg)` (after the repair: sizes above `maxAllocLen` are errors) -/
def makeArray (E : Env) (n : Int) (arg : Val) : Res Val :=
  if n ≤ 0 then .ok arg
  else if n > maxAllocLen then .err (argTypeErr "1st" "integer less than or equal to 2147483647" "too large integer")
  else
    match arg with
    | .array arr =>
      if n ≤ arr.length then
        match sliceTo arr n with               -- arr[:n]
        | .ok xs => .ok (.array xs)
        | .err e => .err e
        | .panic m => .panic m
      else
        match goMake E n with                   -- make(Array, n)
        | .ok () => .ok (.array (arr ++ List.replicate (n.toNat - arr.length) .undefined))
        | .err e => .err e
        | .panic m => .panic m
    | _ =>
      match goMake E n with                     -- make(Array, n)
      | .ok () =>
        -- ret[0] = arg : index 0 of a slice of length n
        if n.toNat = 0 then .panic "runtime error: index out of range [0] with length 0"
        else .ok (.array (arg :: List.replicate (n.toNat - 1) .undefined))
      | .err e => .err e
      | .panic m => .panic m

/-- the values that implement `LengthGetter` among the modelled kinds -/
def lengthOf : Val → Option Nat
  | .array xs => some xs.length
  | .str s => some s.length
  | .bytes s => some s.length
  | .map kvs => some kvs.length
  | _ => none

/-- the repair's guard of `builtinRepeatFunc` -/
def repeatTooLarge (arg : Val) (count : Int) : Bool :=
  match lengthOf arg with
  | some n => decide (n > 0) && decide (count > maxAllocLen / (n : Int))
  | none => false

/-- `for i := 0; i < count && len(v) > 0; i++ { out = append(out, v...) }` -/
def repeatList {α} (v : List α) (count : Nat) : List α :=
  if v.isEmpty then [] else (List.replicate count v).flatten

/-- `builtinRepeatFunc(arg, count)` -/
def repeatB (E : Env) (arg : Val) (count : Int) : Res Val :=
  if count < 0 then .err (argTypeErr "2nd" "non-negative integer" "negative integer")
  else if repeatTooLarge arg count then
    .err (argTypeErr "2nd" "integer with len*count less than or equal to 2147483647" "too large integer")
  else
    match arg with
    | .array v =>
      match goMake E (wrap64 ((v.length : Int) * count)) with     -- make(Array, 0, len(v)*count)
      | .ok () => .ok (.array (repeatList v count.toNat))
      | .err e => .err e
      | .panic m => .panic m
    | .str s =>
      match libRepeat E s count with
      | .ok r => .ok (.str r)
      | .err e => .err e
      | .panic m => .panic m
    | .bytes s =>
      match libRepeat E s count with
      | .ok r => .ok (.bytes r)
      | .err e => .err e
      | .panic m => .panic m
    | v => .err (argTypeErr "1st" "array|string|bytes" v.typeName)

/-- the unrepaired body (commit ab33714), kept to state the refutation -/
def repeatB_unrepaired (E : Env) (arg : Val) (count : Int) : Res Val :=
  if count < 0 then .err (argTypeErr "2nd" "non-negative integer" "negative integer")
  else
    match arg with
    | .str s =>
      match libRepeat E s count with
      | .ok r => .ok (.str r)
      | .err e => .err e
      | .panic m => .panic m
    | v => .err (argTypeErr "1st" "array|string|bytes" v.typeName)

def byteOf (v : Val) : Option UInt8 :=
  match v with
  | .int x => some (UInt8.ofNat (x.toNat % 256))
  | .uint x => some (UInt8.ofNat (x.toNat % 256))
  | .char x => some (UInt8.ofNat (x.toNat % 256))
  | _ => none

/-- the append loop over `c.args` then `c.vargs` for a bytes target -/
def appendBytes (acc : Bytes) (n : Nat) : List Val → Res Bytes
  | [] => .ok acc
  | v :: rest =>
    match byteOf v with
    | some b => appendBytes (acc ++ [b]) (n + 1) rest
    | none => .err (argTypeErr (toString (n + 1)) "int|uint|char" v.typeName)

/-- `builtinAppendFunc(c)` -/
def appendB (c : Call) : Res Val :=
  match c.shift with
  | none => .err (wrongNumArgs "want>=1 got=0")
  | some (target, c') =>
    match target with
    | .array xs => .ok (.array (xs ++ c'.all))
    | .bytes bs =>
      (match appendBytes bs 0 c'.all with
       | .ok r => .ok (.bytes r)
       | .err e => .err e
       | .panic m => .panic m)
    | .undefined => .ok (.array c'.all)
    | v => .err (argTypeErr "1st" "array" v.typeName)

/-- `ToBytes` on the modelled kinds -/
def toBytes : Val → Option Bytes
  | .bytes b => some b
  | .str s => some s
  | _ => none

/-- the two loops of `builtinBytesFunc`: the position in the error restarts for vargs -/
def bytesLoop (acc : Bytes) (i : Nat) : List Val → Res Bytes
  | [] => .ok acc
  | v :: rest =>
    match byteOf v with
    | some b => bytesLoop (acc ++ [b]) (i + 1) rest
    | none => .err (argTypeErr (toString (i + 1)) "int|uint|char" v.typeName)

/-- `builtinBytesFunc(c)` -/
def bytesB (c : Call) : Res Val :=
  let size := c.len
  if size = 0 then .ok (.bytes [])
  else
    let fallthrough : Res Val :=
      match bytesLoop [] 0 c.args with
      | .ok acc =>
        (match bytesLoop acc 0 c.vargs with
         | .ok r => .ok (.bytes r)
         | .err e => .err e
         | .panic m => .panic m)
      | .err e => .err e
      | .panic m => .panic m
    if size = 1 then
      match c.get 0 with                         -- c.Get(0)
      | .ok v => (match toBytes v with
                  | some b => .ok (.bytes b)
                  | none => fallthrough)
      | .err e => .err e
      | .panic m => .panic m
    else fallthrough

/-- `for i := 0; i < n; i++ { vargs = append(vargs, c.Get(i)) }` -/
def getRange (c : Call) : Nat → Nat → Res (List Val)
  | _, 0 => .ok []
  | i, k + 1 =>
    match c.get i with
    | .ok v => (match getRange c (i + 1) k with
                | .ok vs => .ok (v :: vs)
                | .err e => .err e
                | .panic m => .panic m)
    | .err e => .err e
    | .panic m => .panic m

/-- `builtinSprintfFunc(c)` and `builtinPrintfFunc(c)` (same argument handling; the
    formatting is `fmt.Sprintf`, a total library function) -/
def sprintfB (E : Env) (c : Call) : Res Val :=
  let size := c.len
  if size = 0 then .err (wrongNumArgs "want>=1 got=0")
  else if size = 1 then
    match c.get 0 with
    | .ok v => .ok (.str (E.toStr v))
    | .err e => .err e
    | .panic m => .panic m
  else
    match c.shift with                            -- format, _ := c.shift()
    | none => .panic "nil pointer dereference (format.String() on a nil Object)"
    | some (format, c') =>
      match getRange c' 0 (size - 1) with
      | .ok vargs => .ok (E.lib "fmt.Sprintf" (format :: vargs))
      | .err e => .err e
      | .panic m => .panic m

/-- `builtinPrintlnFunc(c)` -/
def printlnB (c : Call) : Res Val :=
  let size := c.len
  if size = 0 then .ok .undefined
  else if size = 1 then
    match c.get 0 with
    | .ok _ => .ok .undefined
    | .err e => .err e
    | .panic m => .panic m
  else
    match getRange c 0 size with
    | .ok _ => .ok .undefined
    | .err e => .err e
    | .panic m => .panic m

/-- `builtinIsErrorFunc(c)` -/
def isErrorB (E : Env) (c : Call) : Res Val :=
  if c.len = 1 then
    match c.get 0 with
    | .ok v => .ok (.bool (E.isError v))
    | .err e => .err e
    | .panic m => .panic m
  else if c.len = 2 then
    match c.get 0 with
    | .ok v =>
      if E.isError v then
        match c.get 1 with
        | .ok t => if E.isError t then .ok (E.lib "errors.Is" [v, t]) else .ok (.bool false)
        | .err e => .err e
        | .panic m => .panic m
      else .ok (.bool false)
    | .err e => .err e
    | .panic m => .panic m
  else .err (wrongNumArgs s!"want=1..2 got= {c.len}")

/-- `builtinGlobalsFunc(c)` (after the repair: a nil VM is tested) -/
def globalsB (E : Env) (c : Call) : Res Val :=
  if !c.hasVM then .ok .undefined else .ok (E.lib "globals" [])

/-- `New` of `*Error` / `*RuntimeError` (objects.go): `switch len(args)` -/
def errorNewB (E : Env) (args : List Val) : Res Val :=
  match args.length with
  | 1 => (match args[0]? with
          | some v => .ok (E.lib "NewError" [.str (E.toStr v)])
          | none => .panic "index out of range")
  | 0 => .ok (E.lib "NewError" [])
  | _ =>
    -- for i := range args { msgs[i] = args[0].String() }
    match args[0]? with
    | some v => .ok (E.lib "NewError" (args.map fun _ => .str (E.toStr v)))
    | none => .panic "index out of range"

/-! ### stdlib/strings -/

/-- `repeatFunc(s, count)` of stdlib/strings (after the repair) -/
def stringsRepeat (E : Env) (s : Bytes) (count : Int) : Res Val :=
  if count < 0 then .ok (.str [])
  else if s.length > 0 ∧ count > maxAllocLen / (s.length : Int) then
    .err (argTypeErr "2nd" "integer with len*count less than or equal to 2147483647" "too large integer")
  else
    match libRepeat E s count with
    | .ok r => .ok (.str r)
    | .err e => .err e
    | .panic m => .panic m

/-- the tail of `pad` once `diff > 0` and the pad string are known -/
def padCont (E : Env) (s : Bytes) (padLen diff : Int) (left : Bool) (padWith : Bytes) : Res Val :=
  -- r := (diff-len(padWith))/len(padWith) + 2
  match goDiv (wrap64 (diff - padWith.length)) padWith.length with
  | .err e => .err e
  | .panic m => .panic m
  | .ok q =>
    let r := wrap64 (q + 2)
    if r ≤ 0 then .ok (.str s)
    else
      match libGrow E padLen with                   -- sb.Grow(padLen)
      | .err e => .err e
      | .panic m => .panic m
      | .ok () =>
        match libRepeat E padWith r with            -- strings.Repeat(padWith, r)
        | .err e => .err e
        | .panic m => .panic m
        | .ok rep =>
          match sliceTo rep diff with               -- [:diff]
          | .err e => .err e
          | .panic m => .panic m
          | .ok p => .ok (.str (if left then p ++ s else s ++ p))

/-- `pad(c, left)` of stdlib/strings (after the repair) -/
def pad (E : Env) (c : Call) (left : Bool) : Res Val :=
  let size := c.len
  if size ≠ 2 ∧ size ≠ 3 then .err (wrongNumArgs s!"want=2..3 got={size}")
  else
    match c.get 0 with
    | .err e => .err e
    | .panic m => .panic m
    | .ok a0 =>
      let s := E.toStr a0
      match c.get 1 with
      | .err e => .err e
      | .panic m => .panic m
      | .ok a1 =>
        match E.toGoInt a1 with
        | none => .err (argTypeErr "2nd" "int" a1.typeName)     -- c.Get(1).TypeName(): same index
        | some padLen =>
          if padLen > maxAllocLen then
            .err (argTypeErr "2nd" "integer less than or equal to 2147483647" "too large integer")
          else if padLen ≤ s.length then .ok (.str s)
          else
            let diff := wrap64 (padLen - s.length)
            if size > 2 then
              match c.get 2 with
              | .err e => .err e
              | .panic m => .panic m
              | .ok a2 =>
                let padWith := E.toStr a2
                if padWith.length = 0 then .ok (.str s) else padCont E s padLen diff left padWith
            else padCont E s padLen diff left [32]

/-- shape shared by `replaceFunc` (lo=3), `newSplitFunc` (lo=2): `size != lo && size != lo+1`,
    reads 0..lo-1 through `String()`, optional `ToGoInt(c.Get(lo))`. -/
def optIntTail (E : Env) (c : Call) (lo : Nat) (libName pos : String) : Res Val :=
  let size := c.len
  if size ≠ lo ∧ size ≠ lo + 1 then .err (wrongNumArgs s!"want={lo}..{lo+1} got={size}")
  else
    match getRange c 0 lo with
    | .err e => .err e
    | .panic m => .panic m
    | .ok strs =>
      if size = lo + 1 then
        match c.get lo with
        | .err e => .err e
        | .panic m => .panic m
        | .ok v =>
          match E.toGoInt v with
          | none => .err (argTypeErr pos "int" v.typeName)
          | some _ => .ok (E.lib libName (strs ++ [v]))
      else .ok (E.lib libName strs)

def replaceB (E : Env) (c : Call) : Res Val := optIntTail E c 3 "strings.Replace" "4th"
def splitB (E : Env) (c : Call) : Res Val := optIntTail E c 2 "strings.SplitN" "3rd"

/-- `toValidUTF8Func(c)` -/
def toValidUTF8B (E : Env) (c : Call) : Res Val :=
  let size := c.len
  if size ≠ 1 ∧ size ≠ 2 then .err (wrongNumArgs s!"want=1..2 got={size}")
  else
    match c.get 0 with
    | .err e => .err e
    | .panic m => .panic m
    | .ok s =>
      if size = 2 then
        match c.get 1 with
        | .err e => .err e
        | .panic m => .panic m
        | .ok r => .ok (E.lib "strings.ToValidUTF8" [s, r])
      else .ok (E.lib "strings.ToValidUTF8" [s])

/-- `stringInvoke(c, sidx, cidx, fn)` (after the repair: no Invoker without a VM) -/
def stringInvoke (E : Env) (c : Call) (sidx cidx : Nat) : Res Val :=
  if c.len ≠ 2 then .err (wrongNumArgs s!"want=2 got={c.len}")
  else
    match c.get sidx with
    | .err e => .err e
    | .panic m => .panic m
    | .ok s =>
      match c.get cidx with
      | .err e => .err e
      | .panic m => .panic m
      | .ok callee =>
        if !E.canCall callee then .err notCallable
        else if !c.hasVM then .err notCallable
        else .ok (E.lib "invoke" [s, callee])

/-! ### stdlib/fmt -/

/-- `toPrintArgs(offset, c)`: `for i := offset; i < size; i++ { c.Get(i) }` -/
def toPrintArgs (c : Call) (offset : Nat) : Res (List Val) := getRange c offset (c.len - offset)

def fmtPrint (E : Env) (c : Call) : Res Val :=
  match toPrintArgs c 0 with
  | .ok vs => .ok (E.lib "fmt.Print" vs)
  | .err e => .err e
  | .panic m => .panic m

def fmtPrintf (E : Env) (c : Call) : Res Val :=
  if c.len < 1 then .err (wrongNumArgs s!"want>=1 got={c.len}")
  else
    match toPrintArgs c 1 with
    | .err e => .err e
    | .panic m => .panic m
    | .ok vs =>
      match c.get 0 with
      | .ok f => .ok (E.lib "fmt.Printf" (f :: vs))
      | .err e => .err e
      | .panic m => .panic m

/-! ### stdlib/time -/

/-- `dateFuncEx(c)`: `ymdHmsn[i]` is an index into a `[7]int` -/
def dateLoop (E : Env) (c : Call) (isLocation : Val → Bool) : Nat → Nat → Res Unit
  | _, 0 => .ok ()
  | i, k + 1 =>
    match c.get i with
    | .err e => .err e
    | .panic m => .panic m
    | .ok arg =>
      if i < 7 then
        -- ymdHmsn[i], ok = ugo.ToGoInt(arg)
        if 7 ≤ i then .panic "index out of range [7]"
        else match E.toGoInt arg with
          | none => .err (argTypeErr (toString (i + 1)) "int" arg.typeName)
          | some _ => dateLoop E c isLocation (i + 1) k
      else if isLocation arg then dateLoop E c isLocation (i + 1) k
      else .err (argTypeErr (toString (i + 1)) "location" arg.typeName)

def dateB (E : Env) (c : Call) (isLocation : Val → Bool) : Res Val :=
  let size := c.len
  if size < 3 ∨ size > 8 then .err (wrongNumArgs s!"want=3..8 got={size}")
  else
    match dateLoop E c isLocation 0 size with
    | .ok () => .ok (E.lib "time.Date" c.all)
    | .err e => .err e
    | .panic m => .panic m

/-- `unixFuncEx(c)` -/
def unixB (E : Env) (c : Call) : Res Val :=
  let size := c.len
  if size ≠ 1 ∧ size ≠ 2 then .err (wrongNumArgs s!"want=1..2 got={size}")
  else
    match c.get 0 with
    | .err e => .err e
    | .panic m => .panic m
    | .ok a0 =>
      match E.toGoInt a0 with
      | none => .err (argTypeErr "1st" "int" a0.typeName)
      | some _ =>
        if size > 1 then
          match c.get 1 with
          | .err e => .err e
          | .panic m => .panic m
          | .ok a1 =>
            match E.toGoInt a1 with
            | none => .err (argTypeErr "2nd" "int" a1.typeName)
            | some _ => .ok (E.lib "time.Unix" [a0, a1])
        else .ok (E.lib "time.Unix" [a0])

end UgoVerif.Model.Builtins
