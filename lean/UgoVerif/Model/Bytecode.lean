import UgoVerif.Go.Basic
import UgoVerif.Gen.Opcodes
/-
  Instruction streams of the uGO VM (opcodes.go, compiler.go MakeInstruction).
  Core Lean only (linked into the native driver).

  An instruction is one opcode byte followed by its operands, each `w ∈ {1,2,4}`
  bytes wide, big-endian; the widths come from a table indexed by the opcode
  (`Gen.Opcodes.opcodeOperands` for the current format,
  `Gen.Opcodes.V1.opcodeOperands` for version 1).

  * `beBytes / beVal`        big-endian operand encoding
  * `readOperands`           model of `ugo.ReadOperands` (index panics explicit)
  * `encodeInstr/decodeInstr`, `decodeAll` (stream walker with offsets),
    `boundaries` (the set of instruction offsets plus the end of the stream)
-/
namespace UgoVerif.Model.Bytecode
open UgoVerif.Go UgoVerif.Gen.Opcodes

/-- `[byte(v >> 8(w-1)), …, byte(v >> 8), byte(v)]` -/
def beBytes : Nat → Nat → Bytes
  | 0, _ => []
  | w+1, v => UInt8.ofNat (v >>> (8 * w)) :: beBytes w v

/-- value of a big-endian byte string: `int(b0)<<8(n-1) | … | int(b_{n-1})` -/
def beVal (bs : Bytes) : Nat := bs.foldl (fun acc b => acc * 256 + b.toNat) 0

/-- `ugo.ReadOperands(widths, ins, …)`: the operands and the bytes behind them.  A width
    outside `readOperandsWidths` reads nothing and still advances; reading past the end of
    `ins` is a Go index panic. -/
def readOperands : List Nat → Bytes → Res (List Nat × Bytes)
  | [], bs => .ok ([], bs)
  | w :: ws, bs =>
    if readOperandsWidths.contains w then
      if w ≤ bs.length then
        match readOperands ws (bs.drop w) with
        | .ok (vs, rest) => .ok (beVal (bs.take w) :: vs, rest)
        | .err e => .err e
        | .panic m => .panic m
      else .panic "runtime error: index out of range"
    else readOperands ws (bs.drop w)

/-- one decoded instruction: offset in its stream, opcode, operands -/
structure Instr where
  off : Nat
  op : Nat
  args : List Nat
  deriving Repr, DecidableEq, Inhabited

abbrev WidthTable := Nat → Option (List Nat)

def encodeArgs : List Nat → List Nat → Bytes
  | w :: ws, a :: as => beBytes w a ++ encodeArgs ws as
  | _, _ => []

/-- opcode byte followed by the big-endian operands (`none`: unknown opcode or wrong operand count) -/
def encodeInstr (tbl : WidthTable) (op : Nat) (args : List Nat) : Option Bytes :=
  match tbl op with
  | none => none
  | some ws => if ws.length = args.length then some (UInt8.ofNat op :: encodeArgs ws args) else none

/-- decode the instruction at the head of `bs`: opcode, operands, remaining bytes -/
def decodeInstr (tbl : WidthTable) : Bytes → Option (Nat × List Nat × Bytes)
  | [] => none
  | b :: bs =>
    match tbl b.toNat with
    | none => none
    | some ws =>
      match readOperands ws bs with
      | .ok (args, rest) => some (b.toNat, args, rest)
      | _ => none

/-- walk a whole stream starting at offset `off`; `none` when an opcode is unknown or the last
    instruction is truncated.  `fuel` only makes the recursion structural: `decodeAll`
    supplies more than the walk can use. -/
def decodeAllAux (tbl : WidthTable) : Nat → Bytes → Nat → Option (List Instr)
  | 0, _, _ => none
  | _+1, [], _ => some []
  | fuel+1, b :: bs, off =>
    match tbl b.toNat with
    | none => none
    | some ws =>
      match readOperands ws bs with
      | .ok (args, rest) =>
        match decodeAllAux tbl fuel rest (off + (ws.sum + 1)) with
        | some is => some (⟨off, b.toNat, args⟩ :: is)
        | none => none
      | _ => none

def decodeAll (tbl : WidthTable) (bs : Bytes) : Option (List Instr) :=
  decodeAllAux tbl (bs.length + 1) bs 0

/-- instruction offsets of a decodable stream plus its length -/
def boundaries (tbl : WidthTable) (bs : Bytes) : Option (List Nat) :=
  (decodeAll tbl bs).map (fun is => is.map (·.off) ++ [bs.length])

/-- the instruction starting at offset `o` (what the VM fetches at `ip = o`) -/
def decodeAt (tbl : WidthTable) (bs : Bytes) (o : Nat) : Option Instr :=
  match decodeInstr tbl (bs.drop o) with
  | some (op, args, _) => some ⟨o, op, args⟩
  | none => none

def decodeV1 : Bytes → Option (List Instr) := decodeAll V1.opcodeOperands
def decodeV2 : Bytes → Option (List Instr) := decodeAll opcodeOperands

end UgoVerif.Model.Bytecode
