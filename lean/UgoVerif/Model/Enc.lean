import UgoVerif.Go.Basic
import UgoVerif.Gen.EncTags
/-
  Hand model of the bytecode serializer: encoder/encoder.go, encoder/bytecode.go
  (repaired tree: fix commits 43e8e7c, 6a8cdec, 6f5a90c on branch fix-enc).
  Tied to the implementation by the `enc` and `dec` correspondence streams; tag and
  header constants are the regenerated `Gen/EncTags.lean`.

  Conventions
  * A reader (`*bytes.Reader`, `*bytes.Buffer`) is the list of unread bytes.
  * Go `int`, `int64` are `BitVec 64`; the varint codec works on the mathematical
    integers (`Int`/`Nat`): `binary.PutUvarint/Uvarint/PutVarint/Varint` are modelled
    arithmetically (`x | b<<s` on disjoint bits is `x + b*2^s`; zig-zag is `2x` / `-2x-1`).
  * Every function returns `Res` (value / error / panic).  The panic branches are the
    Go operations that can panic at that place: `data[0]` in `toVarint`, slice
    expressions, unchecked type assertions (none are left after the repair; the
    checked ones are error branches), `make` with a negative or oversized length.
  * `DM` adds a log to `Res`: the sizes (in bytes) of the buffers allocated with an
    input-dependent size (`make`, `bytes.Buffer` growth), in program order, and a flag
    telling whether the gob fallback was reached.  The log is kept on error and panic
    paths as well, so "allocation in proportion to the input" can be stated for every
    outcome.
  * Recursion uses fuel; running out of fuel is the distinguished error `outOfFuel`
    (the driver supplies `3*|input|+16`, theorems are stated for every fuel).
  * gob (`encoding/gob`, used for object types without a binary marshaler) is a
    parameter (`Ctx.gobDec`, `Ctx.gobEnc`).
-/
namespace UgoVerif.Model.Enc
open UgoVerif.Go UgoVerif.Gen.EncTags

/-! ### values -/

/-- `*ugo.CompiledFunction` -/
structure CF where
  numParams : BitVec 64 := 0
  numLocals : BitVec 64 := 0
  instructions : Option Bytes := none                      -- nil vs non-nil slice
  variadic : Bool := false
  numFree : Nat := 0                                       -- len(Free); never encoded
  sourceMap : Option (List (BitVec 64 × BitVec 64)) := none -- nil vs non-nil map
  deriving Inhabited, Repr

/-- `ugo.Object` values the serializer distinguishes.  Nil and empty slices/maps are
    identified (as everywhere in this project), except where the encoder itself
    distinguishes them (`SyncMap.Value`, `Instructions`, `SourceMap`, `Constants`). -/
inductive Obj where
  | nil                                   -- nil interface (only gob can produce it)
  | undefined
  | bool (b : Bool)
  | int (v : BitVec 64)
  | uint (v : BitVec 64)
  | char (v : BitVec 32)
  | float (v : F64)
  | str (s : Bytes)
  | bytes (s : Bytes)
  | array (xs : List Obj)
  | map (kvs : List (Bytes × Obj))
  | syncMap (isNil : Bool) (kvs : List (Bytes × Obj))
  | compiledFunction (f : CF)
  | function (name : Bytes)
  | builtinFunction (name : Bytes)
  | gob (tn : String) (id : Nat)          -- any other Go type (encoded by gob): type name, identity
  deriving Inhabited, Repr

structure SrcFile where
  name : Bytes
  base : BitVec 64
  size : BitVec 64
  lines : List (BitVec 64)
  deriving Inhabited, Repr

structure FileSet where
  base : BitVec 64
  files : List SrcFile
  deriving Inhabited, Repr

/-- `ugo.Bytecode` -/
structure BC where
  fileSet : Option FileSet := none
  main : Option CF := none
  constants : Option (List Obj) := none
  numModules : BitVec 64 := 0
  deriving Inhabited, Repr

/-- parameters: gob and the table of builtin functions -/
structure Ctx where
  /-- `gob.NewDecoder(r).Decode(&v)`: `none` = error, else the object and the unread bytes -/
  gobDec : Bytes → Option (Obj × Bytes)
  /-- bytes allocated by the gob decoder on this input -/
  gobAlloc : Bytes → Nat
  /-- `gob.NewEncoder(w).Encode(&v)` of the opaque object -/
  gobEnc : String → Nat → Bytes
  /-- `ugo.BuiltinsMap[name]` exists and `ugo.BuiltinObjects[idx]` is a `*ugo.BuiltinFunction` -/
  isBuiltinFn : Bytes → Bool

/-! ### the result-with-log monad -/

structure DM (α : Type) where
  res : Res α
  allocs : List Nat := []
  gob : Bool := false

namespace DM
@[inline] def bind {α β} (x : DM α) (f : α → DM β) : DM β :=
  match x.res with
  | .ok a => let y := f a; ⟨y.res, x.allocs ++ y.allocs, x.gob || y.gob⟩
  | .err e => ⟨.err e, x.allocs, x.gob⟩
  | .panic m => ⟨.panic m, x.allocs, x.gob⟩
instance : Monad DM where
  pure a := ⟨.ok a, [], false⟩
  bind := bind
/-- a pure `Res` computation allocates nothing -/
@[inline] def ofRes {α} (r : Res α) : DM α := ⟨r, [], false⟩
instance : MonadLift Res DM := ⟨ofRes⟩
/-- record an allocation of `n` bytes -/
@[inline] def tick (n : Nat) : DM Unit := ⟨.ok (), [n], false⟩
def total {α} (x : DM α) : Nat := x.allocs.foldl (· + ·) 0
end DM

def fail {α} (msg : String) : Res α := .err (.other "error" msg)
def outOfFuel {α} : DM α := ⟨.err (.other "model" "out of fuel"), [], false⟩

/-! ### encoding/binary varints -/

/-- `binary.PutUvarint`: little-endian base-128, continuation bit 0x80. -/
def putUvarint (x : Nat) : Bytes :=
  if x < 128 then [UInt8.ofNat x] else UInt8.ofNat (x % 128 + 128) :: putUvarint (x / 128)
termination_by x
decreasing_by omega

/-- zig-zag of `binary.PutVarint`: `ux := uint64(x) << 1; if x < 0 { ux = ^ux }` -/
def zigzag (x : Int) : Nat := if x < 0 then (-(2 * x) - 1).toNat else (2 * x).toNat
/-- `x := int64(ux >> 1); if ux&1 != 0 { x = ^x }` -/
def unzigzag (ux : Nat) : Int := if ux % 2 = 0 then ((ux / 2 : Nat) : Int) else -((ux / 2 : Nat) : Int) - 1

def putVarint (x : Int) : Bytes := putUvarint (zigzag x)

/-- loop of `binary.Uvarint(buf)`: `i` bytes consumed, accumulated `x`, shift `s`.
    Result `(value, n)`: `n > 0` bytes read, `n = 0` buffer too small, `n < 0` overflow. -/
def uvarintGo : Bytes → Nat → Nat → Nat → Nat × Int
  | [], _, _, _ => (0, 0)
  | b :: rest, i, x, s =>
    if i = 10 then (0, -((i : Int) + 1))
    else if b.toNat < 128 then
      if i = 9 ∧ b.toNat > 1 then (0, -((i : Int) + 1)) else (x + b.toNat * 2 ^ s, (i : Int) + 1)
    else uvarintGo rest (i + 1) (x + (b.toNat % 128) * 2 ^ s) (s + 7)

def uvarint (buf : Bytes) : Nat × Int := uvarintGo buf 0 0 0

/-- `binary.Varint(buf)` -/
def varint (buf : Bytes) : Int × Int :=
  let r := uvarint buf
  (unzigzag r.1, r.2)

/-- `varintConv.toBytes(v)`: one length byte, then the varint. -/
def toBytes (v : Int) : Bytes :=
  let p := putVarint v
  UInt8.ofNat p.length :: p

/-- Go slice expression `data[lo:hi]` -/
def slice (data : Bytes) (lo hi : Nat) : Res Bytes :=
  if lo ≤ hi ∧ hi ≤ data.length then .ok ((data.drop lo).take (hi - lo))
  else .panic "runtime error: slice bounds out of range"

/-- `toVarint(data)`: `(value, offset)`; indexes `data[0]` unconditionally. -/
def toVarint (data : Bytes) : Res (Int × Nat) :=
  match data with
  | [] => .panic "runtime error: index out of range [0] with length 0"
  | sz :: tl =>
    if sz = 0 then .ok (0, 1)
    else if data.length < 1 + sz.toNat then fail "read varint error: buf too small"
    else
      let r := varint tl
      if r.2 < 1 then
        (if r.2 = 0 then fail "read varint error: buf too small"
         else fail "read varint error: value larger than 64 bits (overflow)")
      else .ok (r.1, r.2.toNat + 1)

/-! ### readers -/

def readByte (r : Bytes) : Res (UInt8 × Bytes) :=
  match r with
  | [] => fail "EOF"
  | b :: r => .ok (b, r)

/-- `io.ReadFull(r, buf)` with `len(buf) = n`, and `io.CopyN(dst, r, n)` -/
def readFull (n : Nat) (r : Bytes) : Res (Bytes × Bytes) :=
  if r.length < n then fail "unexpected EOF" else .ok (r.take n, r.drop n)

/-- `varintConv.read()` on the reader -/
def viRead (r : Bytes) : Res (Int × Bytes) :=
  match r with
  | [] => fail "EOF"
  | n :: r =>
    if n.toNat > 11 then fail "read varint error: value larger than 64 bits (overflow)"
    else if n = 0 then .ok (0, r)
    else if r.length < n.toNat then fail "unexpected EOF"
    else
      let v := varint (r.take n.toNat)
      if v.2 < 1 then fail "read varint error" else .ok (v.1, r.drop n.toNat)

/-- `varintConv.readBytes(r)`: value, the bytes read (length byte first), rest -/
def viReadBytes (r : Bytes) : Res (Int × Bytes × Bytes) :=
  match r with
  | [] => fail "EOF"
  | n :: r =>
    if 1 + n.toNat > 11 then fail "read varint error: value larger than 64 bits (overflow)"
    else if n = 0 then .ok (0, [n], r)
    else if r.length < n.toNat then fail "unexpected EOF"
    else
      let v := varint (r.take n.toNat)
      if v.2 < 1 then fail "read varint error" else .ok (v.1, n :: r.take n.toNat, r.drop n.toNat)

/-! ### scalar unmarshalers (called by DecodeObject on `[tag, size] ++ payload`) -/

def inInt64 (x : Int) : Bool := decide (-(2 ^ 63 : Int) ≤ x) && decide (x < (2 ^ 63 : Int))

def unmarshalInt (data : Bytes) : Res (BitVec 64) :=
  match data with
  | t :: sz :: payload =>
    if t ≠ binIntV1 then fail "invalid ugo.Int data"
    else if sz = 0 then .ok 0
    else if data.length < 2 + sz.toNat then fail "invalid ugo.Int data size"
    else
      let r := varint payload
      if r.2 < 1 then fail "ugo.Int varint" else .ok (BitVec.ofInt 64 r.1)
  | _ => fail "invalid ugo.Int data"

def unmarshalUint (data : Bytes) : Res (BitVec 64) :=
  match data with
  | t :: sz :: payload =>
    if t ≠ binUintV1 then fail "invalid ugo.Uint data"
    else if sz = 0 then .ok 0
    else if data.length < 2 + sz.toNat then fail "invalid ugo.Uint data size"
    else
      let r := uvarint payload
      if r.2 < 1 then fail "ugo.Uint uvarint" else .ok (BitVec.ofNat 64 r.1)
  | _ => fail "invalid ugo.Uint data"

def unmarshalFloat (data : Bytes) : Res F64 :=
  match data with
  | t :: sz :: payload =>
    if t ≠ binFloatV1 then fail "invalid ugo.Float data"
    else if sz = 0 then .ok 0
    else if data.length < 2 + sz.toNat then fail "invalid ugo.Float data size"
    else
      let r := uvarint payload
      if r.2 < 1 then fail "ugo.Float uvarint" else .ok (BitVec.ofNat 64 r.1)
  | _ => fail "invalid ugo.Float data"

def inInt32 (x : Int) : Bool := decide (-(2 ^ 31 : Int) ≤ x) && decide (x < (2 ^ 31 : Int))

def unmarshalChar (data : Bytes) : Res (BitVec 32) :=
  match data with
  | t :: sz :: payload =>
    if t ≠ binCharV1 then fail "invalid ugo.Char data"
    else if sz = 0 then .ok 0
    else if data.length < 2 + sz.toNat then fail "invalid ugo.Char data size"
    else
      let r := varint payload
      if r.2 < 1 then fail "ugo.Char varint"
      else if !inInt32 r.1 then fail "ugo.Char value larger than 32 bits"
      else .ok (BitVec.ofInt 32 r.1)
  | _ => fail "invalid ugo.Char data"

/-! ### size-prefixed unmarshalers -/

/-- common prologue of String/Bytes `UnmarshalBinary`: tag test, `toVarint(data[1:])`, size
    checks, the slice `data[1+offset : ub]`.  `none` = size ≤ 0 (receiver left unchanged). -/
def sizedPayload (tag : UInt8) (what : String) (data : Bytes) : Res (Option Bytes) :=
  match data with
  | t :: tl@(_ :: _) =>
    if t ≠ tag then fail ("invalid " ++ what ++ " data")
    else
      match toVarint tl with
      | .ok (size, offset) =>
        if size ≤ 0 then .ok none
        else if size > (data.length : Int) then fail ("invalid " ++ what ++ " data size")
        else
          let ub := 1 + offset + size.toNat
          if data.length < ub then fail ("invalid " ++ what ++ " data size")
          else match slice data (1 + offset) ub with
            | .ok p => .ok (some p)
            | .err e => .err e
            | .panic m => .panic m
      | .err e => .err e
      | .panic m => .panic m
  | _ => fail ("invalid " ++ what ++ " data")

/-- `(*String).UnmarshalBinary` on a zero receiver -/
def unmarshalString (data : Bytes) : Res Bytes :=
  match sizedPayload binStringV1 "ugo.String" data with
  | .ok none => .ok []
  | .ok (some p) => .ok p
  | .err e => .err e
  | .panic m => .panic m

/-- `(*Bytes).UnmarshalBinary` on `Bytes{}` -/
def unmarshalBytes (data : Bytes) : Res Bytes :=
  match sizedPayload binBytesV1 "ugo.Bytes" data with
  | .ok none => .ok []
  | .ok (some p) => .ok p
  | .err e => .err e
  | .panic m => .panic m

/-- Go map assignment `m[k] = v` on an association list: replace or append -/
def mapSet {κ ν} [BEq κ] (m : List (κ × ν)) (k : κ) (v : ν) : List (κ × ν) :=
  match m with
  | [] => [(k, v)]
  | (k', v') :: rest => if k' == k then (k', v) :: rest else (k', v') :: mapSet rest k v

/-- the map obtained by the assignments `m[k] = v` in list order, starting from an empty map -/
def mapOfList {κ ν} [BEq κ] (kvs : List (κ × ν)) : List (κ × ν) :=
  kvs.foldl (fun m kv => mapSet m kv.1 kv.2) []

/-- `(*Array).UnmarshalBinary` on `Array{}`; `loop` = the element loop (`for rd.Len() > 0`) -/
def unmarshalArray (loop : Bytes → DM (List Obj)) (data : Bytes) : DM (List Obj) := do
  match (sizedPayload binArrayV1 "ugo.Array" data : Res _) with
  | .ok none => pure []
  | .ok (some rd) =>
    let (length, rd) ← (viRead rd : Res _)
    if length < 0 ∨ length > (rd.length : Int) then (fail "invalid ugo.Array length" : Res _)
    else
      DM.tick (16 * length.toNat)        -- make([]ugo.Object, 0, length)
      loop rd
  | .err e => DM.ofRes (.err e)
  | .panic m => DM.ofRes (.panic m)

/-- prologue of `(*Map).UnmarshalBinary` (its slice expression is written `data[1+offset:1+offset+size]`) -/
def unmarshalMap (loop : Bytes → DM (List (Bytes × Obj))) (data : Bytes) : DM (List (Bytes × Obj)) := do
  match (sizedPayload binMapV1 "ugo.Map" data : Res _) with
  | .ok none => pure []
  | .ok (some rd) =>
    let pairs ← loop rd
    pure (mapOfList pairs)
  | .err e => DM.ofRes (.err e)
  | .panic m => DM.ofRes (.panic m)

/-- source-map pair loop of `(*CompiledFunction).UnmarshalBinary`, `sz` iterations -/
def smLoop : Nat → Bytes → Res (List (BitVec 64 × BitVec 64) × Bytes)
  | 0, rd => .ok ([], rd)
  | sz + 1, rd => do
    let (key, rd) ← viRead rd
    let (value, rd) ← viRead rd
    let (rest, rd) ← smLoop sz rd
    pure ((BitVec.ofInt 64 key, BitVec.ofInt 64 value) :: rest, rd)

def unmarshalCF (loop : Bytes → CF → DM CF) (data : Bytes) : DM CF := do
  match (sizedPayload binCompiledFunctionV1 "ugo.CompiledFunction" data : Res _) with
  | .ok none => pure {}
  | .ok (some rd) => loop rd {}
  | .err e => DM.ofRes (.err e)
  | .panic m => DM.ofRes (.panic m)

/-- `(*Function).UnmarshalBinary` / name part of `(*BuiltinFunction).UnmarshalBinary` -/
def unmarshalFuncName (tag : UInt8) (what : String) (data : Bytes) : Res Bytes :=
  match data with
  | t :: tl@(_ :: _) =>
    if t ≠ tag then fail ("invalid " ++ what ++ " data")
    else do
      let (size, offset) ← toVarint tl
      if size ≤ 0 then fail ("invalid " ++ what ++ " data size")
      else
        let inner ← slice data (1 + offset) data.length      -- data[1+offset:]
        unmarshalString inner
  | _ => fail ("invalid " ++ what ++ " data")

def isNumTag (t : UInt8) : Bool := t = binIntV1 || t = binUintV1 || t = binFloatV1 || t = binCharV1
def isSizedTag (t : UInt8) : Bool :=
  t = binCompiledFunctionV1 || t = binArrayV1 || t = binBytesV1 || t = binStringV1 || t = binMapV1 ||
  t = binSyncMapV1 || t = binFunctionV1 || t = binBuiltinFunctionV1

/-- `DecodeObject`, tags Int/Uint/Float/Char: one size byte, `size` payload bytes, then the
    type's `UnmarshalBinary` on the re-assembled buffer -/
def decodeNum (btype : UInt8) (r : Bytes) : DM (Obj × Bytes) := do
  let (size, r) ← (readByte r : Res _)
  DM.tick (2 + size.toNat)           -- make([]byte, 2+int(size))
  let (payload, r) ← (if size.toNat > 0 then readFull size.toNat r else .ok ([], r) : Res _)
  let buf := btype :: size :: payload
  if btype = binIntV1 then do let v ← (unmarshalInt buf : Res _); pure (.int v, r)
  else if btype = binUintV1 then do let v ← (unmarshalUint buf : Res _); pure (.uint v, r)
  else if btype = binFloatV1 then do let v ← (unmarshalFloat buf : Res _); pure (.float v, r)
  else do let v ← (unmarshalChar buf : Res _); pure (.char v, r)

/-- dispatch of `DecodeObject` on the size-prefixed tags, given the re-assembled buffer
    `buf = btype :: rb ++ payload` (`rb` = the size prefix as read) -/
def decodeSizedBuf (C : Ctx) (cfLoop : Bytes → CF → DM CF) (arrLoop : Bytes → DM (List Obj))
    (mapLoop : Bytes → DM (List (Bytes × Obj))) (btype : UInt8) (rb payload : Bytes) : DM Obj :=
  let buf := btype :: rb ++ payload
  if btype = binCompiledFunctionV1 then do
    let f ← unmarshalCF cfLoop buf; pure (.compiledFunction f)
  else if btype = binArrayV1 then do
    let xs ← unmarshalArray arrLoop buf; pure (.array xs)
  else if btype = binBytesV1 then do let s ← (unmarshalBytes buf : Res _); pure (.bytes s)
  else if btype = binStringV1 then do let s ← (unmarshalString buf : Res _); pure (.str s)
  else if btype = binMapV1 then do
    let m ← unmarshalMap mapLoop buf; pure (.map m)
  else if btype = binSyncMapV1 then
    -- (*SyncMap).UnmarshalBinary: data[1] == 0 leaves Value nil; otherwise the buffer is
    -- re-tagged as a map
    (match rb with
     | n :: _ =>
       if n = 0 then pure (.syncMap true [])
       else do
         let m ← unmarshalMap mapLoop (binMapV1 :: rb ++ payload)
         pure (.syncMap false m)
     | [] => (fail "invalid ugo.SyncMap data" : Res _))   -- len(data) < 2
  else if btype = binFunctionV1 then do
    let s ← (unmarshalFuncName binFunctionV1 "ugo.Function" buf : Res _); pure (.function s)
  else do
    let s ← (unmarshalFuncName binBuiltinFunctionV1 "ugo.BuiltinFunction" buf : Res _)
    if C.isBuiltinFn s then pure (.builtinFunction s)
    else (fail "builtin not found" : Res _)

/-- `DecodeObject`, size-prefixed tags: read the size prefix and the payload, then dispatch -/
def decodeSized (C : Ctx) (cfLoop : Bytes → CF → DM CF) (arrLoop : Bytes → DM (List Obj))
    (mapLoop : Bytes → DM (List (Bytes × Obj))) (btype : UInt8) (r : Bytes) : DM (Obj × Bytes) := do
  let (value, rb, r) ← (viReadBytes r : Res _)
  if value < 0 then (fail "negative value" : Res _)
  else
    -- bytes.Buffer filled with the tag, the size prefix and io.CopyN(&bb, r, value):
    -- it grows with the data actually read
    DM.tick (1 + rb.length + min value.toNat r.length)
    let (payload, r) ← (if value > 0 then readFull value.toNat r else .ok ([], r) : Res _)
    let o ← decodeSizedBuf C cfLoop arrLoop mapLoop btype rb payload
    pure (o, r)

/-- `DecodeObject`, tag 255: the gob fallback -/
def decodeGob (C : Ctx) (r : Bytes) : DM (Obj × Bytes) :=
  match C.gobDec r with
  | some (o, r') => ⟨.ok (o, r'), [C.gobAlloc r], true⟩
  | none => ⟨fail "gob", [C.gobAlloc r], true⟩

mutual
/-- `DecodeObject(r)` -/
def decodeObjectF (C : Ctx) : Nat → Bytes → DM (Obj × Bytes)
  | 0, _ => outOfFuel
  | fuel + 1, r => do
    let (btype, r) ← (readByte r : Res _)
    if btype = binUndefinedV1 then pure (.undefined, r)
    else if btype = binTrueV1 then pure (.bool true, r)
    else if btype = binFalseV1 then pure (.bool false, r)
    else if isNumTag btype then decodeNum btype r
    else if isSizedTag btype then
      decodeSized C (cfLoopF C fuel) (arrayLoopF C fuel) (mapLoopF C fuel) btype r
    else if btype = binUnkownType then decodeGob C r
    else (fail "decode error: unknown encoding type" : Res _)

/-- element loop of `(*Array).UnmarshalBinary`: `for rd.Len() > 0 { DecodeObject(rd); append }` -/
def arrayLoopF (C : Ctx) : Nat → Bytes → DM (List Obj)
  | 0, _ => outOfFuel
  | fuel + 1, rd =>
    if rd.isEmpty then pure []
    else do
      let (o, rd) ← decodeObjectF C fuel rd
      let rest ← arrayLoopF C fuel rd
      pure (o :: rest)

/-- entry loop of `(*Map).UnmarshalBinary`; returns the assignments `m[k] = o` in order -/
def mapLoopF (C : Ctx) : Nat → Bytes → DM (List (Bytes × Obj))
  | 0, _ => outOfFuel
  | fuel + 1, rd =>
    if rd.isEmpty then pure []
    else do
      let (value, rd) ← (viRead rd : Res _)
      -- io.CopyN(strBuf, rd, value) when value > 0
      DM.tick (min value.toNat rd.length)
      let (k, rd) ← (if value > 0 then readFull value.toNat rd else .ok ([], rd) : Res _)
      let (o, rd) ← decodeObjectF C fuel rd
      let rest ← mapLoopF C fuel rd
      pure ((k, o) :: rest)

/-- field loop of `(*CompiledFunction).UnmarshalBinary` -/
def cfLoopF (C : Ctx) : Nat → Bytes → CF → DM CF
  | 0, _, _ => outOfFuel
  | fuel + 1, rd, f =>
    if rd.isEmpty then pure f
    else do
      let (field, rd) ← (readByte rd : Res _)
      if field = 0 then do
        let (v, rd) ← (viRead rd : Res _)
        cfLoopF C fuel rd { f with numParams := BitVec.ofInt 64 v }
      else if field = 1 then do
        let (v, rd) ← (viRead rd : Res _)
        cfLoopF C fuel rd { f with numLocals := BitVec.ofInt 64 v }
      else if field = 2 then do
        let (obj, rd) ← decodeObjectF C fuel rd
        match obj with
        | .bytes insts => cfLoopF C fuel rd { f with instructions := some insts }
        | _ => (fail "invalid instructions type" : Res _)
      else if field = 3 then cfLoopF C fuel rd { f with variadic := true }
      else if field = 4 then (fail "unexpected field #4" : Res _)
      else if field = 5 then do
        let (length, rd) ← (viRead rd : Res _)
        if length < 0 ∨ length > (rd.length : Int) then (fail "invalid source map length" : Res _)
        else
          let sz := (length / 2).toNat
          DM.tick (24 * sz)              -- make(map[int]int, sz)
          let (pairs, rd) ← (smLoop sz rd : Res _)
          cfLoopF C fuel rd { f with sourceMap := some (mapOfList pairs) }
      else (fail "unknown field" : Res _)
end

/-- `DecodeObject` with enough fuel for any input of that length -/
def decodeObject (C : Ctx) (r : Bytes) : DM (Obj × Bytes) := decodeObjectF C (3 * r.length + 16) r

/-! ### source files -/

/-- `lines[i] = int(v)` loop -/
def linesLoop : Nat → Bytes → Res (List (BitVec 64) × Bytes)
  | 0, rd => .ok ([], rd)
  | n + 1, rd => do
    let (v, rd) ← viRead rd
    let (rest, rd) ← linesLoop n rd
    pure (BitVec.ofInt 64 v :: rest, rd)

/-- `(*SourceFile).UnmarshalBinary(data)`; `dec` = `DecodeObject` -/
def unmarshalSourceFile (dec : Bytes → DM (Obj × Bytes)) (data : Bytes) : DM SrcFile := do
  let (obj, rd) ← dec data
  match obj with
  | .str name =>
    let (base, rd) ← (viRead rd : Res _)
    let (size, rd) ← (viRead rd : Res _)
    let (v, rd) ← (viRead rd : Res _)
    if v < 0 ∨ v > (rd.length : Int) then (fail "invalid source file lines length" : Res _)
    else
      DM.tick (8 * v.toNat)              -- make([]int, length)
      let (lines, rd) ← (linesLoop v.toNat rd : Res _)
      if rd.length > 0 then (fail "unread bytes" : Res _)
      else pure { name := name, base := BitVec.ofInt 64 base, size := BitVec.ofInt 64 size, lines := lines }
  | _ => (fail "invalid source file name type" : Res _)

/-- file loop of `(*SourceFileSet).UnmarshalBinary` -/
def filesLoop (dec : Bytes → DM (Obj × Bytes)) : Nat → Bytes → DM (List SrcFile × Bytes)
  | 0, rd => pure ([], rd)
  | n + 1, rd => do
    let (v, rd) ← (viRead rd : Res _)
    if v < 0 ∨ v > (rd.length : Int) then (fail "unexpected EOF" : Res _)
    else
      DM.tick v.toNat                    -- make([]byte, v)
      let (data, rd) ← (readFull v.toNat rd : Res _)
      let file ← unmarshalSourceFile dec data
      let (rest, rd) ← filesLoop dec n rd
      pure (file :: rest, rd)

def unmarshalFileSet (dec : Bytes → DM (Obj × Bytes)) (data : Bytes) : DM FileSet := do
  let (base, rd) ← (viRead data : Res _)
  let (v, rd) ← (viRead rd : Res _)
  if v < 0 ∨ v > (rd.length : Int) then (fail "invalid source file set length" : Res _)
  else
    DM.tick (8 * v.toNat)                -- make([]*parser.SourceFile, length)
    let (files, rd) ← filesLoop dec v.toNat rd
    if rd.length > 0 then (fail "unread bytes" : Res _)
    else pure { base := BitVec.ofInt 64 base, files := files }

/-! ### bytecode -/

/-- field loop of `decodeBytecodeV2` -/
def bcLoopF (C : Ctx) : Nat → Bytes → BC → DM BC
  | 0, _, _ => outOfFuel
  | fuel + 1, r, bc =>
    match r with
    | [] => pure bc                      -- io.EOF: done
    | field :: r =>
      if field = 0 then do
        let (obj, r) ← decodeObjectF C fuel r
        match obj with
        | .int sz =>
          if sz.toInt ≤ 0 then bcLoopF C fuel r bc
          else if sz.toInt > (r.length : Int) then (fail "unexpected EOF" : Res _)
          else
            DM.tick sz.toNat             -- make([]byte, sz)
            let (data, r) ← (readFull sz.toNat r : Res _)
            let fs ← unmarshalFileSet (decodeObjectF C fuel) data
            bcLoopF C fuel r { bc with fileSet := some fs }
        | _ => (fail "invalid file set size type" : Res _)
      else if field = 1 then do
        let (obj, r) ← decodeObjectF C fuel r
        match obj with
        | .compiledFunction f => bcLoopF C fuel r { bc with main := some f }
        | _ => (fail "invalid main function type" : Res _)
      else if field = 2 then do
        let (obj, r) ← decodeObjectF C fuel r
        match obj with
        | .array xs => bcLoopF C fuel r { bc with constants := some xs }
        | _ => (fail "invalid constants type" : Res _)
      else if field = 3 then do
        let (obj, r) ← decodeObjectF C fuel r
        match obj with
        | .int n => bcLoopF C fuel r { bc with numModules := n }
        | _ => (fail "invalid number of modules type" : Res _)
      else (fail "unknown field" : Res _)

/-- `ugo.AttrModuleName` -/
def attrModuleName : Bytes :=   -- "__module_name__"
  [95, 95, 109, 111, 100, 117, 108, 101, 95, 110, 97, 109, 101, 95, 95]

def lookupKV {ν} (k : Bytes) : List (Bytes × ν) → Option ν
  | [] => none
  | (k', v) :: rest => if k' == k then some v else lookupKV k rest

/-- `reflect.TypeOf(o)` as far as the serializer can tell types apart -/
def goType : Obj → String
  | .nil => "<nil>"
  | .undefined => "*ugo.UndefinedType"
  | .bool _ => "ugo.Bool"
  | .int _ => "ugo.Int"
  | .uint _ => "ugo.Uint"
  | .char _ => "ugo.Char"
  | .float _ => "ugo.Float"
  | .str _ => "ugo.String"
  | .bytes _ => "ugo.Bytes"
  | .array _ => "ugo.Array"
  | .map _ => "ugo.Map"
  | .syncMap _ _ => "*ugo.SyncMap"
  | .compiledFunction _ => "*ugo.CompiledFunction"
  | .function _ => "*ugo.Function"
  | .builtinFunction _ => "*ugo.BuiltinFunction"
  | .gob tn _ => tn

/-- builtin modules handed to the decoder: name ↦ `BuiltinModule.Attrs`
    (`none`: no such module, or not a `*ugo.BuiltinModule`) -/
abbrev Mods := Bytes → Option (List (Bytes × Obj))

/-- inner loop of `fixObjects`: every item except the module name is replaced by the
    module's live object when the Go types agree -/
def fixItems (attrs : List (Bytes × Obj)) : List (Bytes × Obj) → Res (List (Bytes × Obj))
  | [] => .ok []
  | (item, v) :: rest =>
    if item == attrModuleName then do
      let rest ← fixItems attrs rest
      pure ((item, v) :: rest)
    else
      let o := (lookupKV item attrs).getD .nil
      if goType v != goType o then fail "module item type mismatch"
      else do
        let rest ← fixItems attrs rest
        pure ((item, o) :: rest)

def fixConst (mods : Mods) (o : Obj) : Res Obj :=
  match o with
  | .map kvs =>
    match lookupKV attrModuleName kvs with
    | some (.str name) =>
      match mods name with
      | none => fail "module not found"
      | some attrs => do
        let kvs ← fixItems attrs kvs
        pure (.map kvs)
    | _ => .ok o
  | _ => .ok o          -- (`case *Function` of fixObjects is unreachable: constants hold *ugo.Function)

def fixConsts (mods : Mods) : List Obj → Res (List Obj)
  | [] => .ok []
  | o :: rest => do
    let o ← fixConst mods o
    let rest ← fixConsts mods rest
    pure (o :: rest)

/-- `(*Bytecode).fixObjects(modules)` -/
def fixObjects (mods : Mods) (bc : BC) : Res BC :=
  match bc.constants with
  | none => .ok bc
  | some cs => do
    let cs ← fixConsts mods cs
    pure { bc with constants := some cs }

/-- big-endian bytes of `n`, `k` bytes wide -/
def beBytes : Nat → Nat → Bytes
  | 0, _ => []
  | k + 1, n => UInt8.ofNat (n / 256 ^ k % 256) :: beBytes k n

def beNat (bs : Bytes) : Nat := bs.foldl (fun acc b => acc * 256 + b.toNat) 0

/-- `(*Bytecode).UnmarshalBinary(data)` then `fixObjects` (= `DecodeBytecodeFrom`).
    `conv` is the version-1 converter `convBytecodeV1ToV2` (encoder/v1.go, property C11). -/
def decodeBytecodeF (C : Ctx) (conv : BC → Res BC) (mods : Mods) (fuel : Nat) (data : Bytes) : DM BC :=
  if data.length < 6 then (fail "invalid data" : Res _)
  else if beNat (data.take 4) ≠ BytecodeSignature then (fail "signature mismatch" : Res _)
  else
    let version := beNat ((data.drop 4).take 2)
    let body := data.drop 6
    if version = BytecodeVersion2 then do
      let bc ← bcLoopF C fuel body {}
      (fixObjects mods bc : Res _)
    else if version = BytecodeVersion1 then do
      let bc ← bcLoopF C fuel body {}
      let bc ← (conv bc : Res _)
      (fixObjects mods bc : Res _)
    else (fail "unsupported version" : Res _)

/-- outer loop of `convBytecodeV1ToV2` (encoder/v1.go): the per-function converter
    `convCompFuncV1ToV2` (property C11) is applied to `bc.Main` (a nil Main is left alone) and
    then to every `*CompiledFunction` among the constants, top level only, in index order;
    the first error stops the conversion.  Kept separate from the rest of the model: the
    per-function converter itself is the parameter `convCF`. -/
def convConsts (convCF : CF → Res CF) : List Obj → Res (List Obj)
  | [] => .ok []
  | .compiledFunction f :: rest => do
    let f' ← convCF f
    let r ← convConsts convCF rest
    pure (.compiledFunction f' :: r)
  | o :: rest => do
    let r ← convConsts convCF rest
    pure (o :: r)

def liftConv (convCF : CF → Res CF) (bc : BC) : Res BC := do
  let main ← (match bc.main with
    | none => .ok none
    | some f => do let f' ← convCF f; pure (some f'))
  let consts ← (match bc.constants with
    | none => .ok none
    | some cs => do let cs' ← convConsts convCF cs; pure (some cs'))
  pure { bc with main := main, constants := consts }

def decodeBytecode (C : Ctx) (conv : BC → Res BC) (mods : Mods) (data : Bytes) : DM BC :=
  decodeBytecodeF C conv mods (3 * data.length + 16) data

/-! ### encoders (`MarshalBinary`)

  The fixed-size scratch buffers of the Go code (`2+binary.MaxVarintLen64`,
  `2+binary.MaxVarintLen32` for Char, `varintConv.buf`) always suffice:
  `Proofs/EncVarint.putUvarint_length_le`.  Encoders are therefore total. -/

def encodeInt (v : BitVec 64) : Bytes :=
  if v = 0 then [binIntV1, 0]
  else let p := putVarint v.toInt; binIntV1 :: UInt8.ofNat p.length :: p

def encodeUint (v : BitVec 64) : Bytes :=
  if v = 0 then [binUintV1, 0]
  else let p := putUvarint v.toNat; binUintV1 :: UInt8.ofNat p.length :: p

def encodeChar (v : BitVec 32) : Bytes :=
  if v = 0 then [binCharV1, 0]
  else let p := putVarint v.toInt; binCharV1 :: UInt8.ofNat p.length :: p

/-- repaired: the elision test is on the bit pattern, so −0.0 is written out -/
def encodeFloat (v : F64) : Bytes :=
  if v = 0 then [binFloatV1, 0]
  else let p := putUvarint v.toNat; binFloatV1 :: UInt8.ofNat p.length :: p

def encodeSized (tag : UInt8) (s : Bytes) : Bytes :=
  if s.length = 0 then [tag, 0] else tag :: toBytes s.length ++ s

def encodeCF (f : CF) : Bytes :=
  let tmp :=
    (if 0 < f.numParams.toInt then 0 :: toBytes f.numParams.toInt else []) ++
    (if 0 < f.numLocals.toInt then 1 :: toBytes f.numLocals.toInt else []) ++
    (match f.instructions with
     | some i => 2 :: encodeSized binBytesV1 i
     | none => []) ++
    (if f.variadic then [3] else []) ++
    (match f.sourceMap with
     | some sm => 5 :: toBytes ((sm.length : Int) * 2) ++
        (sm.map fun kv => toBytes kv.1.toInt ++ toBytes kv.2.toInt).flatten
     | none => [])
  binCompiledFunctionV1 :: toBytes tmp.length ++ tmp

def encodeFuncName (tag : UInt8) (name : Bytes) : Bytes :=
  let s := encodeSized binStringV1 name
  tag :: toBytes s.length ++ s

mutual
/-- `marshaler(o).MarshalBinary()`, or `[binUnkownType] ++ gob` for types without a marshaler.
    (`nil` has no encoding in Go — gob refuses it; the dummy here is never used by a theorem:
    the round-trip theorems require `Encodable`.) -/
def encodeObject (C : Ctx) : Obj → Bytes
  | .nil => [binUnkownType]
  | .undefined => [binUndefinedV1]
  | .bool true => [binTrueV1]
  | .bool false => [binFalseV1]
  | .int v => encodeInt v
  | .uint v => encodeUint v
  | .char v => encodeChar v
  | .float v => encodeFloat v
  | .str s => encodeSized binStringV1 s
  | .bytes s => encodeSized binBytesV1 s
  | .array xs =>
    if xs.length = 0 then [binArrayV1, 0]
    else
      let tmp := toBytes xs.length ++ encodeList C xs
      binArrayV1 :: toBytes tmp.length ++ tmp
  | .map kvs =>
    let tmp := encodeKVs C kvs
    binMapV1 :: toBytes tmp.length ++ tmp
  | .syncMap true _ => [binSyncMapV1, 0]
  | .syncMap false kvs =>
    let tmp := encodeKVs C kvs
    binSyncMapV1 :: toBytes tmp.length ++ tmp
  | .compiledFunction f => encodeCF f
  | .function name => encodeFuncName binFunctionV1 name
  | .builtinFunction name => encodeFuncName binBuiltinFunctionV1 name
  | .gob tn id => binUnkownType :: C.gobEnc tn id
def encodeList (C : Ctx) : List Obj → Bytes
  | [] => []
  | o :: rest => encodeObject C o ++ encodeList C rest
def encodeKVs (C : Ctx) : List (Bytes × Obj) → Bytes
  | [] => []
  | (k, v) :: rest => toBytes k.length ++ k ++ encodeObject C v ++ encodeKVs C rest
end

def encodeSrcFile (sf : SrcFile) : Bytes :=
  encodeSized binStringV1 sf.name ++ toBytes sf.base.toInt ++ toBytes sf.size.toInt ++
  toBytes sf.lines.length ++ (sf.lines.map fun l => toBytes l.toInt).flatten

def encodeFileSet (fs : FileSet) : Bytes :=
  toBytes fs.base.toInt ++ toBytes fs.files.length ++
  (fs.files.map fun f => let d := encodeSrcFile f; toBytes d.length ++ d).flatten

def header (version : Nat) : Bytes := beBytes 4 BytecodeSignature ++ beBytes 2 version

/-- `encodeBytecodeCommon` -/
def encodeBytecodeBody (C : Ctx) (bc : BC) : Bytes :=
  (match bc.fileSet with
   | some fs => let data := encodeFileSet fs; 0 :: encodeInt (BitVec.ofNat 64 data.length) ++ data
   | none => []) ++
  (match bc.main with
   | some f => 1 :: encodeCF f
   | none => []) ++
  (match bc.constants with
   | some cs => 2 :: encodeObject C (.array cs)
   | none => []) ++
  (if 0 < bc.numModules.toInt then 3 :: encodeInt bc.numModules else [])

/-- `(*Bytecode).MarshalBinary` -/
def encodeBytecode (C : Ctx) (bc : BC) : Bytes := header BytecodeVersion2 ++ encodeBytecodeBody C bc

end UgoVerif.Model.Enc
