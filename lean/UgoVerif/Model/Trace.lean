import UgoVerif.Model.SourceFile
/-
  C16 — hand model of the trace bookkeeping: objects.go `(*RuntimeError).addTrace`,
  `StackTrace`, and the trace-building part of vm.go `throw`, `getSourcePos`,
  `getFrameSourcePos` (as repaired by the two `fix:` commits of branch fix-pos:
  caller frames are appended unconditionally; the re-throw past an exhausted
  handler adds nothing).  Core Lean only.
-/
namespace UgoVerif.Model
open UgoVerif.Go

/-- `(*RuntimeError).addTrace`: append unless equal to the last entry.
    `Trace` is innermost first. -/
def addTrace (trace : List Pos) (pos : Pos) : List Pos :=
  match trace.getLast? with
  | some l => if l = pos then trace else trace ++ [pos]
  | none => trace ++ [pos]

/-- what the VM keeps per frame, as far as positions are concerned:
    `fn` (none = nil; only its source map matters), saved `ip`, and whether the
    frame has an error handler -/
structure TFrame where
  fn         : Option SourceMap
  ip         : Int
  hasHandler : Bool
  deriving Repr, Inhabited

/-- `vm.getSourcePos()` for current function `fn` and `vm.ip` -/
def getSourcePos (fn : Option SourceMap) (ip : Int) : Pos :=
  match fn with
  | none => NoPos
  | some sm => sourcePos sm ip

/-- `getFrameSourcePos(frame)` : position of `frame.ip + 1` -/
def getFrameSourcePos (f : TFrame) : Pos :=
  match f.fn with
  | none => NoPos
  | some sm => sourcePos sm (f.ip + 1)

/-- the `for index >= 0` loop of `throw` over the caller frames (innermost
    first): every visited frame contributes its saved position; the walk stops at
    the first frame that has a handler.  Returns the trace and the frames that
    stay (handler frame first), `[]` when the error is uncaught. -/
def unwind (trace : List Pos) : List TFrame → List Pos × List TFrame
  | [] => (trace, [])
  | f :: rest =>
    let trace := trace ++ [getFrameSourcePos f]
    if f.hasHandler then (trace, f :: rest) else unwind trace rest

/-- trace produced by `throw(err, noTrace)` when the current frame has no handler -/
def throwTrace (noTrace : Bool) (curFn : Option SourceMap) (curIp : Int)
    (callers : List TFrame) (trace : List Pos) : List Pos × List TFrame :=
  let trace := if noTrace then trace else addTrace trace (getSourcePos curFn curIp)
  unwind trace callers

/-- `StackTrace()` without a file set: offsets only, outermost first -/
def stackTraceRaw (trace : List Pos) : List FilePos :=
  trace.reverse.map (fun p => { filename := "", offset := p, line := 0, column := 0 })

/-- `StackTrace()` with a file set: `fileSet.Position` of each entry, last entry of
    `Trace` first.  The `LastFile` cache is threaded through the calls. -/
def stackTraceFrom (s : FileSet) : List Pos → Res (List FilePos)
  | [] => pure []
  | p :: rest => do
    let (fp, s') ← fsPosition s p
    let r ← stackTraceFrom s' rest
    pure (fp :: r)

def stackTrace (s : FileSet) (trace : List Pos) : Res (List FilePos) :=
  stackTraceFrom s trace.reverse

end UgoVerif.Model
