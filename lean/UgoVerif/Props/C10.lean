import UgoVerif.Proofs.EvalFix
import UgoVerif.Proofs.EvalSym
import UgoVerif.Proofs.EvalLocals
import UgoVerif.Proofs.EvalMono
import UgoVerif.Proofs.CompileAppend
/-
  C10 — evaluating fragments one by one equals evaluating them as one script.

  Model: `Model/Eval.lean` (Eval session: `compileSession`, `fixOpPop`, `setBytecode`,
  `getLocals`, `clearVM`, `evalRun`) over the compiler model and the VM model; tied to
  eval.go / compiler.go / vm.go by the lock-step stream `eval`.

  Proved (all inputs, no bounds):
    * `fixOpPop_spec`        what `fixOpPop` does to every NOOP-free decodable stream
    * `locals_roundtrip`     GetLocals ∘ initLocals(NumParams = NumLocals) restores frame 0, boxes included
    * `session_table_monotone`       the table operations keep earlier bindings, the disabled set, NumLocals
    * `session_table_monotone_full`  a whole `compileSession` — success, error or panic — extends the
                                     root table and only appends to the constant pool
                                     (`session_resolve_stable`, `evalSession_monotone`: every later fragment)
    * `compile_append_monadic`       compiling `f₁ ++ f₂` = compiling `f₁`, then `f₂`, in one compiler state
    * `compile_append_partial`       for `f₂` jump-free at its top level the bytes of `f₂` behind any prefix
                                     are the bytes of `f₂` compiled alone: no relocation
    * `eval_split_partial`           bytecode level: the batch main function is the concatenation of the
                                     fragments' streams (all fragments but the first jump-free at top level)
    * `first_fragment_eq_batch`
  Stated, NOT proved (`C10_full`): session ≈ batch for every fragment sequence.  Missing: the
  relocating version of `compile_append` for top-level `if`/`for`/`for-in`/`try`/`&&`/`||`/`?:`
  (jump operands are absolute), and the run level (VM model `Equivariant` for `Spec.Reloc.reloc_sim`
  and the boundary-state lemma).  `C10_full` is moreover false of the code for three input classes
  (open findings C10:variadic-param, C10:codeless-fragment and — with the optimizer on —
  C10:optimizer-error-timing, reproduced by the stream's oracle on every run).
-/
namespace UgoVerif.Props.C10
open UgoVerif UgoVerif.Go UgoVerif.Ast UgoVerif.Compile UgoVerif.VM UgoVerif.Eval
open UgoVerif.Model.Bytecode UgoVerif.Gen.Opcodes
open UgoVerif.Proofs.EvalFix UgoVerif.Proofs.EvalSym UgoVerif.Proofs.EvalLocals UgoVerif.Proofs.ModCache

/-! ### fixOpPop -/

/-- **fixOpPop_spec.**  For every instruction stream `bs` the decoder accepts and that contains no
    NOOP (the compiler emits none), `fixOpPop` never panics, and, reading `bs` as its instructions
    `L` (same opcodes as the decoder's): when the last two instructions are `POP; RETURN 0` and at
    least one instruction precedes them (`fixPos > 0`), the result is the same stream with exactly
    these two rewritten to `NOOP; RETURN 1`; in every other case — fewer than two instructions,
    another last pair, `RETURN 1`, or `POP; RETURN 0` standing alone at offset 0 — `bs` is unchanged.
    Nothing in the rule looks at jump targets: a `RETURN 0` that is the target of a jump is
    rewritten all the same (see `fixOpPop_rewrites_jump_target`). -/
theorem fixOpPop_spec (bs : Bytes) (is : List Instr) (hd : decodeV2 bs = some is)
    (hclean : ∀ i ∈ is, i.op ≠ Gen.Opcodes.OpNoOp) :
    ∃ L : List Ins, flat L = bs ∧ L.map (fun p => p.1.toNat) = is.map (·.op) ∧
      fixOpPop bs = .ok (match L.reverse with
        | p :: p1 :: r => if Fire p1 p ∧ r ≠ [] then flat r.reverse ++ [0, 39, 1] else bs
        | _ => bs) := by
  obtain ⟨L, hflat, hins, hops⟩ := flat_of_decode _ bs 0 is hd
  have hgood : ∀ p ∈ L, Good p := by
    intro p hp
    refine ⟨hins p hp, ?_⟩
    have : p.1.toNat ∈ L.map (fun p => p.1.toNat) := List.mem_map.mpr ⟨p, hp, rfl⟩
    rw [hops] at this
    obtain ⟨i, hi, he⟩ := List.mem_map.mp this
    have := hclean i hi
    simpa [Gen.Opcodes.OpNoOp, he] using this
  refine ⟨L, hflat, hops, ?_⟩
  subst hflat
  cases hrev : L.reverse with
  | nil =>
    have : L = [] := by simpa using hrev
    subst this
    exact fixOpPop_short [] (by simp) (by simp)
  | cons p R =>
    cases R with
    | nil =>
      have : L = [p] := by have := congrArg List.reverse hrev; simpa using this
      subst this
      exact fixOpPop_short [p] hgood (by simp)
    | cons p1 r =>
      have hL : L = r.reverse ++ [p1, p] := by have := congrArg List.reverse hrev; simpa using this
      subst hL
      have := fixOpPop_two r.reverse p1 p (fun q hq => hgood q (by simp at hq ⊢; left; exact hq))
        (hgood p1 (by simp)) (hgood p (by simp))
      rw [this]
      by_cases hc : Fire p1 p ∧ r ≠ []
      · have hc' : Fire p1 p ∧ r.reverse ≠ [] := ⟨hc.1, by simpa using hc.2⟩
        simp only [if_pos hc, if_pos hc']
      · have hc' : ¬ (Fire p1 p ∧ r.reverse ≠ []) := fun h => hc ⟨h.1, by simpa using h.2⟩
        simp only [if_neg hc, if_neg hc']

/-- non-vacuity / the expected case: `CONSTANT 0; POP; RETURN 0` becomes `CONSTANT 0; NOOP; RETURN 1` -/
example : fixOpPop [1, 0, 0, 22, 39, 0] = .ok [1, 0, 0, 0, 39, 1] := by decide
/-- corner case `fixPos > 0`: a stream that is only `POP; RETURN 0` has the POP at offset 0 and is left alone -/
example : fixOpPop [22, 39, 0] = .ok [22, 39, 0] := by decide
/-- `RETURN 1`, or an expression statement that is not last, is left alone -/
example : fixOpPop [1, 0, 0, 22, 39, 1] = .ok [1, 0, 0, 22, 39, 1] := by decide
example : fixOpPop [1, 0, 0, 22, 1, 0, 0, 40, 0, 39, 0] = .ok [1, 0, 0, 22, 1, 0, 0, 40, 0, 39, 0] := by decide
/-- a truncated last instruction is a Go index panic in `ReadOperands` -/
example : (fixOpPop [1, 0, 0, 22, 39]).isPanic = true := by decide

/-- the trailing `RETURN 0` of `if c { 5 }` is the target of the JUMPFALSY: it is rewritten to
    `RETURN 1` although the jump reaches it with nothing pushed (`TRUE; JUMPFALSY 10; CONSTANT 0;
    POP; RETURN 0`).  On the real code `a := 7` then `if a == 2 { 5 }` answers 7. -/
theorem fixOpPop_rewrites_jump_target :
    fixOpPop [41, 13, 0, 0, 0, 10, 1, 0, 0, 22, 39, 0] = .ok [41, 13, 0, 0, 0, 10, 1, 0, 0, 0, 39, 1] := by decide

/-! ### locals -/

/-- **locals_roundtrip.**  Let `vm` be the VM after a run whose main function has `n` locals, and
    `ls` what `Eval.Run` stores in `r.Locals` (`GetLocals`, then the tail of the previous locals).
    Running the prologue's `initLocals ls` for the next fragment — main function with
    `NumParams = NumLocals = m ≥ n`, not variadic (what `Eval.Run` sets) — on any VM state `s`
    (the stack is cleared or not) does not panic and puts into every slot `j < n` of frame 0
    exactly the object slot `j` held at the end of the previous run: values and pointer boxes
    alike (no dereference), so closures made earlier still share their captured variables with
    later fragments.  Slots `n ≤ j < m` receive the tail of `ls` or undefined; slots `≥ m` are untouched. -/
theorem locals_roundtrip (vm s : State) (n : Nat) (prev ls : List V) (ci : Nat) (free : Option (List Addr))
    (hget : getLocals vm n prev = .ok ls) (hvsz : vm.stack.size = stackSize)
    (hfn : s.heap[s.mainFn]? = some (.fn ci free))
    (hnp : (s.codes[ci]!).numParams = (s.codes[ci]!).numLocals) (hva : (s.codes[ci]!).variadic = false)
    (hm : n ≤ (s.codes[ci]!).numLocals) (hnl : (s.codes[ci]!).numLocals ≤ stackSize) (hsz : s.stack.size = stackSize) :
    ∃ st', exec (initLocals ls) s = (.ok (), { s with stack := st' }) ∧
      (∀ j, j < n → st'[j]? = vm.stack[j]?) ∧
      (∀ j, (s.codes[ci]!).numLocals ≤ j → st'[j]? = s.stack[j]?) := by
  obtain ⟨st', hex, _, hlow, hhigh⟩ := initLocals_session ls s ci free hfn hnp hva hnl hsz
  refine ⟨st', hex, ?_, hhigh⟩
  intro j hj
  rw [hlow j (by omega)]
  unfold getLocals at hget
  have hn : ¬ n > stackSize := by omega
  rw [if_neg hn] at hget
  have hls : ls = vm.stack.toList.take n ++ prev.drop (vm.stack.toList.take n).length := by
    simpa using (Res.ok.inj hget).symm
  have hjs : j < vm.stack.size := by omega
  have : ls.getD j V.undefined = vm.stack[j] := by
    rw [hls, List.getD, List.getElem?_append_left (by simp; omega)]
    simp [List.getElem?_take, hj, hjs]
  rw [this]
  simp [hjs]

/-- `getLocals` keeps the arguments beyond the fragment's locals (the repaired `Eval.Run`) -/
theorem getLocals_keeps_tail (vm : State) (n : Nat) (prev ls : List V) (h : getLocals vm n prev = .ok ls)
    (hvsz : vm.stack.size = stackSize) : ls.drop n = prev.drop n ∧ n ≤ stackSize := by
  unfold getLocals at h
  by_cases hn : n > stackSize
  · simp [hn] at h
  · rw [if_neg hn] at h
    have hls := (Res.ok.inj h).symm
    have hlen : (vm.stack.toList.take n).length = n := by simp; omega
    subst hls
    refine ⟨?_, by omega⟩
    rw [hlen, List.drop_append_of_le_length (by omega)]
    simp [hlen]

example : getLocals { (default : State) with stack := #[.int 1, .box 7, .nil] } 2 [.int 9, .int 9, .int 5] =
    .ok [.int 1, .box 7, .int 5] := by simp [getLocals, stackSize]

/-! ### the session's symbol table -/

/-- earlier table `t` is extended by `t'`: every name keeps its symbol, the disabled builtins and
    the number of locals are kept (the latter may grow) -/
def TableExt (t t' : Table) : Prop :=
  (∀ n sym, lookupSym n t.store = some sym → lookupSym n t'.store = some sym) ∧
  t'.disabled = t.disabled ∧ t.maxDefinition ≤ t'.maxDefinition

/-- **session_table_monotone** (the table operations every later compile is made of, on the root table).
    (1) a name bound by an earlier fragment resolves to the same symbol — same scope, same
        index — and resolving leaves the table untouched;
    (2) resolving any name (this may cache a builtin) extends the table;
    (3) declaring another name keeps every binding; (4) declaring (`:=`, `var`, `const`, `param`)
        a name the root table already binds (not the entry cached for a builtin that was merely
        used) creates no new symbol: `DefineLocal` answers "exists" and the compiler reports the
        redeclaration;
    (5) a disabled builtin that is not shadowed does not resolve, before and after any resolve;
    (6) `updateMaxDefs` never lowers `maxDefinition`: NumLocals of the session only grows. -/
theorem session_table_monotone (bs : List (String × Nat)) (t : Table) :
    (∀ n sym, lookupSym n t.store = some sym → resolveIn bs t.disabled n [t] = (some sym, [t])) ∧
    (∀ m, ∃ t', (resolveIn bs t.disabled m [t]).2 = [t'] ∧ TableExt t t' ∧ t'.numDefinition = t.numDefinition) ∧
    (∀ n m s, m ≠ n → lookupSym n (putSym m s t.store) = lookupSym n t.store) ∧
    (∀ n sym (s : CState), s.tables = [t] → lookupSym n t.store = some sym → sym.scope ≠ .builtin →
        (defineLocal n).run.run s = (.ok (sym, true), s)) ∧
    (∀ n, n ∈ t.disabled → lookupSym n t.store = none →
        (resolveIn bs t.disabled n [t]).1 = none ∧
        ∀ m, ∃ t', (resolveIn bs t.disabled m [t]).2 = [t'] ∧ n ∈ t'.disabled) ∧
    (∀ k r, ∃ t' r', updateMaxDefs k (t :: r) = t' :: r' ∧ t.maxDefinition ≤ t'.maxDefinition ∧
        t'.store = t.store ∧ t'.disabled = t.disabled) := by
  refine ⟨fun n sym h => resolve_bound bs _ n t sym h, ?_, fun n m s h => lookup_putSym_other n m s h _,
    fun n sym s hs h hb => defineLocal_existing n s t sym hs h hb, ?_, ?_⟩
  · intro m
    obtain ⟨t', h1, h2, h3, h4, _, h6⟩ := resolve_keeps bs t.disabled m t
    exact ⟨t', h1, ⟨h6, h2, by omega⟩, h4⟩
  · intro n hd hs
    refine ⟨resolve_disabled_root bs _ n t hd hs, fun m => ?_⟩
    obtain ⟨t', h1, h2, _⟩ := resolve_keeps bs t.disabled m t
    exact ⟨t', h1, by rw [h2]; exact hd⟩
  · intro k r
    obtain ⟨t', r', h1, h2, _, h4, h5⟩ := Proofs.EvalSym.updateMaxDefs_head k t r
    exact ⟨t', r', h1, h2, h4, h5⟩

/-- non-vacuity: `a` declared by an earlier fragment at local slot 3 -/
example : resolveIn [("len", 5)] [] "a" [{ store := [("a", { name := "a", index := 3, scope := .local_ })] }]
    = (some { name := "a", index := 3, scope := .local_ }, [{ store := [("a", { name := "a", index := 3, scope := .local_ })] }]) := by
  simp [resolveIn, lookupSym]
example : (resolveIn [("len", 5)] ["len"] "len" [{ disabled := ["len"] }]).1 = none := by decide

/-- **session_table_monotone_full**: a whole `compileSession` of a fragment — whatever it compiles
    to, and also when it fails or panics half-way — extends the session's root table
    (`Compile.RootExt`):
    * every earlier binding that is not merely the cache entry of a builtin that was used keeps its
      scope, constness, constant-literal value and name, and its index unless it is a global (a
      `global` re-declaration recomputes the index of the name constant) — `Compile.SymKeep`;
    * the disabled builtins are the same; `maxDefinition` (NumLocals) and `numDefinition` never go
      down; no global symbol is left waiting for its name constant (`NoPending`, so the theorem
      applies again to the next fragment);
    and on success the new constant pool is the old one with constants appended.
    Hypothesis `NoPending t`: the table holds no global symbol with index −1 (true of a new session
    and preserved).  Proof: `Proofs/CompileMono*.lean` — every function of the compiler model is
    monotone (`allMono`, the size induction of C05), `Proofs/EvalMono.lean` for `compileSession`. -/
theorem session_table_monotone_full (bs : List (String × Nat)) (t : Table) (cs : Array Const) (file : List Stmt)
    (hp : NoPending t) :
    RootExt t (compileSession bs t cs file).table ∧
    (∀ bc, (compileSession bs t cs file).result = .ok bc → IsPre cs bc.constants) :=
  UgoVerif.Proofs.EvalMono.compileSession_spec bs t cs file hp

/-- a name an earlier fragment declared resolves, after any later compile, to a symbol of the same
    scope, index (globals excepted), constness and literal value; resolving does not touch the table -/
theorem session_resolve_stable (bs : List (String × Nat)) (t : Table) (cs : Array Const) (file : List Stmt)
    (hp : NoPending t) (n : String) (y : Symbol) (hy : lookupSym n t.store = some y) (hb : y.scope ≠ .builtin) :
    ∃ y', resolveIn bs (compileSession bs t cs file).table.disabled n [(compileSession bs t cs file).table]
        = (some y', [(compileSession bs t cs file).table]) ∧ SymKeep y y' := by
  obtain ⟨y', h1, h2⟩ := (session_table_monotone_full bs t cs file hp).1.keep n y hy hb
  exact ⟨y', resolve_bound bs _ n _ y' h1, h2⟩

/-- the hypothesis holds of a new session, and of a table with a global that has its constant -/
example (d : List String) : NoPending { disabled := d } := fun p h => by simp at h
example : NoPending { store := [("g", { name := "g", index := 4, scope := .global })] } := by
  intro p hp _
  simp at hp
  subst hp
  decide

theorem evalRun_table (F : FloatOps) (fuel : Nat) (s : Session) (file : List Stmt) :
    (evalRun F fuel s file).session.table = (compileSession s.builtins s.table s.constants file).table ∧
    (evalRun F fuel s file).session.builtins = s.builtins ∧
    ((evalRun F fuel s file).session.constants = s.constants ∨
      ∃ bc, (compileSession s.builtins s.table s.constants file).result = .ok bc ∧
        (evalRun F fuel s file).session.constants = bc.constants) := by
  unfold evalRun
  simp only
  split
  · exact ⟨rfl, rfl, .inl rfl⟩
  · rename_i bc hbc
    split
    · exact ⟨rfl, rfl, .inr ⟨bc, hbc, rfl⟩⟩
    · exact ⟨rfl, rfl, .inr ⟨bc, hbc, rfl⟩⟩
    · split
      · exact ⟨rfl, rfl, .inr ⟨bc, hbc, rfl⟩⟩
      · exact ⟨rfl, rfl, .inr ⟨bc, hbc, rfl⟩⟩
      · exact ⟨rfl, rfl, .inr ⟨bc, hbc, rfl⟩⟩

/-- **every later fragment**: along a whole session each `Eval.Run` leaves a root table that
    extends the table the session started with, and a constant pool that extends the first one -/
theorem evalSession_monotone (F : FloatOps) (fuel : Nat) : ∀ (frags : List (List Stmt)) (s : Session),
    NoPending s.table → ∀ o ∈ evalSession F fuel s frags,
      RootExt s.table o.session.table ∧ IsPre s.constants o.session.constants
  | [], _, _, o, ho => by simp [evalSession] at ho
  | f :: fs, s, hp, o, ho => by
    have hstep := session_table_monotone_full s.builtins s.table s.constants f hp
    obtain ⟨ht, _, hc⟩ := evalRun_table F fuel s f
    have h1 : RootExt s.table (evalRun F fuel s f).session.table := by rw [ht]; exact hstep.1
    have h2 : IsPre s.constants (evalRun F fuel s f).session.constants := by
      rcases hc with hc | ⟨bc, hbc, hc⟩
      · rw [hc]; exact IsPre.refl _
      · rw [hc]; exact hstep.2 bc hbc
    unfold evalSession at ho
    simp only at ho
    split at ho
    · simp at ho
      rcases ho with rfl | ho
      · exact ⟨h1, h2⟩
      · have := evalSession_monotone F fuel fs (evalRun F fuel s f).session (h1.pend hp) o ho
        exact ⟨h1.trans this.1, h2.trans this.2⟩
    · simp at ho
      subst ho
      exact ⟨h1, h2⟩

/-! ### compile-append -/

/-- **compile_append_partial.**  `f₁` ANY statement list that compiles from `s` to `s₁`; `f₂` jump-free
    at its top level (`Ast.jfSs`: no `if`, `for`, `for-in`, `try`, `break`/`continue`, `&&`, `||`,
    `?:` outside function literals — everything else, function literals with any body included).
    Compiling `f₁ ++ f₂` from `s` and compiling `f₂` alone from `s₁` with an emptied instruction
    stream (what the next fragment of a session starts from) have the same outcome (`EquiOut`):
    the same error, or both succeed and the batch state is the fragment's final state with
    `s₁.insts` in front of its stream: same tables, same constant pool, same bytes appended, no
    operand relocated.
    NOT covered: top-level statements that emit jumps — their operands are absolute positions, so
    the appended bytes differ by a constant shift (`Spec/Reloc`); the bookkeeping of pending
    placeholder operands (C05's `St`) would have to be redone relationally.
    Not part of the statement: (1) the `Bytecode()` epilogue (final RETURN) and `fixOpPop`;
    (2) source-map keys and `Pos` values (the batch AST has shifted positions; bytes, tables and
    constants do not depend on them — not proved); (3) `Eval`'s fresh `cfuncCache` per fragment
    (`Model/Eval.maskFns`): a function literal of a later fragment that is identical to a function
    constant of an earlier one is de-duplicated by the batch compile and not by the session, which
    changes constant indexes (not behaviour). -/
theorem compile_append_partial (s s₁ : CState) (f₁ f₂ : List Stmt) (hjf : jfSs f₂ = true)
    (h₁ : runCM (compileStmts f₁) s = (.ok (), s₁)) :
    EquiOut s₁.insts (runCM (compileStmts f₂) (freshStream s₁)) (runCM (compileStmts (f₁ ++ f₂)) s) :=
  Compile.compile_append_partial s s₁ f₁ f₂ hjf h₁

/-- the monadic core, for ALL statement lists: the batch compile is the parts compiled one after
    the other in one compiler state -/
theorem compile_append_monadic (f₁ f₂ : List Stmt) :
    compileStmts (f₁ ++ f₂) = (do compileStmts f₁; compileStmts f₂) := compileStmts_append f₁ f₂

/-- non-vacuity: `x := 1; f := func() { if x { return x } }; f()` is jump-free at its top level
    (the `if` sits inside a function literal); a top-level `if` is not -/
example : jfSs [.assign 1 tDefine [.ident 1 "x"] [.int 6 1#64],
    .assign 9 tDefine [.ident 9 "f"] [.func 14 false [] 21 [.if_ 23 none (.ident 26 "x") 28 [.return_ 30 (some (.ident 37 "x"))] none]],
    .expr 44 (.call 44 false (.ident 44 "f") [])] = true := by decide
example : jfS (.if_ 1 none (.ident 4 "x") 6 [] none) = false := by decide

/-- **eval_split_partial** (bytecode level).  Fragments `fs` compiled one after the other by the
    compiler model — each from an emptied stream and from the tables and constants its predecessor
    left (`compileChain`) — give the streams `Δ₀, Δ₁, …`.  If every fragment after the statements
    `done` already compiled is jump-free at its top level, the concatenation compiles from the same
    start to `s₁.insts ++ Δ₀ ++ Δ₁ ++ …`, with the same final tables and constant pool: the main
    function of fragment `k` is, byte for byte, the part of the batch main function behind the
    streams of the earlier fragments (both before the `Bytecode()` epilogue).
    With `session_table_monotone_full` (slot numbers and constant indexes of earlier names are the
    same in every later fragment) and `locals_roundtrip` (frame 0 is restored, boxes included) this
    is the compile half of `session ≈ batch` for these fragments.
    REMAINING GAP (run level): that the VM model, running `Δ₀ ++ … ++ Δₖ ++ RETURN`, passes after
    `Δ₀ ++ … ++ Δₖ₋₁` through a state whose frame-0 slots are what `getLocals` stored, and from
    there behaves like a fresh run of `Δₖ ++ RETURN` on those locals.  For jump-free streams this is
    the instance `φ = (· + d)` of `Spec.Reloc.reloc_sim` (C11), which asks for `Machine.Equivariant`
    of the machine — not established for the VM model's 44 opcodes — plus the boundary-state lemma
    (stack height = NumLocals at a statement boundary, C05 `compile_wf` clause still open). -/
theorem eval_split_partial (fs : List (List Stmt)) (s : CState) (done : List Stmt) (s₁ : CState)
    (h₁ : runCM (compileStmts done) s = (.ok (), s₁)) (hjf : ∀ f ∈ fs, jfSs f = true)
    (ds : List (Array UInt8)) (u : CState) (hc : compileChain s₁ fs = some (ds, u)) :
    ∃ M, runCM (compileStmts (done ++ fs.flatten)) s =
      (.ok (), { u with insts := ds.foldl (· ++ ·) s₁.insts, sourceMap := M }) :=
  eval_split_chain fs s done s₁ h₁ hjf ds u hc

/-! ### the headline -/

/-- address-free image of a runtime value, to depth `d` -/
inductive Img where
  | nil | undefined | cut | bad
  | int (v : BitVec 64) | uint (v : BitVec 64) | float (v : F64) | char (v : BitVec 32) | bool (b : Bool)
  | str (s : Bytes) | bytes (s : Bytes)
  | arr (xs : List Img) | map (kvs : List (Bytes × Img)) | box (x : Img)
  | fn (nfree : Nat) | builtin (i : Nat) | err (name msg : Bytes) | other
  deriving Repr, Inhabited

def image (heap : Array Cell) : Nat → V → Img
  | 0, _ => .cut
  | d+1, v =>
    match v with
    | .nil => .nil | .undefined => .undefined
    | .int x => .int x | .uint x => .uint x | .float x => .float x | .char x => .char x | .bool b => .bool b
    | .str s => .str s | .bytes s => .bytes s
    | .arr a off len =>
      match heap[a]? with
      | some (.arr xs) => .arr (((xs.toList.drop off).take len).map (image heap d))
      | _ => .bad
    | .map a =>
      match heap[a]? with
      | some (.map kvs) => .map (kvs.map fun (k, x) => (k, image heap d x))
      | _ => .bad
    | .box a => match heap[a]? with | some (.box x) => .box (image heap d x) | _ => .bad
    | .cfun a => match heap[a]? with | some (.fn _ free) => .fn (free.getD []).length | _ => .bad
    | .builtin i => .builtin i
    | .err a => match heap[a]? with | some (.err n m _) => .err n m | _ => .bad
    | .rterr a =>
      match heap[a]? with
      | some (.rterr (some ea)) => (match heap[ea]? with | some (.err n m _) => .err n m | _ => .bad)
      | _ => .bad
    | .iter _ => .other
    | .host _ => .other

/-- what the property observes of one `Eval.Run` (printed output is not modelled) -/
structure Obs where
  result : Img                  -- value, or `.err name msg` of the error (`.other` for non-script errors)
  failed : Bool
  locals : List Img
  globals : Img
  deriving Inhabited

def obsOf (d : Nat) (o : RunOut) : Option Obs :=
  let h := o.session.vm.heap
  let rest := (o.session.locals.map (image h d), image h d o.session.globals)
  match o.result with
  | .value v => some { result := image h d v, failed := false, locals := rest.1, globals := rest.2 }
  | .error (.rt a) => some { result := image h d (.rterr a), failed := true, locals := rest.1, globals := rest.2 }
  | .error _ => some { result := .other, failed := true, locals := rest.1, globals := rest.2 }
  | .compileError _ => some { result := .other, failed := true, locals := [], globals := .cut }
  | _ => none       -- crash / outside the model / out of fuel: not compared

/-- the statement's proviso on compiled code: the main function of the fragment holds no RETURN
    except as its very last instruction -/
def returnsOnlyAtEnd (insts : Bytes) : Bool :=
  match decodeV2 insts with
  | some is => is.dropLast.all fun i => i.op != Gen.Opcodes.OpReturn
  | none => false

def ProvisoHolds (F : FloatOps) (fuel : Nat) (s0 : Session) (frags : List (List Stmt)) : Prop :=
  ∀ o ∈ (evalSession F fuel s0 frags).dropLast, ∀ bc, o.bytecode = some bc → returnsOnlyAtEnd bc.main.insts.toList = true

/-- **C10_full** (NOT proved; false of the code for the open findings): for every session
    start, every sequence of fragments meeting the proviso and every `k`, the `k`-th `Eval.Run`
    of the session and ONE `Eval.Run` of the concatenation of the first `k+1` fragments on an
    equal fresh session show the same result or error, locals and globals (as address-free
    images to every depth), up to and including the first fragment that fails (`evalSession`
    stops there). -/
def C10_full : Prop :=
  ∀ (F : FloatOps) (fuel : Nat) (builtins : List (String × Nat)) (disabled : List String) (heap : Array Cell)
    (g : V) (args : List V) (frags : List (List Stmt)),
    let s0 := newSession builtins disabled heap g args
    ProvisoHolds F fuel s0 frags →
    ∀ (k : Nat) (o : RunOut), (evalSession F fuel s0 frags)[k]? = some o →
      ∀ d, ∀ a b, obsOf d o = some a → obsOf d (evalRun F fuel s0 (frags.take (k + 1)).flatten) = some b →
        a.failed = b.failed ∧ a.result = b.result ∧ (a.failed = false ∨ o.bytecode.isSome → a.locals = b.locals ∧ a.globals = b.globals)

/-- the first fragment: session and batch are the same computation -/
theorem first_fragment_eq_batch (F : FloatOps) (fuel : Nat) (s0 : Session) (f : List Stmt) (rest : List (List Stmt)) :
    (evalSession F fuel s0 (f :: rest))[0]? = some (evalRun F fuel s0 ((f :: rest).take 1).flatten) := by
  simp only [List.take_succ_cons, List.take_zero, List.flatten_cons, List.flatten_nil, List.append_nil]
  unfold evalSession
  simp only
  cases (evalRun F fuel s0 f).result <;> simp

/-- **C10_partial**: the proved parts of `C10_full` — the first fragment; the exact effect of
    `fixOpPop`; the locals round trip with boxes; the table operations.  Missing for `C10_full`:
    `compile_append` (compiling `f₁ ++ f₂` = compiling `f₁`, then `f₂` from the resulting table and
    constants, modulo the final RETURN and a constant shift of jump targets) and the VM relocation
    simulation (`Spec/Reloc`); since round 2 the compile half is proved for fragments that are jump-free
    at their top level (`compile_append_partial`, `eval_split_partial`) and the table half for all
    fragments (`session_table_monotone_full`). -/
theorem C10_partial :
    (∀ (F : FloatOps) (fuel : Nat) (s0 : Session) (f : List Stmt) (rest : List (List Stmt)),
      (evalSession F fuel s0 (f :: rest))[0]? = some (evalRun F fuel s0 ((f :: rest).take 1).flatten)) ∧
    (∀ (pre : List Ins) (p1 p : Ins), (∀ q ∈ pre, Good q) → Good p1 → Good p →
      fixOpPop (flat (pre ++ [p1, p])) =
        .ok (if Fire p1 p ∧ pre ≠ [] then flat pre ++ [0, 39, 1] else flat (pre ++ [p1, p]))) ∧
    (∀ (bs : List (String × Nat)) (t : Table) n sym, lookupSym n t.store = some sym →
      resolveIn bs t.disabled n [t] = (some sym, [t])) :=
  ⟨first_fragment_eq_batch, fixOpPop_two, fun bs t n sym h => resolve_bound bs _ n t sym h⟩

end UgoVerif.Props.C10
