import UgoVerif.Proofs.Conv
/-
  C20 — values cross the Go boundary without change.

  All theorems are about the *regenerated* conversions `Gen.Conv.toObject`,
  `toObjectAlt`, `toInterface` (translated from the three type switches of ugo.go
  on every run, container loops included) composed with the hand model of the
  registry converters (`Model/ConvReg.lean`; which types are registered and
  whether a converter reads through a nil pointer is the regenerated table
  `Gen.ConvReg.registry`; the converter results are tied by the `conv` stream).
  They hold for every value, nested arbitrarily deep, and every `ConvOps`.

  Vocabulary (`Model/Conv.lean`): `plain` uGO values, `canon` Go values, `normObj`
  (replaces `Bytes(nil)` by `Bytes{}` — uGO cannot tell them apart — and nothing
  else), `normGo` / `≃` (identify nil and empty `[]byte`, `[]any`,
  `map[string]any` and nothing else).
-/
set_option linter.unusedSimpArgs false
set_option linter.unusedVariables false
namespace UgoVerif.Props.C20
open UgoVerif UgoVerif.Go UgoVerif.Gen.Conv UgoVerif.Model.Conv UgoVerif.Proofs.Conv

/-! ## uGO → Go → uGO -/

/-- Converting a plain uGO value to Go never fails, gives a canonical Go value, and
    converting that back with `ToObject` gives the same value with the same types at every
    position (`normObj o` is `o` with `Bytes(nil)` read as the empty `Bytes{}`). -/
theorem toObject_toInterface (C : ConvOps) (o : Obj) (h : plain o = true) :
    ∃ g, toInterface o = .ok g ∧ canon g = true ∧ toObject C g = .ok (normObj o) :=
  rt_obj C o h

/-- `normObj` is the identity on values without a nil `Bytes`, in particular on everything
    `ToObject` returns for canonical Go input: the round trip is then literally `o`. -/
theorem toObject_toInterface_scalar (C : ConvOps) (o : Obj) (h : plain o = true)
    (hs : ∀ xs, o ≠ .array xs) (hm : ∀ kvs, o ≠ .map kvs) (hb : o ≠ .bytesNil) :
    ∃ g, toInterface o = .ok g ∧ toObject C g = .ok o := by
  obtain ⟨g, h1, _, h3⟩ := rt_obj C o h
  refine ⟨g, h1, ?_⟩
  cases o <;> simp_all [normObj]

/-- The same round trip through `ToObjectAlt`, for plain values without chars. -/
theorem toObjectAlt_toInterface (C : ConvOps) (o : Obj) (h : plainAlt o = true) :
    ∃ g, toInterface o = .ok g ∧ canonAlt g = true ∧ toObjectAlt C g = .ok (normObj o) :=
  rtAlt_obj C o h

/-- `ToObjectAlt` is documented to turn *every* signed integer into Int: a char comes back
    as the int with the same numeric value (not as a char). -/
theorem toObjectAlt_char (C : ConvOps) (v : BitVec 32) :
    toInterface (.char v) = .ok (.int32 v) ∧
    ∃ w, toObjectAlt C (.int32 v) = .ok (.int w) ∧ w.toInt = v.toInt :=
  ⟨by simp [toInterface], BitVec.signExtend 64 v, by simp [toObjectAlt],
    BitVec.toInt_signExtend_of_le (by decide)⟩

example : plain (.array [.int 1#64, .char 97#32, .map [([107], .bytesNil), ([], .array [])], .undefined]) = true := by
  simp [plain, plainList, plainKvs]
example : plainAlt (.map [([107], .array [.uint 2#64, .float 0#64, .str [104]])]) = true := by
  simp [plainAlt, plainAltList, plainAltKvs]

/-! ## Go → uGO → Go -/

/-- Converting a canonical Go value with `ToObject` never fails, gives a plain uGO value, and
    converting that back gives a Go value `≃` the original. -/
theorem toInterface_toObject (C : ConvOps) (g : GoVal) (h : canon g = true) :
    ∃ o g', toObject C g = .ok o ∧ plain o = true ∧ toInterface o = .ok g' ∧ g' ≃ g := by
  obtain ⟨o, h1, h2, h3⟩ := rt_go C g h
  exact ⟨o, normGo g, h1, h2, h3, sim_of_eq_norm rfl⟩

/-- … and the result is exactly the original with nil containers replaced by empty ones. -/
theorem toInterface_toObject_norm (C : ConvOps) (g : GoVal) (h : canon g = true) :
    ∃ o, toObject C g = .ok o ∧ toInterface o = .ok (normGo g) := by
  obtain ⟨o, h1, _, h3⟩ := rt_go C g h
  exact ⟨o, h1, h3⟩

/-- The same through `ToObjectAlt`, for canonical values without rune. -/
theorem toInterface_toObjectAlt (C : ConvOps) (g : GoVal) (h : canonAlt g = true) :
    ∃ o g', toObjectAlt C g = .ok o ∧ plainAlt o = true ∧ toInterface o = .ok g' ∧ g' ≃ g := by
  obtain ⟨o, h1, h2, h3⟩ := rtAlt_go C g h
  exact ⟨o, normGo g, h1, h2, h3, sim_of_eq_norm rfl⟩

/-- `≃` is plain equality on everything that is not a `[]byte`, `[]any` or `map[string]any`. -/
theorem sim_scalar (a b : GoVal) (ha : isContainer a = false) : a ≃ b ↔ a = b := by
  unfold GoSim
  cases a <;> simp [isContainer] at ha <;> cases b <;> simp [normGo]
/-- `≃` relates the nil and the empty container of each kind. -/
theorem sim_nil_empty : GoVal.bytesNil ≃ .bytes [] ∧ GoVal.sliceNil ≃ .slice [] ∧ GoVal.mapNil ≃ .map [] := by
  simp [GoSim, normGo, normGoList, normGoKvs]
/-- `≃` does not relate a nil container to a non-empty one, nor containers of different kinds. -/
theorem sim_nil_nonempty (x : GoVal) (xs : List GoVal) : ¬ (GoVal.sliceNil ≃ .slice (x :: xs)) ∧ ¬ (GoVal.sliceNil ≃ .mapNil) := by
  simp [GoSim, normGo, normGoList]

example : canon (.slice [.int64 1#64, .int32 97#32, .sliceNil, .map [([107], .bytesNil), ([], .mapNil)], .nil]) = true := by
  simp [canon, canonList, canonKvs]
example : canonAlt (.map [([107], .slice [.uint64 2#64, .float64 0#64, .string [104], .bytesNil])]) = true := by
  simp [canonAlt, canonAltList, canonAltKvs]

/-! ## other integer and float widths -/

/-- `ToObjectAlt` accepts every Go integer type; the result is an Int for signed and a Uint
    for unsigned types and has the same mathematical value. -/
theorem width_value (C : ConvOps) (g : GoVal) (n : Int) (s : Bool)
    (hn : goIntValue g = some n) (hs : goIntSigned g = some s) :
    ∃ v, toObjectAlt C g = .ok (if s then .int v else .uint v) ∧
         objIntValue (if s then Obj.int v else Obj.uint v) = some n := by
  cases g <;> simp [goIntValue, goIntSigned] at hn hs <;> subst hn <;> subst hs <;>
    simp [toObjectAlt, objIntValue, BitVec.toInt_signExtend_of_le, BitVec.toNat_setWidth] <;>
    (rename_i v; have := v.isLt; omega)

/-- `ToObject` converts the integer types it has a case for (`int64`, `int`, `rune`, `uint64`,
    `uint`, `uintptr`, `byte`) to the value with the same mathematical value … -/
theorem width_value_toObject (C : ConvOps) (g : GoVal) (n : Int)
    (hn : goIntValue g = some n) (hw : toObjectWidth g = true) :
    ∃ o, toObject C g = .ok o ∧ objIntValue o = some n := by
  cases g <;> simp [goIntValue, toObjectWidth] at hn hw <;> subst hn <;>
    simp [toObject, objIntValue]
  case uint8 v =>
    have := v.isLt
    simp only [Int.bmod]
    omega

/-- … and reports the other widths (`int8`, `int16`, `uint16`, `uint32`) as errors. -/
theorem width_unsupported_toObject (C : ConvOps) (g : GoVal) (n : Int)
    (hn : goIntValue g = some n) (hw : toObjectWidth g = false) :
    toObject C g = .err (.other "error" ("cannot convert to object: " ++ g.typeName)) := by
  cases g <;> simp [goIntValue, toObjectWidth] at hn hw <;>
    simp [toObject, toObjectDefault, regToObject, goRegType]

/-- `float32` becomes the Float `float64(x)` (exact by the Go specification; `C.f32to64`),
    `float64` is kept bit for bit (NaN payloads included), in both functions. -/
theorem width_value_float (C : ConvOps) (x : BitVec 32) (y : F64) :
    toObject C (.float32 x) = .ok (.float (C.f32to64 x)) ∧
    toObjectAlt C (.float32 x) = .ok (.float (C.f32to64 x)) ∧
    toObject C (.float64 y) = .ok (.float y) ∧ toObjectAlt C (.float64 y) = .ok (.float y) := by
  simp [toObject, toObjectAlt]

example : goIntValue (.int8 (BitVec.ofInt 8 (-3))) = some (-3) ∧ goIntSigned (.int8 (BitVec.ofInt 8 (-3))) = some true := by decide
example : goIntValue (.uint8 200#8) = some 200 ∧ toObjectWidth (.uint8 200#8) = true := by decide
example : goIntValue (.uint32 7#32) = some 7 ∧ toObjectWidth (.uint32 7#32) = false := by decide

/-! ## unsupported types, panics -/

/-- A Go value that mentions (at any depth of `[]any` / `map[string]any`) a type outside the
    switches and the registry is reported as an error by both functions. -/
theorem unsupported_is_error (C : ConvOps) (g : GoVal) (h : hasUnsupported g = true) :
    (∃ e, toObject C g = .err e) ∧ (∃ e, toObjectAlt C g = .err e) := by
  constructor
  · apply err_of_not_ok_not_panic _ _ (toObject_no_panic C g)
    intro o ho
    have := toObject_ok_supported C g o ho
    simp [this] at h
  · apply err_of_not_ok_not_panic _ _ (toObjectAlt_no_panic C g)
    intro o ho
    have := toObjectAlt_ok_supported C g o ho
    simp [this] at h

/-- the error is `cannot convert to object: <%T>` -/
theorem unsupported_message (C : ConvOps) (tn : String) :
    toObject C (.unsupported tn) = .err (.other "error" ("cannot convert to object: " ++ tn)) ∧
    toObjectAlt C (.unsupported tn) = .err (.other "error" ("cannot convert to object: " ++ tn)) := by
  simp [toObject, toObjectAlt, toObjectDefault, regToObject, goRegType, GoVal.typeName]

example : hasUnsupported (.slice [.int64 1#64, .map [([97], .unsupported "chan int")]]) = true := by
  simp [hasUnsupported, hasUnsupportedList, hasUnsupportedKvs]

/-- Every registered converter guards each dereference of its pointer argument
    (`decide` over the regenerated table). -/
theorem registry_nil_safe : ∀ e ∈ Gen.ConvReg.registry, e.nilSafe = true := by decide

/-- Neither direction panics, for every Go value (typed nil pointers of the registry types,
    nil error pointers, nil slices/maps/functions, unsupported types included), every Object
    (nil `*Time`, `*Location`, `*RawMessage`, `*scanArg`, `*SyncMap`, the nil interface
    included) and every nesting. -/
theorem conv_no_panic (C : ConvOps) (g : GoVal) (o : Obj) :
    (toObject C g).isPanic = false ∧ (toObjectAlt C g).isPanic = false ∧ (toInterface o).isPanic = false := by
  refine ⟨toObject_no_panic C g, toObjectAlt_no_panic C g, ?_⟩
  obtain ⟨g', h⟩ := toInterface_total o
  simp [h, Res.isPanic]

/-- `ToInterface` always returns a value. -/
theorem toInterface_total (o : Obj) : ∃ g, toInterface o = .ok g := Proofs.Conv.toInterface_total o

/-- the typed-nil row of DESIGN §6, after the repair: a nil `*Time` converts to nil -/
example : toInterface .timeNil = .ok .nil := by
  simp [toInterface, toInterfaceDefault, regToInterface, objRegType, regFind, Gen.ConvReg.registry, anyConverter]

/-! ## registry types -/

/-- time and json values survive the round trip through the registry converters:
    `time.Time`, a non-nil `*time.Location` and a non-nil `json.RawMessage` come back unchanged,
    `time.Duration` comes back as the `int64` with the same bits. -/
theorem registry_roundtrip (C : ConvOps) (t l : Nat) (s : Bytes) (d : BitVec 64) :
    (∃ o, toObject C (.time t) = .ok o ∧ toInterface o = .ok (.time t)) ∧
    (∃ o, toObject C (.locPtr l) = .ok o ∧ toInterface o = .ok (.locPtr l)) ∧
    (∃ o, toObject C (.raw s) = .ok o ∧ toInterface o = .ok (.raw s)) ∧
    (∃ o, toObject C (.duration d) = .ok o ∧ toInterface o = .ok (.int64 d)) := by
  simp [toObject, toObjectDefault, regToObject, goRegType, regFind, Gen.ConvReg.registry, objConverter,
    toInterface, toInterfaceDefault, regToInterface, objRegType, anyConverter]

end UgoVerif.Props.C20
