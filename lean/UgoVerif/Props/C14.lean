import UgoVerif.VM.Invoke
import UgoVerif.Gen.VmFields
import UgoVerif.Proofs.InvokeShift
import UgoVerif.Proofs.ShiftLoop
import UgoVerif.Proofs.GlobalsKeep
/-
  C14 — calling a script function from Go (Invoker) equals calling it inside the script.

  Model: VM/Invoke.lean (`acquireFrom`, `releaseVM`, `zeroVM`, pool, `runAt`), VM/Run.lean
  (`initLocals`, `prologue`), VM/Step.lean (`callCompiled`).  Tie: the `invoke` stream runs the
  model in lock-step with the real VM for in-script and Go-side calls; `Gen/VmFields.lean` is
  regenerated from vm.go on every check.
-/
namespace UgoVerif.Props.C14
open UgoVerif UgoVerif.Go UgoVerif.VM UgoVerif.Gen.VmFields
open UgoVerif.Proofs.InvokeBind UgoVerif.Proofs.Shift UgoVerif.Proofs.InvokeShift UgoVerif.Props.C02

set_option linter.unusedSimpArgs false
set_option linter.unusedVariables false

/-! ### acquire_complete (regenerated fact) -/

/-- VM fields whose value in a child needs no per-invocation initialisation:
    `stack`, `frames` — contents at or above `sp` / `frameIndex` are dead (liveness, C07 `step_live`;
    the prologue sets `sp`, `frameIndex` and re-initialises frame 0 and the locals);
    `mu` — a mutex, zero value = unlocked, only locked/unlocked by `Run`. -/
def zeroOk : List String := ["stack", "frames", "mu"]

/-- fields a child keeps from its creation (`&VM{bytecode: …}`) through every `_release` -/
def keptSinceCreation : List String :=
  releaseKeeps.filter fun f => newChildKeeps.contains f && syncPoolNewKeeps.contains f

/-- Every VM field (or `bytecode.` sub-field) that `Run` and the methods reachable from it read
    is assigned by `_acquire`, or assigned (not merely grown) by `Run`'s prologue, or is set when the
    child is created and preserved by `_release`, or is one of the three `zeroOk` fields.  A new VM
    field read by the loop and not initialised for children, or an assignment dropped from
    `_acquire` (`modulesCache`, `noPanic`, `constants`, …), breaks this obligation. -/
theorem acquire_complete :
    runReads.all (fun f => acquireAssigns.contains f || prologueAssigns.contains f ||
      keptSinceCreation.contains f || zeroOk.contains f) = true := by decide

/-- the lists are about the real struct: every path names a field of `VM` -/
theorem reads_are_fields : runReadRoots.all (fun f => vmFields.contains f) = true := by decide

/-- `_release` overwrites the whole VM with `VM{bytecode: bc}` after `*bc = Bytecode{}`
    (regenerated): the model's `releaseVM = zeroVM` is what the code does. -/
theorem release_zeroes :
    releaseAssignsWholeVM = true ∧ releaseKeeps = ["bytecode"] ∧ releaseResetsBytecode = true ∧
    newChildKeeps = ["bytecode"] ∧ syncPoolNewKeeps = ["bytecode"] := by decide

/-! ### pool_fresh -/

/-- `_release ; _acquire` gives the child a new VM would be: whatever a pooled child did
    before (any state `used`), after release it is acquired into exactly the state a freshly
    created child is acquired into — for every root, caller and callee. -/
theorem pool_fresh (root caller used : State) (callee : Addr) :
    acquireFrom root caller (releaseVM used) callee = acquireFrom root caller (zeroVM caller) callee := by
  simp [acquireFrom, releaseVM, zeroVM]

/-- the pool never hands out anything but zero VMs: taking from the pool equals creating a child -/
theorem pool_acquire_eq_new (w : World) (root caller : State) (callee : Addr)
    (hw : ∀ c ∈ w.idle, ∃ u, c = releaseVM u) :
    (poolAcquire w root caller callee true).1 = (poolAcquire w root caller callee false).1 := by
  unfold poolAcquire
  cases h : w.idle with
  | nil => simp
  | cons c rest =>
    obtain ⟨u, rfl⟩ := hw c (by simp [h])
    simp [pool_fresh]

theorem pool_release_inv (w : World) (child : State) (hw : ∀ c ∈ w.idle, ∃ u, c = releaseVM u) :
    ∀ c ∈ (poolRelease w child).idle, ∃ u, c = releaseVM u := by
  intro c hc
  simp [poolRelease] at hc
  rcases hc with rfl | hc
  · exact ⟨child, rfl⟩
  · exact hw c hc

/-- non-vacuity: a used child with residue everywhere -/
example : ∃ used : State, used.sp = 7 ∧ used.abort = true ∧
    (acquireFrom default default (releaseVM used) 3).abort = false ∧ (acquireFrom default default (releaseVM used) 3).sp = 0 :=
  ⟨{ (default : State) with sp := 7, abort := true }, rfl, rfl, rfl, rfl⟩

/-! ### parameter binding: `initLocals` (Go-side call) vs `xOpCallCompiled` (in-script call) -/

/-- Go's `copy(dst, src)` on lists -/
def goCopy (dst src : List V) : List V := src.take dst.length ++ dst.drop src.length

/-- vm.go `initLocals`, statement by statement, as a function on the locals slice
    (`arr` = the array object allocated for the variadic parameter) -/
def initLocalsSpec (np nl : Nat) (variadic : Bool) (args : List V) (arr : V) : List V :=
  let locals := List.replicate nl V.undefined
  if np = 0 then locals
  else if args.length < np then
    goCopy (if variadic then locals.set (np - 1) arr else locals) args
  else
    goCopy (locals.set (np - 1) (if variadic then arr else args.getD (np - 1) .undefined)) (args.take (np - 1))

/-- vm.go `xOpCallCompiled` with `flags = 0` on the slots `[bp, bp+numLocals)` of the new frame,
    for an argument count it accepts: the arguments are already in place, the variadic tail is
    replaced by `arr`, the remaining locals are set to undefined -/
def callbindSpec (np nl : Nat) (variadic : Bool) (args : List V) (arr : V) : List V :=
  if variadic then args.take (np - 1) ++ [arr] ++ List.replicate (nl - np) V.undefined
  else args ++ List.replicate (nl - np) V.undefined

/- the argument counts both entry points accept (property text: others are not compared):
   `accepted np variadic n` (Proofs/InvokeBind) = `if variadic then 1 ≤ np ∧ np - 1 ≤ n else n = np` -/

theorem goCopy_take_lt (locals args : List V) (n : Nat) (h1 : n ≤ args.length) (h2 : n ≤ locals.length) :
    goCopy locals (args.take n) = args.take n ++ locals.drop n := by
  unfold goCopy
  rw [List.take_of_length_le (by simp; omega)]
  simp [List.length_take, Nat.min_eq_left h1]

/-- **bindSpecs_agree** (proved): over the two statement-by-statement list specifications of the
    binding code, both entry points leave the same values in the callee's `NumLocals` slots for
    every accepted argument list (`arr` = the variadic array). -/
theorem bindSpecs_agree (np nl : Nat) (variadic : Bool) (args : List V) (arr : V) (hnl : np ≤ nl)
    (hacc : accepted np variadic args.length) :
    initLocalsSpec np nl variadic args arr = callbindSpec np nl variadic args arr := by
  unfold initLocalsSpec callbindSpec
  cases variadic with
  | false =>
    simp only [accepted, Bool.false_eq_true, if_false] at hacc
    simp only [Bool.false_eq_true, if_false]
    by_cases h0 : np = 0
    · subst h0
      have : args = [] := List.eq_nil_of_length_eq_zero hacc
      simp [this]
    · have hlt : ¬ args.length < np := by omega
      simp only [h0, hlt, if_false]
      rw [goCopy_take_lt _ _ _ (by omega) (by simp; omega)]
      apply List.ext_getElem?
      intro i
      simp only [List.getElem?_append, List.getElem?_take, List.getElem?_drop, List.length_take, List.getElem?_set,
        List.getElem?_replicate, List.length_replicate]
      by_cases hi : i < np - 1
      · have h1 : i < min (np - 1) args.length := by omega
        have h2 : i < args.length := by omega
        simp [h1, hi, h2]
      · have h1 : ¬ i < min (np - 1) args.length := by omega
        simp only [h1, if_false]
        have e1 : min (np - 1) args.length = np - 1 := by omega
        rw [e1]
        by_cases hie : i = np - 1
        · subst hie
          have h3 : np - 1 < args.length := by omega
          have h4 : np - 1 < nl := by omega
          simp [h3, h4, List.getD, List.getElem?_eq_getElem h3]
        · have h3 : ¬ i < args.length := by omega
          have h5 : ¬ np - 1 = np - 1 + (i - (np - 1)) := by omega
          simp only [h3, if_false, h5]
          by_cases h6 : i < nl
          · have : np - 1 + (i - (np - 1)) < nl := by omega
            have h7 : i - args.length < nl - np := by omega
            simp [this, h7]
          · have : ¬ np - 1 + (i - (np - 1)) < nl := by omega
            have h7 : ¬ i - args.length < nl - np := by omega
            simp [this, h7]
  | true =>
    simp only [accepted, if_true] at hacc
    obtain ⟨h1p, hle⟩ := hacc
    have h0 : ¬ np = 0 := by omega
    simp only [h0, if_false, if_true]
    have key : ∀ (src : List V), src = args.take (np - 1) →
        goCopy ((List.replicate nl V.undefined).set (np - 1) arr) src =
          args.take (np - 1) ++ [arr] ++ List.replicate (nl - np) V.undefined := by
      intro src hsrc
      subst hsrc
      rw [goCopy_take_lt _ _ _ (by omega) (by simp; omega)]
      apply List.ext_getElem?
      intro i
      simp only [List.getElem?_append, List.getElem?_take, List.getElem?_drop, List.length_take, List.getElem?_set,
        List.getElem?_replicate, List.length_replicate, List.length_append, List.length_cons, List.length_nil]
      have e1 : min (np - 1) args.length = np - 1 := by omega
      rw [e1]
      by_cases hi : i < np - 1
      · have h2 : i < args.length := by omega
        have h3 : i < np - 1 + (0 + 1) := by omega
        simp [hi, h2, h3]
      · simp only [hi, if_false]
        by_cases hie : i = np - 1
        · subst hie
          have h4 : np - 1 < nl := by omega
          simp [h4]
        · have h3 : ¬ i < np - 1 + (0 + 1) := by omega
          have h5 : ¬ np - 1 = np - 1 + (i - (np - 1)) := by omega
          simp only [h3, if_false, h5]
          by_cases h6 : i < nl
          · have : np - 1 + (i - (np - 1)) < nl := by omega
            have h7 : i - (np - 1 + (0 + 1)) < nl - np := by omega
            simp [this, h7]
          · have : ¬ np - 1 + (i - (np - 1)) < nl := by omega
            have h7 : ¬ i - (np - 1 + (0 + 1)) < nl - np := by omega
            simp [this, h7]
    by_cases hlt : args.length < np
    · simp only [hlt, if_true]
      have : args = args.take (np - 1) := by rw [List.take_of_length_le (by omega)]
      rw [key args this]
    · simp only [hlt, if_false]
      exact key _ rfl

example : initLocalsSpec 2 4 false [.int 1, .int 2] (.arr 9 0 0) = callbindSpec 2 4 false [.int 1, .int 2] (.arr 9 0 0) := rfl
example : initLocalsSpec 2 3 true [.int 1] (.arr 9 0 0) = callbindSpec 2 3 true [.int 1] (.arr 9 0 0) := rfl
example : initLocalsSpec 2 3 true [.int 1, .int 2, .int 3] (.arr 9 0 2) = callbindSpec 2 3 true [.int 1, .int 2, .int 3] (.arr 9 0 2) := rfl
example : initLocalsSpec 1 1 true [] (.arr 9 0 0) = callbindSpec 1 1 true [] (.arr 9 0 0) := rfl
/-- the mutation `numParams` for `numParams-1` in the variadic slot is visible in the specification -/
example : ((goCopy ((List.replicate 3 V.undefined).set 2 (.arr 9 0 1)) ([V.int 1, .int 2, .int 3].take 1)) ==
    callbindSpec 2 3 true [.int 1, .int 2, .int 3] (.arr 9 0 2)) = false := by decide

/-- the in-script call of `fa(args…)` from the current frame of `s`: push callee and arguments,
    execute `callCompiled`, then run instructions until the frame index is back (model fuel) -/
def inScriptCall (F : FloatOps) (fuel : Nat) (s : State) (fa : Addr) (args : List V) : Except OpErr V × State :=
  let push : M Unit := do
    pushV (.cfun fa)
    for a in args do pushV a
  match push.run.run s with
  | (.error _, s1) => (.error (.named "" "model"), s1)
  | (.ok (), s1) =>
    match (callCompiled fa args.length 0).run.run s1 with
    | (.ok (.ok ()), s2) =>
      let base := s.frameIndex
      let rec go : Nat → State → Except OpErr V × State
        | 0, t => (.error (.named "" "fuel"), t)
        | n+1, t =>
          match (step F).run.run t with
          | (.ok .next, t') =>
            if t'.frameIndex ≤ base then
              match t'.stack[(t'.sp - 1).toNat]? with
              | some v => (.ok v, t')
              | none => (.error (.named "" "model"), t')
            else go n t'
          | (_, t') =>
            match t'.err with
            | some (.rt a) => (.error (.rt a), t')
            | _ => (.error (.named "" "stopped"), t')
      go fuel s2
    | (.ok (.error e), s2) => (.error e, s2)
    | (.error _, s2) => (.error (.named "" "model"), s2)

/-- same value, or errors that are the same `RuntimeError` / have the same name and message -/
def sameResult : InvRes → Except OpErr V → Prop
  | .value v, .ok v' => v = v'
  | .error (.rt a), .error (.rt b) => a = b
  | .error (.named n m), .error (.named n' m') => n = n' ∧ m = m'
  | .error .stackOverflow, .error .stackOverflow => True
  | _, _ => False

/-! ### `initLocals_eq_callbind`: the two MONADIC binders, slot by slot -/

/-- **initLocals_eq_callbind.**  `c` is a child VM whose `Main` is the compiled function `fa`
    (heap cell `.fn ci free`), `p` the parent with `args` on its operand stack, both over the same heap
    and code memory.  For every accepted argument list (exactly `NumParams`, or at least
    `NumParams - 1` when variadic) `initLocals args` on the child and `xOpCallCompiled fa (len args) 0`
    on the parent both succeed, leave EQUAL heaps (the variadic array is one fresh cell at the same
    address, holding exactly `args.drop (NumParams-1)`), and slot `j` of the child equals slot `bp + j`
    of the parent for every `j < NumLocals`, both being `bindSlot`: the parameter's argument, the
    variadic array, `undefined` for the other locals.  (Not covered: the self tail call, where
    `xOpCallCompiled` reuses the caller's frame — hypothesis `hself`.) -/
theorem initLocals_eq_callbind (c p : State) (fa ci : Nat) (free : Option (List Addr)) (args : List V)
    (hfn : p.heap[fa]? = some (.fn ci free))
    (hheap : c.heap = p.heap) (hcodes : c.codes = p.codes) (hmain : c.mainFn = fa)
    (hszc : c.stack.size = stackSize) (hszp : p.stack.size = stackSize)
    (hargs : argsOnStack p args.length = args)
    (hacc : accepted (p.codes[ci]!).numParams (p.codes[ci]!).variadic args.length)
    (hself : (p.frames[p.curFrame]!).fn ≠ some fa)
    (hfi : 0 ≤ p.frameIndex ∧ p.frameIndex + 1 ≤ (frameSize : Int) - 1)
    (hbp : 0 ≤ p.sp - args.length) (hsp : p.sp ≤ (stackSize : Int))
    (hroom : p.sp - args.length + (p.codes[ci]!).numLocals ≤ (stackSize : Int))
    (hnl : (p.codes[ci]!).numParams ≤ (p.codes[ci]!).numLocals) :
    ∃ c' p', exec (initLocals args) c = (.ok (), c') ∧
      exec (callCompiled fa args.length 0) p = (.ok (.ok ()), p') ∧
      c'.heap = p'.heap ∧
      c'.heap = bindHeap (p.codes[ci]!).numParams (p.codes[ci]!).variadic args p.heap ∧
      ∀ j, j < (p.codes[ci]!).numLocals →
        c'.stack[j]! = p'.stack[(p.sp - args.length).toNat + j]! ∧
        c'.stack[j]! = bindSlot (p.codes[ci]!).numParams (p.codes[ci]!).variadic args p.heap.size j := by
  have hcell : exec (fnCell fa) p = (.ok (p.codes[ci]!, free), p) := UgoVerif.Proofs.EvalLocals.exec_fnCell p fa ci free hfn
  obtain ⟨stp, hp, _, hpslots, _⟩ :=
    callCompiled_slots fa args p _ free hcell hargs hacc hself hfi hbp hsp hroom hnl hszp
  have hfn1 : c.heap[c.mainFn]? = some (.fn ci free) := by rw [hmain, hheap]; exact hfn
  have hnlS : (p.codes[ci]!).numLocals ≤ stackSize := by omega
  obtain ⟨stc, hci, _, hcslots, _⟩ :=
    initLocals_slots args c ci free hfn1 (by rw [hcodes]; exact hnl) (by rw [hcodes]; exact hnlS) hszc
  rw [hcodes, hheap] at hci hcslots
  refine ⟨_, _, hci, hp, rfl, rfl, ?_⟩
  intro j hj
  have e1 := getElem!_of_getElem? _ _ _ (hcslots j hj)
  have e2 := getElem!_of_getElem? _ _ _ (hpslots j hj)
  exact ⟨by show stc[j]! = stp[_]!; rw [e1, e2], e1⟩

/-- **arity_rejected_lenient** (the REJECTED arities do NOT agree — by design, property text: "Go-side
    calls with too few or too many arguments are lenient … and are not compared").  `Run` has no
    argument check: `initLocals` succeeds for EVERY argument list (missing parameters are `undefined`,
    surplus arguments are dropped — `bindSlot`), whereas `xOpCallCompiled` answers
    `WrongNumberOfArgumentsError`.  Witness on the real code: `f := func(a, b) {…}`; `Invoke(1)` returns
    `[1, undefined]`, `f(1)` throws `WrongNumberOfArgumentsError: want=2 got=1`. -/
theorem arity_rejected_lenient (c p : State) (fa ci : Nat) (free : Option (List Addr)) (args : List V)
    (hfn : p.heap[fa]? = some (.fn ci free))
    (hheap : c.heap = p.heap) (hcodes : c.codes = p.codes) (hmain : c.mainFn = fa)
    (hszc : c.stack.size = stackSize)
    (hnl : (p.codes[ci]!).numParams ≤ (p.codes[ci]!).numLocals) (hnlS : (p.codes[ci]!).numLocals ≤ stackSize)
    (hrej : ¬ accepted (p.codes[ci]!).numParams (p.codes[ci]!).variadic args.length)
    (hnp : (p.codes[ci]!).variadic = true → 1 ≤ (p.codes[ci]!).numParams) :
    (∃ c', exec (initLocals args) c = (.ok (), c') ∧ ∀ j, j < (p.codes[ci]!).numLocals →
        c'.stack[j]! = bindSlot (p.codes[ci]!).numParams (p.codes[ci]!).variadic args p.heap.size j) ∧
    (∃ m, exec (callCompiled fa args.length 0) p = (.ok (.error (.named "WrongNumberOfArgumentsError" m)), p)) := by
  have hcell : exec (fnCell fa) p = (.ok (p.codes[ci]!, free), p) := UgoVerif.Proofs.EvalLocals.exec_fnCell p fa ci free hfn
  have hfn1 : c.heap[c.mainFn]? = some (.fn ci free) := by rw [hmain, hheap]; exact hfn
  obtain ⟨stc, hci, _, hcslots, _⟩ :=
    initLocals_slots args c ci free hfn1 (by rw [hcodes]; exact hnl) (by rw [hcodes]; exact hnlS) hszc
  rw [hcodes, hheap] at hci hcslots
  refine ⟨⟨_, hci, fun j hj => getElem!_of_getElem? _ _ _ (hcslots j hj)⟩, ?_⟩
  cases hv : (p.codes[ci]!).variadic with
  | false =>
    simp only [accepted, hv, Bool.false_eq_true, if_false] at hrej
    exact ⟨_, callCompiled_fixed_arity_error fa args.length p _ free hcell hv (by omega)⟩
  | true =>
    simp only [accepted, hv, if_true] at hrej
    have := hnp hv
    exact ⟨_, callCompiled_variadic_arity_error fa args.length p _ free hcell hv (by omega)⟩

/-- **prologue_eq_callbind.**  The whole entries: the child's `prologue` (`Run` up to the loop) and the
    parent's `xOpCallCompiled` leave states related by the offset relation `ShB T0 bp k 0` (Proofs/Shift.lean,
    depth 0: both are in the invoked function's own frame): same heap, code memory, constants, globals, module
    cache; `ip = -1` on both; child frame 0 / base 0 / `sp = NumLocals` against parent frame k / base bp /
    `sp = bp + NumLocals`; no handlers; `child.stack[i] = parent.stack[bp+i]` for `i < NumLocals`. -/
theorem prologue_eq_callbind (c p : State) (fa ci : Nat) (free : Option (List Addr)) (args : List V)
    (hfn : p.heap[fa]? = some (.fn ci free))
    (hheap : c.heap = p.heap) (hcodes : c.codes = p.codes) (hconsts : c.consts = p.consts)
    (hmods : c.modules = p.modules) (hnm : c.numModules = p.numModules) (hmain : c.mainFn = fa)
    (hfull : p.numModules ≤ p.modules.size) (hg : p.globals ≠ .nil) (herr : p.err = none)
    (hshc : Shape c) (hshp : Shape p)
    (hargs : argsOnStack p args.length = args)
    (hacc : accepted (p.codes[ci]!).numParams (p.codes[ci]!).variadic args.length)
    (hself : (p.frames[p.curFrame]!).fn ≠ some fa)
    (hfi : 0 ≤ p.frameIndex ∧ p.frameIndex + 1 ≤ (frameSize : Int) - 1)
    (hbp : 0 ≤ p.sp - args.length) (hsp : p.sp ≤ (stackSize : Int))
    (hroom : p.sp - args.length + (p.codes[ci]!).numLocals ≤ (stackSize : Int))
    (hnl : (p.codes[ci]!).numParams ≤ (p.codes[ci]!).numLocals) :
    ∃ c' p', exec (prologue p.globals args) c = (.ok (), c') ∧
      exec (callCompiled fa args.length 0) p = (.ok (.ok ()), p') ∧
      ShB p' (p.sp - args.length).toNat p.frameIndex.toNat 0 c' p' ∧ c'.sp = (p.codes[ci]!).numLocals :=
  entries_shifted c p fa ci free args hfn hheap hcodes hconsts hmods hnm hmain hfull hg herr hshc hshp hargs hacc hself
    hfi hbp hsp hroom hnl

theorem emptyFrames_zero : (Array.replicate frameSize ({} : Frame))[0]! = {} := by
  rw [getElem!_pos _ 0 (by simp [frameSize])]
  simp

/-- non-vacuity of `initLocals_eq_callbind` / `prologue_eq_callbind`: a VM inside `Run` about to call the
    zero-parameter function at heap address 0, and a child for it -/
def exP : State :=
  { newState #[{ insts := #[], numParams := 0, numLocals := 0, variadic := false }] #[.fn 0 none] #[] 0 0 with
    frameIndex := 1, globals := .undefined }

example : ∃ c' p', exec (prologue exP.globals []) exP = (.ok (), c') ∧
    exec (callCompiled 0 (([] : List V).length) 0) exP = (.ok (.ok ()), p') ∧ ShB p' 0 1 0 c' p' ∧ c'.sp = (0 : Nat) := by
  have hfr : (exP.frames[exP.curFrame]!).fn ≠ some 0 := by
    show (Array.replicate frameSize ({} : Frame))[0]!.fn ≠ some 0
    rw [emptyFrames_zero]; simp
  exact prologue_eq_callbind exP exP 0 0 none [] rfl rfl rfl rfl rfl rfl rfl (by decide) (by simp [exP]) rfl
    ⟨by simp [exP, newState], by simp [exP, newState, emptyFrames]⟩ ⟨by simp [exP, newState], by simp [exP, newState, emptyFrames]⟩
    (by simp [argsOnStack]) (by simp [accepted, exP, newState]) hfr (by decide) (by decide) (by decide) (by decide) (by decide)

/-- what `_acquire` gives `prologue_eq_callbind`: the child acquired for `fa` from a root whose
    constants, module count and module cache are the caller's satisfies its hypotheses on `c` -/
theorem acquire_meets_prologue (root caller child : State) (fa : Addr)
    (hc : root.consts = caller.consts) (hm : root.modules = caller.modules) (hn : root.numModules = caller.numModules) :
    let c := acquireFrom root caller child fa
    c.heap = caller.heap ∧ c.codes = caller.codes ∧ c.consts = caller.consts ∧ c.modules = caller.modules ∧
    c.numModules = caller.numModules ∧ c.mainFn = fa := by
  simp [acquireFrom, hc, hm, hn]

/-! ### `frame_shift`: the simulation between the child and the callee's frames in the parent -/

/-- **frame_shift.**  One instruction — ANY opcode, all 44 of opcodes.go and unknown ones — of the child and of the
    parent from `ShB T0 bp k d`-related states: the invoked function runs in the child's frame 0 / base 0 and in the
    parent's frame `k` / base `bp`; both VMs are `d ≥ 0` frames above it (nested calls), frame `j` of the child
    corresponding to frame `k + j` of the parent: same function, free variables, saved `ip`, base pointer shifted
    by `bp`, handler stacks equal up to the shift of the recorded `sp`; equal heap, code, constants, globals, module
    cache, `ip`; `child.stack[i] = parent.stack[bp+i]` on a region containing both stack pointers.
    Hypotheses: `StepOk` on the child's instruction (a local-slot operand addresses a slot below `sp`; MAP has an even
    operand; CALL / CALLNAME have no spread argument) and `CallRoom` (when the instruction is a call, the PARENT has a
    free frame: otherwise it answers StackOverflowError where the child still has `k` frames left).
    If both `step`s end normally (Go panics / `unsupported` are not compared: the child has `bp` more stack slots)
    then one of:
    * both continue (`.next`) in `ShB T0 bp k d'`-related states — `d' = d`, `d + 1` (CALL / CALLNAME of a compiled
      function, also the running function itself; a self tail call reuses the frame: `d' = d`), `d - 1` (RETURN of a
      nested call), or the depth of the frame whose handler caught a thrown error;
    * the child's loop returns with `vm.err = e` (an uGO error no handler of the function's frame or of a frame above
      it takes) and the parent's instruction ended as the frame search BELOW frame `k` ends (`EscQ`);
    * both loops return with the same Go error (unknown opcode, malformed THROW operand);
    * the invoked function RETURNed (`d = 0`): the child's loop returns without error, the parent is back in the
      caller's frame `k - 1` with `sp = bp`, and `child.stack[sp-1] = parent.stack[sp-1]` (`RetQ`). -/
theorem frame_shift (F : FloatOps) (T0 : State) (bp k d : Nat) (hk : 1 ≤ k) (hbp : 1 ≤ bp) (s t : State) (h : ShB T0 bp k d s t)
    (hok : StepOk s) (hroom : CallRoom s t)
    (r r' : Ctl) (s' t' : State) (h1 : exec (step F) s = (.ok r, s')) (h2 : exec (step F) t = (.ok r', t')) :
    (r = .next ∧ r' = .next ∧ ∃ d', ShB T0 bp k d' s' t') ∨
    (r = .ret ∧ ∃ e, s'.err = some (.rt e) ∧ EscQ T0 bp k e r' s' t') ∨
    (r = .ret ∧ r' = .ret ∧ (∃ m, s'.err = some (.goerr m) ∧ t'.err = some (.goerr m)) ∧
      s'.heap = t'.heap ∧ s'.globals = t'.globals ∧ s'.modules = t'.modules) ∨
    RetQ T0 bp k r r' s' t' := by
  rcases UgoVerif.Proofs.Shift.frame_shift F hk hbp s t ⟨h, hok, hroom⟩ r s' r' t' h1 h2 with (h | h | h) | h
  · exact Or.inl h
  · exact Or.inr (Or.inl h)
  · exact Or.inr (Or.inr (Or.inl h))
  · exact Or.inr (Or.inr (Or.inr h))

/-- **throw_shift_partial** (the boundary of the simulation under a thrown error).  `vm.throw(e)` — from THROW, from the
    re-throw after `finally`, from any failing instruction (`failWith`) — in `Sh`-related states, with ANY two fuels
    (the model's `throwFuel` counts all frames, so the two sides get different ones).  If both end normally:
    * a handler in the function's frame or in a frame above it takes the error ON BOTH SIDES: same handler, `ip`
      set to its catch / finally position, `sp` reset to the `sp` it recorded (shifted by `bp` in the parent), the
      frames above the handling frame dropped: `ShB T0 bp k d'` again, `d'` the depth of the handling frame; or
    * there is none: the child's `throw` returns `e` (→ `vm.err`, `Run` returns it to the Go caller) and the parent's
      `throw` ended as `throwBelow n'' k e` — the search for a handler in frames `k-1, k-2, …, 0` — ends from a state
      `u` with the child's heap, globals and module cache.  Below this boundary the two sides legitimately differ
      (the Go caller of `Invoke` gets the error; the in-script caller's frames are searched). -/
theorem throw_shift_partial (T0 : State) (bp k d H N : Nat) (a : Int) (e : Addr) (n n' : Nat) (s t : State)
    (h : Sh T0 bp k d H N a s t) (ha : a ≤ N) (hH : H ≤ N) (r r' : Option Addr) (s' t' : State)
    (h1 : exec (throwF n e) s = (.ok r, s')) (h2 : exec (throwF n' e) t = (.ok r', t')) :
    (r = none ∧ r' = none ∧ ∃ d', ShB T0 bp k d' s' t') ∨
    (r = some e ∧ s'.err = none ∧ ∃ n'' u, u.heap = s'.heap ∧ u.globals = s'.globals ∧ u.modules = s'.modules ∧
      u.err = none ∧ (∀ j : Nat, j < k → u.frames[j]! = T0.frames[j]!) ∧ (∀ i : Nat, i + 1 < bp → u.stack[i]! = T0.stack[i]!) ∧
      exec (throwBelow n'' k e) u = (.ok r', t')) :=
  sh_throwF e n n' d H N a ha hH s t h r s' r' t' h1 h2

/-- **steps_shift.**  `frame_shift` iterated while the child's loop goes on: after `m` instructions of the child that
    all continued, the parent (if it did not panic / leave the model) also continued `m` times and the states are
    related again (at some depth). -/
theorem steps_shift (F : FloatOps) (T0 : State) (bp k : Nat) (hk : 1 ≤ k) (hbp : 1 ≤ bp) (m j : Nat) (s t : State)
    (h : ∃ d, ShB T0 bp k d s t) (hok : OkRun F (m + j) s t)
    (s0 : State) (h1 : runSteps F m s = some (.next, s0)) (r0 : Ctl) (t0 : State) (h2 : runSteps F m t = some (r0, t0)) :
    r0 = .next ∧ (∃ d, ShB T0 bp k d s0 t0) ∧ OkRun F j s0 t0 :=
  UgoVerif.Proofs.Shift.steps_shift F hk hbp m j s t h hok s0 h1 r0 t0 h2

/-- **invoke_eq_call_partial.**  The whole run of the invoked function.  `c` is the child as `_acquire` left it, `p` the
    parent with callee and `args` on its stack (hypotheses of `prologue_eq_callbind`; `1 ≤ frameIndex`: the parent is
    inside `Run`; `1 ≤ sp - #args`: the callee value lies below the arguments).  Both entries succeed; and for every
    number of instructions `n` (`OkRun`: every instruction met on the way satisfies `StepOk` / `CallRoom`): if the
    child's loop ENDS within `n` instructions — at its instruction `m + 1`, in state `c'` — then the parent, unless
    it panicked / left the model before, is still running after `m` instructions, and its instruction `m + 1` ends
    as `EndQ` says:
    * the function returned: `c'.err = none`, the parent is back in the caller's frame (`frameIndex = k`,
      `sp = bp`), equal heap / globals / module cache, and the slot `Run` reads its result from holds the value the
      in-script caller finds in the call's slot (`result_value_deref` for the epilogue's dereference); or
    * an error `e` left the function: `c'.err = e` (what `Invoke` returns) and the parent's instruction — the same
      throwing instruction — ended as the handler search below frame `k` ends from a state with the child's heap,
      globals and module cache (`EscQ`): the same error thrown at the call instruction of the caller; or
    * both loops stopped with the same Go error (malformed bytecode). -/
theorem invoke_eq_call_partial (F : FloatOps) (c p : State) (fa ci : Nat) (free : Option (List Addr)) (args : List V)
    (hfn : p.heap[fa]? = some (.fn ci free))
    (hheap : c.heap = p.heap) (hcodes : c.codes = p.codes) (hconsts : c.consts = p.consts)
    (hmods : c.modules = p.modules) (hnm : c.numModules = p.numModules) (hmain : c.mainFn = fa)
    (hfull : p.numModules ≤ p.modules.size) (hg : p.globals ≠ .nil) (herr : p.err = none)
    (hshc : Shape c) (hshp : Shape p)
    (hargs : argsOnStack p args.length = args)
    (hacc : accepted (p.codes[ci]!).numParams (p.codes[ci]!).variadic args.length)
    (hself : (p.frames[p.curFrame]!).fn ≠ some fa)
    (hfi : 1 ≤ p.frameIndex ∧ p.frameIndex + 1 ≤ (frameSize : Int) - 1)
    (hbp : 1 ≤ p.sp - args.length) (hsp : p.sp ≤ (stackSize : Int))
    (hroom : p.sp - args.length + (p.codes[ci]!).numLocals ≤ (stackSize : Int))
    (hnl : (p.codes[ci]!).numParams ≤ (p.codes[ci]!).numLocals) :
    ∃ c0 p0, exec (prologue p.globals args) c = (.ok (), c0) ∧
      exec (callCompiled fa args.length 0) p = (.ok (.ok ()), p0) ∧
      ∀ n, OkRun F n c0 p0 → ∀ c', runSteps F n c0 = some (.ret, c') →
        ∃ m cm, m < n ∧ runSteps F m c0 = some (.next, cm) ∧ exec (step F) cm = (.ok .ret, c') ∧
          ∀ r0 pm, runSteps F m p0 = some (r0, pm) → r0 = .next ∧
            ∀ r' p', exec (step F) pm = (.ok r', p') →
              EndQ p0 (p.sp - args.length).toNat p.frameIndex.toNat r' c' p' := by
  obtain ⟨c0, p0, h1, h2, hsh, _⟩ := prologue_eq_callbind c p fa ci free args hfn hheap hcodes hconsts hmods hnm hmain hfull hg
    herr hshc hshp hargs hacc hself ⟨by omega, hfi.2⟩ (by omega) hsp hroom hnl
  refine ⟨c0, p0, h1, h2, ?_⟩
  intro n hok c' hc'
  exact UgoVerif.Proofs.Shift.invoke_eq_call_partial F (by omega) (by omega) n c0 p0 ⟨0, hsh⟩ hok c' hc'

/-- what `EndQ` says when the function returned, spelled out (`return_shift`) -/
theorem return_shift (T0 : State) (bp k : Nat) (r' : Ctl) (s' t' : State) (h : RetQ T0 bp k .ret r' s' t') :
    r' = .next ∧ s'.heap = t'.heap ∧ s'.globals = t'.globals ∧ s'.modules = t'.modules ∧
    s'.err = none ∧ t'.err = none ∧ s'.frameIndex = 1 ∧ t'.frameIndex = k ∧ t'.sp = bp ∧ 1 ≤ s'.sp ∧
    s'.stack[(s'.sp - 1).toNat]! = t'.stack[(t'.sp - 1).toNat]! ∧ t'.stack.size = stackSize ∧
    (∀ j : Nat, j < k → t'.frames[j]! = T0.frames[j]!) ∧ (∀ i : Nat, i + 1 < bp → t'.stack[i]! = T0.stack[i]!) := h.2

/-- **result_value_deref** (the epilogue).  `Run` returns `stack[sp-1]` unless it is an `*ObjectPtr`, which
    it dereferences (vm.go:166-170) — the in-script caller gets the slot value as it is.  So after
    `return_shift` the two results are EQUAL whenever the returned value is not a raw `*ObjectPtr`, and
    otherwise the Go side gets the pointee.  The compiler emits GETLOCALPTR / GETFREEPTR only as operands
    of CLOSURE (compiler_nodes.go:899-901), so no compiled function returns a raw pointer; with
    hand-made bytecode `GETLOCALPTR 0; RETURN 1` the real VM gives `typeName(f(5)) = "objectPtr"` but
    `typeName(Invoke(f, 5)) = "int"` (observed on the real code; outside the property's quantifier). -/
theorem result_value_deref (s : State) (hsp : 1 ≤ s.sp ∧ s.sp ≤ (stackSize : Int)) :
    ((∀ a, s.stack[(s.sp - 1).toNat]! ≠ .box a) → exec resultValue s = (.ok (s.stack[(s.sp - 1).toNat]!), s)) ∧
    (∀ a w, s.stack[(s.sp - 1).toNat]! = .box a → s.heap[a]? = some (.box w) → exec resultValue s = (.ok w, s)) :=
  ⟨resultValue_of_slot s hsp, fun a w hv hw => resultValue_of_box s hsp a w hv hw⟩

/-- what `ShB` says about the observable state: same heap, globals and module cache -/
theorem shB_observables (T0 : State) (bp k d : Nat) (s t : State) (h : ShB T0 bp k d s t) :
    s.heap = t.heap ∧ s.globals = t.globals ∧ s.modules = t.modules ∧ s.ip = t.ip ∧ t.sp = s.sp + bp := by
  obtain ⟨H, N, a, h, _, _⟩ := h
  exact ⟨h.heap, h.globals, h.modules, h.ip, by rw [h.spT, h.spS]⟩

/-- the opcodes that touch neither frames nor handlers (Proofs/ShiftOps), by number (opcodes.go); the other eight —
    CALL 2, CALLNAME 43, RETURN 39, THROW 37, SETUPTRY 34, SETUPCATCH 35, SETUPFINALLY 36, FINALIZER 38 — are in
    Proofs/ShiftCall, ShiftRet, ShiftTry -/
theorem coveredOps_eq : coveredOps =
    [0, 1, 3, 4, 5, 6, 7, 8, 9, 10, 11, 12, 13, 14, 15, 17, 18, 20, 21, 22, 23, 24, 25, 26, 27, 28, 29, 30, 31, 32, 33,
     40, 41, 42, 16, 19] := by decide

theorem exFrames : ∀ j : Nat, j ≤ 0 → FrameSh 0 0 (({ newState #[] #[] #[] 0 0 with frameIndex := 1 } : State).frames[j]!)
    (({ newState #[] #[] #[] 0 0 with frameIndex := 1 } : State).frames[0 + j]!) := by
  intro j hj
  have : j = 0 := by omega
  subst this
  show FrameSh 0 0 (Array.replicate frameSize ({} : Frame))[0]! (Array.replicate frameSize ({} : Frame))[0 + 0]!
  rw [Nat.add_zero, emptyFrames_zero]
  exact ⟨rfl, rfl, rfl, trivial, rfl, Int.le_refl _⟩

theorem exSh : Sh ({ newState #[] #[] #[] 0 0 with frameIndex := 1 } : State) 0 0 0 0 0 0 ({ newState #[] #[] #[] 0 0 with frameIndex := 1 } : State)
    ({ newState #[] #[] #[] 0 0 with frameIndex := 1 } : State) :=
  { heap := rfl, codes := rfl, consts := rfl, globals := rfl, modules := rfl, numModules := rfl, ip := rfl,
    spS := rfl, spT := rfl, curS := rfl, curT := rfl, fiS := rfl, fiT := rfl, errS := rfl, errT := rfl,
    shapeS := ⟨by simp [newState], by simp [newState, emptyFrames]⟩,
    shapeT := ⟨by simp [newState], by simp [newState, emptyFrames]⟩,
    kLt := by decide,
    frames := exFrames,
    ips := fun j hj => (by omega),
    bp0 := (by show (Array.replicate frameSize ({} : Frame))[0]!.bp = 0; rw [emptyFrames_zero]),
    bpPos := fun j h1 hj => (by omega),
    stack := fun i hi => (by omega),
    room := (by decide),
    lowF := fun _ _ => rfl,
    lowS := fun _ _ => rfl }

/-- non-vacuity of `ShB`: a VM at `frameIndex = 1` is related to itself with `bp = 0`, `k = 0`, depth 0 -/
example : ShB ({ newState #[] #[] #[] 0 0 with frameIndex := 1 } : State) 0 0 0 ({ newState #[] #[] #[] 0 0 with frameIndex := 1 } : State)
    ({ newState #[] #[] #[] 0 0 with frameIndex := 1 } : State) :=
  ⟨0, 0, 0, exSh, Int.le_refl _, Nat.le_refl _⟩

/-- The full statement of C14 over the model (NOT proved): for every function value `fa`, every
    accepted argument list, every pool history `w` and every caller state `s` whose module cache
    has its `NumModules` entries (the caller is inside `Run`), invoking `fa` through a child VM
    (`iterInvoke` … 1, any configuration) yields the value or error, the heap, the globals and
    the module cache that the in-script call `CALL numArgs 0` of `fa` from frame k of the caller
    yields when run to the matching RETURN.  Proved parts: `acquire_complete`, `release_zeroes`,
    `pool_fresh`, `pool_acquire_eq_new`, `pool_release_inv`, `acquire_fields`, `initLocals_eq_callbind`,
    `prologue_eq_callbind` (the entries), `frame_shift` (one instruction, every opcode), `throw_shift_partial`,
    `steps_shift`, `invoke_eq_call_partial` (the run of the function up to and including the instruction that ends
    it), `result_value_deref`.  Missing: spread calls (`flags ≠ 0`), host-function callees and imports (the
    host-aware loop `loopI`), the abort flag and the `recover` wrapper of `Run` (`runFrom.go`), `iterInvoke`
    plumbing (`mergeBack`, pool, `invResOf`), and — below the boundary — that the parent's unwinding from frame
    `k - 1` equals what `failWith` does in the caller when `Invoke` returns the error (live parts only); as stated
    (no resource hypothesis) it is false at the stack / frame limits, where the child has more room. -/
def C14_full : Prop :=
  ∀ (F : FloatOps) (cfg : HostCfg) (root s : State) (w : World) (fa : Addr) (args : List V) (depth fuel : Nat),
    s.numModules ≤ s.modules.size → (∀ c ∈ w.idle, ∃ u, c = releaseVM u) →
    ∀ r w' s', iterInvoke (runAt F cfg root depth) cfg root fa args fuel false 1 w s none [] = (r, w', s') →
      -- the in-script call: push fa and args, CALL, run until the frame returns
      ∀ out sIn, inScriptCall F fuel s fa args = (out, sIn) →
        sameResult r out ∧ s'.heap = sIn.heap ∧ s'.globals = sIn.globals ∧ s'.modules = sIn.modules

/-! ### what `_acquire` gives the child -/

/-- the child sees the root's constants, module count, module cache (same slice header) and
    recovery flag, runs the callee as its main function and shares the caller's heap -/
theorem acquire_fields (root caller child : State) (callee : Addr) :
    let c := acquireFrom root caller child callee
    c.consts = root.consts ∧ c.numModules = root.numModules ∧ c.modules = root.modules ∧
    c.noPanic = root.noPanic ∧ c.mainFn = callee ∧ c.heap = caller.heap := by
  simp [acquireFrom]

/-! ### the real loop, the host-aware loop, the epilogue -/

/-- **invoke_loop_partial.**  `invoke_eq_call_partial` for the child's real loop `loopF` (`loop()`: abort check before every
    instruction): if it ends within `n` instructions without the VM having been aborted, it ended at its instruction
    `m + 1` and the parent's instruction `m + 1` ends as `EndQ` says. -/
theorem invoke_loop_partial (F : FloatOps) (T0 : State) (bp k : Nat) (hk : 1 ≤ k) (hbp : 1 ≤ bp) (n : Nat) (s t : State)
    (h : ∃ d, ShB T0 bp k d s t) (hok : OkRun F n s t) (s' : State)
    (hs : exec (loopF F n) s = (.ok (some ()), s')) (hna : s'.err ≠ some .aborted) :
    ∃ m s0, m < n ∧ runSteps F m s = some (.next, s0) ∧ exec (step F) s0 = (.ok .ret, s') ∧
      ∀ r0 t0, runSteps F m t = some (r0, t0) → r0 = .next ∧
        ∀ r' t', exec (step F) t0 = (.ok r', t') → EndQ T0 bp k r' s' t' :=
  UgoVerif.Proofs.Shift.invoke_loop_partial F hk hbp n s t h hok s' hs hna

/-- **host_loop_of_loop.**  The host-aware loop `loopI` (VM/Invoke.lean: the loop of a VM whose globals may hold Go
    functions) of a child whose loop ends normally is that loop: an instruction that ends normally is never the call of
    a host function (`xOpCallObject` of a host object is outside `step`). -/
theorem host_loop_of_loop (F : FloatOps) (cfg : HostCfg) (root : State) (rc : ChildRun) (n : Nat) (w : World) (s s' : State)
    (h : exec (loopF F n) s = (.ok (some ()), s')) : loopI F cfg root rc n w s = (.ok (some ()), w, s') :=
  loopI_of_loopF F cfg root rc n w s s' h

/-- **epilogue_error.**  `Run` after a loop that ended with `vm.err = e` returns `e` (what `Invoke` hands to Go). -/
theorem epilogue_error (s : State) (e : VmErr) (herr : s.err = some e) :
    (runFrom.finish (exec clearCurrentFrame s).2).1 = .error e := finish_error s e herr

/-! ### one invocation that returns a value: `C14_full` with its restrictions named -/

def pushArgs (fa : Addr) (args : List V) : M Unit := do
  pushV (.cfun fa)
  for a in args do pushV a

/-- only stack and sp differ from `s` -/
def StackOnly (s u : State) : Prop := u = { s with stack := u.stack, sp := u.sp }

theorem keeps_pushV_so (s : State) (v : V) : Keeps (StackOnly s) (pushV v) := by
  unfold pushV stackSet setSp getSp
  refine Keeps.bind (Keeps.bind Keeps.getS (fun _ => Keeps.pure _)) (fun sp => ?_)
  refine Keeps.bind ?_ (fun _ => ?_)
  · split
    · exact Keeps.panic _
    · exact Keeps.modS (fun u h => by unfold StackOnly at h ⊢; rw [h])
  · exact Keeps.modS (fun u h => by unfold StackOnly at h ⊢; rw [h])

theorem pushArgs_frame (fa : Addr) (args : List V) (s p : State) (h : exec (pushArgs fa args) s = (.ok (), p)) :
    StackOnly s p := by
  have hk : Keeps (StackOnly s) (pushArgs fa args) := by
    unfold pushArgs
    refine Keeps.bind (keeps_pushV_so s _) (fun _ => ?_)
    refine Keeps.bind (Keeps.forIn_list _ _ _ (fun a b => Keeps.bind (keeps_pushV_so s a) (fun _ => Keeps.pure _))) (fun _ => Keeps.pure _)
  have := hk.elim s rfl
  rw [h] at this
  exact this

theorem inScriptCall_eq (F : FloatOps) (fuel : Nat) (s : State) (fa : Addr) (args : List V) (p p0 : State)
    (h1 : exec (pushArgs fa args) s = (.ok (), p)) (h2 : exec (callCompiled fa args.length 0) p = (.ok (.ok ()), p0)) :
    inScriptCall F fuel s fa args = inScriptCall.go F s.frameIndex fuel p0 := by
  unfold inScriptCall
  have h1' : StateT.run (ExceptT.run (pushArgs fa args)) s = (.ok (), p) := h1
  unfold pushArgs at h1'
  simp only [h1']
  have h2' : StateT.run (ExceptT.run (callCompiled fa (↑args.length) 0)) p = (.ok (.ok ()), p0) := h2
  simp only [h2']

theorem runSteps_globals (F : FloatOps) : ∀ (n : Nat) (s : State) (r : Ctl) (s' : State),
    runSteps F n s = some (r, s') → s'.globals = s.globals := by
  intro n
  induction n with
  | zero =>
    intro s r s' h
    simp only [runSteps, Option.some.injEq, Prod.mk.injEq] at h
    rw [← h.2]
  | succ n ih =>
    intro s r s' h
    simp only [runSteps] at h
    have hk := (gkeeps_step (G := s.globals) F).elim s rfl
    rcases e1 : exec (step F) s with ⟨r1, s1⟩
    rw [e1] at h hk
    cases r1 with
    | error e => simp at h
    | ok c =>
      cases c with
      | ret =>
        simp only [Option.some.injEq, Prod.mk.injEq] at h
        rw [← h.2]; exact hk
      | next =>
        simp only at h
        rw [ih s1 r s' h]; exact hk

theorem runSteps_prefix (F : FloatOps) : ∀ (m : Nat) (s sm : State), runSteps F m s = some (.next, sm) →
    ∀ j, j ≤ m → ∃ sj, runSteps F j s = some (.next, sj) := by
  intro m
  induction m with
  | zero =>
    intro s sm h j hj
    have : j = 0 := by omega
    subst this
    exact ⟨s, rfl⟩
  | succ m ih =>
    intro s sm h j hj
    cases j with
    | zero => exact ⟨s, rfl⟩
    | succ j =>
      simp only [runSteps] at h ⊢
      rcases e1 : exec (step F) s with ⟨r1, s1⟩
      rw [e1] at h
      cases r1 with
      | error e => simp at h
      | ok c =>
        cases c with
        | ret => simp at h
        | next =>
          simp only at h ⊢
          exact ih s1 sm h j (by omega)

/-- the in-script run over `m` instructions that all continue above the caller's frame -/
theorem go_of_steps (F : FloatOps) (base : Int) : ∀ (m fuel : Nat) (t tm : State), runSteps F m t = some (.next, tm) →
    (∀ j tj, 1 ≤ j → j ≤ m → runSteps F j t = some (.next, tj) → base < tj.frameIndex) →
    inScriptCall.go F base (m + fuel) t = inScriptCall.go F base fuel tm := by
  intro m
  induction m with
  | zero =>
    intro fuel t tm h _
    simp only [runSteps, Option.some.injEq, Prod.mk.injEq] at h
    rw [← h.2, Nat.zero_add]
  | succ m ih =>
    intro fuel t tm h hfi
    simp only [runSteps] at h
    rcases e1 : exec (step F) t with ⟨r1, t1⟩
    rw [e1] at h
    cases r1 with
    | error e => simp at h
    | ok c =>
      cases c with
      | ret => simp at h
      | next =>
        simp only at h
        have e : m + 1 + fuel = (m + fuel) + 1 := by omega
        rw [e, inScriptCall.go]
        have e1' : StateT.run (ExceptT.run (step F)) t = (.ok .next, t1) := e1
        simp only [e1']
        have h1 : base < t1.frameIndex := hfi 1 t1 (by omega) (by omega) (by simp only [runSteps, e1])
        have h1' : ¬ t1.frameIndex ≤ base := by omega
        rw [if_neg h1']
        refine ih fuel t1 tm h ?_
        intro j tj hj1 hj2 hr
        refine hfi (j + 1) tj (by omega) (by omega) ?_
        simp only [runSteps, e1]
        exact hr

theorem iterInvoke_one (rc : ChildRun) (cfg : HostCfg) (rootNow s : State) (fa : Addr) (args : List V) (fuel : Nat)
    (w w1 w2 : World) (out : Outcome) (child child' : State)
    (hacq : poolAcquire w { rootNow with modules := if s.modules.size ≥ s.numModules then s.modules else #[] } s fa cfg.pooled
      = (child, w1))
    (hab : child.abort = false)
    (hrun : rc fuel w1 s.globals args child = (out, w2, child')) :
    ∃ w', iterInvoke rc cfg rootNow fa args fuel false 1 w s none [] = (invResOf out, w', mergeBack s child') := by
  simp only [iterInvoke, hacq, hab, Bool.false_eq_true, if_false, hrun]
  cases h : invResOf out with
  | value v =>
    simp only
    by_cases hr : cfg.reuse = true
    · simp only [hr, if_true, iterInvoke, List.nil_append, Bool.false_eq_true, if_false]
      exact ⟨_, rfl⟩
    · simp only [hr, if_false, iterInvoke, List.nil_append, Bool.false_eq_true]
      exact ⟨_, rfl⟩
  | error e => exact ⟨_, rfl⟩
  | goPanic m => exact ⟨_, rfl⟩
  | stop o => exact ⟨_, rfl⟩

theorem runSteps_snoc (F : FloatOps) : ∀ (m : Nat) (t tm : State), runSteps F m t = some (.next, tm) →
    runSteps F (m + 1) t = (match exec (step F) tm with
      | (.ok .next, t') => some (.next, t')
      | (.ok .ret, t') => some (.ret, t')
      | (.error _, _) => none) := by
  intro m
  induction m with
  | zero =>
    intro t tm h
    simp only [runSteps, Option.some.injEq, Prod.mk.injEq] at h
    rw [← h.2]
    simp only [runSteps]
    rcases exec (step F) t with ⟨r, t'⟩
    cases r with
    | error e => rfl
    | ok c => cases c <;> rfl
  | succ m ih =>
    intro t tm h
    simp only [runSteps] at h
    rcases e1 : exec (step F) t with ⟨r1, t1⟩
    rw [e1] at h
    cases r1 with
    | error e => simp at h
    | ok c =>
      cases c with
      | ret => simp at h
      | next =>
        simp only at h
        have := ih t1 tm h
        conv => lhs; unfold runSteps
        simp only [e1]
        exact this

theorem finish_value_state (s : State) (herr : s.err = none) (hsp : 1 ≤ s.sp ∧ s.sp < (stackSize : Int))
    (hnb : ∀ a, s.stack[(s.sp - 1).toNat]! ≠ .box a) :
    runFrom.finish (exec clearCurrentFrame s).2 = (.value (s.stack[(s.sp - 1).toNat]!), (exec clearCurrentFrame s).2) := by
  have e : (exec clearCurrentFrame s).2 =
      { s with frames := s.frames.modify s.curFrame (fun f => { f with free := none, fn := none, handlers := none }) } := rfl
  unfold runFrom.finish
  have h1 : (exec clearCurrentFrame s).2.err = none := by rw [e]; exact herr
  have h2 : (exec clearCurrentFrame s).2.sp < (stackSize : Int) := by rw [e]; exact hsp.2
  rw [h1]
  simp only [h2, if_true]
  have hsp' : 1 ≤ s.sp ∧ s.sp ≤ (stackSize : Int) := ⟨hsp.1, by have := hsp.2; omega⟩
  have hv := resultValue_of_slot (exec clearCurrentFrame s).2 (by rw [e]; exact hsp')
    (by rw [e]; exact hnb)
  have hr' : resultValue.run.run (exec clearCurrentFrame s).2 = _ := hv
  rw [hr']
  rw [e]

theorem poolAcquire_fresh (w : World) (root' s : State) (fa : Addr) (pooled : Bool)
    (hw : ∀ c ∈ w.idle, ∃ u, c = releaseVM u) :
    ∃ w1, poolAcquire w root' s fa pooled = (acquireFrom root' s (zeroVM s) fa, w1) := by
  unfold poolAcquire
  cases pooled with
  | false => exact ⟨w, rfl⟩
  | true =>
    simp only [if_true]
    cases h : w.idle with
    | nil => exact ⟨w, rfl⟩
    | cons c rest =>
      obtain ⟨u, rfl⟩ := hw c (by simp [h])
      exact ⟨{ w with idle := rest }, by simp [pool_fresh]⟩

theorem zeroVM_shape (s : State) : Shape (zeroVM s) := ⟨by simp [zeroVM], by simp [zeroVM, emptyFrames]⟩

set_option maxHeartbeats 1600000 in
/-- **C14_value_restricted** (the statement of `C14_full`, for one invocation that RETURNS a value, with its
    restrictions named).  `s` is the VM that runs the Go function; the Go side does
    `NewInvoker(vm, f).Invoke(args…)` — any configuration `cfg` (pooled or not, reuse or not), any pool history `w`
    that holds released VMs only, at any invocation depth ≥ 1; the script side pushes `f` and `args` (state `p`) and
    executes `CALL #args 0`, then runs until the frame index is back.  Hypotheses, all explicit:
    * the root's constants / module count are the caller's, the caller's module cache is complete (it is inside `Run`);
    * `p` satisfies the entry conditions of `prologue_eq_callbind` (accepted arity, the caller is not `f` itself in tail
      position, room for the frame and the locals);
    * the child's loop `loopF` ends normally (`hloop`: no Go panic, nothing outside the model — hence no call of a host
      function and no builtin outside the modelled ones — within `fuel` instructions) with `vm.err = nil` (`hret`: the
      function returned), the result is not a raw `*ObjectPtr` (`hnb`) and `sp < StackSize` (`hspl`: `Run` answers
      ErrStackOverflow otherwise — a function with 2047 locals);
    * every instruction met satisfies `StepOk` / `CallRoom` (`hok`: no spread calls; the parent has a free frame at
      every call) and the parent does not panic / leave the model (`hpar`) — at the stack limit the child has more room.
    Then `Invoke` returns the value `v` that the in-script call leaves in the call's slot, and heap, globals and module
    cache of the two final states are equal. -/
theorem C14_value_restricted (F : FloatOps) (cfg : HostCfg) (root s p : State) (w : World) (fa ci : Nat)
    (free : Option (List Addr)) (args : List V) (dpt fuel : Nat)
    (hw : ∀ c ∈ w.idle, ∃ u, c = releaseVM u)
    (hrc : root.consts = s.consts) (hrn : root.numModules = s.numModules) (hshared : s.numModules ≤ s.modules.size)
    (hpush : exec (pushArgs fa args) s = (.ok (), p))
    (hfn : p.heap[fa]? = some (.fn ci free)) (hg : p.globals ≠ .nil) (herr : p.err = none) (hshp : Shape p)
    (hargs : argsOnStack p args.length = args)
    (hacc : accepted (p.codes[ci]!).numParams (p.codes[ci]!).variadic args.length)
    (hself : (p.frames[p.curFrame]!).fn ≠ some fa)
    (hfi : 1 ≤ p.frameIndex ∧ p.frameIndex + 1 ≤ (frameSize : Int) - 1)
    (hbp : 1 ≤ p.sp - args.length) (hsp : p.sp ≤ (stackSize : Int))
    (hroom : p.sp - args.length + (p.codes[ci]!).numLocals ≤ (stackSize : Int))
    (hnl : (p.codes[ci]!).numParams ≤ (p.codes[ci]!).numLocals)
    (c0 p0 c1 : State)
    (hc0 : exec (prologue s.globals args) (acquireFrom { root with modules := s.modules } s (zeroVM s) fa) = (.ok (), c0))
    (hp0 : exec (callCompiled fa args.length 0) p = (.ok (.ok ()), p0))
    (hloop : exec (loopF F fuel) c0 = (.ok (some ()), c1))
    (hok : OkRun F fuel c0 p0)
    (hpar : ∀ j, j ≤ fuel → runSteps F j p0 ≠ none)
    (hret : c1.err = none) (hspl : c1.sp < (stackSize : Int)) (hnb : ∀ a, c1.stack[(c1.sp - 1).toNat]! ≠ .box a) :
    ∃ v w' s' sIn,
      iterInvoke (runAt F cfg root (dpt + 1)) cfg root fa args fuel false 1 w s none [] = (.value v, w', s') ∧
      inScriptCall F fuel s fa args = (.ok v, sIn) ∧
      s'.heap = sIn.heap ∧ s'.globals = sIn.globals ∧ s'.modules = sIn.modules := by
  have hso := pushArgs_frame fa args s p hpush
  unfold StackOnly at hso
  have hph : p.heap = s.heap := by rw [hso]
  have hpc : p.codes = s.codes := by rw [hso]
  have hpk : p.consts = s.consts := by rw [hso]
  have hpm : p.modules = s.modules := by rw [hso]
  have hpn : p.numModules = s.numModules := by rw [hso]
  have hpg : p.globals = s.globals := by rw [hso]
  have hpf : p.frameIndex = s.frameIndex := by rw [hso]
  -- the two entries
  obtain ⟨c0', p0', h1, h2, hsh, _⟩ := prologue_eq_callbind
    (acquireFrom { root with modules := s.modules } s (zeroVM s) fa) p fa ci free args hfn
    (by rw [hph]; rfl) (by rw [hpc]; rfl) (by rw [hpk]; exact hrc) (by rw [hpm]; rfl) (by rw [hpn]; exact hrn) rfl
    (by rw [hpn, hpm]; exact hshared) hg herr ⟨(zeroVM_shape s).stack, (zeroVM_shape s).frames⟩ hshp hargs hacc hself ⟨by omega, hfi.2⟩ (by omega) hsp hroom hnl
  rw [hpg, hc0] at h1
  rw [hp0] at h2
  simp only [Prod.mk.injEq, Except.ok.injEq] at h1 h2
  obtain ⟨_, rfl⟩ := h1
  obtain ⟨_, rfl⟩ := h2
  -- the child's loop
  obtain ⟨m, cm, hm, hcm, hlast, hparent⟩ := UgoVerif.Proofs.Shift.invoke_loop_partial F (by omega) (by omega) fuel c0 p0 ⟨0, hsh⟩ hok c1 hloop
    (by rw [hret]; simp)
  -- the parent after m instructions
  rcases hpm' : runSteps F m p0 with _ | ⟨r0, pm⟩
  · exact absurd hpm' (hpar m (by omega))
  obtain ⟨hr0, hfin⟩ := hparent r0 pm hpm'
  subst hr0
  have hsn := runSteps_snoc F m p0 pm hpm'
  rcases e1 : exec (step F) pm with ⟨r1, p'⟩
  rw [e1] at hsn
  cases r1 with
  | error e => exact absurd hsn (hpar (m + 1) (by omega))
  | ok r' =>
    have hend := hfin r' p' e1
    rcases hend with hq | ⟨e, he, _⟩ | ⟨_, ⟨msg, he, _⟩, _⟩
    rotate_left
    · rw [hret] at he; cases he
    · rw [hret] at he; cases he
    obtain ⟨_, hr', hh, hgl, hmo, _, _, _, hfk, hspk, hsp1, hval, hsz, _, _⟩ := hq
    subst hr'
    -- the Invoker side
    obtain ⟨w1, hacq⟩ := poolAcquire_fresh w { root with modules := s.modules } s fa cfg.pooled hw
    have hfv := finish_value_state c1 hret ⟨hsp1, hspl⟩ hnb
    have hrun : runAt F cfg root (dpt + 1) fuel w1 s.globals args (acquireFrom { root with modules := s.modules } s (zeroVM s) fa) =
        (.value (c1.stack[(c1.sp - 1).toNat]!), w1, (exec clearCurrentFrame c1).2) := by
      show runWithW F cfg root (runAt F cfg root dpt) fuel w1 s.globals args _ = _
      rw [runWithW_of_loop F cfg root _ fuel w1 s.globals args _ c0 c1 hc0 hloop, hfv]
    have hshr : (if s.modules.size ≥ s.numModules then s.modules else #[]) = s.modules := by
      rw [if_pos hshared]
    obtain ⟨w', hit⟩ := iterInvoke_one (runAt F cfg root (dpt + 1)) cfg root s fa args fuel w w1 w1 _ _ _
      (by rw [hshr]; exact hacq) rfl hrun
    refine ⟨c1.stack[(c1.sp - 1).toNat]!, w', _, p', hit, ?_, ?_, ?_, ?_⟩
    · -- the in-script side
      rw [inScriptCall_eq F fuel s fa args p p0 hpush hp0]
      have ef : fuel = m + ((fuel - m - 1) + 1) := by omega
      rw [ef, go_of_steps F s.frameIndex m _ p0 pm hpm' ?_]
      · rw [inScriptCall.go]
        have e1' : StateT.run (ExceptT.run (step F)) pm = (.ok .next, p') := e1
        simp only [e1']
        have hle : p'.frameIndex ≤ s.frameIndex := by rw [hfk, ← hpf]; omega
        rw [if_pos hle]
        have hidx : (p'.sp - 1).toNat < p'.stack.size := by
          rw [hsz, hspk]
          have : (0 : Int) ≤ p.sp - args.length := by omega
          simp only [stackSize] at hroom ⊢
          omega
        rw [Array.getElem?_eq_getElem hidx]
        simp only
        rw [hval, getElem!_pos p'.stack _ hidx]
      · intro j tj hj1 hj2 hr
        obtain ⟨cj, hcj⟩ := runSteps_prefix F m c0 cm hcm j hj2
        have ej : fuel = j + (fuel - j) := by omega
        rw [ej] at hok
        obtain ⟨_, ⟨d, H, N, a, hd, _, _⟩, _⟩ := UgoVerif.Proofs.Shift.steps_shift F (by omega) (by omega) j (fuel - j) c0 p0 ⟨0, hsh⟩ hok cj hcj .next tj hr
        have := hd.fiT
        rw [← hpf]
        omega
    · show c1.heap = p'.heap
      exact hh
    · show s.globals = p'.globals
      have g1 := runSteps_globals F (m + 1) p0 .next p' (by rw [hsn])
      have g2 := (gkeeps_callCompiled (G := p.globals) fa args.length 0).elim p rfl
      rw [hp0] at g2
      rw [g1, g2, hpg]
    · show (if s.modules.size ≥ s.numModules then c1.modules else s.modules) = p'.modules
      rw [if_pos hshared]
      exact hmo

/-! ### one invocation that ends with an error nobody catches -/

/-- the frame search of `throw` through frames without handlers: nothing found; heap, globals, module cache and
    `vm.err` untouched -/
theorem searchFrames_none : ∀ (j : Nat) (u : State), j ≤ frameSize → (∀ i, i < j → hasHandler (u.frames[i]!) = false) →
    ∃ u', exec (searchFrames j) u = (.ok none, u') ∧ u'.heap = u.heap ∧ u'.globals = u.globals ∧ u'.modules = u.modules ∧
      u'.err = u.err := by
  intro j
  induction j with
  | zero =>
    intro u _ _
    rw [searchFrames]
    exact ⟨u, rfl, rfl, rfl, rfl, rfl⟩
  | succ j ih =>
    intro u hj hnh
    rw [exec_searchFrames_succ]
    have c1 : ¬ j ≥ frameSize := by omega
    have c2 : ¬ (hasHandler (u.frames[j]!) = true) := by rw [hnh j (by omega)]; simp
    rw [if_neg c1, if_neg c2]
    obtain ⟨u', h1, h2, h3, h4, h5⟩ := ih { u with frames := u.frames.modify j fun f => { f with free := none, fn := none } }
      (by omega) (by
        intro i hi
        show hasHandler ((u.frames.modify j _)[i]!) = false
        rw [getElem!_modify]
        have c : ¬ (j = i ∧ i < u.frames.size) := fun c => by omega
        rw [if_neg c]
        exact hnh i (by omega))
    exact ⟨u', h1, h2, h3, h4, h5⟩

theorem finish_error_state (s : State) (e : VmErr) (herr : s.err = some e) :
    runFrom.finish (exec clearCurrentFrame s).2 = (.error e, (exec clearCurrentFrame s).2) := by
  have e' : (exec clearCurrentFrame s).2 =
      { s with frames := s.frames.modify s.curFrame (fun f => { f with free := none, fn := none, handlers := none }) } := rfl
  unfold runFrom.finish
  have h1 : (exec clearCurrentFrame s).2.err = some e := by rw [e']; exact herr
  rw [h1]

set_option maxHeartbeats 1600000 in
/-- **C14_error_restricted** (the statement of `C14_full` for one invocation that ends with an uGO error which neither the
    function nor — `hnh` — any frame of the caller catches).  Same setting and hypotheses as `C14_value_restricted`,
    with `vm.err = e` at the end of the child's loop instead of `nil`.  Then `Invoke` returns the error `e` and the
    in-script call ends the parent's loop with `vm.err = e` — the SAME `*RuntimeError` object —, and heap, globals and
    module cache of the two final states are equal.  (When a frame of the caller has a handler the in-script run goes
    on inside that handler; `inScriptCall` then reports a value: not comparable, see `throw_shift_partial`.) -/
theorem C14_error_restricted (F : FloatOps) (cfg : HostCfg) (root s p : State) (w : World) (fa ci : Nat)
    (free : Option (List Addr)) (args : List V) (dpt fuel : Nat) (e : Addr)
    (hw : ∀ c ∈ w.idle, ∃ u, c = releaseVM u)
    (hrc : root.consts = s.consts) (hrn : root.numModules = s.numModules) (hshared : s.numModules ≤ s.modules.size)
    (hpush : exec (pushArgs fa args) s = (.ok (), p))
    (hfn : p.heap[fa]? = some (.fn ci free)) (hg : p.globals ≠ .nil) (herr : p.err = none) (hshp : Shape p)
    (hargs : argsOnStack p args.length = args)
    (hacc : accepted (p.codes[ci]!).numParams (p.codes[ci]!).variadic args.length)
    (hself : (p.frames[p.curFrame]!).fn ≠ some fa)
    (hfi : 1 ≤ p.frameIndex ∧ p.frameIndex + 1 ≤ (frameSize : Int) - 1)
    (hbp : 1 ≤ p.sp - args.length) (hsp : p.sp ≤ (stackSize : Int))
    (hroom : p.sp - args.length + (p.codes[ci]!).numLocals ≤ (stackSize : Int))
    (hnl : (p.codes[ci]!).numParams ≤ (p.codes[ci]!).numLocals)
    (c0 p0 c1 : State)
    (hc0 : exec (prologue s.globals args) (acquireFrom { root with modules := s.modules } s (zeroVM s) fa) = (.ok (), c0))
    (hp0 : exec (callCompiled fa args.length 0) p = (.ok (.ok ()), p0))
    (hloop : exec (loopF F fuel) c0 = (.ok (some ()), c1))
    (hok : OkRun F fuel c0 p0)
    (hpar : ∀ j, j ≤ fuel → runSteps F j p0 ≠ none)
    (hrete : c1.err = some (.rt e))
    (hnh : ∀ j, j < p.frameIndex.toNat → hasHandler (p0.frames[j]!) = false) :
    ∃ w' s' sIn,
      iterInvoke (runAt F cfg root (dpt + 1)) cfg root fa args fuel false 1 w s none [] = (.error (.rt e), w', s') ∧
      inScriptCall F fuel s fa args = (.error (.rt e), sIn) ∧
      s'.heap = sIn.heap ∧ s'.globals = sIn.globals ∧ s'.modules = sIn.modules := by
  have hso := pushArgs_frame fa args s p hpush
  unfold StackOnly at hso
  have hph : p.heap = s.heap := by rw [hso]
  have hpc : p.codes = s.codes := by rw [hso]
  have hpk : p.consts = s.consts := by rw [hso]
  have hpm : p.modules = s.modules := by rw [hso]
  have hpn : p.numModules = s.numModules := by rw [hso]
  have hpg : p.globals = s.globals := by rw [hso]
  have hpf : p.frameIndex = s.frameIndex := by rw [hso]
  obtain ⟨c0', p0', h1, h2, hsh, _⟩ := prologue_eq_callbind
    (acquireFrom { root with modules := s.modules } s (zeroVM s) fa) p fa ci free args hfn
    (by rw [hph]; rfl) (by rw [hpc]; rfl) (by rw [hpk]; exact hrc) (by rw [hpm]; rfl) (by rw [hpn]; exact hrn) rfl
    (by rw [hpn, hpm]; exact hshared) hg herr ⟨(zeroVM_shape s).stack, (zeroVM_shape s).frames⟩ hshp hargs hacc hself
    ⟨by omega, hfi.2⟩ (by omega) hsp hroom hnl
  rw [hpg, hc0] at h1
  rw [hp0] at h2
  simp only [Prod.mk.injEq, Except.ok.injEq] at h1 h2
  obtain ⟨_, rfl⟩ := h1
  obtain ⟨_, rfl⟩ := h2
  obtain ⟨m, cm, hm, hcm, hlast, hparent⟩ := UgoVerif.Proofs.Shift.invoke_loop_partial F (by omega) (by omega) fuel c0 p0 ⟨0, hsh⟩ hok c1 hloop
    (by rw [hrete]; simp)
  rcases hpm' : runSteps F m p0 with _ | ⟨r0, pm⟩
  · exact absurd hpm' (hpar m (by omega))
  obtain ⟨hr0, hfin⟩ := hparent r0 pm hpm'
  subst hr0
  have hsn := runSteps_snoc F m p0 pm hpm'
  rcases e1 : exec (step F) pm with ⟨r1, p'⟩
  rw [e1] at hsn
  cases r1 with
  | error x => exact absurd hsn (hpar (m + 1) (by omega))
  | ok r' =>
    have hend := hfin r' p' e1
    rcases hend with hq | ⟨e', he, n, u, hu1, hu2, hu3, hu4, hu5, hu6, hu7⟩ | ⟨_, ⟨msg, he, _⟩, _⟩
    · obtain ⟨_, _, _, _, _, hce, _⟩ := hq
      rw [hrete] at hce; cases hce
    rotate_left
    · rw [hrete] at he; cases he
    rw [hrete] at he
    simp only [Option.some.injEq, VmErr.rt.injEq] at he
    subst he
    -- the parent: no handler below frame k
    have hkf : p.frameIndex.toNat ≤ frameSize := by have := hfi.2; simp only [frameSize] at this ⊢; omega
    obtain ⟨u', hs1, hs2, hs3, hs4, hs5⟩ := searchFrames_none p.frameIndex.toNat u hkf
      (fun i hi => by rw [hu5 i hi]; exact hnh i hi)
    have hesc : exec (escBelow n p.frameIndex.toNat e) u = (.ok .ret, { u' with err := some (.rt e) }) := by
      unfold escBelow
      rw [exec_bind, exec_throwBelow, hs1]
      simp only [exec_bind, exec_modS, exec_pure]
    rw [hesc] at hu7
    simp only [Prod.mk.injEq, Except.ok.injEq] at hu7
    obtain ⟨hr', hp'⟩ := hu7
    subst hr'
    subst hp'
    -- the Invoker side
    obtain ⟨w1, hacq⟩ := poolAcquire_fresh w { root with modules := s.modules } s fa cfg.pooled hw
    have hfv := finish_error_state c1 (.rt e) hrete
    have hrun : runAt F cfg root (dpt + 1) fuel w1 s.globals args (acquireFrom { root with modules := s.modules } s (zeroVM s) fa) =
        (.error (.rt e), w1, (exec clearCurrentFrame c1).2) := by
      show runWithW F cfg root (runAt F cfg root dpt) fuel w1 s.globals args _ = _
      rw [runWithW_of_loop F cfg root _ fuel w1 s.globals args _ c0 c1 hc0 hloop, hfv]
    have hshr : (if s.modules.size ≥ s.numModules then s.modules else #[]) = s.modules := by
      rw [if_pos hshared]
    obtain ⟨w', hit⟩ := iterInvoke_one (runAt F cfg root (dpt + 1)) cfg root s fa args fuel w w1 w1 _ _ _
      (by rw [hshr]; exact hacq) rfl hrun
    refine ⟨w', _, { u' with err := some (.rt e) }, hit, ?_, ?_, ?_, ?_⟩
    · rw [inScriptCall_eq F fuel s fa args p p0 hpush hp0]
      have ef : fuel = m + ((fuel - m - 1) + 1) := by omega
      rw [ef, go_of_steps F s.frameIndex m _ p0 pm hpm' ?_]
      · rw [inScriptCall.go]
        have e1' : StateT.run (ExceptT.run (step F)) pm = (.ok .ret, { u' with err := some (.rt e) }) := e1
        simp only [e1']
      · intro j tj hj1 hj2 hr
        obtain ⟨cj, hcj⟩ := runSteps_prefix F m c0 cm hcm j hj2
        have ej : fuel = j + (fuel - j) := by omega
        rw [ej] at hok
        obtain ⟨_, ⟨d, H, N, a, hd, _, _⟩, _⟩ := UgoVerif.Proofs.Shift.steps_shift F (by omega) (by omega) j (fuel - j) c0 p0 ⟨0, hsh⟩ hok cj hcj .next tj hr
        have := hd.fiT
        rw [← hpf]
        omega
    · show c1.heap = u'.heap
      rw [hs2, hu1]
    · show s.globals = u'.globals
      rw [hs3, hu2]
      have hsn' := runSteps_snoc F m c0 cm hcm
      rw [hlast] at hsn'
      have g1 := runSteps_globals F (m + 1) c0 .ret c1 hsn'
      have g2 := (gkeeps_callCompiled (G := p.globals) fa args.length 0).elim p rfl
      rw [hp0] at g2
      obtain ⟨H, N, a, hsh', _, _⟩ := hsh
      rw [g1, hsh'.globals, g2, hpg]
    · show (if s.modules.size ≥ s.numModules then c1.modules else s.modules) = u'.modules
      rw [if_pos hshared, hs4, hu3]

end UgoVerif.Props.C14
