import UgoVerif.VM.Invoke
import UgoVerif.Gen.VmFields
/-
  C14 — calling a script function from Go (Invoker) equals calling it inside the script.

  Model: VM/Invoke.lean (`acquireFrom`, `releaseVM`, `zeroVM`, pool, `runAt`), VM/Run.lean
  (`initLocals`, `prologue`), VM/Step.lean (`callCompiled`).  Tie: the `invoke` stream runs the
  model in lock-step with the real VM for in-script and Go-side calls; `Gen/VmFields.lean` is
  regenerated from vm.go on every check.
-/
namespace UgoVerif.Props.C14
open UgoVerif UgoVerif.Go UgoVerif.VM UgoVerif.Gen.VmFields

/-! ### acquire_complete (regenerated fact) -/

/-- VM fields whose value in a child needs no per-invocation initialisation:
    `stack`, `frames` — contents at or above `sp` / `frameIndex` are dead (liveness, C07 `step_live`;
    the prologue sets `sp`, `frameIndex` and re-initialises frame 0 and the locals);
    `mu` — a mutex, zero value = unlocked, only locked/unlocked by `Run`. -/
def zeroOk : List String := ["stack", "frames", "mu"]

/-- fields a child keeps from its creation (`&VM{bytecode: …}`) through every `_release` -/
def keptSinceCreation : List String :=
  releaseKeeps.filter fun f => newChildKeeps.contains f && syncPoolNewKeeps.contains f

/-- Every VM field (or `bytecode.` sub-field) that `Run` and the methods reachable from it read
    is assigned by `_acquire`, or assigned (not merely grown) by `Run`'s prologue, or is set when the
    child is created and preserved by `_release`, or is one of the three `zeroOk` fields.  A new VM
    field read by the loop and not initialised for children, or an assignment dropped from
    `_acquire` (`modulesCache`, `noPanic`, `constants`, …), breaks this obligation. -/
theorem acquire_complete :
    runReads.all (fun f => acquireAssigns.contains f || prologueAssigns.contains f ||
      keptSinceCreation.contains f || zeroOk.contains f) = true := by decide

/-- the lists are about the real struct: every path names a field of `VM` -/
theorem reads_are_fields : runReadRoots.all (fun f => vmFields.contains f) = true := by decide

/-- `_release` overwrites the whole VM with `VM{bytecode: bc}` after `*bc = Bytecode{}`
    (regenerated): the model's `releaseVM = zeroVM` is what the code does. -/
theorem release_zeroes :
    releaseAssignsWholeVM = true ∧ releaseKeeps = ["bytecode"] ∧ releaseResetsBytecode = true ∧
    newChildKeeps = ["bytecode"] ∧ syncPoolNewKeeps = ["bytecode"] := by decide

/-! ### pool_fresh -/

/-- `_release ; _acquire` gives the child a new VM would be: whatever a pooled child did
    before (any state `used`), after release it is acquired into exactly the state a freshly
    created child is acquired into — for every root, caller and callee. -/
theorem pool_fresh (root caller used : State) (callee : Addr) :
    acquireFrom root caller (releaseVM used) callee = acquireFrom root caller (zeroVM caller) callee := by
  simp [acquireFrom, releaseVM, zeroVM]

/-- the pool never hands out anything but zero VMs: taking from the pool equals creating a child -/
theorem pool_acquire_eq_new (w : World) (root caller : State) (callee : Addr)
    (hw : ∀ c ∈ w.idle, ∃ u, c = releaseVM u) :
    (poolAcquire w root caller callee true).1 = (poolAcquire w root caller callee false).1 := by
  unfold poolAcquire
  cases h : w.idle with
  | nil => simp
  | cons c rest =>
    obtain ⟨u, rfl⟩ := hw c (by simp [h])
    simp [pool_fresh]

theorem pool_release_inv (w : World) (child : State) (hw : ∀ c ∈ w.idle, ∃ u, c = releaseVM u) :
    ∀ c ∈ (poolRelease w child).idle, ∃ u, c = releaseVM u := by
  intro c hc
  simp [poolRelease] at hc
  rcases hc with rfl | hc
  · exact ⟨child, rfl⟩
  · exact hw c hc

/-- non-vacuity: a used child with residue everywhere -/
example : ∃ used : State, used.sp = 7 ∧ used.abort = true ∧
    (acquireFrom default default (releaseVM used) 3).abort = false ∧ (acquireFrom default default (releaseVM used) 3).sp = 0 :=
  ⟨{ (default : State) with sp := 7, abort := true }, rfl, rfl, rfl, rfl⟩

/-! ### what `_acquire` gives the child -/

/-- the child sees the root's constants, module count, module cache (same slice header) and
    recovery flag, runs the callee as its main function and shares the caller's heap -/
theorem acquire_fields (root caller child : State) (callee : Addr) :
    let c := acquireFrom root caller child callee
    c.consts = root.consts ∧ c.numModules = root.numModules ∧ c.modules = root.modules ∧
    c.noPanic = root.noPanic ∧ c.mainFn = callee ∧ c.heap = caller.heap := by
  simp [acquireFrom]

end UgoVerif.Props.C14
