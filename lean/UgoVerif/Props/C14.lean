import UgoVerif.VM.Invoke
import UgoVerif.Gen.VmFields
import UgoVerif.Proofs.InvokeShift
/-
  C14 — calling a script function from Go (Invoker) equals calling it inside the script.

  Model: VM/Invoke.lean (`acquireFrom`, `releaseVM`, `zeroVM`, pool, `runAt`), VM/Run.lean
  (`initLocals`, `prologue`), VM/Step.lean (`callCompiled`).  Tie: the `invoke` stream runs the
  model in lock-step with the real VM for in-script and Go-side calls; `Gen/VmFields.lean` is
  regenerated from vm.go on every check.
-/
namespace UgoVerif.Props.C14
open UgoVerif UgoVerif.Go UgoVerif.VM UgoVerif.Gen.VmFields
open UgoVerif.Proofs.InvokeBind UgoVerif.Proofs.Shift UgoVerif.Proofs.InvokeShift UgoVerif.Props.C02

set_option linter.unusedSimpArgs false
set_option linter.unusedVariables false

/-! ### acquire_complete (regenerated fact) -/

/-- VM fields whose value in a child needs no per-invocation initialisation:
    `stack`, `frames` — contents at or above `sp` / `frameIndex` are dead (liveness, C07 `step_live`;
    the prologue sets `sp`, `frameIndex` and re-initialises frame 0 and the locals);
    `mu` — a mutex, zero value = unlocked, only locked/unlocked by `Run`. -/
def zeroOk : List String := ["stack", "frames", "mu"]

/-- fields a child keeps from its creation (`&VM{bytecode: …}`) through every `_release` -/
def keptSinceCreation : List String :=
  releaseKeeps.filter fun f => newChildKeeps.contains f && syncPoolNewKeeps.contains f

/-- Every VM field (or `bytecode.` sub-field) that `Run` and the methods reachable from it read
    is assigned by `_acquire`, or assigned (not merely grown) by `Run`'s prologue, or is set when the
    child is created and preserved by `_release`, or is one of the three `zeroOk` fields.  A new VM
    field read by the loop and not initialised for children, or an assignment dropped from
    `_acquire` (`modulesCache`, `noPanic`, `constants`, …), breaks this obligation. -/
theorem acquire_complete :
    runReads.all (fun f => acquireAssigns.contains f || prologueAssigns.contains f ||
      keptSinceCreation.contains f || zeroOk.contains f) = true := by decide

/-- the lists are about the real struct: every path names a field of `VM` -/
theorem reads_are_fields : runReadRoots.all (fun f => vmFields.contains f) = true := by decide

/-- `_release` overwrites the whole VM with `VM{bytecode: bc}` after `*bc = Bytecode{}`
    (regenerated): the model's `releaseVM = zeroVM` is what the code does. -/
theorem release_zeroes :
    releaseAssignsWholeVM = true ∧ releaseKeeps = ["bytecode"] ∧ releaseResetsBytecode = true ∧
    newChildKeeps = ["bytecode"] ∧ syncPoolNewKeeps = ["bytecode"] := by decide

/-! ### pool_fresh -/

/-- `_release ; _acquire` gives the child a new VM would be: whatever a pooled child did
    before (any state `used`), after release it is acquired into exactly the state a freshly
    created child is acquired into — for every root, caller and callee. -/
theorem pool_fresh (root caller used : State) (callee : Addr) :
    acquireFrom root caller (releaseVM used) callee = acquireFrom root caller (zeroVM caller) callee := by
  simp [acquireFrom, releaseVM, zeroVM]

/-- the pool never hands out anything but zero VMs: taking from the pool equals creating a child -/
theorem pool_acquire_eq_new (w : World) (root caller : State) (callee : Addr)
    (hw : ∀ c ∈ w.idle, ∃ u, c = releaseVM u) :
    (poolAcquire w root caller callee true).1 = (poolAcquire w root caller callee false).1 := by
  unfold poolAcquire
  cases h : w.idle with
  | nil => simp
  | cons c rest =>
    obtain ⟨u, rfl⟩ := hw c (by simp [h])
    simp [pool_fresh]

theorem pool_release_inv (w : World) (child : State) (hw : ∀ c ∈ w.idle, ∃ u, c = releaseVM u) :
    ∀ c ∈ (poolRelease w child).idle, ∃ u, c = releaseVM u := by
  intro c hc
  simp [poolRelease] at hc
  rcases hc with rfl | hc
  · exact ⟨child, rfl⟩
  · exact hw c hc

/-- non-vacuity: a used child with residue everywhere -/
example : ∃ used : State, used.sp = 7 ∧ used.abort = true ∧
    (acquireFrom default default (releaseVM used) 3).abort = false ∧ (acquireFrom default default (releaseVM used) 3).sp = 0 :=
  ⟨{ (default : State) with sp := 7, abort := true }, rfl, rfl, rfl, rfl⟩

/-! ### parameter binding: `initLocals` (Go-side call) vs `xOpCallCompiled` (in-script call) -/

/-- Go's `copy(dst, src)` on lists -/
def goCopy (dst src : List V) : List V := src.take dst.length ++ dst.drop src.length

/-- vm.go `initLocals`, statement by statement, as a function on the locals slice
    (`arr` = the array object allocated for the variadic parameter) -/
def initLocalsSpec (np nl : Nat) (variadic : Bool) (args : List V) (arr : V) : List V :=
  let locals := List.replicate nl V.undefined
  if np = 0 then locals
  else if args.length < np then
    goCopy (if variadic then locals.set (np - 1) arr else locals) args
  else
    goCopy (locals.set (np - 1) (if variadic then arr else args.getD (np - 1) .undefined)) (args.take (np - 1))

/-- vm.go `xOpCallCompiled` with `flags = 0` on the slots `[bp, bp+numLocals)` of the new frame,
    for an argument count it accepts: the arguments are already in place, the variadic tail is
    replaced by `arr`, the remaining locals are set to undefined -/
def callbindSpec (np nl : Nat) (variadic : Bool) (args : List V) (arr : V) : List V :=
  if variadic then args.take (np - 1) ++ [arr] ++ List.replicate (nl - np) V.undefined
  else args ++ List.replicate (nl - np) V.undefined

/- the argument counts both entry points accept (property text: others are not compared):
   `accepted np variadic n` (Proofs/InvokeBind) = `if variadic then 1 ≤ np ∧ np - 1 ≤ n else n = np` -/

theorem goCopy_take_lt (locals args : List V) (n : Nat) (h1 : n ≤ args.length) (h2 : n ≤ locals.length) :
    goCopy locals (args.take n) = args.take n ++ locals.drop n := by
  unfold goCopy
  rw [List.take_of_length_le (by simp; omega)]
  simp [List.length_take, Nat.min_eq_left h1]

/-- **bindSpecs_agree** (proved): over the two statement-by-statement list specifications of the
    binding code, both entry points leave the same values in the callee's `NumLocals` slots for
    every accepted argument list (`arr` = the variadic array). -/
theorem bindSpecs_agree (np nl : Nat) (variadic : Bool) (args : List V) (arr : V) (hnl : np ≤ nl)
    (hacc : accepted np variadic args.length) :
    initLocalsSpec np nl variadic args arr = callbindSpec np nl variadic args arr := by
  unfold initLocalsSpec callbindSpec
  cases variadic with
  | false =>
    simp only [accepted, Bool.false_eq_true, if_false] at hacc
    simp only [Bool.false_eq_true, if_false]
    by_cases h0 : np = 0
    · subst h0
      have : args = [] := List.eq_nil_of_length_eq_zero hacc
      simp [this]
    · have hlt : ¬ args.length < np := by omega
      simp only [h0, hlt, if_false]
      rw [goCopy_take_lt _ _ _ (by omega) (by simp; omega)]
      apply List.ext_getElem?
      intro i
      simp only [List.getElem?_append, List.getElem?_take, List.getElem?_drop, List.length_take, List.getElem?_set,
        List.getElem?_replicate, List.length_replicate]
      by_cases hi : i < np - 1
      · have h1 : i < min (np - 1) args.length := by omega
        have h2 : i < args.length := by omega
        simp [h1, hi, h2]
      · have h1 : ¬ i < min (np - 1) args.length := by omega
        simp only [h1, if_false]
        have e1 : min (np - 1) args.length = np - 1 := by omega
        rw [e1]
        by_cases hie : i = np - 1
        · subst hie
          have h3 : np - 1 < args.length := by omega
          have h4 : np - 1 < nl := by omega
          simp [h3, h4, List.getD, List.getElem?_eq_getElem h3]
        · have h3 : ¬ i < args.length := by omega
          have h5 : ¬ np - 1 = np - 1 + (i - (np - 1)) := by omega
          simp only [h3, if_false, h5]
          by_cases h6 : i < nl
          · have : np - 1 + (i - (np - 1)) < nl := by omega
            have h7 : i - args.length < nl - np := by omega
            simp [this, h7]
          · have : ¬ np - 1 + (i - (np - 1)) < nl := by omega
            have h7 : ¬ i - args.length < nl - np := by omega
            simp [this, h7]
  | true =>
    simp only [accepted, if_true] at hacc
    obtain ⟨h1p, hle⟩ := hacc
    have h0 : ¬ np = 0 := by omega
    simp only [h0, if_false, if_true]
    have key : ∀ (src : List V), src = args.take (np - 1) →
        goCopy ((List.replicate nl V.undefined).set (np - 1) arr) src =
          args.take (np - 1) ++ [arr] ++ List.replicate (nl - np) V.undefined := by
      intro src hsrc
      subst hsrc
      rw [goCopy_take_lt _ _ _ (by omega) (by simp; omega)]
      apply List.ext_getElem?
      intro i
      simp only [List.getElem?_append, List.getElem?_take, List.getElem?_drop, List.length_take, List.getElem?_set,
        List.getElem?_replicate, List.length_replicate, List.length_append, List.length_cons, List.length_nil]
      have e1 : min (np - 1) args.length = np - 1 := by omega
      rw [e1]
      by_cases hi : i < np - 1
      · have h2 : i < args.length := by omega
        have h3 : i < np - 1 + (0 + 1) := by omega
        simp [hi, h2, h3]
      · simp only [hi, if_false]
        by_cases hie : i = np - 1
        · subst hie
          have h4 : np - 1 < nl := by omega
          simp [h4]
        · have h3 : ¬ i < np - 1 + (0 + 1) := by omega
          have h5 : ¬ np - 1 = np - 1 + (i - (np - 1)) := by omega
          simp only [h3, if_false, h5]
          by_cases h6 : i < nl
          · have : np - 1 + (i - (np - 1)) < nl := by omega
            have h7 : i - (np - 1 + (0 + 1)) < nl - np := by omega
            simp [this, h7]
          · have : ¬ np - 1 + (i - (np - 1)) < nl := by omega
            have h7 : ¬ i - (np - 1 + (0 + 1)) < nl - np := by omega
            simp [this, h7]
    by_cases hlt : args.length < np
    · simp only [hlt, if_true]
      have : args = args.take (np - 1) := by rw [List.take_of_length_le (by omega)]
      rw [key args this]
    · simp only [hlt, if_false]
      exact key _ rfl

example : initLocalsSpec 2 4 false [.int 1, .int 2] (.arr 9 0 0) = callbindSpec 2 4 false [.int 1, .int 2] (.arr 9 0 0) := rfl
example : initLocalsSpec 2 3 true [.int 1] (.arr 9 0 0) = callbindSpec 2 3 true [.int 1] (.arr 9 0 0) := rfl
example : initLocalsSpec 2 3 true [.int 1, .int 2, .int 3] (.arr 9 0 2) = callbindSpec 2 3 true [.int 1, .int 2, .int 3] (.arr 9 0 2) := rfl
example : initLocalsSpec 1 1 true [] (.arr 9 0 0) = callbindSpec 1 1 true [] (.arr 9 0 0) := rfl
/-- the mutation `numParams` for `numParams-1` in the variadic slot is visible in the specification -/
example : ((goCopy ((List.replicate 3 V.undefined).set 2 (.arr 9 0 1)) ([V.int 1, .int 2, .int 3].take 1)) ==
    callbindSpec 2 3 true [.int 1, .int 2, .int 3] (.arr 9 0 2)) = false := by decide

/-- the in-script call of `fa(args…)` from the current frame of `s`: push callee and arguments,
    execute `callCompiled`, then run instructions until the frame index is back (model fuel) -/
def inScriptCall (F : FloatOps) (fuel : Nat) (s : State) (fa : Addr) (args : List V) : Except OpErr V × State :=
  let push : M Unit := do
    pushV (.cfun fa)
    for a in args do pushV a
  match push.run.run s with
  | (.error _, s1) => (.error (.named "" "model"), s1)
  | (.ok (), s1) =>
    match (callCompiled fa args.length 0).run.run s1 with
    | (.ok (.ok ()), s2) =>
      let base := s.frameIndex
      let rec go : Nat → State → Except OpErr V × State
        | 0, t => (.error (.named "" "fuel"), t)
        | n+1, t =>
          match (step F).run.run t with
          | (.ok .next, t') =>
            if t'.frameIndex ≤ base then
              match t'.stack[(t'.sp - 1).toNat]? with
              | some v => (.ok v, t')
              | none => (.error (.named "" "model"), t')
            else go n t'
          | (_, t') =>
            match t'.err with
            | some (.rt a) => (.error (.rt a), t')
            | _ => (.error (.named "" "stopped"), t')
      go fuel s2
    | (.ok (.error e), s2) => (.error e, s2)
    | (.error _, s2) => (.error (.named "" "model"), s2)

/-- same value, or errors that are the same `RuntimeError` / have the same name and message -/
def sameResult : InvRes → Except OpErr V → Prop
  | .value v, .ok v' => v = v'
  | .error (.rt a), .error (.rt b) => a = b
  | .error (.named n m), .error (.named n' m') => n = n' ∧ m = m'
  | .error .stackOverflow, .error .stackOverflow => True
  | _, _ => False

/-! ### `initLocals_eq_callbind`: the two MONADIC binders, slot by slot -/

/-- **initLocals_eq_callbind.**  `c` is a child VM whose `Main` is the compiled function `fa`
    (heap cell `.fn ci free`), `p` the parent with `args` on its operand stack, both over the same heap
    and code memory.  For every accepted argument list (exactly `NumParams`, or at least
    `NumParams - 1` when variadic) `initLocals args` on the child and `xOpCallCompiled fa (len args) 0`
    on the parent both succeed, leave EQUAL heaps (the variadic array is one fresh cell at the same
    address, holding exactly `args.drop (NumParams-1)`), and slot `j` of the child equals slot `bp + j`
    of the parent for every `j < NumLocals`, both being `bindSlot`: the parameter's argument, the
    variadic array, `undefined` for the other locals.  (Not covered: the self tail call, where
    `xOpCallCompiled` reuses the caller's frame — hypothesis `hself`.) -/
theorem initLocals_eq_callbind (c p : State) (fa ci : Nat) (free : Option (List Addr)) (args : List V)
    (hfn : p.heap[fa]? = some (.fn ci free))
    (hheap : c.heap = p.heap) (hcodes : c.codes = p.codes) (hmain : c.mainFn = fa)
    (hszc : c.stack.size = stackSize) (hszp : p.stack.size = stackSize)
    (hargs : argsOnStack p args.length = args)
    (hacc : accepted (p.codes[ci]!).numParams (p.codes[ci]!).variadic args.length)
    (hself : (p.frames[p.curFrame]!).fn ≠ some fa)
    (hfi : 0 ≤ p.frameIndex ∧ p.frameIndex + 1 ≤ (frameSize : Int) - 1)
    (hbp : 0 ≤ p.sp - args.length) (hsp : p.sp ≤ (stackSize : Int))
    (hroom : p.sp - args.length + (p.codes[ci]!).numLocals ≤ (stackSize : Int))
    (hnl : (p.codes[ci]!).numParams ≤ (p.codes[ci]!).numLocals) :
    ∃ c' p', exec (initLocals args) c = (.ok (), c') ∧
      exec (callCompiled fa args.length 0) p = (.ok (.ok ()), p') ∧
      c'.heap = p'.heap ∧
      c'.heap = bindHeap (p.codes[ci]!).numParams (p.codes[ci]!).variadic args p.heap ∧
      ∀ j, j < (p.codes[ci]!).numLocals →
        c'.stack[j]! = p'.stack[(p.sp - args.length).toNat + j]! ∧
        c'.stack[j]! = bindSlot (p.codes[ci]!).numParams (p.codes[ci]!).variadic args p.heap.size j := by
  have hcell : exec (fnCell fa) p = (.ok (p.codes[ci]!, free), p) := UgoVerif.Proofs.EvalLocals.exec_fnCell p fa ci free hfn
  obtain ⟨stp, hp, _, hpslots, _⟩ :=
    callCompiled_slots fa args p _ free hcell hargs hacc hself hfi hbp hsp hroom hnl hszp
  have hfn1 : c.heap[c.mainFn]? = some (.fn ci free) := by rw [hmain, hheap]; exact hfn
  have hnlS : (p.codes[ci]!).numLocals ≤ stackSize := by omega
  obtain ⟨stc, hci, _, hcslots, _⟩ :=
    initLocals_slots args c ci free hfn1 (by rw [hcodes]; exact hnl) (by rw [hcodes]; exact hnlS) hszc
  rw [hcodes, hheap] at hci hcslots
  refine ⟨_, _, hci, hp, rfl, rfl, ?_⟩
  intro j hj
  have e1 := getElem!_of_getElem? _ _ _ (hcslots j hj)
  have e2 := getElem!_of_getElem? _ _ _ (hpslots j hj)
  exact ⟨by show stc[j]! = stp[_]!; rw [e1, e2], e1⟩

/-- **arity_rejected_lenient** (the REJECTED arities do NOT agree — by design, property text: "Go-side
    calls with too few or too many arguments are lenient … and are not compared").  `Run` has no
    argument check: `initLocals` succeeds for EVERY argument list (missing parameters are `undefined`,
    surplus arguments are dropped — `bindSlot`), whereas `xOpCallCompiled` answers
    `WrongNumberOfArgumentsError`.  Witness on the real code: `f := func(a, b) {…}`; `Invoke(1)` returns
    `[1, undefined]`, `f(1)` throws `WrongNumberOfArgumentsError: want=2 got=1`. -/
theorem arity_rejected_lenient (c p : State) (fa ci : Nat) (free : Option (List Addr)) (args : List V)
    (hfn : p.heap[fa]? = some (.fn ci free))
    (hheap : c.heap = p.heap) (hcodes : c.codes = p.codes) (hmain : c.mainFn = fa)
    (hszc : c.stack.size = stackSize)
    (hnl : (p.codes[ci]!).numParams ≤ (p.codes[ci]!).numLocals) (hnlS : (p.codes[ci]!).numLocals ≤ stackSize)
    (hrej : ¬ accepted (p.codes[ci]!).numParams (p.codes[ci]!).variadic args.length)
    (hnp : (p.codes[ci]!).variadic = true → 1 ≤ (p.codes[ci]!).numParams) :
    (∃ c', exec (initLocals args) c = (.ok (), c') ∧ ∀ j, j < (p.codes[ci]!).numLocals →
        c'.stack[j]! = bindSlot (p.codes[ci]!).numParams (p.codes[ci]!).variadic args p.heap.size j) ∧
    (∃ m, exec (callCompiled fa args.length 0) p = (.ok (.error (.named "WrongNumberOfArgumentsError" m)), p)) := by
  have hcell : exec (fnCell fa) p = (.ok (p.codes[ci]!, free), p) := UgoVerif.Proofs.EvalLocals.exec_fnCell p fa ci free hfn
  have hfn1 : c.heap[c.mainFn]? = some (.fn ci free) := by rw [hmain, hheap]; exact hfn
  obtain ⟨stc, hci, _, hcslots, _⟩ :=
    initLocals_slots args c ci free hfn1 (by rw [hcodes]; exact hnl) (by rw [hcodes]; exact hnlS) hszc
  rw [hcodes, hheap] at hci hcslots
  refine ⟨⟨_, hci, fun j hj => getElem!_of_getElem? _ _ _ (hcslots j hj)⟩, ?_⟩
  cases hv : (p.codes[ci]!).variadic with
  | false =>
    simp only [accepted, hv, Bool.false_eq_true, if_false] at hrej
    exact ⟨_, callCompiled_fixed_arity_error fa args.length p _ free hcell hv (by omega)⟩
  | true =>
    simp only [accepted, hv, if_true] at hrej
    have := hnp hv
    exact ⟨_, callCompiled_variadic_arity_error fa args.length p _ free hcell hv (by omega)⟩

/-- **prologue_eq_callbind.**  The whole entries: the child's `prologue` (`Run` up to the loop) and the
    parent's `xOpCallCompiled` leave states related by the offset relation `ShB bp k 0` (Proofs/Shift.lean,
    depth 0: both are in the invoked function's own frame): same heap, code memory, constants, globals, module
    cache; `ip = -1` on both; child frame 0 / base 0 / `sp = NumLocals` against parent frame k / base bp /
    `sp = bp + NumLocals`; no handlers; `child.stack[i] = parent.stack[bp+i]` for `i < NumLocals`. -/
theorem prologue_eq_callbind (c p : State) (fa ci : Nat) (free : Option (List Addr)) (args : List V)
    (hfn : p.heap[fa]? = some (.fn ci free))
    (hheap : c.heap = p.heap) (hcodes : c.codes = p.codes) (hconsts : c.consts = p.consts)
    (hmods : c.modules = p.modules) (hnm : c.numModules = p.numModules) (hmain : c.mainFn = fa)
    (hfull : p.numModules ≤ p.modules.size) (hg : p.globals ≠ .nil) (herr : p.err = none)
    (hshc : Shape c) (hshp : Shape p)
    (hargs : argsOnStack p args.length = args)
    (hacc : accepted (p.codes[ci]!).numParams (p.codes[ci]!).variadic args.length)
    (hself : (p.frames[p.curFrame]!).fn ≠ some fa)
    (hfi : 0 ≤ p.frameIndex ∧ p.frameIndex + 1 ≤ (frameSize : Int) - 1)
    (hbp : 0 ≤ p.sp - args.length) (hsp : p.sp ≤ (stackSize : Int))
    (hroom : p.sp - args.length + (p.codes[ci]!).numLocals ≤ (stackSize : Int))
    (hnl : (p.codes[ci]!).numParams ≤ (p.codes[ci]!).numLocals) :
    ∃ c' p', exec (prologue p.globals args) c = (.ok (), c') ∧
      exec (callCompiled fa args.length 0) p = (.ok (.ok ()), p') ∧
      ShB (p.sp - args.length).toNat p.frameIndex.toNat 0 c' p' ∧ c'.sp = (p.codes[ci]!).numLocals :=
  entries_shifted c p fa ci free args hfn hheap hcodes hconsts hmods hnm hmain hfull hg herr hshc hshp hargs hacc hself
    hfi hbp hsp hroom hnl

theorem emptyFrames_zero : (Array.replicate frameSize ({} : Frame))[0]! = {} := by
  rw [getElem!_pos _ 0 (by simp [frameSize])]
  simp

/-- non-vacuity of `initLocals_eq_callbind` / `prologue_eq_callbind`: a VM inside `Run` about to call the
    zero-parameter function at heap address 0, and a child for it -/
def exP : State :=
  { newState #[{ insts := #[], numParams := 0, numLocals := 0, variadic := false }] #[.fn 0 none] #[] 0 0 with
    frameIndex := 1, globals := .undefined }

example : ∃ c' p', exec (prologue exP.globals []) exP = (.ok (), c') ∧
    exec (callCompiled 0 (([] : List V).length) 0) exP = (.ok (.ok ()), p') ∧ ShB 0 1 0 c' p' ∧ c'.sp = (0 : Nat) := by
  have hfr : (exP.frames[exP.curFrame]!).fn ≠ some 0 := by
    show (Array.replicate frameSize ({} : Frame))[0]!.fn ≠ some 0
    rw [emptyFrames_zero]; simp
  exact prologue_eq_callbind exP exP 0 0 none [] rfl rfl rfl rfl rfl rfl rfl (by decide) (by simp [exP]) rfl
    ⟨by simp [exP, newState], by simp [exP, newState, emptyFrames]⟩ ⟨by simp [exP, newState], by simp [exP, newState, emptyFrames]⟩
    (by simp [argsOnStack]) (by simp [accepted, exP, newState]) hfr (by decide) (by decide) (by decide) (by decide) (by decide)

/-- what `_acquire` gives `prologue_eq_callbind`: the child acquired for `fa` from a root whose
    constants, module count and module cache are the caller's satisfies its hypotheses on `c` -/
theorem acquire_meets_prologue (root caller child : State) (fa : Addr)
    (hc : root.consts = caller.consts) (hm : root.modules = caller.modules) (hn : root.numModules = caller.numModules) :
    let c := acquireFrom root caller child fa
    c.heap = caller.heap ∧ c.codes = caller.codes ∧ c.consts = caller.consts ∧ c.modules = caller.modules ∧
    c.numModules = caller.numModules ∧ c.mainFn = fa := by
  simp [acquireFrom, hc, hm, hn]

/-! ### `frame_shift`: the simulation between the child and the callee's frames in the parent -/

/-- **frame_shift.**  One instruction — ANY opcode, all 44 of opcodes.go and unknown ones — of the child and of the
    parent from `ShB bp k d`-related states: the invoked function runs in the child's frame 0 / base 0 and in the
    parent's frame `k` / base `bp`; both VMs are `d ≥ 0` frames above it (nested calls), frame `j` of the child
    corresponding to frame `k + j` of the parent: same function, free variables, saved `ip`, base pointer shifted
    by `bp`, handler stacks equal up to the shift of the recorded `sp`; equal heap, code, constants, globals, module
    cache, `ip`; `child.stack[i] = parent.stack[bp+i]` on a region containing both stack pointers.
    Hypotheses: `StepOk` on the child's instruction (a local-slot operand addresses a slot below `sp`; MAP has an even
    operand; CALL / CALLNAME have no spread argument) and `CallRoom` (when the instruction is a call, the PARENT has a
    free frame: otherwise it answers StackOverflowError where the child still has `k` frames left).
    If both `step`s end normally (Go panics / `unsupported` are not compared: the child has `bp` more stack slots)
    then one of:
    * both continue (`.next`) in `ShB bp k d'`-related states — `d' = d`, `d + 1` (CALL / CALLNAME of a compiled
      function, also the running function itself; a self tail call reuses the frame: `d' = d`), `d - 1` (RETURN of a
      nested call), or the depth of the frame whose handler caught a thrown error;
    * the child's loop returns with `vm.err = e` (an uGO error no handler of the function's frame or of a frame above
      it takes) and the parent's instruction ended as the frame search BELOW frame `k` ends (`EscQ`);
    * both loops return with the same Go error (unknown opcode, malformed THROW operand);
    * the invoked function RETURNed (`d = 0`): the child's loop returns without error, the parent is back in the
      caller's frame `k - 1` with `sp = bp`, and `child.stack[sp-1] = parent.stack[sp-1]` (`RetQ`). -/
theorem frame_shift (F : FloatOps) (bp k d : Nat) (hk : 1 ≤ k) (hbp : 1 ≤ bp) (s t : State) (h : ShB bp k d s t)
    (hok : StepOk s) (hroom : CallRoom s t)
    (r r' : Ctl) (s' t' : State) (h1 : exec (step F) s = (.ok r, s')) (h2 : exec (step F) t = (.ok r', t')) :
    (r = .next ∧ r' = .next ∧ ∃ d', ShB bp k d' s' t') ∨
    (r = .ret ∧ ∃ e, s'.err = some (.rt e) ∧ EscQ k e r' s' t') ∨
    (r = .ret ∧ r' = .ret ∧ (∃ m, s'.err = some (.goerr m) ∧ t'.err = some (.goerr m)) ∧
      s'.heap = t'.heap ∧ s'.globals = t'.globals ∧ s'.modules = t'.modules) ∨
    RetQ bp k r r' s' t' := by
  rcases UgoVerif.Proofs.Shift.frame_shift F hk hbp s t ⟨h, hok, hroom⟩ r s' r' t' h1 h2 with (h | h | h) | h
  · exact Or.inl h
  · exact Or.inr (Or.inl h)
  · exact Or.inr (Or.inr (Or.inl h))
  · exact Or.inr (Or.inr (Or.inr h))

/-- **throw_shift_partial** (the boundary of the simulation under a thrown error).  `vm.throw(e)` — from THROW, from the
    re-throw after `finally`, from any failing instruction (`failWith`) — in `Sh`-related states, with ANY two fuels
    (the model's `throwFuel` counts all frames, so the two sides get different ones).  If both end normally:
    * a handler in the function's frame or in a frame above it takes the error ON BOTH SIDES: same handler, `ip`
      set to its catch / finally position, `sp` reset to the `sp` it recorded (shifted by `bp` in the parent), the
      frames above the handling frame dropped: `ShB bp k d'` again, `d'` the depth of the handling frame; or
    * there is none: the child's `throw` returns `e` (→ `vm.err`, `Run` returns it to the Go caller) and the parent's
      `throw` ended as `throwBelow n'' k e` — the search for a handler in frames `k-1, k-2, …, 0` — ends from a state
      `u` with the child's heap, globals and module cache.  Below this boundary the two sides legitimately differ
      (the Go caller of `Invoke` gets the error; the in-script caller's frames are searched). -/
theorem throw_shift_partial (bp k d H N : Nat) (a : Int) (e : Addr) (n n' : Nat) (s t : State)
    (h : Sh bp k d H N a s t) (ha : a ≤ N) (hH : H ≤ N) (r r' : Option Addr) (s' t' : State)
    (h1 : exec (throwF n e) s = (.ok r, s')) (h2 : exec (throwF n' e) t = (.ok r', t')) :
    (r = none ∧ r' = none ∧ ∃ d', ShB bp k d' s' t') ∨
    (r = some e ∧ s'.err = none ∧ ∃ n'' u, u.heap = s'.heap ∧ u.globals = s'.globals ∧ u.modules = s'.modules ∧
      u.err = none ∧ exec (throwBelow n'' k e) u = (.ok r', t')) :=
  sh_throwF e n n' d H N a ha hH s t h r s' r' t' h1 h2

/-- **steps_shift.**  `frame_shift` iterated while the child's loop goes on: after `m` instructions of the child that
    all continued, the parent (if it did not panic / leave the model) also continued `m` times and the states are
    related again (at some depth). -/
theorem steps_shift (F : FloatOps) (bp k : Nat) (hk : 1 ≤ k) (hbp : 1 ≤ bp) (m j : Nat) (s t : State)
    (h : ∃ d, ShB bp k d s t) (hok : OkRun F (m + j) s t)
    (s0 : State) (h1 : runSteps F m s = some (.next, s0)) (r0 : Ctl) (t0 : State) (h2 : runSteps F m t = some (r0, t0)) :
    r0 = .next ∧ (∃ d, ShB bp k d s0 t0) ∧ OkRun F j s0 t0 :=
  UgoVerif.Proofs.Shift.steps_shift F hk hbp m j s t h hok s0 h1 r0 t0 h2

/-- **invoke_eq_call_partial.**  The whole run of the invoked function.  `c` is the child as `_acquire` left it, `p` the
    parent with callee and `args` on its stack (hypotheses of `prologue_eq_callbind`; `1 ≤ frameIndex`: the parent is
    inside `Run`; `1 ≤ sp - #args`: the callee value lies below the arguments).  Both entries succeed; and for every
    number of instructions `n` (`OkRun`: every instruction met on the way satisfies `StepOk` / `CallRoom`): if the
    child's loop ENDS within `n` instructions — at its instruction `m + 1`, in state `c'` — then the parent, unless
    it panicked / left the model before, is still running after `m` instructions, and its instruction `m + 1` ends
    as `EndQ` says:
    * the function returned: `c'.err = none`, the parent is back in the caller's frame (`frameIndex = k`,
      `sp = bp`), equal heap / globals / module cache, and the slot `Run` reads its result from holds the value the
      in-script caller finds in the call's slot (`result_value_deref` for the epilogue's dereference); or
    * an error `e` left the function: `c'.err = e` (what `Invoke` returns) and the parent's instruction — the same
      throwing instruction — ended as the handler search below frame `k` ends from a state with the child's heap,
      globals and module cache (`EscQ`): the same error thrown at the call instruction of the caller; or
    * both loops stopped with the same Go error (malformed bytecode). -/
theorem invoke_eq_call_partial (F : FloatOps) (c p : State) (fa ci : Nat) (free : Option (List Addr)) (args : List V)
    (hfn : p.heap[fa]? = some (.fn ci free))
    (hheap : c.heap = p.heap) (hcodes : c.codes = p.codes) (hconsts : c.consts = p.consts)
    (hmods : c.modules = p.modules) (hnm : c.numModules = p.numModules) (hmain : c.mainFn = fa)
    (hfull : p.numModules ≤ p.modules.size) (hg : p.globals ≠ .nil) (herr : p.err = none)
    (hshc : Shape c) (hshp : Shape p)
    (hargs : argsOnStack p args.length = args)
    (hacc : accepted (p.codes[ci]!).numParams (p.codes[ci]!).variadic args.length)
    (hself : (p.frames[p.curFrame]!).fn ≠ some fa)
    (hfi : 1 ≤ p.frameIndex ∧ p.frameIndex + 1 ≤ (frameSize : Int) - 1)
    (hbp : 1 ≤ p.sp - args.length) (hsp : p.sp ≤ (stackSize : Int))
    (hroom : p.sp - args.length + (p.codes[ci]!).numLocals ≤ (stackSize : Int))
    (hnl : (p.codes[ci]!).numParams ≤ (p.codes[ci]!).numLocals) :
    ∃ c0 p0, exec (prologue p.globals args) c = (.ok (), c0) ∧
      exec (callCompiled fa args.length 0) p = (.ok (.ok ()), p0) ∧
      ∀ n, OkRun F n c0 p0 → ∀ c', runSteps F n c0 = some (.ret, c') →
        ∃ m cm, m < n ∧ runSteps F m c0 = some (.next, cm) ∧ exec (step F) cm = (.ok .ret, c') ∧
          ∀ r0 pm, runSteps F m p0 = some (r0, pm) → r0 = .next ∧
            ∀ r' p', exec (step F) pm = (.ok r', p') →
              EndQ (p.sp - args.length).toNat p.frameIndex.toNat r' c' p' := by
  obtain ⟨c0, p0, h1, h2, hsh, _⟩ := prologue_eq_callbind c p fa ci free args hfn hheap hcodes hconsts hmods hnm hmain hfull hg
    herr hshc hshp hargs hacc hself ⟨by omega, hfi.2⟩ (by omega) hsp hroom hnl
  refine ⟨c0, p0, h1, h2, ?_⟩
  intro n hok c' hc'
  exact UgoVerif.Proofs.Shift.invoke_eq_call_partial F (by omega) (by omega) n c0 p0 ⟨0, hsh⟩ hok c' hc'

/-- what `EndQ` says when the function returned, spelled out (`return_shift`) -/
theorem return_shift (bp k : Nat) (r' : Ctl) (s' t' : State) (h : RetQ bp k .ret r' s' t') :
    r' = .next ∧ s'.heap = t'.heap ∧ s'.globals = t'.globals ∧ s'.modules = t'.modules ∧
    s'.err = none ∧ t'.err = none ∧ s'.frameIndex = 1 ∧ t'.frameIndex = k ∧ t'.sp = bp ∧ 1 ≤ s'.sp ∧
    s'.stack[(s'.sp - 1).toNat]! = t'.stack[(t'.sp - 1).toNat]! := h.2

/-- **result_value_deref** (the epilogue).  `Run` returns `stack[sp-1]` unless it is an `*ObjectPtr`, which
    it dereferences (vm.go:166-170) — the in-script caller gets the slot value as it is.  So after
    `return_shift` the two results are EQUAL whenever the returned value is not a raw `*ObjectPtr`, and
    otherwise the Go side gets the pointee.  The compiler emits GETLOCALPTR / GETFREEPTR only as operands
    of CLOSURE (compiler_nodes.go:899-901), so no compiled function returns a raw pointer; with
    hand-made bytecode `GETLOCALPTR 0; RETURN 1` the real VM gives `typeName(f(5)) = "objectPtr"` but
    `typeName(Invoke(f, 5)) = "int"` (observed on the real code; outside the property's quantifier). -/
theorem result_value_deref (s : State) (hsp : 1 ≤ s.sp ∧ s.sp ≤ (stackSize : Int)) :
    ((∀ a, s.stack[(s.sp - 1).toNat]! ≠ .box a) → exec resultValue s = (.ok (s.stack[(s.sp - 1).toNat]!), s)) ∧
    (∀ a w, s.stack[(s.sp - 1).toNat]! = .box a → s.heap[a]? = some (.box w) → exec resultValue s = (.ok w, s)) :=
  ⟨resultValue_of_slot s hsp, fun a w hv hw => resultValue_of_box s hsp a w hv hw⟩

/-- what `ShB` says about the observable state: same heap, globals and module cache -/
theorem shB_observables (bp k d : Nat) (s t : State) (h : ShB bp k d s t) :
    s.heap = t.heap ∧ s.globals = t.globals ∧ s.modules = t.modules ∧ s.ip = t.ip ∧ t.sp = s.sp + bp := by
  obtain ⟨H, N, a, h, _, _⟩ := h
  exact ⟨h.heap, h.globals, h.modules, h.ip, by rw [h.spT, h.spS]⟩

/-- the opcodes that touch neither frames nor handlers (Proofs/ShiftOps), by number (opcodes.go); the other eight —
    CALL 2, CALLNAME 43, RETURN 39, THROW 37, SETUPTRY 34, SETUPCATCH 35, SETUPFINALLY 36, FINALIZER 38 — are in
    Proofs/ShiftCall, ShiftRet, ShiftTry -/
theorem coveredOps_eq : coveredOps =
    [0, 1, 3, 4, 5, 6, 7, 8, 9, 10, 11, 12, 13, 14, 15, 17, 18, 20, 21, 22, 23, 24, 25, 26, 27, 28, 29, 30, 31, 32, 33,
     40, 41, 42, 16, 19] := by decide

theorem exFrames : ∀ j : Nat, j ≤ 0 → FrameSh 0 0 (({ newState #[] #[] #[] 0 0 with frameIndex := 1 } : State).frames[j]!)
    (({ newState #[] #[] #[] 0 0 with frameIndex := 1 } : State).frames[0 + j]!) := by
  intro j hj
  have : j = 0 := by omega
  subst this
  show FrameSh 0 0 (Array.replicate frameSize ({} : Frame))[0]! (Array.replicate frameSize ({} : Frame))[0 + 0]!
  rw [Nat.add_zero, emptyFrames_zero]
  exact ⟨rfl, rfl, rfl, trivial, rfl, Int.le_refl _⟩

theorem exSh : Sh 0 0 0 0 0 0 ({ newState #[] #[] #[] 0 0 with frameIndex := 1 } : State)
    ({ newState #[] #[] #[] 0 0 with frameIndex := 1 } : State) :=
  { heap := rfl, codes := rfl, consts := rfl, globals := rfl, modules := rfl, numModules := rfl, ip := rfl,
    spS := rfl, spT := rfl, curS := rfl, curT := rfl, fiS := rfl, fiT := rfl, errS := rfl, errT := rfl,
    shapeS := ⟨by simp [newState], by simp [newState, emptyFrames]⟩,
    shapeT := ⟨by simp [newState], by simp [newState, emptyFrames]⟩,
    kLt := by decide,
    frames := exFrames,
    ips := fun j hj => (by omega),
    bp0 := (by show (Array.replicate frameSize ({} : Frame))[0]!.bp = 0; rw [emptyFrames_zero]),
    bpPos := fun j h1 hj => (by omega),
    stack := fun i hi => (by omega),
    room := (by decide) }

/-- non-vacuity of `ShB`: a VM at `frameIndex = 1` is related to itself with `bp = 0`, `k = 0`, depth 0 -/
example : ShB 0 0 0 ({ newState #[] #[] #[] 0 0 with frameIndex := 1 } : State)
    ({ newState #[] #[] #[] 0 0 with frameIndex := 1 } : State) :=
  ⟨0, 0, 0, exSh, Int.le_refl _, Nat.le_refl _⟩

/-- The full statement of C14 over the model (NOT proved): for every function value `fa`, every
    accepted argument list, every pool history `w` and every caller state `s` whose module cache
    has its `NumModules` entries (the caller is inside `Run`), invoking `fa` through a child VM
    (`iterInvoke` … 1, any configuration) yields the value or error, the heap, the globals and
    the module cache that the in-script call `CALL numArgs 0` of `fa` from frame k of the caller
    yields when run to the matching RETURN.  Proved parts: `acquire_complete`, `release_zeroes`,
    `pool_fresh`, `pool_acquire_eq_new`, `pool_release_inv`, `acquire_fields`, `initLocals_eq_callbind`,
    `prologue_eq_callbind` (the entries), `frame_shift` (one instruction, every opcode), `throw_shift_partial`,
    `steps_shift`, `invoke_eq_call_partial` (the run of the function up to and including the instruction that ends
    it), `result_value_deref`.  Missing: spread calls (`flags ≠ 0`), host-function callees and imports (the
    host-aware loop `loopI`), the abort flag and the `recover` wrapper of `Run` (`runFrom.go`), `iterInvoke`
    plumbing (`mergeBack`, pool, `invResOf`), and — below the boundary — that the parent's unwinding from frame
    `k - 1` equals what `failWith` does in the caller when `Invoke` returns the error (live parts only); as stated
    (no resource hypothesis) it is false at the stack / frame limits, where the child has more room. -/
def C14_full : Prop :=
  ∀ (F : FloatOps) (cfg : HostCfg) (root s : State) (w : World) (fa : Addr) (args : List V) (depth fuel : Nat),
    s.numModules ≤ s.modules.size → (∀ c ∈ w.idle, ∃ u, c = releaseVM u) →
    ∀ r w' s', iterInvoke (runAt F cfg root depth) cfg root fa args fuel false 1 w s none [] = (r, w', s') →
      -- the in-script call: push fa and args, CALL, run until the frame returns
      ∀ out sIn, inScriptCall F fuel s fa args = (out, sIn) →
        sameResult r out ∧ s'.heap = sIn.heap ∧ s'.globals = sIn.globals ∧ s'.modules = sIn.modules

/-! ### what `_acquire` gives the child -/

/-- the child sees the root's constants, module count, module cache (same slice header) and
    recovery flag, runs the callee as its main function and shares the caller's heap -/
theorem acquire_fields (root caller child : State) (callee : Addr) :
    let c := acquireFrom root caller child callee
    c.consts = root.consts ∧ c.numModules = root.numModules ∧ c.modules = root.modules ∧
    c.noPanic = root.noPanic ∧ c.mainFn = callee ∧ c.heap = caller.heap := by
  simp [acquireFrom]

end UgoVerif.Props.C14
