import UgoVerif.VM.Invoke
import UgoVerif.Gen.VmFields
/-
  C14 — calling a script function from Go (Invoker) equals calling it inside the script.

  Model: VM/Invoke.lean (`acquireFrom`, `releaseVM`, `zeroVM`, pool, `runAt`), VM/Run.lean
  (`initLocals`, `prologue`), VM/Step.lean (`callCompiled`).  Tie: the `invoke` stream runs the
  model in lock-step with the real VM for in-script and Go-side calls; `Gen/VmFields.lean` is
  regenerated from vm.go on every check.
-/
namespace UgoVerif.Props.C14
open UgoVerif UgoVerif.Go UgoVerif.VM UgoVerif.Gen.VmFields

/-! ### acquire_complete (regenerated fact) -/

/-- VM fields whose value in a child needs no per-invocation initialisation:
    `stack`, `frames` — contents at or above `sp` / `frameIndex` are dead (liveness, C07 `step_live`;
    the prologue sets `sp`, `frameIndex` and re-initialises frame 0 and the locals);
    `mu` — a mutex, zero value = unlocked, only locked/unlocked by `Run`. -/
def zeroOk : List String := ["stack", "frames", "mu"]

/-- fields a child keeps from its creation (`&VM{bytecode: …}`) through every `_release` -/
def keptSinceCreation : List String :=
  releaseKeeps.filter fun f => newChildKeeps.contains f && syncPoolNewKeeps.contains f

/-- Every VM field (or `bytecode.` sub-field) that `Run` and the methods reachable from it read
    is assigned by `_acquire`, or assigned (not merely grown) by `Run`'s prologue, or is set when the
    child is created and preserved by `_release`, or is one of the three `zeroOk` fields.  A new VM
    field read by the loop and not initialised for children, or an assignment dropped from
    `_acquire` (`modulesCache`, `noPanic`, `constants`, …), breaks this obligation. -/
theorem acquire_complete :
    runReads.all (fun f => acquireAssigns.contains f || prologueAssigns.contains f ||
      keptSinceCreation.contains f || zeroOk.contains f) = true := by decide

/-- the lists are about the real struct: every path names a field of `VM` -/
theorem reads_are_fields : runReadRoots.all (fun f => vmFields.contains f) = true := by decide

/-- `_release` overwrites the whole VM with `VM{bytecode: bc}` after `*bc = Bytecode{}`
    (regenerated): the model's `releaseVM = zeroVM` is what the code does. -/
theorem release_zeroes :
    releaseAssignsWholeVM = true ∧ releaseKeeps = ["bytecode"] ∧ releaseResetsBytecode = true ∧
    newChildKeeps = ["bytecode"] ∧ syncPoolNewKeeps = ["bytecode"] := by decide

/-! ### pool_fresh -/

/-- `_release ; _acquire` gives the child a new VM would be: whatever a pooled child did
    before (any state `used`), after release it is acquired into exactly the state a freshly
    created child is acquired into — for every root, caller and callee. -/
theorem pool_fresh (root caller used : State) (callee : Addr) :
    acquireFrom root caller (releaseVM used) callee = acquireFrom root caller (zeroVM caller) callee := by
  simp [acquireFrom, releaseVM, zeroVM]

/-- the pool never hands out anything but zero VMs: taking from the pool equals creating a child -/
theorem pool_acquire_eq_new (w : World) (root caller : State) (callee : Addr)
    (hw : ∀ c ∈ w.idle, ∃ u, c = releaseVM u) :
    (poolAcquire w root caller callee true).1 = (poolAcquire w root caller callee false).1 := by
  unfold poolAcquire
  cases h : w.idle with
  | nil => simp
  | cons c rest =>
    obtain ⟨u, rfl⟩ := hw c (by simp [h])
    simp [pool_fresh]

theorem pool_release_inv (w : World) (child : State) (hw : ∀ c ∈ w.idle, ∃ u, c = releaseVM u) :
    ∀ c ∈ (poolRelease w child).idle, ∃ u, c = releaseVM u := by
  intro c hc
  simp [poolRelease] at hc
  rcases hc with rfl | hc
  · exact ⟨child, rfl⟩
  · exact hw c hc

/-- non-vacuity: a used child with residue everywhere -/
example : ∃ used : State, used.sp = 7 ∧ used.abort = true ∧
    (acquireFrom default default (releaseVM used) 3).abort = false ∧ (acquireFrom default default (releaseVM used) 3).sp = 0 :=
  ⟨{ (default : State) with sp := 7, abort := true }, rfl, rfl, rfl, rfl⟩

/-! ### parameter binding: `initLocals` (Go-side call) vs `xOpCallCompiled` (in-script call) -/

/-- Go's `copy(dst, src)` on lists -/
def goCopy (dst src : List V) : List V := src.take dst.length ++ dst.drop src.length

/-- vm.go `initLocals`, statement by statement, as a function on the locals slice
    (`arr` = the array object allocated for the variadic parameter) -/
def initLocalsSpec (np nl : Nat) (variadic : Bool) (args : List V) (arr : V) : List V :=
  let locals := List.replicate nl V.undefined
  if np = 0 then locals
  else if args.length < np then
    goCopy (if variadic then locals.set (np - 1) arr else locals) args
  else
    goCopy (locals.set (np - 1) (if variadic then arr else args.getD (np - 1) .undefined)) (args.take (np - 1))

/-- vm.go `xOpCallCompiled` with `flags = 0` on the slots `[bp, bp+numLocals)` of the new frame,
    for an argument count it accepts: the arguments are already in place, the variadic tail is
    replaced by `arr`, the remaining locals are set to undefined -/
def callbindSpec (np nl : Nat) (variadic : Bool) (args : List V) (arr : V) : List V :=
  if variadic then args.take (np - 1) ++ [arr] ++ List.replicate (nl - np) V.undefined
  else args ++ List.replicate (nl - np) V.undefined

/-- the argument counts both entry points accept (property text: others are not compared) -/
def accepted (np : Nat) (variadic : Bool) (n : Nat) : Prop :=
  if variadic then 1 ≤ np ∧ np - 1 ≤ n else n = np

/-- `initLocals_eq_callbind` (statement; part of `C14_full`, NOT proved in general): for every
    accepted argument list both entry points leave the same values in the callee's `NumLocals`
    slots.  Instances are checked below by evaluation; the lock-step `inv` requests compare the
    two monadic implementations on every generated call. -/
def initLocals_eq_callbind : Prop :=
  ∀ (np nl : Nat) (variadic : Bool) (args : List V) (arr : V), np ≤ nl → accepted np variadic args.length →
    initLocalsSpec np nl variadic args arr = callbindSpec np nl variadic args arr

example : initLocalsSpec 2 4 false [.int 1, .int 2] (.arr 9 0 0) = callbindSpec 2 4 false [.int 1, .int 2] (.arr 9 0 0) := rfl
example : initLocalsSpec 2 3 true [.int 1] (.arr 9 0 0) = callbindSpec 2 3 true [.int 1] (.arr 9 0 0) := rfl
example : initLocalsSpec 2 3 true [.int 1, .int 2, .int 3] (.arr 9 0 2) = callbindSpec 2 3 true [.int 1, .int 2, .int 3] (.arr 9 0 2) := rfl
example : initLocalsSpec 1 1 true [] (.arr 9 0 0) = callbindSpec 1 1 true [] (.arr 9 0 0) := rfl
/-- the mutation `numParams` for `numParams-1` in the variadic slot is visible in the specification -/
example : ((goCopy ((List.replicate 3 V.undefined).set 2 (.arr 9 0 1)) ([V.int 1, .int 2, .int 3].take 1)) ==
    callbindSpec 2 3 true [.int 1, .int 2, .int 3] (.arr 9 0 2)) = false := by decide

/-- the in-script call of `fa(args…)` from the current frame of `s`: push callee and arguments,
    execute `callCompiled`, then run instructions until the frame index is back (model fuel) -/
def inScriptCall (F : FloatOps) (fuel : Nat) (s : State) (fa : Addr) (args : List V) : Except OpErr V × State :=
  let push : M Unit := do
    pushV (.cfun fa)
    for a in args do pushV a
  match push.run.run s with
  | (.error _, s1) => (.error (.named "" "model"), s1)
  | (.ok (), s1) =>
    match (callCompiled fa args.length 0).run.run s1 with
    | (.ok (.ok ()), s2) =>
      let base := s.frameIndex
      let rec go : Nat → State → Except OpErr V × State
        | 0, t => (.error (.named "" "fuel"), t)
        | n+1, t =>
          match (step F).run.run t with
          | (.ok .next, t') =>
            if t'.frameIndex ≤ base then
              match t'.stack[(t'.sp - 1).toNat]? with
              | some v => (.ok v, t')
              | none => (.error (.named "" "model"), t')
            else go n t'
          | (_, t') =>
            match t'.err with
            | some (.rt a) => (.error (.rt a), t')
            | _ => (.error (.named "" "stopped"), t')
      go fuel s2
    | (.ok (.error e), s2) => (.error e, s2)
    | (.error _, s2) => (.error (.named "" "model"), s2)

/-- same value, or errors that are the same `RuntimeError` / have the same name and message -/
def sameResult : InvRes → Except OpErr V → Prop
  | .value v, .ok v' => v = v'
  | .error (.rt a), .error (.rt b) => a = b
  | .error (.named n m), .error (.named n' m') => n = n' ∧ m = m'
  | .error .stackOverflow, .error .stackOverflow => True
  | _, _ => False

/-- The full statement of C14 over the model (NOT proved): for every function value `fa`, every
    accepted argument list, every pool history `w` and every caller state `s` whose module cache
    has its `NumModules` entries (the caller is inside `Run`), invoking `fa` through a child VM
    (`iterInvoke` … 1, any configuration) yields the value or error, the heap, the globals and
    the module cache that the in-script call `CALL numArgs 0` of `fa` from frame k of the caller
    yields when run to the matching RETURN (`frame_shift`: the callee body in frame 0 / base 0 of the
    child behaves like frame k of the parent, sharing heap, globals and module cache), together
    with `initLocals_eq_callbind`.  Proved parts: `acquire_complete`, `release_zeroes`, `pool_fresh`,
    `pool_acquire_eq_new`, `pool_release_inv`, `acquire_fields`. -/
def C14_full : Prop :=
  initLocals_eq_callbind ∧
  ∀ (F : FloatOps) (cfg : HostCfg) (root s : State) (w : World) (fa : Addr) (args : List V) (depth fuel : Nat),
    s.numModules ≤ s.modules.size → (∀ c ∈ w.idle, ∃ u, c = releaseVM u) →
    ∀ r w' s', iterInvoke (runAt F cfg root depth) cfg root fa args fuel false 1 w s none [] = (r, w', s') →
      -- the in-script call: push fa and args, CALL, run until the frame returns
      ∀ out sIn, inScriptCall F fuel s fa args = (out, sIn) →
        sameResult r out ∧ s'.heap = sIn.heap ∧ s'.globals = sIn.globals ∧ s'.modules = sIn.modules

/-! ### what `_acquire` gives the child -/

/-- the child sees the root's constants, module count, module cache (same slice header) and
    recovery flag, runs the callee as its main function and shares the caller's heap -/
theorem acquire_fields (root caller child : State) (callee : Addr) :
    let c := acquireFrom root caller child callee
    c.consts = root.consts ∧ c.numModules = root.numModules ∧ c.modules = root.modules ∧
    c.noPanic = root.noPanic ∧ c.mainFn = callee ∧ c.heap = caller.heap := by
  simp [acquireFrom]

end UgoVerif.Props.C14
