import UgoVerif.Proofs.VMExec
import UgoVerif.Spec.Sem
import UgoVerif.Model.Compile
import UgoVerif.Gen.Opcodes
import UgoVerif.Proofs.CompSimStmt
/-
  C02 — compiled execution follows the documented source-level semantics.

  Proved here:
  * the argument-binding rule of the reference semantics loses and duplicates nothing
    (`bindArgs_*`), i.e. the three-line rule the implementation is compared against is sane;
  * the variable mechanism of the VM model: DEFINELOCAL overwrites the slot — a fresh
    variable per executed declaration, even when the old variable was captured (boxed) —
    whereas SETLOCAL writes through an existing box, so closures see assignments;
  * argument binding of the VM model without spread (`callCompiled_fixed`, `callCompiled_variadic`,
    the two arity errors): the parameters ARE the arguments in order, the variadic parameter gets a
    fresh array of exactly the remaining arguments (`rest_eq_drop_args`: the same list the
    reference rule `Sem.bindArgs` binds), the other locals start as undefined;
  * consistency of the hand-written opcode / token numbers of the VM and compiler models
    with the tables regenerated from opcodes.go and token/token.go.

  `C02_full` (every script's outcome equals the reference semantics Spec/Sem) is NOT
  proved: it is tested by stream `sem` (general, call-heavy, tail-call and try-dense
  generators; real compiler + real VM vs Spec/Sem on the same AST), with the compiler
  model byte-identical (stream `compile`) and the VM model in lock-step (stream `vmtrace`).
-/
namespace UgoVerif.Props.C02
open UgoVerif UgoVerif.Go UgoVerif.VM UgoVerif.Proofs.ModCache UgoVerif.Proofs.VMExec

/-! ### the binding rule -/

def boundValues : List (String × Sum V (List V)) → List V
  | [] => []
  | (_, .inl v) :: r => v :: boundValues r
  | (_, .inr vs) :: r => vs ++ boundValues r

theorem boundValues_zip_inl (ps : List String) (vs : List V) (h : ps.length = vs.length) :
    boundValues (ps.zip (vs.map Sum.inl)) = vs := by
  induction ps generalizing vs with
  | nil => cases vs <;> simp_all [boundValues]
  | cons p ps ih =>
    cases vs with
    | nil => simp at h
    | cons v vs => simp [boundValues, ih vs (by simpa using h)]

theorem boundValues_append (a b : List (String × Sum V (List V))) :
    boundValues (a ++ b) = boundValues a ++ boundValues b := by
  induction a with
  | nil => simp [boundValues]
  | cons x xs ih =>
    obtain ⟨n, v⟩ := x
    cases v <;> simp [boundValues, ih]

/-- fixed arity: accepted exactly when the counts agree, and then every argument is bound, in order -/
theorem bindArgs_fixed (ps : List String) (args : List V) :
    (args.length = ps.length → ∃ b, Sem.bindArgs ps false args = .ok b ∧ boundValues b = args ∧ b.map Prod.fst = ps) ∧
    (args.length ≠ ps.length → ∃ e, Sem.bindArgs ps false args = .error e) := by
  constructor
  · intro h
    refine ⟨ps.zip (args.map Sum.inl), ?_, boundValues_zip_inl ps args h.symm, ?_⟩
    · simp [Sem.bindArgs, h]
    · simp [List.map_fst_zip, h]
  · intro h
    simp [Sem.bindArgs, h]

/-- variadic: accepted when at least the fixed parameters are supplied; the fixed parameters get
    the first arguments, the variadic parameter gets ALL the remaining ones, nothing is lost -/
theorem bindArgs_variadic (ps : List String) (args : List V) (hps : ps ≠ [])
    (h : ps.length - 1 ≤ args.length) :
    ∃ b, Sem.bindArgs ps true args = .ok b ∧ boundValues b = args := by
  have hlt : ¬ args.length < ps.length - 1 := by omega
  refine ⟨(ps.take (ps.length - 1)).zip ((args.take (ps.length - 1)).map Sum.inl) ++
      [(ps.getLast!, Sum.inr (args.drop (ps.length - 1)))], by simp [Sem.bindArgs, hlt], ?_⟩
  rw [boundValues_append, boundValues_zip_inl]
  · simp [boundValues]
  · simp [List.length_take]; omega

/-! ### variables: fresh per declaration, shared through boxes -/

/-- DEFINELOCAL stores the value in the slot itself, replacing whatever was there — also a box
    that a closure captured: the declaration creates a fresh variable, the closure keeps the old one -/
theorem defineLocal_fresh (s : State) (idx : Nat) (v : V)
    (hop : exec (opnd1 1) s = (.ok idx, s))
    (hsp : 1 ≤ s.sp ∧ s.sp ≤ (stackSize : Int))
    (hslot : 0 ≤ (s.frames[s.curFrame]!).bp + idx ∧ (s.frames[s.curFrame]!).bp + idx < (stackSize : Int))
    (hv : s.stack[(s.sp - 1).toNat]! = v) :
    exec execDefineLocal s = (.ok .next,
      { s with stack := (s.stack.set! ((s.frames[s.curFrame]!).bp + idx).toNat v).set! (s.sp - 1).toNat .nil,
               sp := s.sp - 1, ip := s.ip + 1 }) ∧
    (exec execDefineLocal s).2.heap = s.heap := by
  have e : exec execDefineLocal s = (.ok .next,
      { s with stack := (s.stack.set! ((s.frames[s.curFrame]!).bp + idx).toNat v).set! (s.sp - 1).toNat .nil,
               sp := s.sp - 1, ip := s.ip + 1 }) := by
    unfold execDefineLocal
    simp only [exec_bind, hop, exec_curFrame, exec_getSp]
    rw [exec_stackGet _ _ (by omega)]
    simp only [hv]
    rw [exec_stackSet _ _ _ hslot]
    simp only [exec_setSp]
    rw [exec_stackSet _ _ _ (by simp; omega)]
    simp only [exec_bumpIp, exec_pure]
  exact ⟨e, by rw [e]⟩

/-- SETLOCAL on a slot holding a box (whose cell is a box cell, as in every VM state) writes THROUGH the box (the captured variable itself is
    updated, so every closure sharing it sees the assignment); the slot keeps the same box -/
theorem setLocal_writes_through_box (s : State) (idx : Nat) (v : V) (a : Addr)
    (hop : exec (opnd1 1) s = (.ok idx, s))
    (hsp : 1 ≤ s.sp ∧ s.sp ≤ (stackSize : Int))
    (hslot : 0 ≤ (s.frames[s.curFrame]!).bp + idx ∧ (s.frames[s.curFrame]!).bp + idx < (stackSize : Int))
    (hv : s.stack[(s.sp - 1).toNat]! = v)
    (hbox : s.stack[((s.frames[s.curFrame]!).bp + idx).toNat]! = .box a)
    (hcell : ∃ w, s.heap[a]? = some (.box w)) :
    exec execSetLocal s = (.ok .next,
      { s with heap := s.heap.set! a (.box v), stack := s.stack.set! (s.sp - 1).toNat .nil,
               sp := s.sp - 1, ip := s.ip + 1 }) := by
  unfold execSetLocal
  simp only [exec_bind, hop, exec_getSp]
  rw [exec_stackGet _ _ (by omega)]
  simp only [hv, exec_curFrame]
  rw [exec_stackGet _ _ hslot]
  obtain ⟨w, hw⟩ := hcell
  have hbs : exec (boxSet a v) s = (.ok (), { s with heap := s.heap.set! a (.box v) }) := by
    unfold boxSet heapGet
    simp only [exec_bind, exec_getS, hw, exec_pure, exec_heapSet]
  simp only [hbox, exec_bind, hbs, exec_setSp]
  rw [exec_stackSet _ _ _ (by simp; omega)]
  simp only [exec_bumpIp, exec_pure]

/-! ### call argument binding in the VM model (vm.go xOpCallCompiled, no spread) -/

set_option linter.unusedSimpArgs false
set_option linter.unusedVariables false

theorem foldl_set_size (st : Array V) (v : V) (f : Nat → Nat) (l : List Nat) :
    (l.foldl (fun st k => st.setIfInBounds (f k) v) st).size = st.size := by
  induction l generalizing st with
  | nil => rfl
  | cons k r ih => simp [List.foldl_cons, ih]

theorem foldl_set_get? (st : Array V) (v : V) (f : Nat → Nat) (l : List Nat) (j : Nat) :
    (l.foldl (fun st k => st.setIfInBounds (f k) v) st)[j]? =
      if (∃ k ∈ l, f k = j) ∧ j < st.size then some v else st[j]? := by
  induction l generalizing st with
  | nil => simp
  | cons k r ih =>
    simp only [List.foldl_cons]
    rw [ih]
    by_cases hk : f k = j
    · subst hk
      by_cases hs : f k < st.size
      · simp [hs, Array.getElem?_setIfInBounds]
      · simp [hs]
    · by_cases hr : ∃ k' ∈ r, f k' = j
      · simp [hr, hk, Array.getElem?_setIfInBounds]
      · simp [hr, hk, Array.getElem?_setIfInBounds]

def fillLocals (st : Array V) (bp : Int) (numParams numLocals : Nat) : Array V :=
  (List.range' 0 (numLocals - numParams)).foldl (fun st (k : Nat) => st.set! (bp + (numParams : Int) + (k : Int)).toNat .undefined) st

theorem fillLocals_get? (st : Array V) (bp : Int) (np nl j : Nat) (hbp : 0 ≤ bp) :
    (fillLocals st bp np nl)[j]? =
      if (bp.toNat + np ≤ j ∧ j < bp.toNat + nl) ∧ j < st.size then some .undefined else st[j]? := by
  unfold fillLocals
  simp only [Array.set!_eq_setIfInBounds]
  rw [foldl_set_get? st .undefined (fun k => (bp + (np : Int) + (k : Int)).toNat)]
  have : (∃ k ∈ List.range' 0 (nl - np), (bp + (np : Int) + (k : Int)).toNat = j) ↔ (bp.toNat + np ≤ j ∧ j < bp.toNat + nl) := by
    constructor
    · rintro ⟨k, hk, rfl⟩
      simp [List.mem_range'] at hk
      omega
    · intro ⟨h1, h2⟩
      refine ⟨j - (bp.toNat + np), ?_, ?_⟩
      · simp [List.mem_range']; omega
      · omega
  simp only [this]

/-- the arguments (= parameters) are not touched -/
theorem fillLocals_param (st : Array V) (bp : Int) (np nl i : Nat) (hbp : 0 ≤ bp) (hi : i < np) :
    (fillLocals st bp np nl)[(bp + i).toNat]! = st[(bp + i).toNat]! := by
  have h := fillLocals_get? st bp np nl (bp + i).toNat hbp
  have hn : ¬ (bp.toNat + np ≤ (bp + (i : Int)).toNat) := by omega
  simp only [hn, false_and, if_false] at h
  simp [getElem!_def, h]

/-- every other local starts as `undefined` -/
theorem fillLocals_local (st : Array V) (bp : Int) (np nl i : Nat) (hbp : 0 ≤ bp) (h1 : np ≤ i) (h2 : i < nl)
    (hs : (bp + i).toNat < st.size) :
    (fillLocals st bp np nl)[(bp + i).toNat]! = .undefined := by
  have h := fillLocals_get? st bp np nl (bp + i).toNat hbp
  have hy : (bp.toNat + np ≤ (bp + (i : Int)).toNat ∧ (bp + (i : Int)).toNat < bp.toNat + nl) ∧ (bp + (i : Int)).toNat < st.size := by
    refine ⟨⟨by omega, by omega⟩, hs⟩
  simp only [hy, and_self, if_true] at h
  simp [getElem!_def, h]

/-- `fillUndefined` (the loop `for i := numParams; i < numLocals; i++ { vm.stack[basePointer+i] = Undefined }`) -/
theorem exec_fillUndefined (lo : Int) (n : Nat) (s : State) (hb : ∀ k, k < n → 0 ≤ lo + (k : Int) ∧ lo + (k : Int) < (stackSize : Int)) :
    exec (fillUndefined lo n) s =
      (.ok (), { s with stack := (List.range' 0 n).foldl (fun st (k : Nat) => st.set! (lo + (k : Int)).toNat .undefined) s.stack }) := by
  unfold fillUndefined
  simp only [exec_bind]
  rw [exec_range_stackSet .undefined n s (fun k => lo + (k : Int)) hb]
  rfl

/-- the part of xOpCallCompiled after the argument binding, when binding succeeded in state `t`
    and the call is not a self tail call: locals initialised, new frame entered -/
theorem exec_callCompiled_of_bind (fa : Addr) (numArgs flags : Int) (s t : State) (code : Code) (free : Option (List Addr))
    (hcell : exec (fnCell fa) s = (.ok (code, free), s))
    (hbind : exec (bindArgs code (s.sp - numArgs) numArgs flags) s = (.ok (.ok ()), t))
    (hself : (t.frames[t.curFrame]!).fn ≠ some fa)
    (hfi : 0 ≤ t.frameIndex ∧ t.frameIndex + 1 ≤ (frameSize : Int) - 1)
    (hbp : 0 ≤ s.sp - numArgs) (hroom : s.sp - numArgs + code.numLocals ≤ (stackSize : Int))
    (hnl : code.numParams ≤ code.numLocals) :
    exec (callCompiled fa numArgs flags) s = (.ok (.ok ()),
      { t with stack := fillLocals t.stack (s.sp - numArgs) code.numParams code.numLocals,
               frameIndex := t.frameIndex + 1,
               frames := (t.frames.modify t.curFrame fun f => { f with ip := t.ip + 2 }).modify t.frameIndex.toNat fun f =>
                  { f with fn := some fa, free := free, handlers := none, bp := s.sp - numArgs, discard := false },
               curFrame := t.frameIndex.toNat, sp := s.sp - numArgs + code.numLocals, ip := -1 }) := by
  unfold callCompiled
  simp only [exec_bind, hcell, exec_getSp, hbind, exec_pure]
  have hloop := exec_fillUndefined (s.sp - numArgs + (code.numParams : Int)) ((code.numLocals : Int) - code.numParams).toNat t
      (by intro k hk; constructor <;> omega)
  rw [hloop]
  have hne : ((t.frames[t.curFrame]!).fn == some fa) = false := by simpa using hself
  simp only [exec_curFrame, exec_getIp, hne, Bool.false_eq_true, ↓reduceIte, exec_getS]
  have h1 : ¬ (t.frameIndex < 0) := by omega
  have h1' : ¬ (t.frameIndex ≥ (frameSize : Int)) := by omega
  have h2 : ¬ (t.frameIndex + 1 > (frameSize : Int) - 1) := by omega
  simp [exec_bind, exec_getS, exec_modS, exec_setSp, exec_setIp, exec_pure, exec_setCurFrame, enterFrame, h1, h1', h2, fillLocals]
  rfl

/-- fixed arity, wrong number of arguments: WrongNumberOfArgumentsError, nothing else happens -/
theorem callCompiled_fixed_arity_error (fa : Addr) (numArgs : Int) (s : State) (code : Code) (free : Option (List Addr))
    (hcell : exec (fnCell fa) s = (.ok (code, free), s))
    (hnv : code.variadic = false) (hargs : numArgs ≠ code.numParams) :
    exec (callCompiled fa numArgs 0) s =
      (.ok (.error (.named "WrongNumberOfArgumentsError" (wantEq code.numParams numArgs))), s) := by
  unfold callCompiled bindArgs
  simp only [exec_bind, hcell, exec_getSp]
  simp [hnv, hargs, exec_pure]

/-- fixed arity, right number of arguments, not a self tail call: a new frame is entered whose base
    pointer is the first argument — the arguments ARE the parameters, in order, untouched — the
    remaining locals are undefined, and the caller's frame remembers where to continue. -/
theorem callCompiled_fixed (fa : Addr) (numArgs : Int) (s : State) (code : Code) (free : Option (List Addr))
    (hcell : exec (fnCell fa) s = (.ok (code, free), s))
    (hnv : code.variadic = false) (hargs : numArgs = code.numParams)
    (hself : (s.frames[s.curFrame]!).fn ≠ some fa)
    (hfi : 0 ≤ s.frameIndex ∧ s.frameIndex + 1 ≤ (frameSize : Int) - 1)
    (hbp : 0 ≤ s.sp - numArgs) (hroom : s.sp - numArgs + code.numLocals ≤ (stackSize : Int))
    (hnl : code.numParams ≤ code.numLocals) :
    exec (callCompiled fa numArgs 0) s = (.ok (.ok ()),
      { s with stack := fillLocals s.stack (s.sp - numArgs) code.numParams code.numLocals,
               frameIndex := s.frameIndex + 1,
               frames := (s.frames.modify s.curFrame fun f => { f with ip := s.ip + 2 }).modify s.frameIndex.toNat fun f =>
                  { f with fn := some fa, free := free, handlers := none, bp := s.sp - numArgs, discard := false },
               curFrame := s.frameIndex.toNat, sp := s.sp - numArgs + code.numLocals, ip := -1 }) := by
  have hbind : exec (bindArgs code (s.sp - numArgs) numArgs 0) s = (.ok (.ok ()), s) := by
    unfold bindArgs
    simp [hnv, hargs, exec_pure]
  exact exec_callCompiled_of_bind fa numArgs 0 s s code free hcell hbind hself hfi hbp hroom hnl

/-- variadic callee, too few arguments: WrongNumberOfArgumentsError -/
theorem callCompiled_variadic_arity_error (fa : Addr) (numArgs : Int) (s : State) (code : Code) (free : Option (List Addr))
    (hcell : exec (fnCell fa) s = (.ok (code, free), s))
    (hv : code.variadic = true) (hargs : numArgs < (code.numParams : Int) - 1) :
    exec (callCompiled fa numArgs 0) s =
      (.ok (.error (.named "WrongNumberOfArgumentsError" (wantGE ((code.numParams : Int) - 1) numArgs))), s) := by
  unfold callCompiled bindArgs
  simp only [exec_bind, hcell, exec_getSp]
  simp [hv, hargs, exec_pure]

set_option maxHeartbeats 2000000 in
/-- variadic callee with at least the fixed parameters supplied (no spread), not a self tail call:
    the fixed parameters are the first arguments, untouched; ALL remaining arguments, in order,
    become a fresh array stored in the variadic parameter's slot; the other locals are undefined. -/
theorem callCompiled_variadic (fa : Addr) (numArgs : Int) (s : State) (code : Code) (free : Option (List Addr))
    (hcell : exec (fnCell fa) s = (.ok (code, free), s))
    (hv : code.variadic = true) (hnp : 1 ≤ code.numParams) (hargs : (code.numParams : Int) - 1 ≤ numArgs)
    (hself : (s.frames[s.curFrame]!).fn ≠ some fa)
    (hfi : 0 ≤ s.frameIndex ∧ s.frameIndex + 1 ≤ (frameSize : Int) - 1)
    (hbp : 0 ≤ s.sp - numArgs) (hsp : s.sp ≤ (stackSize : Int))
    (hroom : s.sp - numArgs + code.numLocals ≤ (stackSize : Int))
    (hnl : code.numParams ≤ code.numLocals) :
    let bp := s.sp - numArgs
    let rest := (s.stack.toList.drop (bp + code.numParams - 1).toNat).take (numArgs - ((code.numParams : Int) - 1)).toNat
    exec (callCompiled fa numArgs 0) s = (.ok (.ok ()),
      { s with heap := s.heap.push (.arr rest.toArray),
               stack := fillLocals (s.stack.set! (bp + code.numParams - 1).toNat (.arr s.heap.size 0 rest.length)) bp code.numParams code.numLocals,
               frameIndex := s.frameIndex + 1,
               frames := (s.frames.modify s.curFrame fun f => { f with ip := s.ip + 2 }).modify s.frameIndex.toNat fun f =>
                  { f with fn := some fa, free := free, handlers := none, bp := bp, discard := false },
               curFrame := s.frameIndex.toNat, sp := bp + code.numLocals, ip := -1 }) := by
  intro bp rest
  have hbind : exec (bindArgs code (s.sp - numArgs) numArgs 0) s = (.ok (.ok ()),
      { s with heap := s.heap.push (.arr rest.toArray),
               stack := s.stack.set! (bp + code.numParams - 1).toNat (.arr s.heap.size 0 rest.length) }) := by
    unfold bindArgs
    have hlt : ¬ (numArgs < (code.numParams : Int) - 1) := by omega
    simp only [hv, Bool.not_true, Bool.false_eq_true, ↓reduceIte, bne_iff_ne, ne_eq, hlt, decide_false, exec_pure, exec_bind,
      beq_self_eq_true]
    by_cases heq : numArgs = (code.numParams : Int) - 1
    · have hset := fun (v : V) (t : State) => exec_stackSet s.sp v t (by constructor <;> omega)
      have hrest : rest = [] := by
        show List.take _ _ = []
        have : (numArgs - ((code.numParams : Int) - 1)).toNat = 0 := by omega
        rw [this]; simp
      have e1 : (s.sp - ((code.numParams : Int) - 1) + code.numParams - 1).toNat = s.sp.toNat := by omega
      have e0 : s.sp - ((code.numParams : Int) - 1) + ((code.numParams : Int) - 1) = s.sp := by omega
      simp only [heq, beq_self_eq_true, ↓reduceIte, exec_bind, exec_newArray, e0]
      simp only [hset, exec_pure, hrest, bp, heq, e1]
    · have hslice := fun (t : State) => exec_stackSlice (s.sp - numArgs + code.numParams - 1) (s.sp - numArgs + numArgs) t
          (by refine ⟨?_, ?_, ?_⟩ <;> omega)
      have hset := fun (v : V) (t : State) => exec_stackSet (s.sp - numArgs + code.numParams - 1) v t (by constructor <;> omega)
      have hb : (numArgs == (code.numParams : Int) - 1) = false := by simpa using heq
      have e2 : s.sp - numArgs + numArgs - (s.sp - numArgs + ↑code.numParams - 1) = numArgs - ((code.numParams : Int) - 1) := by omega
      simp only [hb, Bool.false_eq_true, ↓reduceIte, exec_bind, hslice, exec_newArray]
      have e3 : s.sp - (s.sp - numArgs + ↑code.numParams - 1) = numArgs - ((code.numParams : Int) - 1) := by omega
      simp [hset, exec_pure, bp, rest, e2, e3]
  exact exec_callCompiled_of_bind fa numArgs 0 s _ code free hcell hbind hself hfi hbp hroom hnl

/-- the arguments of a call as they lie on the operand stack: `stack[sp-numArgs : sp]` -/
def argsOnStack (s : State) (numArgs : Int) : List V :=
  (s.stack.toList.drop (s.sp - numArgs).toNat).take numArgs.toNat

/-- the array the variadic parameter receives is exactly "all remaining arguments" of the
    reference rule `Sem.bindArgs`: the arguments after the first `numParams - 1` -/
theorem rest_eq_drop_args (s : State) (numArgs : Int) (np : Nat) (hnp : 1 ≤ np) (hbp : 0 ≤ s.sp - numArgs)
    (hargs : (np : Int) - 1 ≤ numArgs) :
    (s.stack.toList.drop (s.sp - numArgs + np - 1).toNat).take (numArgs - ((np : Int) - 1)).toNat
      = (argsOnStack s numArgs).drop (np - 1) := by
  unfold argsOnStack
  rw [List.drop_take, List.drop_drop]
  congr 2 <;> omega

/-! ### numbering ties -/

theorem vm_opcodes_match_source :
    VM.OpConstant = Gen.Opcodes.OpConstant ∧ VM.OpCall = Gen.Opcodes.OpCall ∧
    VM.OpGetLocal = Gen.Opcodes.OpGetLocal ∧ VM.OpSetLocal = Gen.Opcodes.OpSetLocal ∧
    VM.OpDefineLocal = Gen.Opcodes.OpDefineLocal ∧ VM.OpClosure = Gen.Opcodes.OpClosure ∧
    VM.OpGetFree = Gen.Opcodes.OpGetFree ∧ VM.OpSetFree = Gen.Opcodes.OpSetFree ∧
    VM.OpGetLocalPtr = Gen.Opcodes.OpGetLocalPtr ∧ VM.OpGetFreePtr = Gen.Opcodes.OpGetFreePtr ∧
    VM.OpReturn = Gen.Opcodes.OpReturn ∧ VM.OpJump = Gen.Opcodes.OpJump ∧
    VM.OpJumpFalsy = Gen.Opcodes.OpJumpFalsy ∧ VM.OpAndJump = Gen.Opcodes.OpAndJump ∧
    VM.OpOrJump = Gen.Opcodes.OpOrJump ∧ VM.OpSetupTry = Gen.Opcodes.OpSetupTry ∧
    VM.OpSetupCatch = Gen.Opcodes.OpSetupCatch ∧ VM.OpSetupFinally = Gen.Opcodes.OpSetupFinally ∧
    VM.OpThrow = Gen.Opcodes.OpThrow ∧ VM.OpFinalizer = Gen.Opcodes.OpFinalizer ∧
    VM.OpCallName = Gen.Opcodes.OpCallName ∧ VM.OpBinaryOp = Gen.Opcodes.OpBinaryOp ∧
    VM.OpUnary = Gen.Opcodes.OpUnary ∧ VM.OpArray = Gen.Opcodes.OpArray ∧ VM.OpMap = Gen.Opcodes.OpMap ∧
    VM.OpGetIndex = Gen.Opcodes.OpGetIndex ∧ VM.OpSetIndex = Gen.Opcodes.OpSetIndex ∧
    VM.OpLoadModule = Gen.Opcodes.OpLoadModule ∧ VM.OpStoreModule = Gen.Opcodes.OpStoreModule ∧
    VM.OpIterInit = Gen.Opcodes.OpIterInit ∧ VM.OpPop = Gen.Opcodes.OpPop := by
  decide

theorem compiler_opcodes_match_vm :
    Compile.OpConstant = VM.OpConstant ∧ Compile.OpCall = VM.OpCall ∧ Compile.OpReturn = VM.OpReturn ∧
    Compile.OpDefineLocal = VM.OpDefineLocal ∧ Compile.OpSetLocal = VM.OpSetLocal ∧
    Compile.OpGetLocal = VM.OpGetLocal ∧ Compile.OpClosure = VM.OpClosure ∧
    Compile.OpSetupTry = VM.OpSetupTry ∧ Compile.OpThrow = VM.OpThrow ∧ Compile.OpFinalizer = VM.OpFinalizer ∧
    Compile.OpJump = VM.OpJump ∧ Compile.OpJumpFalsy = VM.OpJumpFalsy ∧ Compile.OpPop = VM.OpPop := by
  decide

theorem vm_tokens_match_source :
    VM.tokOfNat Gen.tok_Add = .Add ∧ VM.tokOfNat Gen.tok_Sub = .Sub ∧ VM.tokOfNat Gen.tok_Mul = .Mul ∧
    VM.tokOfNat Gen.tok_Quo = .Quo ∧ VM.tokOfNat Gen.tok_Rem = .Rem ∧ VM.tokOfNat Gen.tok_And = .And ∧
    VM.tokOfNat Gen.tok_Or = .Or ∧ VM.tokOfNat Gen.tok_Xor = .Xor ∧ VM.tokOfNat Gen.tok_Shl = .Shl ∧
    VM.tokOfNat Gen.tok_Shr = .Shr ∧ VM.tokOfNat Gen.tok_AndNot = .AndNot ∧
    VM.tokOfNat Gen.tok_Less = .Less ∧ VM.tokOfNat Gen.tok_Greater = .Greater ∧
    VM.tokOfNat Gen.tok_LessEq = .LessEq ∧ VM.tokOfNat Gen.tok_GreaterEq = .GreaterEq ∧
    VM.tokOfNat Gen.tok_Not = .Not ∧ VM.tokOfNat Gen.tok_Equal = .Equal ∧ VM.tokOfNat Gen.tok_NotEqual = .NotEqual := by
  decide

/-! ### compile ⊑ Sem, first slice: expressions over uncaptured locals

  `compile_expr_correct`: let `e` be an expression of the fragment `ExprF` — int / uint / float / char /
  bool / string / undefined literals, parentheses, unary operators, binary arithmetic, comparison and
  bitwise operators, `==` `!=`, the jump-based `&&` `||`, `?:` (with or without a boolean literal as
  condition) and identifiers that the compiler resolves to locals of the current function
  (`localIdx cs`, computed from the compiler state).  Hypotheses, all explicit:
  * `hc`: the TOTAL compile model (byte-identical with compiler.go: stream `compile`) compiles `e`
    from state `cs` to `cs'` (offset `p = cs.insts.size`, end `q = cs'.insts.size`);
  * `hcode`, `hK`: the function the VM runs has those bytes on `[p, q)` (later patches and appended
    code are irrelevant) and the VM's constants are the objects of a pool extending `cs'.constants`;
  * `hvm`: not aborted, stack of size 2048, the current frame runs that function with base pointer
    `bp`, `lo ≤ sp`; `hip`: `ip = p - 1` (vm.go increments before the fetch); `hsp`: `need e` free slots;
  * `hloc`: every local of the compiler's table is a box in the environment of the reference
    semantics and the slot `bp + i < lo` of the VM, same value, slot not captured (no `*ObjectPtr`);
  * `hh`: the reference semantics runs on a state with the VM's heap (it shares the object layer);
  * `hsem`: for ANY fuel on which `Sem.evalExpr` returns (no `unsupported`, no Go panic) a result `r`.
  Conclusion (`Outcome`):
  * `r = .val v`: there is a fuel `n` such that `loopF F (n + k)` from `s` equals `loopF F k` from a state
    `s'` (for every `k`), with `ip` at the end of the code, `sp + 1`, `v` in the new slot, every slot below the
    old `sp` unchanged, frames / handlers / frame index / codes / constants / globals / modules / err
    unchanged (`Same`), and the heap EQUAL to the heap the reference semantics leaves;
  * `r = .thr a` (TypeError, ZeroDivisionError, … raised by an operator): the loop reaches, inside
    some instruction, the call `failWith oe` (= `throwGenErr`: make the error object, then `throw` /
    `handleThrownError`, whose mechanism Props/C03 covers) in a state `u` with the same control part and
    the stack unchanged below the old `sp`, and `rtErrOfOpErr oe` run there returns the SAME address `a`
    and leaves the SAME heap as the reference semantics: same error name, same message, same object.
  Also: the reference interpreter's own state is untouched, the compile run only appended
  instructions / constants (`Shape`), and the heap only grew (`Grow`).

  Not covered yet (the ladder continues): statements, captured variables / closures / free
  variables, calls, arrays / maps / index / selector / slice, loops, try / throw, globals, builtins,
  imports, `const` literals (`constLit` scope), and the optimizer (C01).  -/

open UgoVerif.CompSim in
/-- **compile_expr_correct** — statement in the header comment of this section. -/
theorem compile_expr_correct (F : FloatOps) (e : Ast.Expr) (cs cs' : Compile.CState)
    (hc : Compile.runCM (Compile.compileExpr e) cs = (.ok (), cs'))
    (hF : ExprF (localIdx cs) e = true)
    (K : Array Compile.Const) (code : Code) (bp lo : Nat) (env : Sem.Env) (s t : State)
    (hK : Compile.IsPre cs'.constants K)
    (hcode : CodeHas code cs'.insts cs.insts.size)
    (hvm : VMOk K code bp lo s)
    (hip : s.ip + 1 = (cs.insts.size : Int))
    (hsp : s.sp + need e ≤ 2048)
    (hh : t.heap = s.heap)
    (hloc : LocalsOK (localIdx cs) env s bp lo)
    (fuel : Nat) (ss ss1 : Sem.SemSt) (r : Sem.ER) (t1 : State)
    (hsem : exec ((Sem.evalExpr F fuel env e).run ss) t = (.ok (r, ss1), t1)) :
    ss1 = ss ∧ Shape cs cs' ∧ Grow t t1 ∧ Outcome F s t1.heap cs'.insts.size r := by
  have henv : ∀ n, (localIdx cs n).isSome → (Sem.lookupEnv n env).isSome := by
    intro n hn
    cases hi : localIdx cs n with
    | none => simp [hi] at hn
    | some i =>
      obtain ⟨a, v, hl, _⟩ := hloc n i hi
      simp [hl]
  rw [evalExpr_eq_evalF F (localIdx cs) env henv fuel e hF ss] at hsem
  unfold withSt at hsem
  obtain ⟨r', t', h1, h2⟩ := exec_bind_inv hsem
  obtain ⟨h3, rfl⟩ := exec_pure_inv h2
  simp only [Prod.mk.injEq] at h3
  obtain ⟨rfl, rfl⟩ := h3
  obtain ⟨sh, sim⟩ := good_all F e cs cs' hc hF
  have hg := (grows_evalF F fuel env e).h t
  rw [h1] at hg
  exact ⟨rfl, sh, hg, sim K code bp lo env s t fuel _ _ hK hcode hvm hip hsp hh hloc h1⟩


open UgoVerif.CompSim in
/-- **compile_exprstmt_correct** — the first statement on top of the expression slice: the expression
    statement `e;` (code of `e`, then POP), `e` in `ExprF`, same hypotheses as `compile_expr_correct`.
    If the reference semantics completes normally, the VM gets behind the POP with `sp` where it was, the
    stack below it, frames and handlers unchanged and the heap equal; if it completes with a thrown
    error, the VM is at `failWith` with the same error object.  No other completion is possible, the
    environment and the interpreter state are unchanged. -/
theorem compile_exprstmt_correct (F : FloatOps) (pos : Ast.Pos) (e : Ast.Expr) (cs cs' : Compile.CState)
    (hc : Compile.runCM (Compile.compileStmt (.expr pos e)) cs = (.ok (), cs'))
    (hF : ExprF (localIdx cs) e = true)
    (K : Array Compile.Const) (code : Code) (bp lo : Nat) (env : Sem.Env) (s t : State)
    (hK : Compile.IsPre cs'.constants K)
    (hcode : CodeHas code cs'.insts cs.insts.size)
    (hvm : VMOk K code bp lo s)
    (hip : s.ip + 1 = (cs.insts.size : Int))
    (hsp : s.sp + need e ≤ 2048)
    (hh : t.heap = s.heap)
    (hloc : LocalsOK (localIdx cs) env s bp lo)
    (fuel : Nat) (ss ss1 : Sem.SemSt) (c : Sem.Comp) (env' : Sem.Env) (t1 : State)
    (hsem : exec ((Sem.execStmt F fuel env (.expr pos e)).run ss) t = (.ok ((c, env'), ss1), t1)) :
    ss1 = ss ∧ env' = env ∧ Shape cs cs' ∧ OutcomeS F s t1.heap cs'.insts.size c := by
  have henv : ∀ n, (localIdx cs n).isSome → (Sem.lookupEnv n env).isSome := by
    intro n hn
    cases hi : localIdx cs n with
    | none => simp [hi] at hn
    | some i =>
      obtain ⟨a, v, hl, _⟩ := hloc n i hi
      simp [hl]
  cases fuel with
  | zero =>
    rw [execStmt_zero, run_liftM] at hsem
    unfold withSt at hsem
    obtain ⟨_, _, h1, _⟩ := exec_bind_inv hsem
    cases h1
  | succ fuel =>
    rw [run_execStmt_expr F (localIdx cs) env henv fuel pos e hF ss] at hsem
    unfold withSt at hsem
    obtain ⟨p, t', h1, h2⟩ := exec_bind_inv hsem
    obtain ⟨h3, rfl⟩ := exec_pure_inv h2
    simp only [Prod.mk.injEq] at h3
    obtain ⟨rfl, rfl⟩ := h3
    obtain ⟨r, t2, h4, h5⟩ := exec_bind_inv h1
    obtain ⟨h6, rfl⟩ := exec_pure_inv h5
    obtain ⟨sh, sim⟩ := sim_exprStmt F pos e cs cs' hc hF
    have o := sim K code bp lo env s t fuel r _ hK hcode hvm hip hsp hh hloc h4
    simp only [Prod.mk.injEq] at h6
    obtain ⟨rfl, rfl⟩ := h6
    exact ⟨rfl, rfl, sh, o⟩

/-! #### non-vacuity: `(1 + x) * 2 < 7 || !b` with `x = 3`, `b = false` -/
namespace Ex
open UgoVerif.Ast UgoVerif.CompSim

deriving instance DecidableEq for V, IterK, Cell

def e0 : Expr :=
  .binary 1 tLOr
    (.binary 2 tLess (.binary 3 tMul (.paren 4 (.binary 5 tAdd (.int 6 1#64) (.ident 7 "x"))) (.int 8 2#64)) (.int 9 7#64))
    (.unary 10 tNot (.ident 11 "b"))

/-- compiler state inside a function whose locals are `x` (slot 0) and `b` (slot 1) -/
def cs0 : Compile.CState :=
  { tables := [{ store := [("x", { name := "x", index := 0, scope := .local_ }), ("b", { name := "b", index := 1, scope := .local_ })],
                 numDefinition := 2, maxDefinition := 2 }],
    builtins := [] }

def cs1 : Compile.CState := (Compile.runCM (Compile.compileExpr e0) cs0).2

def constV : Compile.Const → V
  | .val v => Eval.scalarOfCVal v
  | .fn _ => .nil

/-- the VM in front of the expression's code: frame 0 runs the code, `x = 3` and `b = false` in the
    local slots 0 and 1 (and, for the reference semantics, in the boxes 0 and 1 of the heap) -/
def code0 : Code := { insts := cs1.insts, numParams := 0, numLocals := 2, variadic := false }

def s0 : State :=
  { newState #[code0]
      #[.box (.int 3#64), .box (.bool false), .fn 0 none] (cs1.constants.map constV) 2 0 with
    stack := ((Array.replicate stackSize V.nil).set! 0 (.int 3#64)).set! 1 (.bool false)
    sp := 2, ip := -1, frameIndex := 1
    frames := emptyFrames.modify 0 fun f => { f with fn := some 2, bp := 0 } }

def env0 : Sem.Env := [[("x", 0), ("b", 1)]]

def F0 : FloatOps := ⟨fun a _ => a, fun a _ => a, fun a _ => a, fun a _ => a, id, id, id⟩

def isOkU {ε} : Except ε Unit → Bool | .ok _ => true | .error _ => false

/-- the code: CONSTANT 0; GETLOCAL 0; BINARYOP +; CONSTANT 1; BINARYOP *; CONSTANT 2; BINARYOP <;
    ORJUMP 26; GETLOCAL 1; UNARY ! -/
example : cs1.insts = #[1, 0, 0, 5, 0, 8, 12, 1, 0, 1, 8, 14, 1, 0, 2, 8, 39, 15, 0, 0, 0, 26, 5, 1, 9, 42] := by
  decide +kernel
/-- evaluated agreement on this instance: the reference semantics returns `true` … -/
example : (match (exec ((Sem.evalExpr F0 20 env0 e0).run {}) s0).1 with
    | .ok (.val v, _) => v == .bool true | _ => false) = true := by decide +kernel
/-- … and ten instructions of the VM model leave `true` in slot 2, `sp = 3`, `ip = 25` -/
example : (match exec (loopF F0 10) s0 with
    | (_, s) => s.ip == 25 && s.sp == 3 && s.stack[2]! == .bool true) = true := by decide +kernel

theorem hc0 : Compile.runCM (Compile.compileExpr e0) cs0 = (.ok (), cs1) := by
  have h : isOkU (Compile.runCM (Compile.compileExpr e0) cs0).1 = true := by decide +kernel
  unfold cs1
  cases hr : Compile.runCM (Compile.compileExpr e0) cs0 with
  | mk r c =>
    rw [hr] at h
    cases r with
    | ok u => rfl
    | error e => simp [isOkU] at h


attribute [irreducible] cs1

theorem constsOK_map (K : Array Compile.Const) : ConstsOK K (K.map constV) := by
  intro i cv h
  rw [Array.getElem?_map, h]
  rfl

theorem hvm0 : VMOk cs1.constants code0 0 2 s0 where
  abort := rfl
  size := by decide +kernel
  code := ⟨2, 0, none, by decide +kernel, by decide +kernel, rfl⟩
  bp := by decide +kernel
  consts := constsOK_map _
  lo := by decide +kernel

theorem hloc0 : LocalsOK (localIdx cs0) env0 s0 0 2 := by
  intro n i h
  by_cases hx : n = "x"
  · subst hx
    have h0 : localIdx cs0 "x" = some 0 := by decide +kernel
    rw [h0] at h
    injection h with h; subst h
    exact ⟨0, .int 3#64, by decide +kernel, by decide +kernel, by decide, by decide +kernel, by intro b hb; cases hb⟩
  · by_cases hb : n = "b"
    · subst hb
      have h0 : localIdx cs0 "b" = some 1 := by decide +kernel
      rw [h0] at h
      injection h with h; subst h
      exact ⟨1, .bool false, by decide +kernel, by decide +kernel, by decide, by decide +kernel, by intro b hb; cases hb⟩
    · exfalso
      have h1 : ("x" == n) = false := by simpa using fun h' => hx h'.symm
      have h2 : ("b" == n) = false := by simpa using fun h' => hb h'.symm
      simp [localIdx, cs0, Compile.resolveIn, Compile.lookupSym, h1, h2, Compile.rootDisabled] at h

theorem hF0 : ExprF (localIdx cs0) e0 = true := by decide +kernel
theorem hcode0 : CodeHas code0 cs1.insts cs0.insts.size := fun _ _ _ => rfl
theorem hip0 : s0.ip + 1 = (cs0.insts.size : Int) := by decide +kernel
theorem hsp0 : s0.sp + need e0 ≤ 2048 := by decide +kernel
theorem hsz0 : cs1.insts.size = 26 := by decide +kernel

/-- the hypotheses of `compile_expr_correct` are satisfiable, and on this instance it says: the VM
    gets from `s0` to a state with `true` pushed, `sp = 3`, `ip` at the end of the code -/
example : ∃ s', Reach F0 s0 s' ∧ s'.stack[2]! = .bool true ∧ s'.sp = 3 ∧ s'.ip + 1 = 26 ∧ s'.frames = s0.frames := by
  have hres : (match (exec ((Sem.evalExpr F0 20 env0 e0).run {}) s0).1 with
      | .ok (.val (.bool true), _) => true | _ => false) = true := by decide +kernel
  cases hr : exec ((Sem.evalExpr F0 20 env0 e0).run {}) s0 with
  | mk r t1 =>
    rw [hr] at hres
    match r, hres with
    | .ok (.val (.bool true), ss1), _ =>
      have h := compile_expr_correct F0 e0 cs0 cs1 hc0 hF0 cs1.constants code0 0 2 env0 s0 s0
        (Compile.IsPre.refl _) hcode0 hvm0 hip0 hsp0 rfl hloc0 20 {} ss1 _ t1 hr
      obtain ⟨_, _, _, s', hreach, hsame, _, hip, hsp, _, hget⟩ := h
      exact ⟨s', hreach, hget, by rw [hsp]; rfl, by rw [hip, hsz0]; rfl, hsame.frames⟩


/-! the same instance as an expression statement `(1 + x) * 2 < 7 || !b;` -/

def cs2 : Compile.CState := (Compile.runCM (Compile.compileStmt (.expr 12 e0)) cs0).2
def code2 : Code := { insts := cs2.insts, numParams := 0, numLocals := 2, variadic := false }
def s2 : State :=
  { newState #[code2]
      #[.box (.int 3#64), .box (.bool false), .fn 0 none] (cs2.constants.map constV) 2 0 with
    stack := ((Array.replicate stackSize V.nil).set! 0 (.int 3#64)).set! 1 (.bool false)
    sp := 2, ip := -1, frameIndex := 1
    frames := emptyFrames.modify 0 fun f => { f with fn := some 2, bp := 0 } }

theorem hc2 : Compile.runCM (Compile.compileStmt (.expr 12 e0)) cs0 = (.ok (), cs2) := by
  have h : isOkU (Compile.runCM (Compile.compileStmt (.expr 12 e0)) cs0).1 = true := by decide +kernel
  unfold cs2
  cases hr : Compile.runCM (Compile.compileStmt (.expr 12 e0)) cs0 with
  | mk r c =>
    rw [hr] at h
    cases r with
    | ok u => rfl
    | error e => simp [isOkU] at h

attribute [irreducible] cs2

theorem hvm2 : VMOk cs2.constants code2 0 2 s2 where
  abort := rfl
  size := by decide +kernel
  code := ⟨2, 0, none, by decide +kernel, by decide +kernel, rfl⟩
  bp := by decide +kernel
  consts := constsOK_map _
  lo := by decide +kernel

theorem hloc2 : LocalsOK (localIdx cs0) env0 s2 0 2 := by
  intro n i h
  obtain ⟨a, v, h1, h2, h3, h4, h5⟩ := hloc0 n i h
  exact ⟨a, v, h1, h2, h3, h4, h5⟩

theorem hcode2 : CodeHas code2 cs2.insts cs0.insts.size := fun _ _ _ => rfl
theorem hip2 : s2.ip + 1 = (cs0.insts.size : Int) := by decide +kernel
theorem hsp2 : s2.sp + need e0 ≤ 2048 := by decide +kernel
theorem hsz2 : cs2.insts.size = 27 := by decide +kernel

/-- the hypotheses of `compile_exprstmt_correct` are satisfiable; on this instance: the VM gets behind
    the POP with `sp = 2` again -/
example : ∃ s', Reach F0 s2 s' ∧ s'.sp = 2 ∧ s'.ip + 1 = 27 ∧ s'.stack[0]! = .int 3#64 := by
  have hres : (match (exec ((Sem.execStmt F0 21 env0 (.expr 12 e0)).run {}) s2).1 with
      | .ok ((.normal, _), _) => true | _ => false) = true := by decide +kernel
  cases hr : exec ((Sem.execStmt F0 21 env0 (.expr 12 e0)).run {}) s2 with
  | mk r t1 =>
    rw [hr] at hres
    match r, hres with
    | .ok ((.normal, env'), ss1), _ =>
      have h := compile_exprstmt_correct F0 12 e0 cs0 cs2 hc2 hF0 cs2.constants code2 0 2 env0 s2 s2
        (Compile.IsPre.refl _) hcode2 hvm2 hip2 hsp2 rfl hloc2 21 {} ss1 _ env' t1 hr
      obtain ⟨_, _, _, s', hreach, _, _, hip, hsp, hag⟩ := h
      refine ⟨s', hreach, by rw [hsp]; rfl, by rw [hip, hsz2]; rfl, ?_⟩
      rw [hag.2 0 (by decide +kernel)]
      decide +kernel

end Ex
/-- the source-level statement (not proved; tested by stream `sem`; `compile_expr_correct` above is its
    first proved slice: expressions over uncaptured locals.  Still only tested: statements and
    everything named at the end of the section above) -/
def C02_full (Script Input Outcome : Type) (impl sem : Script → Input → Option Outcome) : Prop :=
  ∀ p i o₁ o₂, impl p i = some o₁ → sem p i = some o₂ → o₁ = o₂

/-- non-vacuity of `bindArgs_variadic` -/
example : Sem.bindArgs ["a", "rest"] true [.int 1#64, .int 2#64, .int 3#64]
    = .ok [("a", .inl (.int 1#64)), ("rest", .inr [.int 2#64, .int 3#64])] := by rfl

end UgoVerif.Props.C02
