import UgoVerif.Proofs.VMExec
import UgoVerif.Spec.Sem
import UgoVerif.Model.Compile
import UgoVerif.Gen.Opcodes
/-
  C02 — compiled execution follows the documented source-level semantics.

  Proved here:
  * the argument-binding rule of the reference semantics loses and duplicates nothing
    (`bindArgs_*`), i.e. the three-line rule the implementation is compared against is sane;
  * the variable mechanism of the VM model: DEFINELOCAL overwrites the slot — a fresh
    variable per executed declaration, even when the old variable was captured (boxed) —
    whereas SETLOCAL writes through an existing box, so closures see assignments;
  * argument binding of the VM model without spread (`callCompiled_fixed`, `callCompiled_variadic`,
    the two arity errors): the parameters ARE the arguments in order, the variadic parameter gets a
    fresh array of exactly the remaining arguments (`rest_eq_drop_args`: the same list the
    reference rule `Sem.bindArgs` binds), the other locals start as undefined;
  * consistency of the hand-written opcode / token numbers of the VM and compiler models
    with the tables regenerated from opcodes.go and token/token.go.

  `C02_full` (every script's outcome equals the reference semantics Spec/Sem) is NOT
  proved: it is tested by stream `sem` (general, call-heavy, tail-call and try-dense
  generators; real compiler + real VM vs Spec/Sem on the same AST), with the compiler
  model byte-identical (stream `compile`) and the VM model in lock-step (stream `vmtrace`).
-/
namespace UgoVerif.Props.C02
open UgoVerif UgoVerif.Go UgoVerif.VM UgoVerif.Proofs.ModCache UgoVerif.Proofs.VMExec

/-! ### the binding rule -/

def boundValues : List (String × Sum V (List V)) → List V
  | [] => []
  | (_, .inl v) :: r => v :: boundValues r
  | (_, .inr vs) :: r => vs ++ boundValues r

theorem boundValues_zip_inl (ps : List String) (vs : List V) (h : ps.length = vs.length) :
    boundValues (ps.zip (vs.map Sum.inl)) = vs := by
  induction ps generalizing vs with
  | nil => cases vs <;> simp_all [boundValues]
  | cons p ps ih =>
    cases vs with
    | nil => simp at h
    | cons v vs => simp [boundValues, ih vs (by simpa using h)]

theorem boundValues_append (a b : List (String × Sum V (List V))) :
    boundValues (a ++ b) = boundValues a ++ boundValues b := by
  induction a with
  | nil => simp [boundValues]
  | cons x xs ih =>
    obtain ⟨n, v⟩ := x
    cases v <;> simp [boundValues, ih]

/-- fixed arity: accepted exactly when the counts agree, and then every argument is bound, in order -/
theorem bindArgs_fixed (ps : List String) (args : List V) :
    (args.length = ps.length → ∃ b, Sem.bindArgs ps false args = .ok b ∧ boundValues b = args ∧ b.map Prod.fst = ps) ∧
    (args.length ≠ ps.length → ∃ e, Sem.bindArgs ps false args = .error e) := by
  constructor
  · intro h
    refine ⟨ps.zip (args.map Sum.inl), ?_, boundValues_zip_inl ps args h.symm, ?_⟩
    · simp [Sem.bindArgs, h]
    · simp [List.map_fst_zip, h]
  · intro h
    simp [Sem.bindArgs, h]

/-- variadic: accepted when at least the fixed parameters are supplied; the fixed parameters get
    the first arguments, the variadic parameter gets ALL the remaining ones, nothing is lost -/
theorem bindArgs_variadic (ps : List String) (args : List V) (hps : ps ≠ [])
    (h : ps.length - 1 ≤ args.length) :
    ∃ b, Sem.bindArgs ps true args = .ok b ∧ boundValues b = args := by
  have hlt : ¬ args.length < ps.length - 1 := by omega
  refine ⟨(ps.take (ps.length - 1)).zip ((args.take (ps.length - 1)).map Sum.inl) ++
      [(ps.getLast!, Sum.inr (args.drop (ps.length - 1)))], by simp [Sem.bindArgs, hlt], ?_⟩
  rw [boundValues_append, boundValues_zip_inl]
  · simp [boundValues]
  · simp [List.length_take]; omega

/-! ### variables: fresh per declaration, shared through boxes -/

/-- DEFINELOCAL stores the value in the slot itself, replacing whatever was there — also a box
    that a closure captured: the declaration creates a fresh variable, the closure keeps the old one -/
theorem defineLocal_fresh (s : State) (idx : Nat) (v : V)
    (hop : exec (opnd1 1) s = (.ok idx, s))
    (hsp : 1 ≤ s.sp ∧ s.sp ≤ (stackSize : Int))
    (hslot : 0 ≤ (s.frames[s.curFrame]!).bp + idx ∧ (s.frames[s.curFrame]!).bp + idx < (stackSize : Int))
    (hv : s.stack[(s.sp - 1).toNat]! = v) :
    exec execDefineLocal s = (.ok .next,
      { s with stack := (s.stack.set! ((s.frames[s.curFrame]!).bp + idx).toNat v).set! (s.sp - 1).toNat .nil,
               sp := s.sp - 1, ip := s.ip + 1 }) ∧
    (exec execDefineLocal s).2.heap = s.heap := by
  have e : exec execDefineLocal s = (.ok .next,
      { s with stack := (s.stack.set! ((s.frames[s.curFrame]!).bp + idx).toNat v).set! (s.sp - 1).toNat .nil,
               sp := s.sp - 1, ip := s.ip + 1 }) := by
    unfold execDefineLocal
    simp only [exec_bind, hop, exec_curFrame, exec_getSp]
    rw [exec_stackGet _ _ (by omega)]
    simp only [hv]
    rw [exec_stackSet _ _ _ hslot]
    simp only [exec_setSp]
    rw [exec_stackSet _ _ _ (by simp; omega)]
    simp only [exec_bumpIp, exec_pure]
  exact ⟨e, by rw [e]⟩

/-- SETLOCAL on a slot holding a box (whose cell is a box cell, as in every VM state) writes THROUGH the box (the captured variable itself is
    updated, so every closure sharing it sees the assignment); the slot keeps the same box -/
theorem setLocal_writes_through_box (s : State) (idx : Nat) (v : V) (a : Addr)
    (hop : exec (opnd1 1) s = (.ok idx, s))
    (hsp : 1 ≤ s.sp ∧ s.sp ≤ (stackSize : Int))
    (hslot : 0 ≤ (s.frames[s.curFrame]!).bp + idx ∧ (s.frames[s.curFrame]!).bp + idx < (stackSize : Int))
    (hv : s.stack[(s.sp - 1).toNat]! = v)
    (hbox : s.stack[((s.frames[s.curFrame]!).bp + idx).toNat]! = .box a)
    (hcell : ∃ w, s.heap[a]? = some (.box w)) :
    exec execSetLocal s = (.ok .next,
      { s with heap := s.heap.set! a (.box v), stack := s.stack.set! (s.sp - 1).toNat .nil,
               sp := s.sp - 1, ip := s.ip + 1 }) := by
  unfold execSetLocal
  simp only [exec_bind, hop, exec_getSp]
  rw [exec_stackGet _ _ (by omega)]
  simp only [hv, exec_curFrame]
  rw [exec_stackGet _ _ hslot]
  obtain ⟨w, hw⟩ := hcell
  have hbs : exec (boxSet a v) s = (.ok (), { s with heap := s.heap.set! a (.box v) }) := by
    unfold boxSet heapGet
    simp only [exec_bind, exec_getS, hw, exec_pure, exec_heapSet]
  simp only [hbox, exec_bind, hbs, exec_setSp]
  rw [exec_stackSet _ _ _ (by simp; omega)]
  simp only [exec_bumpIp, exec_pure]

/-! ### call argument binding in the VM model (vm.go xOpCallCompiled, no spread) -/

set_option linter.unusedSimpArgs false
set_option linter.unusedVariables false

theorem foldl_set_size (st : Array V) (v : V) (f : Nat → Nat) (l : List Nat) :
    (l.foldl (fun st k => st.setIfInBounds (f k) v) st).size = st.size := by
  induction l generalizing st with
  | nil => rfl
  | cons k r ih => simp [List.foldl_cons, ih]

theorem foldl_set_get? (st : Array V) (v : V) (f : Nat → Nat) (l : List Nat) (j : Nat) :
    (l.foldl (fun st k => st.setIfInBounds (f k) v) st)[j]? =
      if (∃ k ∈ l, f k = j) ∧ j < st.size then some v else st[j]? := by
  induction l generalizing st with
  | nil => simp
  | cons k r ih =>
    simp only [List.foldl_cons]
    rw [ih]
    by_cases hk : f k = j
    · subst hk
      by_cases hs : f k < st.size
      · simp [hs, Array.getElem?_setIfInBounds]
      · simp [hs]
    · by_cases hr : ∃ k' ∈ r, f k' = j
      · simp [hr, hk, Array.getElem?_setIfInBounds]
      · simp [hr, hk, Array.getElem?_setIfInBounds]

def fillLocals (st : Array V) (bp : Int) (numParams numLocals : Nat) : Array V :=
  (List.range' 0 (numLocals - numParams)).foldl (fun st (k : Nat) => st.set! (bp + (numParams : Int) + (k : Int)).toNat .undefined) st

theorem fillLocals_get? (st : Array V) (bp : Int) (np nl j : Nat) (hbp : 0 ≤ bp) :
    (fillLocals st bp np nl)[j]? =
      if (bp.toNat + np ≤ j ∧ j < bp.toNat + nl) ∧ j < st.size then some .undefined else st[j]? := by
  unfold fillLocals
  simp only [Array.set!_eq_setIfInBounds]
  rw [foldl_set_get? st .undefined (fun k => (bp + (np : Int) + (k : Int)).toNat)]
  have : (∃ k ∈ List.range' 0 (nl - np), (bp + (np : Int) + (k : Int)).toNat = j) ↔ (bp.toNat + np ≤ j ∧ j < bp.toNat + nl) := by
    constructor
    · rintro ⟨k, hk, rfl⟩
      simp [List.mem_range'] at hk
      omega
    · intro ⟨h1, h2⟩
      refine ⟨j - (bp.toNat + np), ?_, ?_⟩
      · simp [List.mem_range']; omega
      · omega
  simp only [this]

/-- the arguments (= parameters) are not touched -/
theorem fillLocals_param (st : Array V) (bp : Int) (np nl i : Nat) (hbp : 0 ≤ bp) (hi : i < np) :
    (fillLocals st bp np nl)[(bp + i).toNat]! = st[(bp + i).toNat]! := by
  have h := fillLocals_get? st bp np nl (bp + i).toNat hbp
  have hn : ¬ (bp.toNat + np ≤ (bp + (i : Int)).toNat) := by omega
  simp only [hn, false_and, if_false] at h
  simp [getElem!_def, h]

/-- every other local starts as `undefined` -/
theorem fillLocals_local (st : Array V) (bp : Int) (np nl i : Nat) (hbp : 0 ≤ bp) (h1 : np ≤ i) (h2 : i < nl)
    (hs : (bp + i).toNat < st.size) :
    (fillLocals st bp np nl)[(bp + i).toNat]! = .undefined := by
  have h := fillLocals_get? st bp np nl (bp + i).toNat hbp
  have hy : (bp.toNat + np ≤ (bp + (i : Int)).toNat ∧ (bp + (i : Int)).toNat < bp.toNat + nl) ∧ (bp + (i : Int)).toNat < st.size := by
    refine ⟨⟨by omega, by omega⟩, hs⟩
  simp only [hy, and_self, if_true] at h
  simp [getElem!_def, h]

/-- `fillUndefined` (the loop `for i := numParams; i < numLocals; i++ { vm.stack[basePointer+i] = Undefined }`) -/
theorem exec_fillUndefined (lo : Int) (n : Nat) (s : State) (hb : ∀ k, k < n → 0 ≤ lo + (k : Int) ∧ lo + (k : Int) < (stackSize : Int)) :
    exec (fillUndefined lo n) s =
      (.ok (), { s with stack := (List.range' 0 n).foldl (fun st (k : Nat) => st.set! (lo + (k : Int)).toNat .undefined) s.stack }) := by
  unfold fillUndefined
  simp only [exec_bind]
  rw [exec_range_stackSet .undefined n s (fun k => lo + (k : Int)) hb]
  rfl

/-- the part of xOpCallCompiled after the argument binding, when binding succeeded in state `t`
    and the call is not a self tail call: locals initialised, new frame entered -/
theorem exec_callCompiled_of_bind (fa : Addr) (numArgs flags : Int) (s t : State) (code : Code) (free : Option (List Addr))
    (hcell : exec (fnCell fa) s = (.ok (code, free), s))
    (hbind : exec (bindArgs code (s.sp - numArgs) numArgs flags) s = (.ok (.ok ()), t))
    (hself : (t.frames[t.curFrame]!).fn ≠ some fa)
    (hfi : 0 ≤ t.frameIndex ∧ t.frameIndex + 1 ≤ (frameSize : Int) - 1)
    (hbp : 0 ≤ s.sp - numArgs) (hroom : s.sp - numArgs + code.numLocals ≤ (stackSize : Int))
    (hnl : code.numParams ≤ code.numLocals) :
    exec (callCompiled fa numArgs flags) s = (.ok (.ok ()),
      { t with stack := fillLocals t.stack (s.sp - numArgs) code.numParams code.numLocals,
               frameIndex := t.frameIndex + 1,
               frames := (t.frames.modify t.curFrame fun f => { f with ip := t.ip + 2 }).modify t.frameIndex.toNat fun f =>
                  { f with fn := some fa, free := free, handlers := none, bp := s.sp - numArgs, discard := false },
               curFrame := t.frameIndex.toNat, sp := s.sp - numArgs + code.numLocals, ip := -1 }) := by
  unfold callCompiled
  simp only [exec_bind, hcell, exec_getSp, hbind, exec_pure]
  have hloop := exec_fillUndefined (s.sp - numArgs + (code.numParams : Int)) ((code.numLocals : Int) - code.numParams).toNat t
      (by intro k hk; constructor <;> omega)
  rw [hloop]
  have hne : ((t.frames[t.curFrame]!).fn == some fa) = false := by simpa using hself
  simp only [exec_curFrame, exec_getIp, hne, Bool.false_eq_true, ↓reduceIte, exec_getS]
  have h1 : ¬ (t.frameIndex < 0) := by omega
  have h1' : ¬ (t.frameIndex ≥ (frameSize : Int)) := by omega
  have h2 : ¬ (t.frameIndex + 1 > (frameSize : Int) - 1) := by omega
  simp [exec_bind, exec_getS, exec_modS, exec_setSp, exec_setIp, exec_pure, exec_setCurFrame, enterFrame, h1, h1', h2, fillLocals]
  rfl

/-- fixed arity, wrong number of arguments: WrongNumberOfArgumentsError, nothing else happens -/
theorem callCompiled_fixed_arity_error (fa : Addr) (numArgs : Int) (s : State) (code : Code) (free : Option (List Addr))
    (hcell : exec (fnCell fa) s = (.ok (code, free), s))
    (hnv : code.variadic = false) (hargs : numArgs ≠ code.numParams) :
    exec (callCompiled fa numArgs 0) s =
      (.ok (.error (.named "WrongNumberOfArgumentsError" (wantEq code.numParams numArgs))), s) := by
  unfold callCompiled bindArgs
  simp only [exec_bind, hcell, exec_getSp]
  simp [hnv, hargs, exec_pure]

/-- fixed arity, right number of arguments, not a self tail call: a new frame is entered whose base
    pointer is the first argument — the arguments ARE the parameters, in order, untouched — the
    remaining locals are undefined, and the caller's frame remembers where to continue. -/
theorem callCompiled_fixed (fa : Addr) (numArgs : Int) (s : State) (code : Code) (free : Option (List Addr))
    (hcell : exec (fnCell fa) s = (.ok (code, free), s))
    (hnv : code.variadic = false) (hargs : numArgs = code.numParams)
    (hself : (s.frames[s.curFrame]!).fn ≠ some fa)
    (hfi : 0 ≤ s.frameIndex ∧ s.frameIndex + 1 ≤ (frameSize : Int) - 1)
    (hbp : 0 ≤ s.sp - numArgs) (hroom : s.sp - numArgs + code.numLocals ≤ (stackSize : Int))
    (hnl : code.numParams ≤ code.numLocals) :
    exec (callCompiled fa numArgs 0) s = (.ok (.ok ()),
      { s with stack := fillLocals s.stack (s.sp - numArgs) code.numParams code.numLocals,
               frameIndex := s.frameIndex + 1,
               frames := (s.frames.modify s.curFrame fun f => { f with ip := s.ip + 2 }).modify s.frameIndex.toNat fun f =>
                  { f with fn := some fa, free := free, handlers := none, bp := s.sp - numArgs, discard := false },
               curFrame := s.frameIndex.toNat, sp := s.sp - numArgs + code.numLocals, ip := -1 }) := by
  have hbind : exec (bindArgs code (s.sp - numArgs) numArgs 0) s = (.ok (.ok ()), s) := by
    unfold bindArgs
    simp [hnv, hargs, exec_pure]
  exact exec_callCompiled_of_bind fa numArgs 0 s s code free hcell hbind hself hfi hbp hroom hnl

/-- variadic callee, too few arguments: WrongNumberOfArgumentsError -/
theorem callCompiled_variadic_arity_error (fa : Addr) (numArgs : Int) (s : State) (code : Code) (free : Option (List Addr))
    (hcell : exec (fnCell fa) s = (.ok (code, free), s))
    (hv : code.variadic = true) (hargs : numArgs < (code.numParams : Int) - 1) :
    exec (callCompiled fa numArgs 0) s =
      (.ok (.error (.named "WrongNumberOfArgumentsError" (wantGE ((code.numParams : Int) - 1) numArgs))), s) := by
  unfold callCompiled bindArgs
  simp only [exec_bind, hcell, exec_getSp]
  simp [hv, hargs, exec_pure]

set_option maxHeartbeats 2000000 in
/-- variadic callee with at least the fixed parameters supplied (no spread), not a self tail call:
    the fixed parameters are the first arguments, untouched; ALL remaining arguments, in order,
    become a fresh array stored in the variadic parameter's slot; the other locals are undefined. -/
theorem callCompiled_variadic (fa : Addr) (numArgs : Int) (s : State) (code : Code) (free : Option (List Addr))
    (hcell : exec (fnCell fa) s = (.ok (code, free), s))
    (hv : code.variadic = true) (hnp : 1 ≤ code.numParams) (hargs : (code.numParams : Int) - 1 ≤ numArgs)
    (hself : (s.frames[s.curFrame]!).fn ≠ some fa)
    (hfi : 0 ≤ s.frameIndex ∧ s.frameIndex + 1 ≤ (frameSize : Int) - 1)
    (hbp : 0 ≤ s.sp - numArgs) (hsp : s.sp ≤ (stackSize : Int))
    (hroom : s.sp - numArgs + code.numLocals ≤ (stackSize : Int))
    (hnl : code.numParams ≤ code.numLocals) :
    let bp := s.sp - numArgs
    let rest := (s.stack.toList.drop (bp + code.numParams - 1).toNat).take (numArgs - ((code.numParams : Int) - 1)).toNat
    exec (callCompiled fa numArgs 0) s = (.ok (.ok ()),
      { s with heap := s.heap.push (.arr rest.toArray),
               stack := fillLocals (s.stack.set! (bp + code.numParams - 1).toNat (.arr s.heap.size 0 rest.length)) bp code.numParams code.numLocals,
               frameIndex := s.frameIndex + 1,
               frames := (s.frames.modify s.curFrame fun f => { f with ip := s.ip + 2 }).modify s.frameIndex.toNat fun f =>
                  { f with fn := some fa, free := free, handlers := none, bp := bp, discard := false },
               curFrame := s.frameIndex.toNat, sp := bp + code.numLocals, ip := -1 }) := by
  intro bp rest
  have hbind : exec (bindArgs code (s.sp - numArgs) numArgs 0) s = (.ok (.ok ()),
      { s with heap := s.heap.push (.arr rest.toArray),
               stack := s.stack.set! (bp + code.numParams - 1).toNat (.arr s.heap.size 0 rest.length) }) := by
    unfold bindArgs
    have hlt : ¬ (numArgs < (code.numParams : Int) - 1) := by omega
    simp only [hv, Bool.not_true, Bool.false_eq_true, ↓reduceIte, bne_iff_ne, ne_eq, hlt, decide_false, exec_pure, exec_bind,
      beq_self_eq_true]
    by_cases heq : numArgs = (code.numParams : Int) - 1
    · have hset := fun (v : V) (t : State) => exec_stackSet s.sp v t (by constructor <;> omega)
      have hrest : rest = [] := by
        show List.take _ _ = []
        have : (numArgs - ((code.numParams : Int) - 1)).toNat = 0 := by omega
        rw [this]; simp
      have e1 : (s.sp - ((code.numParams : Int) - 1) + code.numParams - 1).toNat = s.sp.toNat := by omega
      have e0 : s.sp - ((code.numParams : Int) - 1) + ((code.numParams : Int) - 1) = s.sp := by omega
      simp only [heq, beq_self_eq_true, ↓reduceIte, exec_bind, exec_newArray, e0]
      simp only [hset, exec_pure, hrest, bp, heq, e1]
    · have hslice := fun (t : State) => exec_stackSlice (s.sp - numArgs + code.numParams - 1) (s.sp - numArgs + numArgs) t
          (by refine ⟨?_, ?_, ?_⟩ <;> omega)
      have hset := fun (v : V) (t : State) => exec_stackSet (s.sp - numArgs + code.numParams - 1) v t (by constructor <;> omega)
      have hb : (numArgs == (code.numParams : Int) - 1) = false := by simpa using heq
      have e2 : s.sp - numArgs + numArgs - (s.sp - numArgs + ↑code.numParams - 1) = numArgs - ((code.numParams : Int) - 1) := by omega
      simp only [hb, Bool.false_eq_true, ↓reduceIte, exec_bind, hslice, exec_newArray]
      have e3 : s.sp - (s.sp - numArgs + ↑code.numParams - 1) = numArgs - ((code.numParams : Int) - 1) := by omega
      simp [hset, exec_pure, bp, rest, e2, e3]
  exact exec_callCompiled_of_bind fa numArgs 0 s _ code free hcell hbind hself hfi hbp hroom hnl

/-- the arguments of a call as they lie on the operand stack: `stack[sp-numArgs : sp]` -/
def argsOnStack (s : State) (numArgs : Int) : List V :=
  (s.stack.toList.drop (s.sp - numArgs).toNat).take numArgs.toNat

/-- the array the variadic parameter receives is exactly "all remaining arguments" of the
    reference rule `Sem.bindArgs`: the arguments after the first `numParams - 1` -/
theorem rest_eq_drop_args (s : State) (numArgs : Int) (np : Nat) (hnp : 1 ≤ np) (hbp : 0 ≤ s.sp - numArgs)
    (hargs : (np : Int) - 1 ≤ numArgs) :
    (s.stack.toList.drop (s.sp - numArgs + np - 1).toNat).take (numArgs - ((np : Int) - 1)).toNat
      = (argsOnStack s numArgs).drop (np - 1) := by
  unfold argsOnStack
  rw [List.drop_take, List.drop_drop]
  congr 2 <;> omega

/-! ### numbering ties -/

theorem vm_opcodes_match_source :
    VM.OpConstant = Gen.Opcodes.OpConstant ∧ VM.OpCall = Gen.Opcodes.OpCall ∧
    VM.OpGetLocal = Gen.Opcodes.OpGetLocal ∧ VM.OpSetLocal = Gen.Opcodes.OpSetLocal ∧
    VM.OpDefineLocal = Gen.Opcodes.OpDefineLocal ∧ VM.OpClosure = Gen.Opcodes.OpClosure ∧
    VM.OpGetFree = Gen.Opcodes.OpGetFree ∧ VM.OpSetFree = Gen.Opcodes.OpSetFree ∧
    VM.OpGetLocalPtr = Gen.Opcodes.OpGetLocalPtr ∧ VM.OpGetFreePtr = Gen.Opcodes.OpGetFreePtr ∧
    VM.OpReturn = Gen.Opcodes.OpReturn ∧ VM.OpJump = Gen.Opcodes.OpJump ∧
    VM.OpJumpFalsy = Gen.Opcodes.OpJumpFalsy ∧ VM.OpAndJump = Gen.Opcodes.OpAndJump ∧
    VM.OpOrJump = Gen.Opcodes.OpOrJump ∧ VM.OpSetupTry = Gen.Opcodes.OpSetupTry ∧
    VM.OpSetupCatch = Gen.Opcodes.OpSetupCatch ∧ VM.OpSetupFinally = Gen.Opcodes.OpSetupFinally ∧
    VM.OpThrow = Gen.Opcodes.OpThrow ∧ VM.OpFinalizer = Gen.Opcodes.OpFinalizer ∧
    VM.OpCallName = Gen.Opcodes.OpCallName ∧ VM.OpBinaryOp = Gen.Opcodes.OpBinaryOp ∧
    VM.OpUnary = Gen.Opcodes.OpUnary ∧ VM.OpArray = Gen.Opcodes.OpArray ∧ VM.OpMap = Gen.Opcodes.OpMap ∧
    VM.OpGetIndex = Gen.Opcodes.OpGetIndex ∧ VM.OpSetIndex = Gen.Opcodes.OpSetIndex ∧
    VM.OpLoadModule = Gen.Opcodes.OpLoadModule ∧ VM.OpStoreModule = Gen.Opcodes.OpStoreModule ∧
    VM.OpIterInit = Gen.Opcodes.OpIterInit ∧ VM.OpPop = Gen.Opcodes.OpPop := by
  decide

theorem compiler_opcodes_match_vm :
    Compile.OpConstant = VM.OpConstant ∧ Compile.OpCall = VM.OpCall ∧ Compile.OpReturn = VM.OpReturn ∧
    Compile.OpDefineLocal = VM.OpDefineLocal ∧ Compile.OpSetLocal = VM.OpSetLocal ∧
    Compile.OpGetLocal = VM.OpGetLocal ∧ Compile.OpClosure = VM.OpClosure ∧
    Compile.OpSetupTry = VM.OpSetupTry ∧ Compile.OpThrow = VM.OpThrow ∧ Compile.OpFinalizer = VM.OpFinalizer ∧
    Compile.OpJump = VM.OpJump ∧ Compile.OpJumpFalsy = VM.OpJumpFalsy ∧ Compile.OpPop = VM.OpPop := by
  decide

theorem vm_tokens_match_source :
    VM.tokOfNat Gen.tok_Add = .Add ∧ VM.tokOfNat Gen.tok_Sub = .Sub ∧ VM.tokOfNat Gen.tok_Mul = .Mul ∧
    VM.tokOfNat Gen.tok_Quo = .Quo ∧ VM.tokOfNat Gen.tok_Rem = .Rem ∧ VM.tokOfNat Gen.tok_And = .And ∧
    VM.tokOfNat Gen.tok_Or = .Or ∧ VM.tokOfNat Gen.tok_Xor = .Xor ∧ VM.tokOfNat Gen.tok_Shl = .Shl ∧
    VM.tokOfNat Gen.tok_Shr = .Shr ∧ VM.tokOfNat Gen.tok_AndNot = .AndNot ∧
    VM.tokOfNat Gen.tok_Less = .Less ∧ VM.tokOfNat Gen.tok_Greater = .Greater ∧
    VM.tokOfNat Gen.tok_LessEq = .LessEq ∧ VM.tokOfNat Gen.tok_GreaterEq = .GreaterEq ∧
    VM.tokOfNat Gen.tok_Not = .Not ∧ VM.tokOfNat Gen.tok_Equal = .Equal ∧ VM.tokOfNat Gen.tok_NotEqual = .NotEqual := by
  decide

/-- the source-level statement (not proved; tested by stream `sem`) -/
def C02_full (Script Input Outcome : Type) (impl sem : Script → Input → Option Outcome) : Prop :=
  ∀ p i o₁ o₂, impl p i = some o₁ → sem p i = some o₂ → o₁ = o₂

/-- non-vacuity of `bindArgs_variadic` -/
example : Sem.bindArgs ["a", "rest"] true [.int 1#64, .int 2#64, .int 3#64]
    = .ok [("a", .inl (.int 1#64)), ("rest", .inr [.int 2#64, .int 3#64])] := by rfl

end UgoVerif.Props.C02
