import UgoVerif.Proofs.VMExec
import UgoVerif.Spec.Sem
import UgoVerif.Model.Compile
import UgoVerif.Gen.Opcodes
/-
  C02 — compiled execution follows the documented source-level semantics.

  Proved here:
  * the argument-binding rule of the reference semantics loses and duplicates nothing
    (`bindArgs_*`), i.e. the three-line rule the implementation is compared against is sane;
  * the variable mechanism of the VM model: DEFINELOCAL overwrites the slot — a fresh
    variable per executed declaration, even when the old variable was captured (boxed) —
    whereas SETLOCAL writes through an existing box, so closures see assignments;
  * consistency of the hand-written opcode / token numbers of the VM and compiler models
    with the tables regenerated from opcodes.go and token/token.go.

  `C02_full` (every script's outcome equals the reference semantics Spec/Sem) is NOT
  proved: it is tested by stream `sem` (general, call-heavy, tail-call and try-dense
  generators; real compiler + real VM vs Spec/Sem on the same AST), with the compiler
  model byte-identical (stream `compile`) and the VM model in lock-step (stream `vmtrace`).
-/
namespace UgoVerif.Props.C02
open UgoVerif UgoVerif.Go UgoVerif.VM UgoVerif.Proofs.ModCache UgoVerif.Proofs.VMExec

/-! ### the binding rule -/

def boundValues : List (String × Sum V (List V)) → List V
  | [] => []
  | (_, .inl v) :: r => v :: boundValues r
  | (_, .inr vs) :: r => vs ++ boundValues r

theorem boundValues_zip_inl (ps : List String) (vs : List V) (h : ps.length = vs.length) :
    boundValues (ps.zip (vs.map Sum.inl)) = vs := by
  induction ps generalizing vs with
  | nil => cases vs <;> simp_all [boundValues]
  | cons p ps ih =>
    cases vs with
    | nil => simp at h
    | cons v vs => simp [boundValues, ih vs (by simpa using h)]

theorem boundValues_append (a b : List (String × Sum V (List V))) :
    boundValues (a ++ b) = boundValues a ++ boundValues b := by
  induction a with
  | nil => simp [boundValues]
  | cons x xs ih =>
    obtain ⟨n, v⟩ := x
    cases v <;> simp [boundValues, ih]

/-- fixed arity: accepted exactly when the counts agree, and then every argument is bound, in order -/
theorem bindArgs_fixed (ps : List String) (args : List V) :
    (args.length = ps.length → ∃ b, Sem.bindArgs ps false args = .ok b ∧ boundValues b = args ∧ b.map Prod.fst = ps) ∧
    (args.length ≠ ps.length → ∃ e, Sem.bindArgs ps false args = .error e) := by
  constructor
  · intro h
    refine ⟨ps.zip (args.map Sum.inl), ?_, boundValues_zip_inl ps args h.symm, ?_⟩
    · simp [Sem.bindArgs, h]
    · simp [List.map_fst_zip, h]
  · intro h
    simp [Sem.bindArgs, h]

/-- variadic: accepted when at least the fixed parameters are supplied; the fixed parameters get
    the first arguments, the variadic parameter gets ALL the remaining ones, nothing is lost -/
theorem bindArgs_variadic (ps : List String) (args : List V) (hps : ps ≠ [])
    (h : ps.length - 1 ≤ args.length) :
    ∃ b, Sem.bindArgs ps true args = .ok b ∧ boundValues b = args := by
  have hlt : ¬ args.length < ps.length - 1 := by omega
  refine ⟨(ps.take (ps.length - 1)).zip ((args.take (ps.length - 1)).map Sum.inl) ++
      [(ps.getLast!, Sum.inr (args.drop (ps.length - 1)))], by simp [Sem.bindArgs, hlt], ?_⟩
  rw [boundValues_append, boundValues_zip_inl]
  · simp [boundValues]
  · simp [List.length_take]; omega

/-! ### variables: fresh per declaration, shared through boxes -/

/-- DEFINELOCAL stores the value in the slot itself, replacing whatever was there — also a box
    that a closure captured: the declaration creates a fresh variable, the closure keeps the old one -/
theorem defineLocal_fresh (s : State) (idx : Nat) (v : V)
    (hop : exec (opnd1 1) s = (.ok idx, s))
    (hsp : 1 ≤ s.sp ∧ s.sp ≤ (stackSize : Int))
    (hslot : 0 ≤ (s.frames[s.curFrame]!).bp + idx ∧ (s.frames[s.curFrame]!).bp + idx < (stackSize : Int))
    (hv : s.stack[(s.sp - 1).toNat]! = v) :
    exec execDefineLocal s = (.ok .next,
      { s with stack := (s.stack.set! ((s.frames[s.curFrame]!).bp + idx).toNat v).set! (s.sp - 1).toNat .nil,
               sp := s.sp - 1, ip := s.ip + 1 }) ∧
    (exec execDefineLocal s).2.heap = s.heap := by
  have e : exec execDefineLocal s = (.ok .next,
      { s with stack := (s.stack.set! ((s.frames[s.curFrame]!).bp + idx).toNat v).set! (s.sp - 1).toNat .nil,
               sp := s.sp - 1, ip := s.ip + 1 }) := by
    unfold execDefineLocal
    simp only [exec_bind, hop, exec_curFrame, exec_getSp]
    rw [exec_stackGet _ _ (by omega)]
    simp only [hv]
    rw [exec_stackSet _ _ _ hslot]
    simp only [exec_setSp]
    rw [exec_stackSet _ _ _ (by simp; omega)]
    simp only [exec_bumpIp, exec_pure]
  exact ⟨e, by rw [e]⟩

/-- SETLOCAL on a slot holding a box writes THROUGH the box (the captured variable itself is
    updated, so every closure sharing it sees the assignment); the slot keeps the same box -/
theorem setLocal_writes_through_box (s : State) (idx : Nat) (v : V) (a : Addr)
    (hop : exec (opnd1 1) s = (.ok idx, s))
    (hsp : 1 ≤ s.sp ∧ s.sp ≤ (stackSize : Int))
    (hslot : 0 ≤ (s.frames[s.curFrame]!).bp + idx ∧ (s.frames[s.curFrame]!).bp + idx < (stackSize : Int))
    (hv : s.stack[(s.sp - 1).toNat]! = v)
    (hbox : s.stack[((s.frames[s.curFrame]!).bp + idx).toNat]! = .box a) :
    exec execSetLocal s = (.ok .next,
      { s with heap := s.heap.set! a (.box v), stack := s.stack.set! (s.sp - 1).toNat .nil,
               sp := s.sp - 1, ip := s.ip + 1 }) := by
  unfold execSetLocal
  simp only [exec_bind, hop, exec_getSp]
  rw [exec_stackGet _ _ (by omega)]
  simp only [hv, exec_curFrame]
  rw [exec_stackGet _ _ hslot]
  simp only [hbox, exec_bind, exec_heapSet, exec_setSp]
  rw [exec_stackSet _ _ _ (by simp; omega)]
  simp only [exec_bumpIp, exec_pure]

/-! ### numbering ties -/

theorem vm_opcodes_match_source :
    VM.OpConstant = Gen.Opcodes.OpConstant ∧ VM.OpCall = Gen.Opcodes.OpCall ∧
    VM.OpGetLocal = Gen.Opcodes.OpGetLocal ∧ VM.OpSetLocal = Gen.Opcodes.OpSetLocal ∧
    VM.OpDefineLocal = Gen.Opcodes.OpDefineLocal ∧ VM.OpClosure = Gen.Opcodes.OpClosure ∧
    VM.OpGetFree = Gen.Opcodes.OpGetFree ∧ VM.OpSetFree = Gen.Opcodes.OpSetFree ∧
    VM.OpGetLocalPtr = Gen.Opcodes.OpGetLocalPtr ∧ VM.OpGetFreePtr = Gen.Opcodes.OpGetFreePtr ∧
    VM.OpReturn = Gen.Opcodes.OpReturn ∧ VM.OpJump = Gen.Opcodes.OpJump ∧
    VM.OpJumpFalsy = Gen.Opcodes.OpJumpFalsy ∧ VM.OpAndJump = Gen.Opcodes.OpAndJump ∧
    VM.OpOrJump = Gen.Opcodes.OpOrJump ∧ VM.OpSetupTry = Gen.Opcodes.OpSetupTry ∧
    VM.OpSetupCatch = Gen.Opcodes.OpSetupCatch ∧ VM.OpSetupFinally = Gen.Opcodes.OpSetupFinally ∧
    VM.OpThrow = Gen.Opcodes.OpThrow ∧ VM.OpFinalizer = Gen.Opcodes.OpFinalizer ∧
    VM.OpCallName = Gen.Opcodes.OpCallName ∧ VM.OpBinaryOp = Gen.Opcodes.OpBinaryOp ∧
    VM.OpUnary = Gen.Opcodes.OpUnary ∧ VM.OpArray = Gen.Opcodes.OpArray ∧ VM.OpMap = Gen.Opcodes.OpMap ∧
    VM.OpGetIndex = Gen.Opcodes.OpGetIndex ∧ VM.OpSetIndex = Gen.Opcodes.OpSetIndex ∧
    VM.OpLoadModule = Gen.Opcodes.OpLoadModule ∧ VM.OpStoreModule = Gen.Opcodes.OpStoreModule ∧
    VM.OpIterInit = Gen.Opcodes.OpIterInit ∧ VM.OpPop = Gen.Opcodes.OpPop := by
  decide

theorem compiler_opcodes_match_vm :
    Compile.OpConstant = VM.OpConstant ∧ Compile.OpCall = VM.OpCall ∧ Compile.OpReturn = VM.OpReturn ∧
    Compile.OpDefineLocal = VM.OpDefineLocal ∧ Compile.OpSetLocal = VM.OpSetLocal ∧
    Compile.OpGetLocal = VM.OpGetLocal ∧ Compile.OpClosure = VM.OpClosure ∧
    Compile.OpSetupTry = VM.OpSetupTry ∧ Compile.OpThrow = VM.OpThrow ∧ Compile.OpFinalizer = VM.OpFinalizer ∧
    Compile.OpJump = VM.OpJump ∧ Compile.OpJumpFalsy = VM.OpJumpFalsy ∧ Compile.OpPop = VM.OpPop := by
  decide

theorem vm_tokens_match_source :
    VM.tokOfNat Gen.tok_Add = .Add ∧ VM.tokOfNat Gen.tok_Sub = .Sub ∧ VM.tokOfNat Gen.tok_Mul = .Mul ∧
    VM.tokOfNat Gen.tok_Quo = .Quo ∧ VM.tokOfNat Gen.tok_Rem = .Rem ∧ VM.tokOfNat Gen.tok_And = .And ∧
    VM.tokOfNat Gen.tok_Or = .Or ∧ VM.tokOfNat Gen.tok_Xor = .Xor ∧ VM.tokOfNat Gen.tok_Shl = .Shl ∧
    VM.tokOfNat Gen.tok_Shr = .Shr ∧ VM.tokOfNat Gen.tok_AndNot = .AndNot ∧
    VM.tokOfNat Gen.tok_Less = .Less ∧ VM.tokOfNat Gen.tok_Greater = .Greater ∧
    VM.tokOfNat Gen.tok_LessEq = .LessEq ∧ VM.tokOfNat Gen.tok_GreaterEq = .GreaterEq ∧
    VM.tokOfNat Gen.tok_Not = .Not ∧ VM.tokOfNat Gen.tok_Equal = .Equal ∧ VM.tokOfNat Gen.tok_NotEqual = .NotEqual := by
  decide

/-- the source-level statement (not proved; tested by stream `sem`) -/
def C02_full (Script Input Outcome : Type) (impl sem : Script → Input → Option Outcome) : Prop :=
  ∀ p i o₁ o₂, impl p i = some o₁ → sem p i = some o₂ → o₁ = o₂

/-- non-vacuity of `bindArgs_variadic` -/
example : Sem.bindArgs ["a", "rest"] true [.int 1#64, .int 2#64, .int 3#64]
    = .ok [("a", .inl (.int 1#64)), ("rest", .inr [.int 2#64, .int 3#64])] := by rfl

end UgoVerif.Props.C02
