import UgoVerif.Proofs.VMExec
import UgoVerif.Spec.Sem
import UgoVerif.Model.Compile
import UgoVerif.Gen.Opcodes
import UgoVerif.Proofs.CompSimProg
import UgoVerif.Proofs.CompSimFall
/-
  C02 — compiled execution follows the documented source-level semantics.

  Proved here:
  * the argument-binding rule of the reference semantics loses and duplicates nothing
    (`bindArgs_*`), i.e. the three-line rule the implementation is compared against is sane;
  * the variable mechanism of the VM model: DEFINELOCAL overwrites the slot — a fresh
    variable per executed declaration, even when the old variable was captured (boxed) —
    whereas SETLOCAL writes through an existing box, so closures see assignments;
  * argument binding of the VM model without spread (`callCompiled_fixed`, `callCompiled_variadic`,
    the two arity errors): the parameters ARE the arguments in order, the variadic parameter gets a
    fresh array of exactly the remaining arguments (`rest_eq_drop_args`: the same list the
    reference rule `Sem.bindArgs` binds), the other locals start as undefined;
  * consistency of the hand-written opcode / token numbers of the VM and compiler models
    with the tables regenerated from opcodes.go and token/token.go;
  * two slices of the simulation theorem compile ⊑ Sem (section "compile ⊑ Sem" below):
    `compile_expr_correct` (expressions over uncaptured scalar locals), `compile_stmt_correct` /
    `compile_stmts_correct` (`e;`, `x := e`, `var x = e`, `var x`, `var ( … )` groups, `x = e`, `x op= e`, `x++`, `x--`, blocks,
    `if` / `else` also with an init statement or a boolean literal as condition, `return`), with
    the VM heap related to the reference heap modulo the reference semantics' variable boxes, and
    the whole-script corollary `C02_fragment` for ALL scripts of that fragment (compile-model output,
    loaded and run by the VM model's `Run`, returns what `Sem.runProgram` returns; a script that
    falls off its end returns `undefined` through the RETURN `Bytecode()` appends: `C02_return_appended`).

  `C02_full` (every script's outcome equals the reference semantics Spec/Sem) is NOT
  proved: it is tested by stream `sem` (general, call-heavy, tail-call and try-dense
  generators; real compiler + real VM vs Spec/Sem on the same AST), with the compiler
  model byte-identical (stream `compile`) and the VM model in lock-step (stream `vmtrace`).
-/
namespace UgoVerif.Props.C02
open UgoVerif UgoVerif.Go UgoVerif.VM UgoVerif.Proofs.ModCache UgoVerif.Proofs.VMExec

/-! ### the binding rule -/

def boundValues : List (String × Sum V (List V)) → List V
  | [] => []
  | (_, .inl v) :: r => v :: boundValues r
  | (_, .inr vs) :: r => vs ++ boundValues r

theorem boundValues_zip_inl (ps : List String) (vs : List V) (h : ps.length = vs.length) :
    boundValues (ps.zip (vs.map Sum.inl)) = vs := by
  induction ps generalizing vs with
  | nil => cases vs <;> simp_all [boundValues]
  | cons p ps ih =>
    cases vs with
    | nil => simp at h
    | cons v vs => simp [boundValues, ih vs (by simpa using h)]

theorem boundValues_append (a b : List (String × Sum V (List V))) :
    boundValues (a ++ b) = boundValues a ++ boundValues b := by
  induction a with
  | nil => simp [boundValues]
  | cons x xs ih =>
    obtain ⟨n, v⟩ := x
    cases v <;> simp [boundValues, ih]

/-- fixed arity: accepted exactly when the counts agree, and then every argument is bound, in order -/
theorem bindArgs_fixed (ps : List String) (args : List V) :
    (args.length = ps.length → ∃ b, Sem.bindArgs ps false args = .ok b ∧ boundValues b = args ∧ b.map Prod.fst = ps) ∧
    (args.length ≠ ps.length → ∃ e, Sem.bindArgs ps false args = .error e) := by
  constructor
  · intro h
    refine ⟨ps.zip (args.map Sum.inl), ?_, boundValues_zip_inl ps args h.symm, ?_⟩
    · simp [Sem.bindArgs, h]
    · simp [List.map_fst_zip, h]
  · intro h
    simp [Sem.bindArgs, h]

/-- variadic: accepted when at least the fixed parameters are supplied; the fixed parameters get
    the first arguments, the variadic parameter gets ALL the remaining ones, nothing is lost -/
theorem bindArgs_variadic (ps : List String) (args : List V) (hps : ps ≠ [])
    (h : ps.length - 1 ≤ args.length) :
    ∃ b, Sem.bindArgs ps true args = .ok b ∧ boundValues b = args := by
  have hlt : ¬ args.length < ps.length - 1 := by omega
  refine ⟨(ps.take (ps.length - 1)).zip ((args.take (ps.length - 1)).map Sum.inl) ++
      [(ps.getLast!, Sum.inr (args.drop (ps.length - 1)))], by simp [Sem.bindArgs, hlt], ?_⟩
  rw [boundValues_append, boundValues_zip_inl]
  · simp [boundValues]
  · simp [List.length_take]; omega

/-! ### variables: fresh per declaration, shared through boxes -/

/-- DEFINELOCAL stores the value in the slot itself, replacing whatever was there — also a box
    that a closure captured: the declaration creates a fresh variable, the closure keeps the old one -/
theorem defineLocal_fresh (s : State) (idx : Nat) (v : V)
    (hop : exec (opnd1 1) s = (.ok idx, s))
    (hsp : 1 ≤ s.sp ∧ s.sp ≤ (stackSize : Int))
    (hslot : 0 ≤ (s.frames[s.curFrame]!).bp + idx ∧ (s.frames[s.curFrame]!).bp + idx < (stackSize : Int))
    (hv : s.stack[(s.sp - 1).toNat]! = v) :
    exec execDefineLocal s = (.ok .next,
      { s with stack := (s.stack.set! ((s.frames[s.curFrame]!).bp + idx).toNat v).set! (s.sp - 1).toNat .nil,
               sp := s.sp - 1, ip := s.ip + 1 }) ∧
    (exec execDefineLocal s).2.heap = s.heap := by
  have e : exec execDefineLocal s = (.ok .next,
      { s with stack := (s.stack.set! ((s.frames[s.curFrame]!).bp + idx).toNat v).set! (s.sp - 1).toNat .nil,
               sp := s.sp - 1, ip := s.ip + 1 }) := by
    unfold execDefineLocal
    simp only [exec_bind, hop, exec_curFrame, exec_getSp]
    rw [exec_stackGet _ _ (by omega)]
    simp only [hv]
    rw [exec_stackSet _ _ _ hslot]
    simp only [exec_setSp]
    rw [exec_stackSet _ _ _ (by simp; omega)]
    simp only [exec_bumpIp, exec_pure]
  exact ⟨e, by rw [e]⟩

/-- SETLOCAL on a slot holding a box (whose cell is a box cell, as in every VM state) writes THROUGH the box (the captured variable itself is
    updated, so every closure sharing it sees the assignment); the slot keeps the same box -/
theorem setLocal_writes_through_box (s : State) (idx : Nat) (v : V) (a : Addr)
    (hop : exec (opnd1 1) s = (.ok idx, s))
    (hsp : 1 ≤ s.sp ∧ s.sp ≤ (stackSize : Int))
    (hslot : 0 ≤ (s.frames[s.curFrame]!).bp + idx ∧ (s.frames[s.curFrame]!).bp + idx < (stackSize : Int))
    (hv : s.stack[(s.sp - 1).toNat]! = v)
    (hbox : s.stack[((s.frames[s.curFrame]!).bp + idx).toNat]! = .box a)
    (hcell : ∃ w, s.heap[a]? = some (.box w)) :
    exec execSetLocal s = (.ok .next,
      { s with heap := s.heap.set! a (.box v), stack := s.stack.set! (s.sp - 1).toNat .nil,
               sp := s.sp - 1, ip := s.ip + 1 }) := by
  unfold execSetLocal
  simp only [exec_bind, hop, exec_getSp]
  rw [exec_stackGet _ _ (by omega)]
  simp only [hv, exec_curFrame]
  rw [exec_stackGet _ _ hslot]
  obtain ⟨w, hw⟩ := hcell
  have hbs : exec (boxSet a v) s = (.ok (), { s with heap := s.heap.set! a (.box v) }) := by
    unfold boxSet heapGet
    simp only [exec_bind, exec_getS, hw, exec_pure, exec_heapSet]
  simp only [hbox, exec_bind, hbs, exec_setSp]
  rw [exec_stackSet _ _ _ (by simp; omega)]
  simp only [exec_bumpIp, exec_pure]

/-! ### call argument binding in the VM model (vm.go xOpCallCompiled, no spread) -/

set_option linter.unusedSimpArgs false
set_option linter.unusedVariables false

theorem foldl_set_size (st : Array V) (v : V) (f : Nat → Nat) (l : List Nat) :
    (l.foldl (fun st k => st.setIfInBounds (f k) v) st).size = st.size := by
  induction l generalizing st with
  | nil => rfl
  | cons k r ih => simp [List.foldl_cons, ih]

theorem foldl_set_get? (st : Array V) (v : V) (f : Nat → Nat) (l : List Nat) (j : Nat) :
    (l.foldl (fun st k => st.setIfInBounds (f k) v) st)[j]? =
      if (∃ k ∈ l, f k = j) ∧ j < st.size then some v else st[j]? := by
  induction l generalizing st with
  | nil => simp
  | cons k r ih =>
    simp only [List.foldl_cons]
    rw [ih]
    by_cases hk : f k = j
    · subst hk
      by_cases hs : f k < st.size
      · simp [hs, Array.getElem?_setIfInBounds]
      · simp [hs]
    · by_cases hr : ∃ k' ∈ r, f k' = j
      · simp [hr, hk, Array.getElem?_setIfInBounds]
      · simp [hr, hk, Array.getElem?_setIfInBounds]

def fillLocals (st : Array V) (bp : Int) (numParams numLocals : Nat) : Array V :=
  (List.range' 0 (numLocals - numParams)).foldl (fun st (k : Nat) => st.set! (bp + (numParams : Int) + (k : Int)).toNat .undefined) st

theorem fillLocals_get? (st : Array V) (bp : Int) (np nl j : Nat) (hbp : 0 ≤ bp) :
    (fillLocals st bp np nl)[j]? =
      if (bp.toNat + np ≤ j ∧ j < bp.toNat + nl) ∧ j < st.size then some .undefined else st[j]? := by
  unfold fillLocals
  simp only [Array.set!_eq_setIfInBounds]
  rw [foldl_set_get? st .undefined (fun k => (bp + (np : Int) + (k : Int)).toNat)]
  have : (∃ k ∈ List.range' 0 (nl - np), (bp + (np : Int) + (k : Int)).toNat = j) ↔ (bp.toNat + np ≤ j ∧ j < bp.toNat + nl) := by
    constructor
    · rintro ⟨k, hk, rfl⟩
      simp [List.mem_range'] at hk
      omega
    · intro ⟨h1, h2⟩
      refine ⟨j - (bp.toNat + np), ?_, ?_⟩
      · simp [List.mem_range']; omega
      · omega
  simp only [this]

/-- the arguments (= parameters) are not touched -/
theorem fillLocals_param (st : Array V) (bp : Int) (np nl i : Nat) (hbp : 0 ≤ bp) (hi : i < np) :
    (fillLocals st bp np nl)[(bp + i).toNat]! = st[(bp + i).toNat]! := by
  have h := fillLocals_get? st bp np nl (bp + i).toNat hbp
  have hn : ¬ (bp.toNat + np ≤ (bp + (i : Int)).toNat) := by omega
  simp only [hn, false_and, if_false] at h
  simp [getElem!_def, h]

/-- every other local starts as `undefined` -/
theorem fillLocals_local (st : Array V) (bp : Int) (np nl i : Nat) (hbp : 0 ≤ bp) (h1 : np ≤ i) (h2 : i < nl)
    (hs : (bp + i).toNat < st.size) :
    (fillLocals st bp np nl)[(bp + i).toNat]! = .undefined := by
  have h := fillLocals_get? st bp np nl (bp + i).toNat hbp
  have hy : (bp.toNat + np ≤ (bp + (i : Int)).toNat ∧ (bp + (i : Int)).toNat < bp.toNat + nl) ∧ (bp + (i : Int)).toNat < st.size := by
    refine ⟨⟨by omega, by omega⟩, hs⟩
  simp only [hy, and_self, if_true] at h
  simp [getElem!_def, h]

/-- `fillUndefined` (the loop `for i := numParams; i < numLocals; i++ { vm.stack[basePointer+i] = Undefined }`) -/
theorem exec_fillUndefined (lo : Int) (n : Nat) (s : State) (hb : ∀ k, k < n → 0 ≤ lo + (k : Int) ∧ lo + (k : Int) < (stackSize : Int)) :
    exec (fillUndefined lo n) s =
      (.ok (), { s with stack := (List.range' 0 n).foldl (fun st (k : Nat) => st.set! (lo + (k : Int)).toNat .undefined) s.stack }) := by
  unfold fillUndefined
  simp only [exec_bind]
  rw [exec_range_stackSet .undefined n s (fun k => lo + (k : Int)) hb]
  rfl

/-- the part of xOpCallCompiled after the argument binding, when binding succeeded in state `t`
    and the call is not a self tail call: locals initialised, new frame entered -/
theorem exec_callCompiled_of_bind (fa : Addr) (numArgs flags : Int) (s t : State) (code : Code) (free : Option (List Addr))
    (hcell : exec (fnCell fa) s = (.ok (code, free), s))
    (hbind : exec (bindArgs code (s.sp - numArgs) numArgs flags) s = (.ok (.ok ()), t))
    (hself : (t.frames[t.curFrame]!).fn ≠ some fa)
    (hfi : 0 ≤ t.frameIndex ∧ t.frameIndex + 1 ≤ (frameSize : Int) - 1)
    (hbp : 0 ≤ s.sp - numArgs) (hroom : s.sp - numArgs + code.numLocals ≤ (stackSize : Int))
    (hnl : code.numParams ≤ code.numLocals) :
    exec (callCompiled fa numArgs flags) s = (.ok (.ok ()),
      { t with stack := fillLocals t.stack (s.sp - numArgs) code.numParams code.numLocals,
               frameIndex := t.frameIndex + 1,
               frames := (t.frames.modify t.curFrame fun f => { f with ip := t.ip + 2 }).modify t.frameIndex.toNat fun f =>
                  { f with fn := some fa, free := free, handlers := none, bp := s.sp - numArgs, discard := false },
               curFrame := t.frameIndex.toNat, sp := s.sp - numArgs + code.numLocals, ip := -1 }) := by
  unfold callCompiled
  simp only [exec_bind, hcell, exec_getSp, hbind, exec_pure]
  have hloop := exec_fillUndefined (s.sp - numArgs + (code.numParams : Int)) ((code.numLocals : Int) - code.numParams).toNat t
      (by intro k hk; constructor <;> omega)
  rw [hloop]
  have hne : ((t.frames[t.curFrame]!).fn == some fa) = false := by simpa using hself
  simp only [exec_curFrame, exec_getIp, hne, Bool.false_eq_true, ↓reduceIte, exec_getS]
  have h1 : ¬ (t.frameIndex < 0) := by omega
  have h1' : ¬ (t.frameIndex ≥ (frameSize : Int)) := by omega
  have h2 : ¬ (t.frameIndex + 1 > (frameSize : Int) - 1) := by omega
  simp [exec_bind, exec_getS, exec_modS, exec_setSp, exec_setIp, exec_pure, exec_setCurFrame, enterFrame, h1, h1', h2, fillLocals]
  rfl

/-- fixed arity, wrong number of arguments: WrongNumberOfArgumentsError, nothing else happens -/
theorem callCompiled_fixed_arity_error (fa : Addr) (numArgs : Int) (s : State) (code : Code) (free : Option (List Addr))
    (hcell : exec (fnCell fa) s = (.ok (code, free), s))
    (hnv : code.variadic = false) (hargs : numArgs ≠ code.numParams) :
    exec (callCompiled fa numArgs 0) s =
      (.ok (.error (.named "WrongNumberOfArgumentsError" (wantEq code.numParams numArgs))), s) := by
  unfold callCompiled bindArgs
  simp only [exec_bind, hcell, exec_getSp]
  simp [hnv, hargs, exec_pure]

/-- fixed arity, right number of arguments, not a self tail call: a new frame is entered whose base
    pointer is the first argument — the arguments ARE the parameters, in order, untouched — the
    remaining locals are undefined, and the caller's frame remembers where to continue. -/
theorem callCompiled_fixed (fa : Addr) (numArgs : Int) (s : State) (code : Code) (free : Option (List Addr))
    (hcell : exec (fnCell fa) s = (.ok (code, free), s))
    (hnv : code.variadic = false) (hargs : numArgs = code.numParams)
    (hself : (s.frames[s.curFrame]!).fn ≠ some fa)
    (hfi : 0 ≤ s.frameIndex ∧ s.frameIndex + 1 ≤ (frameSize : Int) - 1)
    (hbp : 0 ≤ s.sp - numArgs) (hroom : s.sp - numArgs + code.numLocals ≤ (stackSize : Int))
    (hnl : code.numParams ≤ code.numLocals) :
    exec (callCompiled fa numArgs 0) s = (.ok (.ok ()),
      { s with stack := fillLocals s.stack (s.sp - numArgs) code.numParams code.numLocals,
               frameIndex := s.frameIndex + 1,
               frames := (s.frames.modify s.curFrame fun f => { f with ip := s.ip + 2 }).modify s.frameIndex.toNat fun f =>
                  { f with fn := some fa, free := free, handlers := none, bp := s.sp - numArgs, discard := false },
               curFrame := s.frameIndex.toNat, sp := s.sp - numArgs + code.numLocals, ip := -1 }) := by
  have hbind : exec (bindArgs code (s.sp - numArgs) numArgs 0) s = (.ok (.ok ()), s) := by
    unfold bindArgs
    simp [hnv, hargs, exec_pure]
  exact exec_callCompiled_of_bind fa numArgs 0 s s code free hcell hbind hself hfi hbp hroom hnl

/-- variadic callee, too few arguments: WrongNumberOfArgumentsError -/
theorem callCompiled_variadic_arity_error (fa : Addr) (numArgs : Int) (s : State) (code : Code) (free : Option (List Addr))
    (hcell : exec (fnCell fa) s = (.ok (code, free), s))
    (hv : code.variadic = true) (hargs : numArgs < (code.numParams : Int) - 1) :
    exec (callCompiled fa numArgs 0) s =
      (.ok (.error (.named "WrongNumberOfArgumentsError" (wantGE ((code.numParams : Int) - 1) numArgs))), s) := by
  unfold callCompiled bindArgs
  simp only [exec_bind, hcell, exec_getSp]
  simp [hv, hargs, exec_pure]

set_option maxHeartbeats 2000000 in
/-- variadic callee with at least the fixed parameters supplied (no spread), not a self tail call:
    the fixed parameters are the first arguments, untouched; ALL remaining arguments, in order,
    become a fresh array stored in the variadic parameter's slot; the other locals are undefined. -/
theorem callCompiled_variadic (fa : Addr) (numArgs : Int) (s : State) (code : Code) (free : Option (List Addr))
    (hcell : exec (fnCell fa) s = (.ok (code, free), s))
    (hv : code.variadic = true) (hnp : 1 ≤ code.numParams) (hargs : (code.numParams : Int) - 1 ≤ numArgs)
    (hself : (s.frames[s.curFrame]!).fn ≠ some fa)
    (hfi : 0 ≤ s.frameIndex ∧ s.frameIndex + 1 ≤ (frameSize : Int) - 1)
    (hbp : 0 ≤ s.sp - numArgs) (hsp : s.sp ≤ (stackSize : Int))
    (hroom : s.sp - numArgs + code.numLocals ≤ (stackSize : Int))
    (hnl : code.numParams ≤ code.numLocals) :
    let bp := s.sp - numArgs
    let rest := (s.stack.toList.drop (bp + code.numParams - 1).toNat).take (numArgs - ((code.numParams : Int) - 1)).toNat
    exec (callCompiled fa numArgs 0) s = (.ok (.ok ()),
      { s with heap := s.heap.push (.arr rest.toArray),
               stack := fillLocals (s.stack.set! (bp + code.numParams - 1).toNat (.arr s.heap.size 0 rest.length)) bp code.numParams code.numLocals,
               frameIndex := s.frameIndex + 1,
               frames := (s.frames.modify s.curFrame fun f => { f with ip := s.ip + 2 }).modify s.frameIndex.toNat fun f =>
                  { f with fn := some fa, free := free, handlers := none, bp := bp, discard := false },
               curFrame := s.frameIndex.toNat, sp := bp + code.numLocals, ip := -1 }) := by
  intro bp rest
  have hbind : exec (bindArgs code (s.sp - numArgs) numArgs 0) s = (.ok (.ok ()),
      { s with heap := s.heap.push (.arr rest.toArray),
               stack := s.stack.set! (bp + code.numParams - 1).toNat (.arr s.heap.size 0 rest.length) }) := by
    unfold bindArgs
    have hlt : ¬ (numArgs < (code.numParams : Int) - 1) := by omega
    simp only [hv, Bool.not_true, Bool.false_eq_true, ↓reduceIte, bne_iff_ne, ne_eq, hlt, decide_false, exec_pure, exec_bind,
      beq_self_eq_true]
    by_cases heq : numArgs = (code.numParams : Int) - 1
    · have hset := fun (v : V) (t : State) => exec_stackSet s.sp v t (by constructor <;> omega)
      have hrest : rest = [] := by
        show List.take _ _ = []
        have : (numArgs - ((code.numParams : Int) - 1)).toNat = 0 := by omega
        rw [this]; simp
      have e1 : (s.sp - ((code.numParams : Int) - 1) + code.numParams - 1).toNat = s.sp.toNat := by omega
      have e0 : s.sp - ((code.numParams : Int) - 1) + ((code.numParams : Int) - 1) = s.sp := by omega
      simp only [heq, beq_self_eq_true, ↓reduceIte, exec_bind, exec_newArray, e0]
      simp only [hset, exec_pure, hrest, bp, heq, e1]
    · have hslice := fun (t : State) => exec_stackSlice (s.sp - numArgs + code.numParams - 1) (s.sp - numArgs + numArgs) t
          (by refine ⟨?_, ?_, ?_⟩ <;> omega)
      have hset := fun (v : V) (t : State) => exec_stackSet (s.sp - numArgs + code.numParams - 1) v t (by constructor <;> omega)
      have hb : (numArgs == (code.numParams : Int) - 1) = false := by simpa using heq
      have e2 : s.sp - numArgs + numArgs - (s.sp - numArgs + ↑code.numParams - 1) = numArgs - ((code.numParams : Int) - 1) := by omega
      simp only [hb, Bool.false_eq_true, ↓reduceIte, exec_bind, hslice, exec_newArray]
      have e3 : s.sp - (s.sp - numArgs + ↑code.numParams - 1) = numArgs - ((code.numParams : Int) - 1) := by omega
      simp [hset, exec_pure, bp, rest, e2, e3]
  exact exec_callCompiled_of_bind fa numArgs 0 s _ code free hcell hbind hself hfi hbp hroom hnl

/-- the arguments of a call as they lie on the operand stack: `stack[sp-numArgs : sp]` -/
def argsOnStack (s : State) (numArgs : Int) : List V :=
  (s.stack.toList.drop (s.sp - numArgs).toNat).take numArgs.toNat

/-- the array the variadic parameter receives is exactly "all remaining arguments" of the
    reference rule `Sem.bindArgs`: the arguments after the first `numParams - 1` -/
theorem rest_eq_drop_args (s : State) (numArgs : Int) (np : Nat) (hnp : 1 ≤ np) (hbp : 0 ≤ s.sp - numArgs)
    (hargs : (np : Int) - 1 ≤ numArgs) :
    (s.stack.toList.drop (s.sp - numArgs + np - 1).toNat).take (numArgs - ((np : Int) - 1)).toNat
      = (argsOnStack s numArgs).drop (np - 1) := by
  unfold argsOnStack
  rw [List.drop_take, List.drop_drop]
  congr 2 <;> omega

/-! ### numbering ties -/

theorem vm_opcodes_match_source :
    VM.OpConstant = Gen.Opcodes.OpConstant ∧ VM.OpCall = Gen.Opcodes.OpCall ∧
    VM.OpGetLocal = Gen.Opcodes.OpGetLocal ∧ VM.OpSetLocal = Gen.Opcodes.OpSetLocal ∧
    VM.OpDefineLocal = Gen.Opcodes.OpDefineLocal ∧ VM.OpClosure = Gen.Opcodes.OpClosure ∧
    VM.OpGetFree = Gen.Opcodes.OpGetFree ∧ VM.OpSetFree = Gen.Opcodes.OpSetFree ∧
    VM.OpGetLocalPtr = Gen.Opcodes.OpGetLocalPtr ∧ VM.OpGetFreePtr = Gen.Opcodes.OpGetFreePtr ∧
    VM.OpReturn = Gen.Opcodes.OpReturn ∧ VM.OpJump = Gen.Opcodes.OpJump ∧
    VM.OpJumpFalsy = Gen.Opcodes.OpJumpFalsy ∧ VM.OpAndJump = Gen.Opcodes.OpAndJump ∧
    VM.OpOrJump = Gen.Opcodes.OpOrJump ∧ VM.OpSetupTry = Gen.Opcodes.OpSetupTry ∧
    VM.OpSetupCatch = Gen.Opcodes.OpSetupCatch ∧ VM.OpSetupFinally = Gen.Opcodes.OpSetupFinally ∧
    VM.OpThrow = Gen.Opcodes.OpThrow ∧ VM.OpFinalizer = Gen.Opcodes.OpFinalizer ∧
    VM.OpCallName = Gen.Opcodes.OpCallName ∧ VM.OpBinaryOp = Gen.Opcodes.OpBinaryOp ∧
    VM.OpUnary = Gen.Opcodes.OpUnary ∧ VM.OpArray = Gen.Opcodes.OpArray ∧ VM.OpMap = Gen.Opcodes.OpMap ∧
    VM.OpGetIndex = Gen.Opcodes.OpGetIndex ∧ VM.OpSetIndex = Gen.Opcodes.OpSetIndex ∧
    VM.OpLoadModule = Gen.Opcodes.OpLoadModule ∧ VM.OpStoreModule = Gen.Opcodes.OpStoreModule ∧
    VM.OpIterInit = Gen.Opcodes.OpIterInit ∧ VM.OpPop = Gen.Opcodes.OpPop := by
  decide

theorem compiler_opcodes_match_vm :
    Compile.OpConstant = VM.OpConstant ∧ Compile.OpCall = VM.OpCall ∧ Compile.OpReturn = VM.OpReturn ∧
    Compile.OpDefineLocal = VM.OpDefineLocal ∧ Compile.OpSetLocal = VM.OpSetLocal ∧
    Compile.OpGetLocal = VM.OpGetLocal ∧ Compile.OpClosure = VM.OpClosure ∧
    Compile.OpSetupTry = VM.OpSetupTry ∧ Compile.OpThrow = VM.OpThrow ∧ Compile.OpFinalizer = VM.OpFinalizer ∧
    Compile.OpJump = VM.OpJump ∧ Compile.OpJumpFalsy = VM.OpJumpFalsy ∧ Compile.OpPop = VM.OpPop := by
  decide

theorem vm_tokens_match_source :
    VM.tokOfNat Gen.tok_Add = .Add ∧ VM.tokOfNat Gen.tok_Sub = .Sub ∧ VM.tokOfNat Gen.tok_Mul = .Mul ∧
    VM.tokOfNat Gen.tok_Quo = .Quo ∧ VM.tokOfNat Gen.tok_Rem = .Rem ∧ VM.tokOfNat Gen.tok_And = .And ∧
    VM.tokOfNat Gen.tok_Or = .Or ∧ VM.tokOfNat Gen.tok_Xor = .Xor ∧ VM.tokOfNat Gen.tok_Shl = .Shl ∧
    VM.tokOfNat Gen.tok_Shr = .Shr ∧ VM.tokOfNat Gen.tok_AndNot = .AndNot ∧
    VM.tokOfNat Gen.tok_Less = .Less ∧ VM.tokOfNat Gen.tok_Greater = .Greater ∧
    VM.tokOfNat Gen.tok_LessEq = .LessEq ∧ VM.tokOfNat Gen.tok_GreaterEq = .GreaterEq ∧
    VM.tokOfNat Gen.tok_Not = .Not ∧ VM.tokOfNat Gen.tok_Equal = .Equal ∧ VM.tokOfNat Gen.tok_NotEqual = .NotEqual := by
  decide

/-! ### compile ⊑ Sem: expressions and statements over uncaptured scalar locals

  The reference semantics (Spec/Sem) keeps every variable in a heap box, the VM keeps an uncaptured
  local in a stack slot: the two heaps are NOT equal.  The relation between a VM state `s` and a
  reference state `t` (Proofs/CompSimInv):
  * `HeapRel s t`: `t.heap` is `s.heap` followed by cells that are all variable boxes (the fragment
    allocates nothing else until an error object is made);
  * `Static σ N env binds`, `Dyn binds t s bp`: `binds` lists the pairs (slot, box address) of the
    variables in scope, shadowed ones included; a name the compiler resolves to slot `i`
    (`σ = localIdx cs`, computed from the compiler's tables) is bound in `env` to a box `a` with
    `(i, a) ∈ binds`; slots are below `N = nextIndex` of the tables; different pairs have different slots
    and different boxes; box `a` lies behind the VM heap and holds the SCALAR that slot `bp + i` holds
    (`LocalsOK` is the projection the expression theorem needs).
  Scalars (`Scalar`: undefined, int, uint, float, char, bool, string, bytes) are the values the
  fragment computes; on them the object layer shared by the VM model and the reference semantics
  (`vBinaryOp`, `vUnary`, `vEqual`, `isFalsy`) neither reads nor writes the state
  (Proofs/CompSimScalar), which is why the simulation does not depend on the heap relation.

  `compile_expr_correct`: `e` in `ExprF` (literals, `( )`, unary, binary, `==` `!=`, `&&` `||`, `?:`,
  identifiers resolved to locals of the current function), compiled by the TOTAL compile model from
  `cs` to `cs'`; the function the VM runs has those bytes on `[cs.insts.size, cs'.insts.size)`
  (`hcode`), the constants are those of a pool extending `cs'.constants` (`hK`), `VMOk` (not aborted,
  stack 2048, current frame runs `code`, base pointer `bp`, `lo ≤ sp`), `ip` in front of the code,
  `need e` free slots, `LocalsOK`.  For EVERY fuel on which `Sem.evalExpr` returns `r` in state `t1`
  (`Outcome`):
  * `r = .val v`: the reference state is unchanged (`t = t1`), `v` is a scalar, and the VM loop gets
    (`Reach`: `loopF (n + k)` from `s` = `loopF k` from `s'`, all `k`) to a state with `v` pushed, `ip` at
    the end of the code, everything below the old `sp`, the control part (`Same`: frames, handlers,
    frame index, codes, constants, globals, modules, err …) and the VM HEAP unchanged;
  * `r = .thr a`: the VM loop reaches the call `failWith oe` (= `throwGenErr`) inside an instruction
    with the VM heap and the control part unchanged, `oe = .named name msg`, and the reference
    semantics' error (`a`, `t1`) is `rtErrOfOpErr oe` run in its own state `t`: both sides make the
    error object from the same name and message (at different addresses: the heaps differ).

  `compile_stmt_correct` / `compile_stmts_correct`: a statement (list) of `StmtF` — `e;`, `x := e`,
  `var x = e`, `var x`, `var (a = e; b; …)` (a group of one-name specifications), `x = e`, `x op= e`, `x++`, `x--`, `{ … }`, `if c { … }`, `if c { … } else { … }` / `else if`
  (`c` an expression of the fragment that is not a boolean literal, or the literal `true`: the compiler
  then emits the body only, or the literal `false`: a JUMP and the else part only), `if init; c { … }` with or without `else` (`init` a statement of the
  fragment, its variables in scope of `c`, body and else part), `return`, `return e`, the empty statement — compiled from `cs` to `cs'` in a state with a function table, outside `try`,
  whose slots fit (`CsOK`), the names of `B` resolved to locals (`Cov`); `L` bounds the function's
  `NumLocals` (`fnMax cs'.tables ≤ L`), the local slots `[bp, bp + L)` lie below `sp`.  For EVERY fuel
  on which `Sem.execStmt` / `Sem.execList` completes with `c` (`OutS`):
  * `normal`: the VM gets behind the code with `sp` where it was, the stack unchanged outside the
    local slots, VM heap and control part unchanged (`Frm`), and the states are related again through
    an extension `binds'` of `binds` (for the symbols and `nextIndex` of `cs'`, the new environment);
  * `ret v`: the VM stands in front of a RETURN instruction, with `v` (a scalar) on top of the stack
    for RETURN 1, `v = undefined` for RETURN 0; `HeapRel` holds;
  * `thr a`: as for expressions (`failWith oe`, `oe` named, states related when the error is made);
  * `break` / `continue` do not occur.
  What `Model/Sym` (symbol_table.go) contributes (Proofs/CompSimTab): `localIdx` is a lookup through
  the block tables of the function; a block (`Fork(true)` … `Parent`) leaves the enclosing tables
  unchanged up to `maxDefinition`, so the slot of a variable is stable while it is in scope and the
  block's slots are reused afterwards (their pairs leave `binds`); `DefineLocal` of a new name takes
  slot `nextIndex`, above every slot in use, and raises the function's `NumLocals` above it.

  `C02_fragment`: a whole script of the fragment (no `param`), compiled by `Compile.compileFile`,
  loaded into a fresh VM (`loadProg`) and run by `VM.runFrom` (prologue, loop, epilogue): whatever
  `Sem.runProgram` returns on the heap the VM starts with, `Run` returns — the same value for every
  large enough step budget, or an uncaught `*RuntimeError` with the same name and message.  No side
  condition on the script: when the statement list completes normally, `Bytecode()` has appended its
  `RETURN 0` (`C02_return_appended`: normal completion in Spec/Sem implies the syntactic predicate `fallL` —
  no `return` on the path to the end —, and for `fallL` scripts the scan of `Bytecode()` over the stream of
  the compile model cannot end in "last opcode RETURN, no pending jump": the last instruction is not a
  RETURN or a jump of the last `if` targets the end; Proofs/CompSimFall, on builder-c05's `Walk` /
  `LastAt` / `PendOK`), and the VM returns `undefined` there.  The only hypothesis beside "in the fragment,
  compiles, stack suffices" is that the builtin indices given to the compiler are valid (`< numBuiltins`).
  `C02_fragment_list` is the same for `Sem.execList` with the three completions separated.

  Not covered (the ladder continues): loops (`break` / `continue` patching), captured variables /
  closures / free variables, calls, arrays / maps / index / selector / slice and every other value
  with a heap address (the heap relation then needs an address map), `try` / `catch` / `finally` /
  `throw` (C03), globals, builtins, `const` declarations, `var a, b = …` (several names in one specification), destructuring,
  `param`, imports / modules, `if init; <boolean literal>`, and the
  optimizer (C01).  -/

open UgoVerif.CompSim in
/-- **compile_expr_correct** — statement in the header comment of this section. -/
theorem compile_expr_correct (F : FloatOps) (e : Ast.Expr) (cs cs' : Compile.CState)
    (hc : Compile.runCM (Compile.compileExpr e) cs = (.ok (), cs'))
    (hF : ExprF (localIdx cs) e = true)
    (K : Array Compile.Const) (code : Code) (bp lo : Nat) (env : Sem.Env) (s t : State)
    (hK : Compile.IsPre cs'.constants K)
    (hcode : CodeHas code cs'.insts cs.insts.size)
    (hvm : VMOk K code bp lo s)
    (hip : s.ip + 1 = (cs.insts.size : Int))
    (hsp : s.sp + need e ≤ 2048)
    (hloc : LocalsOK (localIdx cs) env t s bp lo)
    (fuel : Nat) (ss ss1 : Sem.SemSt) (r : Sem.ER) (t1 : State)
    (hsem : exec ((Sem.evalExpr F fuel env e).run ss) t = (.ok (r, ss1), t1)) :
    ss1 = ss ∧ Shape cs cs' ∧ Outcome F s t t1 cs'.insts.size r := by
  have henv : ∀ n, (localIdx cs n).isSome → (Sem.lookupEnv n env).isSome := by
    intro n hn
    cases hi : localIdx cs n with
    | none => simp [hi] at hn
    | some i =>
      obtain ⟨a, v, hl, _⟩ := hloc n i hi
      simp [hl]
  rw [evalExpr_eq_evalF F (localIdx cs) env henv fuel e hF ss] at hsem
  obtain ⟨rfl, h1⟩ := withSt_inv hsem
  obtain ⟨sh, sim⟩ := good_all F e cs cs' hc hF
  exact ⟨rfl, sh, sim K code bp lo env s t fuel _ _ hK hcode hvm hip hsp hloc h1⟩

open UgoVerif.CompSim in
/-- **compile_stmt_correct** — one statement of the fragment `StmtF`; statement in the header comment. -/
theorem compile_stmt_correct (F : FloatOps) (B : List String) (st : Ast.Stmt) (hF : StmtF B st = true)
    (cs cs' : Compile.CState) (hc : Compile.runCM (Compile.compileStmt st) cs = (.ok (), cs'))
    (hcov : Cov B (localIdx cs)) (hok : CsOK cs)
    (K : Array Compile.Const) (code : Code) (bp L : Nat) (env : Sem.Env) (binds : List (Nat × Addr)) (s t : State)
    (hK : Compile.IsPre cs'.constants K)
    (hcode : CodeHas code cs'.insts cs.insts.size)
    (hvm : VMOk K code bp (bp + L) s)
    (hip : s.ip + 1 = (cs.insts.size : Int))
    (hsp : s.sp + needS st ≤ 2048)
    (hL : fnMax cs'.tables ≤ L)
    (hst : Static (localIdx cs) (Compile.nextIndex cs.tables) env binds) (hdy : Dyn binds t s bp)
    (fuel : Nat) (ss ss' : Sem.SemSt) (c : Sem.Comp) (env' : Sem.Env) (t' : State)
    (hsem : exec ((Sem.execStmt F fuel env st).run ss) t = (.ok ((c, env'), ss'), t')) :
    ss = ss' ∧ StEff cs cs' ∧ CsOK cs' ∧ Cov (defsOf B st) (localIdx cs') ∧
      OutS F code cs'.insts.size bp L (localIdx cs') (Compile.nextIndex cs'.tables) binds s t' env' c := by
  obtain ⟨h1, h2, h3, h4⟩ := good_stmt F st B hF cs cs' hc hcov hok
  obtain ⟨h5, h6⟩ := h4 fuel K code bp L env binds s t ss ss' c env' t' hK hcode hvm hip hsp hL hst hdy hsem
  exact ⟨h5, h1, h2, h3, h6⟩

open UgoVerif.CompSim in
/-- **compile_stmts_correct** — a statement list of the fragment; statement in the header comment. -/
theorem compile_stmts_correct (F : FloatOps) (B : List String) (sts : List Ast.Stmt) (hF : StmtsF B sts = true)
    (cs cs' : Compile.CState) (hc : Compile.runCM (Compile.compileStmts sts) cs = (.ok (), cs'))
    (hcov : Cov B (localIdx cs)) (hok : CsOK cs)
    (K : Array Compile.Const) (code : Code) (bp L : Nat) (env : Sem.Env) (binds : List (Nat × Addr)) (s t : State)
    (hK : Compile.IsPre cs'.constants K)
    (hcode : CodeHas code cs'.insts cs.insts.size)
    (hvm : VMOk K code bp (bp + L) s)
    (hip : s.ip + 1 = (cs.insts.size : Int))
    (hsp : s.sp + needL sts ≤ 2048)
    (hL : fnMax cs'.tables ≤ L)
    (hst : Static (localIdx cs) (Compile.nextIndex cs.tables) env binds) (hdy : Dyn binds t s bp)
    (fuel : Nat) (ss ss' : Sem.SemSt) (c : Sem.Comp) (env' : Sem.Env) (t' : State)
    (hsem : exec ((Sem.execList F fuel env sts).run ss) t = (.ok ((c, env'), ss'), t')) :
    ss = ss' ∧ StEff cs cs' ∧ CsOK cs' ∧ Cov (defsL B sts) (localIdx cs') ∧
      OutS F code cs'.insts.size bp L (localIdx cs') (Compile.nextIndex cs'.tables) binds s t' env' c := by
  obtain ⟨h1, h2, h3, h4⟩ := good_stmts F sts B hF cs cs' hc hcov hok
  obtain ⟨h5, h6⟩ := h4 fuel K code bp L env binds s t ss ss' c env' t' hK hcode hvm hip hsp hL hst hdy hsem
  exact ⟨h5, h1, h2, h3, h6⟩

open UgoVerif.CompSim in
/-- **compile_exprstmt_correct** — the expression statement `e;` (code of `e`, then POP): the instance
    `st = e;` of `compile_stmt_correct`. -/
theorem compile_exprstmt_correct (F : FloatOps) (B : List String) (pos : Ast.Pos) (e : Ast.Expr)
    (hF : ExprF (bnd B) e = true)
    (cs cs' : Compile.CState) (hc : Compile.runCM (Compile.compileStmt (.expr pos e)) cs = (.ok (), cs'))
    (hcov : Cov B (localIdx cs)) (hok : CsOK cs)
    (K : Array Compile.Const) (code : Code) (bp L : Nat) (env : Sem.Env) (binds : List (Nat × Addr)) (s t : State)
    (hK : Compile.IsPre cs'.constants K)
    (hcode : CodeHas code cs'.insts cs.insts.size)
    (hvm : VMOk K code bp (bp + L) s)
    (hip : s.ip + 1 = (cs.insts.size : Int))
    (hsp : s.sp + need e ≤ 2048)
    (hL : fnMax cs'.tables ≤ L)
    (hst : Static (localIdx cs) (Compile.nextIndex cs.tables) env binds) (hdy : Dyn binds t s bp)
    (fuel : Nat) (ss ss' : Sem.SemSt) (c : Sem.Comp) (env' : Sem.Env) (t' : State)
    (hsem : exec ((Sem.execStmt F fuel env (.expr pos e)).run ss) t = (.ok ((c, env'), ss'), t')) :
    ss = ss' ∧ OutS F code cs'.insts.size bp L (localIdx cs') (Compile.nextIndex cs'.tables) binds s t' env' c := by
  obtain ⟨h1, _, _, _, h2⟩ := compile_stmt_correct F B (.expr pos e) hF cs cs' hc hcov hok K code bp L env binds s t hK hcode
    hvm hip hsp hL hst hdy fuel ss ss' c env' t' hsem
  exact ⟨h1, h2⟩

open UgoVerif.CompSim in
/-- **C02_fragment_list** — whole scripts of the fragment against `Sem.execList`: compile-model
    output, loaded and run by the VM model; the three completions separately (`ProgOut`). -/
theorem C02_fragment_list (F : FloatOps) (builtins : List (String × Nat)) (disabled : List String) (file : List Ast.Stmt)
    (bc : Compile.Bytecode) (hF : StmtsF [] file = true) (hc : Compile.compileFile builtins disabled file = .ok bc)
    (hsp : bc.main.numLocals + needL file ≤ 2048) (t : State) (hrel : HeapRel (startState bc) t)
    (fuel : Nat) (ss ss' : Sem.SemSt) (c : Sem.Comp) (env' : Sem.Env) (t' : State)
    (hsem : exec ((Sem.execList F fuel [[]] file).run ss) t = (.ok ((c, env'), ss'), t')) :
    ss = ss' ∧ ProgOut F bc (streamSize builtins disabled file < bc.main.insts.size) t' c :=
  prog_sim F hF hc hsp t hrel fuel ss ss' c env' t' hsem

open UgoVerif.CompSim in
/-- **C02_return_appended** — a script of the fragment whose statement list completes normally in the
    reference semantics: `Bytecode()` appended its `RETURN 0` behind the stream of the statement list
    (so the premise `appended` of `C02_fragment_list`'s normal case holds). -/
theorem C02_return_appended (F : FloatOps) (builtins : List (String × Nat)) (disabled : List String) (file : List Ast.Stmt)
    (bc : Compile.Bytecode) (hb : ∀ p ∈ builtins, p.2 < Gen.numBuiltins)
    (hF : StmtsF [] file = true) (hc : Compile.compileFile builtins disabled file = .ok bc)
    (fuel : Nat) (env env' : Sem.Env) (ss ss' : Sem.SemSt) (t t' : State)
    (hsem : exec ((Sem.execList F fuel env file).run ss) t = (.ok ((.normal, env'), ss'), t')) :
    streamSize builtins disabled file < bc.main.insts.size :=
  appended_of_fall F hb hF hc (normal_fall F hsem)

open UgoVerif.CompSim in
/-- **C02_fragment** — ALL whole scripts of the fragment: what `Sem.runProgram` returns (on a heap that
    is the VM's start heap, possibly followed by boxes), `VM.Run` of the compile model's output
    returns: the same value for every large enough step budget (`undefined` for a script that falls
    off its end), or an uncaught error with the same name and message. -/
theorem C02_fragment (F : FloatOps) (builtins : List (String × Nat)) (disabled : List String) (file : List Ast.Stmt)
    (bc : Compile.Bytecode) (hb : ∀ p ∈ builtins, p.2 < Gen.numBuiltins)
    (hF : StmtsF [] file = true) (hc : Compile.compileFile builtins disabled file = .ok bc)
    (hsp : bc.main.numLocals + needL file ≤ 2048)
    (t : State) (hrel : HeapRel (startState bc) t)
    (fuel : Nat) (ss ss' : Sem.SemSt) (res : Sem.Result) (t' : State)
    (hsem : exec ((Sem.runProgram F fuel file []).run ss) t = (.ok (res, ss'), t')) :
    ss = ss' ∧
    match res with
    | .value v => ∃ n, ∀ fuel, n ≤ fuel → (runFrom F fuel .nil [] (loadProg bc)).1 = VM.Outcome.value v
    | .error a => ∃ (nm msg : String) (n : Nat), ErrIs t'.heap a nm msg ∧ ∀ fuel, n ≤ fuel →
        ∃ a' sfin, runFrom F fuel .nil [] (loadProg bc) = (VM.Outcome.error (.rt a'), sfin) ∧ ErrIs sfin.heap a' nm msg :=
  prog_sim_run_all F hb hF hc hsp t hrel fuel ss ss' res t' hsem

/-! #### non-vacuity: `(1 + x) * 2 < 7 || !b` with `x = 3`, `b = false` -/
namespace Ex
open UgoVerif.Ast UgoVerif.CompSim

deriving instance DecidableEq for V, IterK, Cell

def e0 : Expr :=
  .binary 1 tLOr
    (.binary 2 tLess (.binary 3 tMul (.paren 4 (.binary 5 tAdd (.int 6 1#64) (.ident 7 "x"))) (.int 8 2#64)) (.int 9 7#64))
    (.unary 10 tNot (.ident 11 "b"))

/-- compiler state inside a function whose locals are `x` (slot 0) and `b` (slot 1) -/
def cs0 : Compile.CState :=
  { tables := [{ store := [("x", { name := "x", index := 0, scope := .local_ }), ("b", { name := "b", index := 1, scope := .local_ })],
                 numDefinition := 2, maxDefinition := 2 }],
    builtins := [] }

def cs1 : Compile.CState := (Compile.runCM (Compile.compileExpr e0) cs0).2

def code0 : Code := { insts := cs1.insts, numParams := 0, numLocals := 2, variadic := false }

/-- the VM in front of the expression's code: frame 0 runs the code, `x = 3` and `b = false` in the
    local slots 0 and 1; the VM heap holds the function only -/
def s0 : State :=
  { newState #[code0] #[.fn 0 none] (cs1.constants.map constV) 0 0 with
    stack := ((Array.replicate stackSize V.nil).set! 0 (.int 3#64)).set! 1 (.bool false)
    sp := 2, ip := -1, frameIndex := 1
    frames := emptyFrames.modify 0 fun f => { f with fn := some 0, bp := 0 } }

/-- the state of the reference semantics: the VM heap followed by the boxes of `x` and `b` -/
def t0 : State := { s0 with heap := #[.fn 0 none, .box (.int 3#64), .box (.bool false)] }

def env0 : Sem.Env := [[("x", 1), ("b", 2)]]

def F0 : FloatOps := ⟨fun a _ => a, fun a _ => a, fun a _ => a, fun a _ => a, id, id, id⟩

def isOkU {ε} : Except ε Unit → Bool | .ok _ => true | .error _ => false

/-- the code: CONSTANT 0; GETLOCAL 0; BINARYOP +; CONSTANT 1; BINARYOP *; CONSTANT 2; BINARYOP <;
    ORJUMP 26; GETLOCAL 1; UNARY ! -/
example : cs1.insts = #[1, 0, 0, 5, 0, 8, 12, 1, 0, 1, 8, 14, 1, 0, 2, 8, 39, 15, 0, 0, 0, 26, 5, 1, 9, 42] := by
  decide +kernel
/-- evaluated agreement on this instance: the reference semantics (on its own heap) returns `true` … -/
example : (match (exec ((Sem.evalExpr F0 20 env0 e0).run {}) t0).1 with
    | .ok (.val v, _) => v == .bool true | _ => false) = true := by decide +kernel
/-- … and ten instructions of the VM model leave `true` in slot 2, `sp = 3`, `ip = 25` -/
example : (match exec (loopF F0 10) s0 with
    | (_, s) => s.ip == 25 && s.sp == 3 && s.stack[2]! == .bool true) = true := by decide +kernel

theorem hc0 : Compile.runCM (Compile.compileExpr e0) cs0 = (.ok (), cs1) := by
  have h : isOkU (Compile.runCM (Compile.compileExpr e0) cs0).1 = true := by decide +kernel
  unfold cs1
  cases hr : Compile.runCM (Compile.compileExpr e0) cs0 with
  | mk r c =>
    rw [hr] at h
    cases r with
    | ok u => rfl
    | error e => simp [isOkU] at h

attribute [irreducible] cs1

theorem hvm0 : VMOk cs1.constants code0 0 2 s0 where
  abort := rfl
  size := by decide +kernel
  code := ⟨0, 0, none, by decide +kernel, by decide +kernel, rfl⟩
  bp := by decide +kernel
  consts := constsOK_map _
  lo := by decide +kernel

theorem hloc0 : LocalsOK (localIdx cs0) env0 t0 s0 0 2 := by
  intro n i h
  by_cases hx : n = "x"
  · subst hx
    have h0 : localIdx cs0 "x" = some 0 := by decide +kernel
    rw [h0] at h
    injection h with h; subst h
    exact ⟨1, .int 3#64, by decide +kernel, by decide +kernel, by decide, by decide +kernel, trivial⟩
  · by_cases hb : n = "b"
    · subst hb
      have h0 : localIdx cs0 "b" = some 1 := by decide +kernel
      rw [h0] at h
      injection h with h; subst h
      exact ⟨2, .bool false, by decide +kernel, by decide +kernel, by decide, by decide +kernel, trivial⟩
    · exfalso
      have h1 : ("x" == n) = false := by simpa using fun h' => hx h'.symm
      have h2 : ("b" == n) = false := by simpa using fun h' => hb h'.symm
      simp [localIdx, cs0, Compile.resolveIn, Compile.lookupSym, h1, h2, Compile.rootDisabled] at h

theorem hF0 : ExprF (localIdx cs0) e0 = true := by decide +kernel
theorem hcode0 : CodeHas code0 cs1.insts cs0.insts.size := fun _ _ _ => rfl
theorem hip0 : s0.ip + 1 = (cs0.insts.size : Int) := by decide +kernel
theorem hsp0 : s0.sp + need e0 ≤ 2048 := by decide +kernel
theorem hsz0 : cs1.insts.size = 26 := by decide +kernel

/-- the hypotheses of `compile_expr_correct` are satisfiable (the reference heap has two boxes the VM
    heap does not have), and on this instance it says: the VM gets from `s0` to a state with `true`
    pushed, `sp = 3`, `ip` at the end of the code, its heap unchanged -/
example : ∃ s', Reach F0 s0 s' ∧ s'.stack[2]! = .bool true ∧ s'.sp = 3 ∧ s'.ip + 1 = 26 ∧ s'.frames = s0.frames ∧
    s'.heap = s0.heap := by
  have hres : (match (exec ((Sem.evalExpr F0 20 env0 e0).run {}) t0).1 with
      | .ok (.val (.bool true), _) => true | _ => false) = true := by decide +kernel
  cases hr : exec ((Sem.evalExpr F0 20 env0 e0).run {}) t0 with
  | mk r t1 =>
    rw [hr] at hres
    match r, hres with
    | .ok (.val (.bool true), ss1), _ =>
      have h := compile_expr_correct F0 e0 cs0 cs1 hc0 hF0 cs1.constants code0 0 2 env0 s0 t0
        (Compile.IsPre.refl _) hcode0 hvm0 hip0 hsp0 hloc0 20 {} ss1 _ t1 hr
      obtain ⟨_, _, _, _, s', hreach, hsame, hheap, hip, hsp, _, hget⟩ := h
      exact ⟨s', hreach, hget, by rw [hsp]; rfl, by rw [hip, hsz0]; rfl, hsame.frames, hheap⟩

/-! #### non-vacuity of the statement slice and of `C02_fragment`:
    `x := 3; var y = x * 2; if y > 5 { x = x + y } else { x = 0 }; return x - 1` -/

def file0 : List Stmt :=
  [ .assign 1 tDefine [.ident 1 "x"] [.int 6 3#64],
    .declValue 8 tVar [(some 0, [(12, "y")], [some (.binary 16 tMul (.ident 16 "x") (.int 20 2#64))])],
    .if_ 20 none (.binary 23 tGreater (.ident 23 "y") (.int 27 5#64)) 29
      [.assign 31 tAssign [.ident 31 "x"] [.binary 35 tAdd (.ident 35 "x") (.ident 39 "y")]]
      (some (.block 48 [.assign 50 tAssign [.ident 50 "x"] [.int 54 0#64]])),
    .return_ 59 (some (.binary 66 tSub (.ident 66 "x") (.int 70 1#64))) ]

def bc0 : Compile.Bytecode :=
  match Compile.compileFile [] [] file0 with
  | .ok bc => bc
  | .error _ => default

theorem hcF : Compile.compileFile [] [] file0 = .ok bc0 := by
  have h : (match Compile.compileFile [] [] file0 with | .ok _ => true | .error _ => false) = true := by decide +kernel
  unfold bc0
  cases hr : Compile.compileFile [] [] file0 with
  | ok bc => rfl
  | error e => rw [hr] at h; cases h

/-- the script is in the fragment, the stack suffices -/
theorem hFF : StmtsF [] file0 = true := by decide +kernel
theorem hspF : bc0.main.numLocals + needL file0 ≤ 2048 := by decide +kernel
theorem hb0 : ∀ p ∈ ([] : List (String × Nat)), p.2 < Gen.numBuiltins := fun _ h => by cases h

/-- the compiled script: two locals; CONSTANT 0 (3); DEFINELOCAL 0; GETLOCAL 0; CONSTANT 1 (2); BINARYOP *;
    DEFINELOCAL 1; GETLOCAL 1; CONSTANT 2 (5); BINARYOP >; JUMPFALSY 39; GETLOCAL 0; GETLOCAL 1; BINARYOP +;
    SETLOCAL 0; JUMP 44; CONSTANT 3 (0); SETLOCAL 0; GETLOCAL 0; CONSTANT 4 (1); BINARYOP -; RETURN 1
    (no RETURN appended: the script ends with `return`) -/
example : bc0.main.insts = #[1, 0, 0, 40, 0, 5, 0, 1, 0, 1, 8, 14, 40, 1, 5, 1, 1, 0, 2, 8, 40, 13, 0, 0, 0, 39, 5, 0, 5, 1,
    8, 12, 6, 0, 12, 0, 0, 0, 44, 1, 0, 3, 6, 0, 5, 0, 1, 0, 4, 8, 13, 39, 1] := by decide +kernel

/-- evaluated: the reference semantics returns 8 on the VM's start heap … -/
theorem semF : (match (exec ((Sem.runProgram F0 40 file0 []).run {}) (startState bc0)).1 with
    | .ok (.value v, _) => decide (v = .int 8#64) | _ => false) = true := by decide +kernel
/-- … and so does the VM model's `Run` of the compile model's output -/
example : (match (runFrom F0 100 .nil [] (loadProg bc0)).1 with
    | .value v => decide (v = .int 8#64) | _ => false) = true := by decide +kernel

theorem heapRel_refl (s : State) : HeapRel s s :=
  ⟨Nat.le_refl _, fun _ _ => rfl, fun a h1 h2 => absurd h2 (by omega)⟩

/-- the hypotheses of `C02_fragment` are satisfiable, and on this script it says: for every large
    enough step budget the VM's `Run` returns 8 -/
example : ∃ n, ∀ fuel, n ≤ fuel → (runFrom F0 fuel .nil [] (loadProg bc0)).1 = VM.Outcome.value (.int 8#64) := by
  have hres := semF
  cases hr : exec ((Sem.runProgram F0 40 file0 []).run {}) (startState bc0) with
  | mk r t1 =>
    rw [hr] at hres
    match r, hres with
    | .ok (.value v, ss1), hv =>
      have hv' : v = .int 8#64 := of_decide_eq_true hv
      subst hv'
      exact (C02_fragment F0 [] [] file0 bc0 hb0 hFF hcF hspF (startState bc0) (heapRel_refl _) 40 {} ss1
        _ t1 hr).2

/-! #### non-vacuity of the round-5 forms and of the fall-off-the-end case:
    `x := 3; var y; y = x * 2; x++; if z := x + y; z > 5 { x = z } else { x = 0 }; if true { y -= 1 }; y--;
     if x > y { x = x - y }` — no `return`: the script falls off its end (behind an `if` without `else`) -/

def file1 : List Stmt :=
  [ .assign 1 tDefine [.ident 1 "x"] [.int 6 3#64],
    .declValue 8 tVar [(some 0, [(12, "y")], [])],
    .assign 14 tAssign [.ident 14 "y"] [.binary 18 tMul (.ident 18 "x") (.int 22 2#64)],
    .incdec 24 tInc 25 (.ident 24 "x"),
    .if_ 28 (some (.assign 31 tDefine [.ident 31 "z"] [.binary 36 tAdd (.ident 36 "x") (.ident 40 "y")]))
      (.binary 43 tGreater (.ident 43 "z") (.int 47 5#64)) 49
      [.assign 51 tAssign [.ident 51 "x"] [.ident 55 "z"]]
      (some (.block 64 [.assign 66 tAssign [.ident 66 "x"] [.int 70 0#64]])),
    .if_ 74 none (.bool 77 true) 82 [.assign 84 tSubAssign [.ident 84 "y"] [.int 89 1#64]] none,
    .incdec 93 tDec 94 (.ident 93 "y"),
    .if_ 97 none (.binary 100 tGreater (.ident 100 "x") (.ident 104 "y")) 106
      [.assign 108 tAssign [.ident 108 "x"] [.binary 112 tSub (.ident 112 "x") (.ident 116 "y")]] none ]

/-- the same script followed by `return x + y` (x = 6, y = 4) -/
def file2 : List Stmt := file1 ++ [.return_ 120 (some (.binary 127 tAdd (.ident 127 "x") (.ident 131 "y")))]

def bcOf (f : List Stmt) : Compile.Bytecode :=
  match Compile.compileFile [] [] f with
  | .ok bc => bc
  | .error _ => default

theorem hcOf (f : List Stmt) (h : (match Compile.compileFile [] [] f with | .ok _ => true | .error _ => false) = true) :
    Compile.compileFile [] [] f = .ok (bcOf f) := by
  unfold bcOf
  cases hr : Compile.compileFile [] [] f with
  | ok bc => rfl
  | error e => rw [hr] at h; cases h

theorem hc1 : Compile.compileFile [] [] file1 = .ok (bcOf file1) := hcOf file1 (by decide +kernel)
theorem hc2 : Compile.compileFile [] [] file2 = .ok (bcOf file2) := hcOf file2 (by decide +kernel)
theorem hF1 : StmtsF [] file1 = true := by decide +kernel
theorem hF2 : StmtsF [] file2 = true := by decide +kernel
theorem hsp1 : (bcOf file1).main.numLocals + needL file1 ≤ 2048 := by decide +kernel
theorem hsp2 : (bcOf file2).main.numLocals + needL file2 ≤ 2048 := by decide +kernel

/-- the statement list of `file1` compiles to 97 bytes; `Bytecode()` appends RETURN 0 (99 bytes, three locals) -/
example : streamSize [] [] file1 = 97 ∧ (bcOf file1).main.insts.size = 99 ∧ (bcOf file1).main.numLocals = 3 ∧
    (bcOf file1).main.insts[97]? = some 39 ∧ (bcOf file1).main.insts[98]? = some 0 := by decide +kernel
/-- the syntactic predicate: `file1` may fall off its end, `file2` may not -/
example : fallL file1 = true ∧ fallL file2 = false := by decide +kernel

/-- evaluated: the reference semantics completes `file1` normally (result `undefined`), `file2` returns 10 … -/
theorem sem1 : (match (exec ((Sem.runProgram F0 60 file1 []).run {}) (startState (bcOf file1))).1 with
    | .ok (.value v, _) => decide (v = V.undefined) | _ => false) = true := by decide +kernel
theorem sem2 : (match (exec ((Sem.runProgram F0 60 file2 []).run {}) (startState (bcOf file2))).1 with
    | .ok (.value v, _) => decide (v = V.int 10#64) | _ => false) = true := by decide +kernel
/-- … and so does the VM model's `Run` of the compile model's output -/
example : (match (runFrom F0 200 .nil [] (loadProg (bcOf file1))).1 with
    | .value v => decide (v = V.undefined) | _ => false) = true := by decide +kernel
example : (match (runFrom F0 200 .nil [] (loadProg (bcOf file2))).1 with
    | .value v => decide (v = V.int 10#64) | _ => false) = true := by decide +kernel

/-- `C02_fragment` applied to the script that falls off its end: for every large enough step budget the
    VM's `Run` returns `undefined` (through the appended RETURN) -/
example : ∃ n, ∀ fuel, n ≤ fuel → (runFrom F0 fuel .nil [] (loadProg (bcOf file1))).1 = VM.Outcome.value .undefined := by
  have hres := sem1
  cases hr : exec ((Sem.runProgram F0 60 file1 []).run {}) (startState (bcOf file1)) with
  | mk r t1 =>
    rw [hr] at hres
    match r, hres with
    | .ok (.value v, ss1), hv =>
      have hv' : v = V.undefined := of_decide_eq_true hv
      subst hv'
      exact (C02_fragment F0 [] [] file1 (bcOf file1) hb0 hF1 hc1 hsp1 (startState (bcOf file1)) (heapRel_refl _) 60 {} ss1
        _ t1 hr).2

/-- … and to the script with the new forms that returns: `Run` returns 10 -/
example : ∃ n, ∀ fuel, n ≤ fuel → (runFrom F0 fuel .nil [] (loadProg (bcOf file2))).1 = VM.Outcome.value (.int 10#64) := by
  have hres := sem2
  cases hr : exec ((Sem.runProgram F0 60 file2 []).run {}) (startState (bcOf file2)) with
  | mk r t1 =>
    rw [hr] at hres
    match r, hres with
    | .ok (.value v, ss1), hv =>
      have hv' : v = V.int 10#64 := of_decide_eq_true hv
      subst hv'
      exact (C02_fragment F0 [] [] file2 (bcOf file2) hb0 hF2 hc2 hsp2 (startState (bcOf file2)) (heapRel_refl _) 60 {} ss1
        _ t1 hr).2

/-! #### `if false`: `x := 1; if false { x = 2 } else { x++ }; if false { x = 5 }; return x` — the bodies of the two
    `if false` are not compiled (JUMP 15; JUMP 24; else part; JUMP 29; GETLOCAL 0; RETURN 1) -/

def file3 : List Stmt :=
  [ .assign 1 tDefine [.ident 1 "x"] [.int 6 1#64],
    .if_ 8 none (.bool 11 false) 17 [.assign 19 tAssign [.ident 19 "x"] [.int 23 2#64]]
      (some (.block 32 [.incdec 34 tInc 35 (.ident 34 "x")])),
    .if_ 40 none (.bool 43 false) 49 [.assign 51 tAssign [.ident 51 "x"] [.int 55 5#64]] none,
    .return_ 59 (some (.ident 66 "x")) ]

theorem hc3 : Compile.compileFile [] [] file3 = .ok (bcOf file3) := hcOf file3 (by decide +kernel)
theorem hF3 : StmtsF [] file3 = true := by decide +kernel
theorem hsp3 : (bcOf file3).main.numLocals + needL file3 ≤ 2048 := by decide +kernel
example : (bcOf file3).main.insts = #[1, 0, 0, 40, 0, 12, 0, 0, 0, 15, 12, 0, 0, 0, 24, 5, 0, 1, 0, 0, 8, 12, 6, 0,
    12, 0, 0, 0, 29, 5, 0, 39, 1] := by decide +kernel
theorem sem3 : (match (exec ((Sem.runProgram F0 60 file3 []).run {}) (startState (bcOf file3))).1 with
    | .ok (.value v, _) => decide (v = V.int 2#64) | _ => false) = true := by decide +kernel
example : (match (runFrom F0 200 .nil [] (loadProg (bcOf file3))).1 with
    | .value v => decide (v = V.int 2#64) | _ => false) = true := by decide +kernel
example : ∃ n, ∀ fuel, n ≤ fuel → (runFrom F0 fuel .nil [] (loadProg (bcOf file3))).1 = VM.Outcome.value (.int 2#64) := by
  have hres := sem3
  cases hr : exec ((Sem.runProgram F0 60 file3 []).run {}) (startState (bcOf file3)) with
  | mk r t1 =>
    rw [hr] at hres
    match r, hres with
    | .ok (.value v, ss1), hv =>
      have hv' : v = V.int 2#64 := of_decide_eq_true hv
      subst hv'
      exact (C02_fragment F0 [] [] file3 (bcOf file3) hb0 hF3 hc3 hsp3 (startState (bcOf file3)) (heapRel_refl _) 60 {} ss1
        _ t1 hr).2

/-! #### a `var` group: `var (a = 1; b; c = a + 2); b = a + c; return b * c` -/

def file4 : List Stmt :=
  [ .declValue 1 tVar [(some 0, [(6, "a")], [some (.int 10 1#64)]), (some 1, [(13, "b")], []),
      (some 2, [(16, "c")], [some (.binary 20 tAdd (.ident 20 "a") (.int 24 2#64))])],
    .assign 28 tAssign [.ident 28 "b"] [.binary 32 tAdd (.ident 32 "a") (.ident 36 "c")],
    .return_ 39 (some (.binary 46 tMul (.ident 46 "b") (.ident 50 "c"))) ]

theorem hc4 : Compile.compileFile [] [] file4 = .ok (bcOf file4) := hcOf file4 (by decide +kernel)
theorem hF4 : StmtsF [] file4 = true := by decide +kernel
theorem hsp4 : (bcOf file4).main.numLocals + needL file4 ≤ 2048 := by decide +kernel
theorem sem4 : (match (exec ((Sem.runProgram F0 60 file4 []).run {}) (startState (bcOf file4))).1 with
    | .ok (.value v, _) => decide (v = V.int 12#64) | _ => false) = true := by decide +kernel
example : (match (runFrom F0 200 .nil [] (loadProg (bcOf file4))).1 with
    | .value v => decide (v = V.int 12#64) | _ => false) = true := by decide +kernel
example : ∃ n, ∀ fuel, n ≤ fuel → (runFrom F0 fuel .nil [] (loadProg (bcOf file4))).1 = VM.Outcome.value (.int 12#64) := by
  have hres := sem4
  cases hr : exec ((Sem.runProgram F0 60 file4 []).run {}) (startState (bcOf file4)) with
  | mk r t1 =>
    rw [hr] at hres
    match r, hres with
    | .ok (.value v, ss1), hv =>
      have hv' : v = V.int 12#64 := of_decide_eq_true hv
      subst hv'
      exact (C02_fragment F0 [] [] file4 (bcOf file4) hb0 hF4 hc4 hsp4 (startState (bcOf file4)) (heapRel_refl _) 60 {} ss1
        _ t1 hr).2

end Ex
/-- the source-level statement (not proved; tested by stream `sem`).  Proved slices of it:
    `compile_expr_correct`, `compile_stmt_correct`, `compile_stmts_correct`, `C02_fragment` above —
    scripts built from expression statements, `:=` / `var` (with or without value, groups) / `=` / compound assignment /
    `++` / `--` on uncaptured scalar locals, blocks, `if` / `else` (also `if init; c`, `if true`, `if false`), `return`, falling off
    the end.  Still only tested: loops, captured variables / closures,
    calls, containers (arrays, maps, index, selector, slice), `try` / `catch` / `finally` / `throw`,
    globals, modules / imports, builtins, `const` declarations, `var a, b = …`, destructuring, `param` -/
def C02_full (Script Input Outcome : Type) (impl sem : Script → Input → Option Outcome) : Prop :=
  ∀ p i o₁ o₂, impl p i = some o₁ → sem p i = some o₂ → o₁ = o₂

/-- non-vacuity of `bindArgs_variadic` -/
example : Sem.bindArgs ["a", "rest"] true [.int 1#64, .int 2#64, .int 3#64]
    = .ok [("a", .inl (.int 1#64)), ("rest", .inr [.int 2#64, .int 3#64])] := by rfl

end UgoVerif.Props.C02
