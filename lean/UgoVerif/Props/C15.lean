import UgoVerif.Proofs.OpsOrder
import UgoVerif.Spec.OperatorsDoc
import UgoVerif.Gen.Unary
/-
  C15 — operators obey their algebraic laws and the documented numeric semantics.

  All theorems are about the *regenerated* operator cells (`Gen/Numeric.lean`,
  translated from numeric.go / objects.go on every run) composed with the
  hand model of array/map recursion (`Model/Ops.lean`, tied by the `ops`
  correspondence stream).  They hold for every `FloatOps` instance, hence for
  IEEE-754 arithmetic.
-/
set_option linter.unusedSimpArgs false
namespace UgoVerif.Props.C15
open UgoVerif UgoVerif.Go UgoVerif.Gen UgoVerif.Model UgoVerif.Proofs UgoVerif.Spec.OperatorsDoc

/-- `a == b` gives the same answer as `b == a`, for all (well-formed) values, nested
    arbitrarily deep. -/
theorem equal_comm (F : FloatOps) (a b : Val) (wa : WF a) (wb : WF b) :
    valEqual F a b = valEqual F b a :=
  valEqual_comm F a b wa wb

/-- `a != b` is the negation of `a == b` (model of vm.go OpNotEqual / OpEqual; the
    shape of the two opcode bodies is a regenerated fact, see `Gen/VmFacts`). -/
theorem neq_not_eq (F : FloatOps) (a b : Val) :
    opNotEqual F a b = .bool (!(match opEqual F a b with | .bool r => r | _ => false)) := by
  simp [opNotEqual, opEqual]

set_option maxHeartbeats 4000000 in
/-- No operator application panics: every `/ %` by zero and every negative shift
    count is intercepted before the Go primitive that would panic. -/
theorem binop_no_panic (F : FloatOps) (S : ObjOps) (tok : Tok) (a b : Val) :
    (binaryOp F S tok a b).isPanic = false := by
  rcases a with _ | a | a | a | a | (_ | _) | a | a | a | a | ⟨tn, i⟩ <;>
  rcases b with _ | b | b | b | b | (_ | _) | b | b | b | b | ⟨tn', i'⟩ <;>
  cases tok <;> simp [binaryOp, ugo_cells, quoS, remS, quoU, remU, shlS, shrSS, apply_ite Res.isPanic, BitVec.slt_zero_eq_msb] <;>
    (try (split <;> simp_all [Res.isPanic])) <;> (try simp [Res.isPanic])

set_option maxHeartbeats 2000000 in
/-- exactly one of `a<b`, `a==b`, `a>b` whenever `<` and `>` are defined for the pair (NaN aside) -/
theorem trichotomy (F : FloatOps) (S : ObjOps) (hF : FloatOps.ConvNoNaN F) (a b : Val)
    (ha : notNaN a) (hb : notNaN b) (lt gt : Bool)
    (h1 : cmp F S .Less a b = some lt) (h2 : cmp F S .Greater a b = some gt) :
    exactlyOne lt (valEqual F a b) gt = true := by
  rcases a with _ | a | a | a | a | (_ | _) | a | a | a | a | ⟨tn, i⟩ <;>
  rcases b with _ | b | b | b | b | (_ | _) | b | b | b | b | ⟨tn', i'⟩ <;>
    simp [cmp, binaryOp, ugo_cells, valEqual, notNaN] at h1 h2 ha hb ⊢
  all_goals (try subst h1) ; (try subst h2)
  all_goals try (first | exact slt_trich _ _ | exact ult_trich _ _ | exact bytes_trich _ _ | exact slt_trich' _ _ | exact ult_trich' _ _ | exact bytes_trich' _ _ | exact f_trich _ _ (by simp_all [hF _, nan_one, nan_zero]) (by simp_all [hF _, nan_one, nan_zero]) | exact f_trich' _ _ (by simp_all [hF _, nan_one, nan_zero]) (by simp_all [hF _, nan_one, nan_zero]) | (simp [exactlyOne]; done))

set_option maxHeartbeats 2000000 in
/-- `a <= b` means `a < b` or `a == b` -/
theorem le_iff_lt_or_eq (F : FloatOps) (S : ObjOps) (a b : Val) (le lt : Bool)
    (h1 : cmp F S .LessEq a b = some le) (h2 : cmp F S .Less a b = some lt) :
    le = (lt || valEqual F a b) := by
  rcases a with _ | a | a | a | a | (_ | _) | a | a | a | a | ⟨tn, i⟩ <;>
  rcases b with _ | b | b | b | b | (_ | _) | b | b | b | b | ⟨tn', i'⟩ <;>
    simp [cmp, binaryOp, ugo_cells, valEqual] at h1 h2 ⊢
  all_goals (try subst h1) ; (try subst h2)
  all_goals try (first | exact sle_eq _ _ | exact ule_eq _ _ | exact fle_eq _ _ | exact fle_eq' _ _ | exact bytesLe_eq _ _ | exact sle_eq' _ _ | exact ule_eq' _ _ | exact bytesLe_eq' _ _ | (simp; done))

set_option maxHeartbeats 2000000 in
/-- `a < b` equals `b > a` -/
theorem lt_flip (F : FloatOps) (S : ObjOps) (a b : Val) (r r' : Bool)
    (h1 : cmp F S .Less a b = some r) (h2 : cmp F S .Greater b a = some r') : r = r' := by
  rcases a with _ | a | a | a | a | (_ | _) | a | a | a | a | ⟨tn, i⟩ <;>
  rcases b with _ | b | b | b | b | (_ | _) | b | b | b | b | ⟨tn', i'⟩ <;>
    simp [cmp, binaryOp, ugo_cells] at h1 h2 ⊢
  all_goals (try subst h1) ; (try subst h2)
  all_goals try (first | rfl | exact bytesLt_flip _ _ | (simp; done))

/-! ### the documented numeric semantics (docs/operators.md written down in Spec/OperatorsDoc.lean) -/

@[simp] theorem classify_ok (v : Val) : classify (.ok v) = .value v := rfl
@[simp] theorem classify_zd : classify (.err .zeroDivision) = .zeroDivision := rfl
@[simp] theorem classify_ot (a b c : String) : classify (.err (.operandType a b c)) = .typeError := rfl
@[simp] theorem classify_te (m : String) : classify (.err (.typeErr m)) = .typeError := rfl

set_option maxHeartbeats 4000000 in
/-- Arithmetic, bitwise and shift operators on int, uint, float, char and bool operands (all 25
    ordered kind pairs x 11 operators, all operand values): the regenerated operator cells return
    exactly the result of the Go operation after the documented operand conversion, and where
    the document has no result — division or remainder by zero, a negative shift count, operand
    kinds the table does not list — they return ZeroDivisionError resp. TypeError, never a
    panic and never another value. -/
theorem arith_matches_doc (F : FloatOps) (S : ObjOps) (tok : Tok) (a b : Val) (d : Doc)
    (h : docArith F tok a b = some d) : classify (binaryOp F S tok a b) = d := by
  rcases a with _ | a | a | a | a | (_ | _) | a | a | a | a | ⟨tn, i⟩ <;>
  rcases b with _ | b | b | b | b | (_ | _) | b | b | b | b | ⟨tn', i'⟩ <;>
  cases tok <;> simp [docArith, isArith, kindOf, common, bothChar] at h <;> subst h <;>
  simp [binaryOp, ugo_cells, quoS, remS, quoU, remU, shlS, shrSS, shlU, shrUU, signedOp, unsignedOp, floatOp,
    toInt, toUint, toFloat, toChar, BitVec.slt_zero_eq_msb] <;>
  (try (split <;> simp_all [Bind.bind, Res.bind]))

/-- the statement above is not vacuous: the document covers every arithmetic operator on every
    pair of numeric operands -/
theorem docArith_total (F : FloatOps) (tok : Tok) (a b : Val) (ht : isArith tok = true)
    (ha : (kindOf a).isSome) (hb : (kindOf b).isSome) : (docArith F tok a b).isSome := by
  rcases a with _ | a | a | a | a | (_ | _) | a | a | a | a | ⟨tn, i⟩ <;> simp [kindOf] at ha <;>
  rcases b with _ | b | b | b | b | (_ | _) | b | b | b | b | ⟨tn', i'⟩ <;> simp [kindOf] at hb <;>
  cases tok <;> simp [isArith] at ht <;> simp [docArith, isArith, kindOf, common, bothChar]

theorem not_eq_allOnes_xor (x : BitVec 64) : ~~~x = BitVec.allOnes 64 ^^^ x := by
  rw [BitVec.xor_comm]; exact (BitVec.xor_allOnes).symm ▸ rfl

/-- unary `+ - ^` (vm.go xOpUnary, regenerated): `0 + x`, `0 - x`, `m ^ x` with m all ones / -1,
    bool as int 1 or 0, TypeError for every other operand type -/
theorem unary_matches_doc (F : FloatOps) (isFalsy : Val → Bool) (tok : Tok) (v : Val) (d : Doc)
    (h : docUnary F tok v = some d) : classify (xOpUnary F isFalsy tok v) = d := by
  rcases v with _ | a | a | a | a | (_ | _) | a | a | a | a | ⟨tn, i⟩ <;>
  cases tok <;> simp [docUnary] at h <;> subst h <;>
  simp [xOpUnary, not_eq_allOnes_xor] <;> (try decide)

/-- examples: `true + 1.5` is evaluated as float, `'a' * 2` is a TypeError, `1 % 0` is ZeroDivisionError -/
example (F : FloatOps) : docArith F .Add (.bool true) (.float 0x3FF8000000000000#64)
    = some (.value (.float (F.add 0x3FF0000000000000#64 0x3FF8000000000000#64))) := by rfl
example (F : FloatOps) : docArith F .Mul (.char 97#32) (.int 2#64) = some .typeError := by rfl
example (F : FloatOps) : docArith F .Rem (.int 1#64) (.int 0#64) = some .zeroDivision := by rfl

end UgoVerif.Props.C15
