import UgoVerif.Proofs.EncSafe
import UgoVerif.Proofs.EncAlloc
import UgoVerif.Gen.EncDispatch
/-
  C18 — decoding malformed bytecode returns an error, never a panic, and does not
  allocate out of proportion to the input.

  The theorems are about the hand model `Model/Enc.lean` of the repaired decoder
  (encoder/encoder.go, encoder/bytecode.go at fix commit 6f5a90c), whose tag and header
  constants are the regenerated `Gen/EncTags.lean`; the model is tied to the
  implementation by the `dec` (and `enc`) correspondence streams.  In the model every Go
  operation of the decoder that can panic is a `.panic` branch: `data[0]` in `toVarint`,
  every slice expression (`slice`), and — before the repair — unchecked type assertions
  and `make` with a decoded length (now error branches in the model exactly where the
  repaired code returns an error).

  Parameters: gob (`Ctx.gobDec`, assumed not to panic — it is a function into `Option` —
  and not to "un-read" input: `GobRest`), and the version-1 instruction converter `conv`
  (encoder/v1.go, property C11: its totality `conv_total` is proved there and enters here
  as the hypothesis `hconv`).
-/
namespace UgoVerif.Props.C18
open UgoVerif UgoVerif.Go UgoVerif.Model.Enc UgoVerif.Proofs.Enc UgoVerif.Gen.EncTags

/-- assumption on the gob parameter: decoding never leaves more unread bytes than it was given -/
def GobRest (C : Ctx) : Prop := ∀ r o r', C.gobDec r = some (o, r') → r'.length ≤ r.length

/-- assumption on the gob parameter: its allocations are linear in its input -/
def GobAlloc (C : Ctx) (a b : Nat) : Prop := ∀ r, C.gobAlloc r ≤ a * r.length + b

private theorem isPanic_of_RSat {α} {O : Prop} {P : α → Prop} {r : Res α} (h : RSat O P r) : r.isPanic = false := by
  cases r <;> simp_all [RSat, Res.isPanic]

private theorem rsat_of_noPanic {α} {r : Res α} (h : r.isPanic = false) : RSat True (fun _ => True) r := by
  cases r <;> simp_all [RSat, Res.isPanic]

private theorem gobOK_true {C : Ctx} (h : GobRest C) (L : Nat) : GobOK C (fun _ => True) L :=
  ⟨h, fun _ _ => trivial⟩

/-- `DecodeObject` never panics: for every byte string (and every fuel) the result is a
    value or an error. -/
theorem decodeObject_no_panic (C : Ctx) (hG : GobRest C) (fuel : Nat) (bs : Bytes) :
    (decodeObjectF C fuel bs).res.isPanic = false :=
  isPanic_of_RSat ((decSpec True C (fun _ => True) bs.length (fun _ _ => trivial) (gobOK_true hG _) fuel).1 bs
    (Nat.le_refl _) (Or.inl trivial)).1

/-- `DecodeBytecodeFrom` (header check, version dispatch, field loop, v1 conversion,
    `fixObjects`) never panics, for both header versions and every other byte string. -/
theorem decode_no_panic (C : Ctx) (conv : BC → Res BC) (mods : Mods) (hG : GobRest C)
    (hconv : ∀ bc, (conv bc).isPanic = false) (fuel : Nat) (bs : Bytes) :
    (decodeBytecodeF C conv mods fuel bs).res.isPanic = false :=
  isPanic_of_RSat (decodeBytecodeF_sat (O := True) conv mods fuel bs (fun _ _ => trivial) (gobOK_true hG _)
    (fun bc => rsat_of_noPanic (hconv bc)) (Or.inl trivial)).1

/-- the same for the fuel the driver uses (`decodeBytecode`, `decodeObject`) -/
theorem decode_no_panic' (C : Ctx) (conv : BC → Res BC) (mods : Mods) (hG : GobRest C)
    (hconv : ∀ bc, (conv bc).isPanic = false) (bs : Bytes) :
    (decodeBytecode C conv mods bs).res.isPanic = false ∧ (decodeObject C bs).res.isPanic = false :=
  ⟨decode_no_panic C conv mods hG hconv _ bs, decodeObject_no_panic C hG _ bs⟩

/-- Fuel is not an escape hatch: with fuel ≥ 2·|bs|+2 (in particular with the driver's
    3·|bs|+16) the model never answers with its artificial out-of-fuel error, so every `err`
    of `decodeBytecode`/`decodeObject` stands for an error the Go code returns.  (`conv`, the
    C11 converter, is assumed not to produce that error either.) -/
theorem decode_never_out_of_fuel (C : Ctx) (conv : BC → Res BC) (mods : Mods) (hG : GobRest C)
    (hconv : ∀ bc, (conv bc).isPanic = false ∧ conv bc ≠ .err oofErr) (fuel : Nat) (bs : Bytes)
    (hf : 2 * bs.length + 2 ≤ fuel) :
    (decodeBytecodeF C conv mods fuel bs).res ≠ .err oofErr ∧
    (decodeObjectF C fuel bs).res ≠ .err oofErr := by
  have hc : ∀ bc, RSat False (fun _ => True) (conv bc) := by
    intro bc
    obtain ⟨h1, h2⟩ := hconv bc
    cases h : conv bc with
    | ok a => trivial
    | err e => exact Or.inr (fun he => h2 (by rw [h, he]))
    | panic m => rw [h] at h1; simp [Res.isPanic] at h1
  have h1 := (decodeBytecodeF_sat (O := False) conv mods fuel bs (fun _ _ => trivial) (gobOK_true hG _) hc
    (Or.inr hf)).1
  have h2 := ((decSpec False C (fun _ => True) bs.length (fun _ _ => trivial) (gobOK_true hG _) fuel).1 bs
    (Nat.le_refl _) (Or.inr (by omega))).1
  constructor
  · intro he; rw [he] at h1; rcases h1 with h | h
    · exact h
    · exact h rfl
  · intro he; rw [he] at h2; rcases h2 with h | h
    · exact h
    · exact h rfl

/-- lifting the per-function converter of C11 to bytecode preserves "never panics / never
    out of fuel": with `convCF` := C11's converter, `hcf` is its theorem `conv_total` -/
theorem liftConv_total (convCF : CF → Res CF) (O : Prop) (hcf : ∀ f, RSat O (fun _ => True) (convCF f)) (bc : BC) :
    RSat O (fun _ => True) (liftConv convCF bc) := by
  have hcs : ∀ cs, RSat O (fun _ => True) (convConsts convCF cs) := by
    intro cs
    induction cs with
    | nil => simp [convConsts]
    | cons o rest ih =>
      cases o with
      | compiledFunction f =>
        unfold convConsts
        exact RSat_bind (hcf f) (fun _ _ => RSat_bind ih (fun _ _ => by simp))
      | _ => unfold convConsts; exact RSat_bind ih (fun _ _ => by simp)
  unfold liftConv
  refine RSat_bind (P := fun _ => True) ?_ (fun _ _ => RSat_bind (P := fun _ => True) ?_ (fun _ _ => by simp))
  · cases bc.main with
    | none => simp
    | some f => exact RSat_bind (hcf f) (fun _ _ => by simp)
  · cases bc.constants with
    | none => simp
    | some cs => exact RSat_bind (hcs cs) (fun _ _ => by simp)

/-- `decode_no_panic` with the v1 converter given per function (the form C11 proves) -/
theorem decode_no_panic_lifted (C : Ctx) (convCF : CF → Res CF) (mods : Mods) (hG : GobRest C)
    (hcf : ∀ f, (convCF f).isPanic = false) (fuel : Nat) (bs : Bytes) :
    (decodeBytecodeF C (liftConv convCF) mods fuel bs).res.isPanic = false :=
  decode_no_panic C _ mods hG
    (fun bc => isPanic_of_RSat (liftConv_total convCF True (fun f => rsat_of_noPanic (hcf f)) bc)) fuel bs

/-- explicit instances for the two supported header versions -/
theorem decode_no_panic_versions (C : Ctx) (conv : BC → Res BC) (mods : Mods) (hG : GobRest C)
    (hconv : ∀ bc, (conv bc).isPanic = false) (fuel : Nat) (body : Bytes) :
    (decodeBytecodeF C conv mods fuel (header BytecodeVersion1 ++ body)).res.isPanic = false ∧
    (decodeBytecodeF C conv mods fuel (header BytecodeVersion2 ++ body)).res.isPanic = false :=
  ⟨decode_no_panic C conv mods hG hconv fuel _, decode_no_panic C conv mods hG hconv fuel _⟩

/-- The shape of the version dispatch the model relies on, as regenerated from the source:
    version 2 decodes with `decodeBytecodeV2`; version 1 is `decodeBytecodeV2` followed by the
    converter (so the v1 path of `decodeBytecodeF` is `bcLoopF` then `conv`); `unmarshal` is
    `UnmarshalBinary` followed by `fixObjects`. -/
theorem dispatch_shape :
    UgoVerif.Gen.EncDispatch.versionDispatch =
      [("BytecodeVersion2", "decodeBytecodeV2"), ("BytecodeVersion1", "decodeBytecodeV1")] ∧
    UgoVerif.Gen.EncDispatch.decodeV1Calls = ["decodeBytecodeV2", "convBytecodeV1ToV2"] ∧
    UgoVerif.Gen.EncDispatch.unmarshalCalls = ["bc.UnmarshalBinary", "ugo.NewModuleMap", "bc.fixObjects"] := by
  decide

private theorem dominates_lin (a b L : Nat) (ha : 24 ≤ a) (hb : 268 ≤ b) :
    Dominates (fun n => n ≤ a * L + b) L := by
  intro n hn
  have : 24 * L ≤ a * L := Nat.mul_le_mul_right L ha
  show n ≤ a * L + b
  omega

private theorem gobOK_lin {C : Ctx} (hG : GobRest C) (a b L : Nat) (hA : GobAlloc C a b) :
    GobOK C (fun n => n ≤ a * L + b) L :=
  ⟨hG, fun r hr => by
    have h1 := hA r
    have : a * r.length ≤ a * L := Nat.mul_le_mul_left a hr
    show C.gobAlloc r ≤ a * L + b
    omega⟩

/-- No single allocation is out of proportion to the input: every buffer, slice or map the
    decoder allocates with an input-dependent size (`make`, buffer growth) is at most
    `a·|bs| + b` bytes (a ≥ 24, b ≥ 268; with gob's own allocations bounded likewise) — on
    every path, including those that end in an error. -/
theorem decode_alloc (C : Ctx) (conv : BC → Res BC) (mods : Mods) (a b : Nat) (ha : 24 ≤ a) (hb : 268 ≤ b)
    (hG : GobRest C) (hA : GobAlloc C a b) (hconv : ∀ bc, (conv bc).isPanic = false)
    (fuel : Nat) (bs : Bytes) :
    ∀ n ∈ (decodeBytecodeF C conv mods fuel bs).allocs, n ≤ a * bs.length + b :=
  (decodeBytecodeF_sat (O := True) conv mods fuel bs (dominates_lin a b _ ha hb) (gobOK_lin hG a b _ hA)
    (fun bc => rsat_of_noPanic (hconv bc)) (Or.inl trivial)).2

theorem decodeObject_alloc (C : Ctx) (a b : Nat) (ha : 24 ≤ a) (hb : 268 ≤ b)
    (hG : GobRest C) (hA : GobAlloc C a b) (fuel : Nat) (bs : Bytes) :
    ∀ n ∈ (decodeObjectF C fuel bs).allocs, n ≤ a * bs.length + b :=
  ((decSpec True C _ bs.length (dominates_lin a b _ ha hb) (gobOK_lin hG a b _ hA) fuel).1 bs (Nat.le_refl _)
    (Or.inl trivial)).2

/-- Full-strength allocation statement, with the constants the `dec` stream's oracle uses:
    the *sum* of all allocations of one decode is at most 64·|bs| + 64 KiB.
    FALSE for the implementation as it stands (`C18_alloc_full_false`): `DecodeObject` copies
    the payload of every size-prefixed object into a fresh buffer before decoding it, so a
    container nested d levels deep is copied d times (total ≈ |bs|·d/2).  `decode_alloc` is
    the proved part (`decode_alloc_partial`): no *single* allocation exceeds a·|bs|+b.
    Known finding C18:alloc-nesting (open: the repair — decode in place, or a depth limit —
    is a design decision). -/
def C18_alloc_full : Prop :=
  ∀ (C : Ctx) (conv : BC → Res BC) (mods : Mods), GobRest C → GobAlloc C 64 65536 →
    (∀ bc, (conv bc).isPanic = false) →
    ∀ fuel bs, (decodeBytecodeF C conv mods fuel bs).total ≤ 64 * bs.length + 65536

/-- the proved part of `C18_alloc_full` -/
theorem decode_alloc_partial (C : Ctx) (conv : BC → Res BC) (mods : Mods) (a b : Nat) (ha : 24 ≤ a) (hb : 268 ≤ b)
    (hG : GobRest C) (hA : GobAlloc C a b) (hconv : ∀ bc, (conv bc).isPanic = false)
    (fuel : Nat) (bs : Bytes) :
    ∀ n ∈ (decodeBytecodeF C conv mods fuel bs).allocs, n ≤ a * bs.length + b :=
  decode_alloc C conv mods a b ha hb hG hA hconv fuel bs

/-! ### non-vacuity -/

/-- a context satisfying the gob assumptions (gob rejects everything) -/
def ctx0 : Ctx := { gobDec := fun _ => none, gobAlloc := fun _ => 0, gobEnc := fun _ _ => [], isBuiltinFn := fun _ => false }

theorem ctx0_gobRest : GobRest ctx0 := by intro r o r' h; cases h
theorem ctx0_gobAlloc : GobAlloc ctx0 64 65536 := by intro r; exact Nat.zero_le _

/-- Refutation of `C18_alloc_full` by a concrete witness: the valid encoding of a bytecode
    whose single constant is an array nested 2001 levels deep (≤ 48 033 bytes) makes the
    decoder model allocate ≥ 10 009 002 bytes in total — more than 64·48 033 + 65 536 =
    3 139 648.  (The `dec` stream measures the same on the implementation: 12.6 KB of
    4000-deep arrays allocate 39 MB.) -/
theorem C18_alloc_full_false : ¬ C18_alloc_full := by
  intro h
  have hle := h ctx0 (fun bc => .ok bc) (fun _ => none) ctx0_gobRest ctx0_gobAlloc (fun _ => rfl) 6006
    (encodeBytecode ctx0 (nestBC 2000))
  have hlow := nestBC_total ctx0 (fun bc => .ok bc) (fun _ => none) 2000 6006 (by decide) (by decide)
  have hlen := nestBC_len ctx0 2000 (by decide)
  have hsum := nestSum_closed (2000 + 1)
  omega

example : GobRest ctx0 := ctx0_gobRest
example : GobAlloc ctx0 24 268 := by intro r; exact Nat.zero_le _
example : ∀ bc : BC, ((fun bc => .ok bc : BC → Res BC) bc).isPanic = false := fun _ => rfl
/-- a gob that consumes one byte also satisfies `GobRest` -/
example : GobRest { ctx0 with gobDec := fun r => some (.undefined, r.drop 1) } := by
  intro r o r' h; simp at h; rw [← h.2]; simp
/-- the model does decode: `[binIntV1, 1, 2]` is the integer 1, and a lone tag byte is an error -/
example : (match (decodeObjectF ctx0 3 [3, 1, 2]).res with
    | .ok (.int v, []) => v == 1#64
    | _ => false) = true := by decide
example : (decodeObjectF ctx0 3 [3]).res.isOk = false := by decide

end UgoVerif.Props.C18
