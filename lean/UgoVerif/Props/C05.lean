import UgoVerif.Proofs.CompileEnc
import UgoVerif.Gen.Limits
import UgoVerif.Gen.Opcodes
import UgoVerif.Model.Eval
import UgoVerif.Proofs.VMRun
/-
  C05 — Compile is total: bytecode or an error for any input, never a panic.

  Model: `Model/Compile.lean` (compiler.go / compiler_nodes.go / symbol_table.go with the optimizer
  off; byte-identical with the implementation on the `compile` / `compilefuzz` streams).  Every
  function of the model is a total Lean definition accepted by the structural-recursion checker:
  the compiler terminates on every AST.  A Go panic inside the compiler is `CErr.panic`; an operand
  that does not fit its field is `CErr.err` / `CErr.bare` (the `*operandError` recovered by
  `compileScript`).

  Not modelled (covered by stream `compilefuzz` only): scanner, parser, optimizer, module import,
  tracing output.
-/
namespace UgoVerif.Props.C05
open UgoVerif UgoVerif.Go UgoVerif.Ast UgoVerif.Compile

/-! ### ties to the regenerated limits (Gen/Limits.lean, Gen/Opcodes.lean) -/

theorem maxOf_tie : ∀ w ∈ [1, 2, 4], maxOf w = (Gen.Limits.maxVal w : Int) := by decide
theorem maxOf_tie_opcodes : ∀ w ∈ [1, 2, 4], (Gen.Limits.maxVal w) = Gen.Opcodes.makeInstructionMax w := by decide
theorem operandWidths_tie : ∀ op, op < Gen.Opcodes.numOpcodes → Gen.Opcodes.opcodeOperands op = some (operandWidths op) := by decide
theorem numOpcodes_tie : numOpcodes = Gen.Opcodes.numOpcodes := by decide
theorem maxNumLocals_tie : maxNumLocals = Gen.Limits.maxNumLocals := by decide
/-- the three `NumLocals` checks use the model's limit (compileFuncLit's literal 256 included) -/
theorem numLocals_checks_tie :
    Gen.Limits.numLocalsCheck_compileScript = maxNumLocals ∧ Gen.Limits.numLocalsCheck_compileModule = maxNumLocals ∧
    Gen.Limits.numLocalsCheck_compileFuncLit = 256 := by decide
/-- the frame size fits the one-byte local operand: `maxNumLocals - 1 ≤ maxVal 1` -/
theorem locals_fit_operand : maxNumLocals - 1 ≤ Gen.Limits.maxVal 1 := by decide
/-- `emit` / `changeOperand` panic only with `*operandError`, and `compileScript` recovers exactly
    that, returning its error: this is why the model's `emit` / `changeOperand` answer `.err`/`.bare` -/
theorem operand_error_is_recovered :
    Gen.Limits.emitOperandErrorPanics = 1 ∧ Gen.Limits.emitOtherPanics = 0 ∧
    Gen.Limits.changeOperandOperandErrorPanics = 1 ∧ Gen.Limits.changeOperandOtherPanics = 0 ∧
    Gen.Limits.compileScriptRecoversOperandError = true ∧ Gen.Limits.compileScriptRepanicsOthers = true ∧
    Gen.Limits.compileScriptReturnsOperandError = true ∧ Gen.Limits.compileFileRecoversOperandError = true := by decide

/-! ### MakeInstruction -/

/-- `makeInstruction op args` fails iff the operand count is wrong or some operand is negative or
    exceeds the maximum of its width (255 / 65535 / 2^31-1) -/
theorem makeInstruction_spec (op : Nat) (args : List Int) :
    (∃ bs, makeInstruction op args = .ok bs) ↔
      ((operandWidths op).length = args.length ∧ operandsFit (operandWidths op) args) := by
  unfold makeInstruction
  constructor
  · rintro ⟨bs, h⟩
    split at h
    · cases h
    · rename_i hl
      split at h
      · rename_i rest hr
        exact ⟨by simpa using hl, (encodeOperands_ok_iff _ _).mp ⟨rest, hr⟩⟩
      · cases h
  · rintro ⟨hl, hf⟩
    obtain ⟨rest, hr⟩ := (encodeOperands_ok_iff _ _).mpr hf
    rw [if_neg (by simpa using hl), hr]
    exact ⟨_, rfl⟩

/-- on success the bytes are the opcode followed by each operand big-endian in its width: decoding
    them with `readOperands` gives the operands back -/
theorem makeInstruction_layout (op : Nat) (args : List Int) (bs : List UInt8)
    (h : makeInstruction op args = .ok bs) :
    ∃ rest, bs = UInt8.ofNat op :: rest ∧ rest.length = opWidth op ∧ readOperands (operandWidths op) rest = args := by
  obtain ⟨rest, hbs, hl⟩ := makeInstruction_ok h
  refine ⟨rest, hbs, hl, ?_⟩
  unfold makeInstruction at h
  split at h
  · cases h
  · rename_i hlen
    split at h
    · rename_i rest' hr
      injection h with h
      rw [hbs] at h
      injection h with _ h
      subst h
      exact readOperands_encode _ _ _ (operandWidths_mem op) (by simpa using hlen) hr
    · cases h

example : makeInstruction OpDefineLocal [255] = .ok [40, 255] := rfl
example : ∃ m, makeInstruction OpDefineLocal [256] = .error m := ⟨_, rfl⟩
example : ∃ m, makeInstruction OpCall [256, 0] = .error m := ⟨_, rfl⟩
example : ∃ m, makeInstruction OpArray [65536] = .error m := ⟨_, rfl⟩
example : ∃ m, makeInstruction OpJump [2147483648] = .error m := ⟨_, rfl⟩
example : ∃ m, makeInstruction OpJump [-1] = .error m := ⟨_, rfl⟩
example : makeInstruction OpSetupTry [258, 65536] = .ok [34, 0, 0, 1, 2, 0, 1, 0, 0] := rfl

/-! ### capacity limits are errors -/

/-- `emit` with an operand that does not fit yields a compile error (`CErr.err` at the node, or
    `CErr.bare` without a node), never a panic, and leaves the compiler state unchanged -/
theorem emit_limit_is_error (pos : Pos) (op : Nat) (args : List Int) (s : CState) (m : String)
    (hop : op < numOpcodes) (h : makeInstruction op args = .error m) :
    runCM (emit pos op args) s = (.error (if pos == 0 then .bare m else .err pos m), s) := by
  unfold emit
  rw [if_neg (by omega), h]
  simp only
  split <;> rfl

/-- `changeOperand` with an operand that does not fit (a jump beyond 2^31-1) is an error as well -/
theorem changeOperand_limit_is_error (p : Nat) (args : List Int) (s : CState) (opb : UInt8) (m : String)
    (hp : s.insts[p]? = some opb) (hop : opb.toNat < numOpcodes) (h : makeInstruction opb.toNat args = .error m) :
    runCM (changeOperand p args) s = (.error (.bare m), s) := by
  unfold changeOperand
  rw [runCM_bind, runCM_get]
  simp only [hp]
  rw [if_neg (by omega), h]
  rfl

example : ∀ s, ∃ m, runCM (emit 7 OpDefineLocal [256]) s = (.error (.err 7 m), s) :=
  fun s => ⟨_, emit_limit_is_error 7 OpDefineLocal [256] s _ (by decide) rfl⟩

/-! ### no panic -/

/-- **Compile never panics** (model, optimizer off): for every builtin table, every set of disabled
    builtins and every AST whose assignment statements have a non-empty left-hand side (what the
    parser produces; `okSs`), `compileFile` — `compileScript` after parsing — returns bytecode or
    an error.  Termination is the totality of `compileFile`. -/
theorem compile_no_panic (builtins : List (String × Nat)) (disabled : List String) (file : List Stmt)
    (hok : okSs file = true) (m : String) : compileFile builtins disabled file ≠ .error (.panic m) := by
  have h := good_compileProg file hok (initState builtins disabled) (inv_initState builtins disabled)
  unfold compileFile
  unfold Sat at h
  intro hc
  change (runCM (compileProg file) (initState builtins disabled)).1 = _ at hc
  cases hr : runCM (compileProg file) (initState builtins disabled) with
  | mk r s' =>
    rw [hr] at h hc
    simp only at hc
    subst hc
    exact h

/-- the same from ANY compiler state that satisfies the invariant `Inv` — in particular a re-used
    symbol table and constant pool (an Eval session), nested tables, pending loops -/
theorem compile_no_panic_reused (s : CState) (hs : Inv s) (file : List Stmt) (hok : okSs file = true) (m : String) :
    (runCM (compileProg file) s).1 ≠ .error (.panic m) := by
  have h := good_compileProg file hok s hs
  unfold Sat at h
  intro hc
  cases hr : runCM (compileProg file) s with
  | mk r s' =>
    rw [hr] at h hc
    simp only at hc
    subst hc
    exact h

/-- the invariant is re-established by a successful compilation: the next fragment of a session
    starts from a state satisfying `Inv` again -/
theorem compile_keeps_invariant (s : CState) (hs : Inv s) (file : List Stmt) (hok : okSs file = true)
    (bc : Bytecode) (s' : CState) (h : runCM (compileProg file) s = (.ok bc, s')) : Inv s' := by
  have hg := good_compileProg file hok s hs
  unfold Sat at hg
  rw [h] at hg
  exact hg.1

/-- non-vacuity: the hypothesis `okSs` is needed — the compiler indexes `lhs[0]` unchecked -/
example : compileFile [] [] [.assign 1 tAssign [] []] = .error (.panic "runtime error: index out of range [0] with length 0") := rfl
/-- non-vacuity: a program that compiles, one that is rejected -/
example : okSs [.expr 1 (.int 1 5#64)] = true := rfl
example : ∃ bc, compileFile [] [] [.expr 1 (.int 1 5#64)] = .ok bc := ⟨_, rfl⟩
example : ∃ p m, compileFile [] [] [.expr 1 (.ident 1 "x")] = .error (.err p m) := ⟨_, _, rfl⟩

/-! ### well-formedness of the result -/

/-- proved part of the well-formedness of returned bytecode: the main function and every compiled
    function in the constant pool have at most 256 locals; each of their instruction streams
    decodes completely into instructions with known opcodes and full operands; and in each stream
    the operand of every JUMP / JUMPFALSY / ANDJUMP / ORJUMP and both operands of every SETUPTRY
    are instruction boundaries of that stream (0 for an absent catch); and the constant index of
    every CONSTANT / CLOSURE instruction is below the size of the constant pool -/
theorem compile_wf_partial (builtins : List (String × Nat)) (disabled : List String) (file : List Stmt)
    (hok : okSs file = true) (bc : Bytecode) (h : compileFile builtins disabled file = .ok bc) : WFMain bc := by
  have hg := goodP_compileProg file hok (initState builtins disabled) (inv_initState builtins disabled)
  unfold compileFile at h
  unfold Sat at hg
  change (runCM (compileProg file) (initState builtins disabled)).1 = _ at h
  cases hr : runCM (compileProg file) (initState builtins disabled) with
  | mk r s' =>
    rw [hr] at hg h
    simp only at h
    subst h
    exact hg.2.2

/-- The full statement.  `WFFull` asks, beyond `WFMain`: every jump / SETUPTRY operand is an
    instruction boundary of its function and every constant / local / builtin index is in range (shown
    here for the main function; likewise for function constants); and the claim covers scanner,
    parser, optimizer and module import.  Proved: `compile_no_panic` (all of the panic-freedom of the
    compiler proper), `compile_wf_partial` (frame sizes, decodable streams, jump / try targets are
    boundaries, CONSTANT / CLOSURE indices are in range, for main and all function constants).  Not
    proved (checked on real bytecode by the structural scan of stream `compilefuzz`): a jump target
    is *strictly* inside the stream (the RETURN appended by `Bytecode()`), global-name / local / free /
    builtin indices are in range; not modelled: scanner / parser / optimizer / imports. -/
def C05_full : Prop :=
  ∀ (builtins : List (String × Nat)) (disabled : List String) (file : List Stmt), okSs file = true →
    match compileFile builtins disabled file with
    | .ok bc => WFMain bc ∧
        (∀ p op, Bd bc.main.insts p → bc.main.insts[p]? = some op →
          (op.toNat = OpGetGlobal ∨ op.toNat = OpSetGlobal) →
          readBE bc.main.insts (p + 1) 2 < bc.constants.size) ∧
        (∀ p op, Bd bc.main.insts p → bc.main.insts[p]? = some op →
          (op.toNat = OpGetLocal ∨ op.toNat = OpSetLocal ∨ op.toNat = OpDefineLocal) →
          readBE bc.main.insts (p + 1) 1 < bc.main.numLocals) ∧
        (∀ p op, Bd bc.main.insts p → bc.main.insts[p]? = some op →
          (op.toNat = OpJump ∨ op.toNat = OpJumpFalsy ∨ op.toNat = OpAndJump ∨ op.toNat = OpOrJump) →
          Bd bc.main.insts (readBE bc.main.insts (p + 1) 4))
    | .error e => ∀ m, e ≠ .panic m

/-! ### what the VM's prologue needs of compiler output (C06) -/

/-- `MainWF` — the hypothesis of the C06 theorems about `Run` (the prologue slices
    `stack[:NumLocals]` and indexes `locals[NumParams-1]` outside `recover`) — holds for every VM
    state into which compiler output is loaded with `SetBytecode`: `NumLocals ≤ 256 ≤ 2048` and
    `NumParams ≤ NumLocals` by `compile_wf_partial`. -/
theorem compiled_main_wf (builtins : List (String × Nat)) (disabled : List String) (file : List Stmt)
    (hok : okSs file = true) (bc : Bytecode) (h : compileFile builtins disabled file = .ok bc)
    (vm : UgoVerif.VM.State) (oldN : Nat) (modules : Array UgoVerif.VM.V) :
    UgoVerif.Proofs.VM.MainWF (UgoVerif.Eval.setBytecode vm bc.main oldN bc.constants modules) := by
  have hwf := compile_wf_partial builtins disabled file hok bc h
  intro c free hget
  simp only [UgoVerif.Eval.setBytecode, UgoVerif.Eval.allocFn] at hget ⊢
  simp only [Array.getElem?_push_size, Option.some.injEq] at hget
  injection hget with hc _
  subst hc
  simp [UgoVerif.Eval.codeOfCFn, UgoVerif.VM.stackSize]
  have h1 := hwf.1
  have h2 := hwf.2.1.2
  unfold maxNumLocals at h1
  omega

end UgoVerif.Props.C05
