import UgoVerif.Proofs.CompileEnc
import UgoVerif.Gen.Limits
import UgoVerif.Gen.Opcodes
import UgoVerif.Gen.SymFacts
import UgoVerif.Model.Eval
import UgoVerif.Proofs.VMRun
/-
  C05 — Compile is total: bytecode or an error for any input, never a panic.

  Model: `Model/Compile.lean` (compiler.go / compiler_nodes.go / symbol_table.go with the optimizer
  off; byte-identical with the implementation on the `compile` / `compilefuzz` streams).  Every
  function of the model is a total Lean definition accepted by the structural-recursion checker:
  the compiler terminates on every AST.  A Go panic inside the compiler is `CErr.panic`; an operand
  that does not fit its field is `CErr.err` / `CErr.bare` (the `*operandError` recovered by
  `compileScript`).

  Not modelled (covered by stream `compilefuzz` only): scanner, parser, optimizer, module import,
  tracing output.
-/
namespace UgoVerif.Props.C05
open UgoVerif UgoVerif.Go UgoVerif.Ast UgoVerif.Compile

/-! ### ties to the regenerated limits (Gen/Limits.lean, Gen/Opcodes.lean) -/

theorem maxOf_tie : ∀ w ∈ [1, 2, 4], maxOf w = (Gen.Limits.maxVal w : Int) := by decide
theorem maxOf_tie_opcodes : ∀ w ∈ [1, 2, 4], (Gen.Limits.maxVal w) = Gen.Opcodes.makeInstructionMax w := by decide
theorem operandWidths_tie : ∀ op, op < Gen.Opcodes.numOpcodes → Gen.Opcodes.opcodeOperands op = some (operandWidths op) := by decide
theorem numOpcodes_tie : numOpcodes = Gen.Opcodes.numOpcodes := by decide
theorem maxNumLocals_tie : maxNumLocals = Gen.Limits.maxNumLocals := by decide
/-- the three `NumLocals` checks use the model's limit (compileFuncLit's literal 256 included) -/
theorem numLocals_checks_tie :
    Gen.Limits.numLocalsCheck_compileScript = maxNumLocals ∧ Gen.Limits.numLocalsCheck_compileModule = maxNumLocals ∧
    Gen.Limits.numLocalsCheck_compileFuncLit = 256 := by decide
/-- the frame size fits the one-byte local operand: `maxNumLocals - 1 ≤ maxVal 1` -/
theorem locals_fit_operand : maxNumLocals - 1 ≤ Gen.Limits.maxVal 1 := by decide
/-- `emit` / `changeOperand` panic only with `*operandError`, and `compileScript` recovers exactly
    that, returning its error: this is why the model's `emit` / `changeOperand` answer `.err`/`.bare` -/
theorem operand_error_is_recovered :
    Gen.Limits.emitOperandErrorPanics = 1 ∧ Gen.Limits.emitOtherPanics = 0 ∧
    Gen.Limits.changeOperandOperandErrorPanics = 1 ∧ Gen.Limits.changeOperandOtherPanics = 0 ∧
    Gen.Limits.compileScriptRecoversOperandError = true ∧ Gen.Limits.compileScriptRepanicsOthers = true ∧
    Gen.Limits.compileScriptReturnsOperandError = true ∧ Gen.Limits.compileFileRecoversOperandError = true := by decide

/-! ### MakeInstruction -/

/-- `makeInstruction op args` fails iff the operand count is wrong or some operand is negative or
    exceeds the maximum of its width (255 / 65535 / 2^31-1) -/
theorem makeInstruction_spec (op : Nat) (args : List Int) :
    (∃ bs, makeInstruction op args = .ok bs) ↔
      ((operandWidths op).length = args.length ∧ operandsFit (operandWidths op) args) := by
  unfold makeInstruction
  constructor
  · rintro ⟨bs, h⟩
    split at h
    · cases h
    · rename_i hl
      split at h
      · rename_i rest hr
        exact ⟨by simpa using hl, (encodeOperands_ok_iff _ _).mp ⟨rest, hr⟩⟩
      · cases h
  · rintro ⟨hl, hf⟩
    obtain ⟨rest, hr⟩ := (encodeOperands_ok_iff _ _).mpr hf
    rw [if_neg (by simpa using hl), hr]
    exact ⟨_, rfl⟩

/-- on success the bytes are the opcode followed by each operand big-endian in its width: decoding
    them with `readOperands` gives the operands back -/
theorem makeInstruction_layout (op : Nat) (args : List Int) (bs : List UInt8)
    (h : makeInstruction op args = .ok bs) :
    ∃ rest, bs = UInt8.ofNat op :: rest ∧ rest.length = opWidth op ∧ readOperands (operandWidths op) rest = args := by
  obtain ⟨rest, hbs, hl⟩ := makeInstruction_ok h
  refine ⟨rest, hbs, hl, ?_⟩
  unfold makeInstruction at h
  split at h
  · cases h
  · rename_i hlen
    split at h
    · rename_i rest' hr
      injection h with h
      rw [hbs] at h
      injection h with _ h
      subst h
      exact readOperands_encode _ _ _ (operandWidths_mem op) (by simpa using hlen) hr
    · cases h

example : makeInstruction OpDefineLocal [255] = .ok [40, 255] := rfl
example : ∃ m, makeInstruction OpDefineLocal [256] = .error m := ⟨_, rfl⟩
example : ∃ m, makeInstruction OpCall [256, 0] = .error m := ⟨_, rfl⟩
example : ∃ m, makeInstruction OpArray [65536] = .error m := ⟨_, rfl⟩
example : ∃ m, makeInstruction OpJump [2147483648] = .error m := ⟨_, rfl⟩
example : ∃ m, makeInstruction OpJump [-1] = .error m := ⟨_, rfl⟩
example : makeInstruction OpSetupTry [258, 65536] = .ok [34, 0, 0, 1, 2, 0, 1, 0, 0] := rfl

/-! ### capacity limits are errors -/

/-- `emit` with an operand that does not fit yields a compile error (`CErr.err` at the node, or
    `CErr.bare` without a node), never a panic, and leaves the compiler state unchanged -/
theorem emit_limit_is_error (pos : Pos) (op : Nat) (args : List Int) (s : CState) (m : String)
    (hop : op < numOpcodes) (h : makeInstruction op args = .error m) :
    runCM (emit pos op args) s = (.error (if pos == 0 then .bare m else .err pos m), s) := by
  unfold emit
  rw [if_neg (by omega), h]
  simp only
  split <;> rfl

/-- `changeOperand` with an operand that does not fit (a jump beyond 2^31-1) is an error as well -/
theorem changeOperand_limit_is_error (p : Nat) (args : List Int) (s : CState) (opb : UInt8) (m : String)
    (hp : s.insts[p]? = some opb) (hop : opb.toNat < numOpcodes) (h : makeInstruction opb.toNat args = .error m) :
    runCM (changeOperand p args) s = (.error (.bare m), s) := by
  unfold changeOperand
  rw [runCM_bind, runCM_get]
  simp only [hp]
  rw [if_neg (by omega), h]
  rfl

example : ∀ s, ∃ m, runCM (emit 7 OpDefineLocal [256]) s = (.error (.err 7 m), s) :=
  fun s => ⟨_, emit_limit_is_error 7 OpDefineLocal [256] s _ (by decide) rfl⟩

/-! ### no panic -/

/-- the builtin table handed to the compiler maps names to indices of builtin objects (the Go
    compiler reads the package-level `BuiltinsMap`; `builtinsMap_ok` below ties the regenerated copy) -/
def BuiltinsOK (builtins : List (String × Nat)) : Prop := ∀ p ∈ builtins, p.2 < Gen.numBuiltins

instance (builtins : List (String × Nat)) : Decidable (BuiltinsOK builtins) := by unfold BuiltinsOK; exact inferInstance

/-- the regenerated `BuiltinsMap` (Gen/SymFacts.lean) has only indices below the regenerated number
    of builtin objects, and `:makeArray` — the one index the compiler emits on its own — is one -/
theorem builtinsMap_ok :
    (∀ p ∈ Gen.SymFacts.builtinsMap, p.2 < Gen.numBuiltins) ∧ Gen.builtinMakeArray < Gen.numBuiltins ∧
    Gen.SymFacts.builtinMakeArray = Gen.builtinMakeArray := by decide

/-- `compileProg` from the initial state, as a fact about `compileFile` -/
theorem compileFile_sat (builtins : List (String × Nat)) (hb : BuiltinsOK builtins) (disabled : List String)
    (file : List Stmt) (hok : okSs file = true) :
    match compileFile builtins disabled file with
    | .ok bc => WFMain bc
    | .error e => ∀ m, e ≠ .panic m := by
  have h := sat_compileProg file hok (initState builtins disabled) (inv_initState builtins disabled hb) rfl
  unfold Sat at h
  change match (runCM (compileProg file) (initState builtins disabled)).1 with
    | .ok bc => WFMain bc
    | .error e => ∀ m, e ≠ .panic m
  cases hr : runCM (compileProg file) (initState builtins disabled) with
  | mk r s' =>
    rw [hr] at h
    cases r with
    | ok bc => exact h.2.2
    | error e =>
      intro m hm
      subst hm
      exact h

/-- **Compile never panics** (model, optimizer off): for every builtin table with valid indices,
    every set of disabled builtins and every AST whose assignment statements have a non-empty
    left-hand side (what the parser produces; `okSs`), `compileFile` — `compileScript` after parsing —
    returns bytecode or an error.  Termination is the totality of `compileFile`. -/
theorem compile_no_panic (builtins : List (String × Nat)) (hb : BuiltinsOK builtins) (disabled : List String)
    (file : List Stmt) (hok : okSs file = true) (m : String) : compileFile builtins disabled file ≠ .error (.panic m) := by
  have h := compileFile_sat builtins hb disabled file hok
  intro hc
  rw [hc] at h
  exact h m rfl

/-- the same from ANY compiler state that satisfies the invariant `Inv` — in particular a re-used
    symbol table and constant pool (an Eval session), nested tables, pending loops — for the
    statements of a file (`compileStmts`; `compileProg` adds `Bytecode()`, for which see
    `compile_no_panic_reused`) -/
theorem compileStmts_no_panic (s : CState) (hs : Inv s) (file : List Stmt) (hok : okSs file = true) (m : String) :
    (runCM (compileStmts file) s).1 ≠ .error (.panic m) := by
  have h := good_compileStmts file hok s hs
  unfold Sat at h
  intro hc
  cases hr : runCM (compileStmts file) s with
  | mk r s' =>
    rw [hr] at h hc
    simp only at hc
    subst hc
    exact h

/-- `compileProg` from any state satisfying `Inv` whose table chain is a root table alone (a re-used
    symbol table and constant pool: an Eval session) -/
theorem compile_no_panic_reused (s : CState) (hs : Inv s) (t : Table) (ht : s.tables = [t]) (file : List Stmt)
    (hok : okSs file = true) (m : String) : (runCM (compileProg file) s).1 ≠ .error (.panic m) := by
  have h := sat_compileProg file hok s hs ht
  unfold Sat at h
  intro hc
  cases hr : runCM (compileProg file) s with
  | mk r s' =>
    rw [hr] at h hc
    simp only at hc
    subst hc
    exact h

/-- the invariant is re-established by a successful compilation: the next fragment of a session
    starts from a state satisfying `Inv` again (and its table chain is again a root table alone) -/
theorem compile_keeps_invariant (s : CState) (hs : Inv s) (t : Table) (ht : s.tables = [t]) (file : List Stmt)
    (hok : okSs file = true) (bc : Bytecode) (s' : CState) (h : runCM (compileProg file) s = (.ok bc, s')) :
    Inv s' ∧ ∃ t', s'.tables = [t'] := by
  have hg := sat_compileProg file hok s hs ht
  unfold Sat at hg
  rw [h] at hg
  refine ⟨hg.1, ?_⟩
  have hle := hg.2.1.chain
  rw [ht] at hle
  obtain ⟨t1, r1, h1, _, hle1⟩ := chainLE_cons_left hle
  cases r1 with
  | nil => exact ⟨t1, h1⟩
  | cons a b => exact absurd hle1 (by simp [ChainLE])

/-- non-vacuity: the hypothesis `okSs` is needed — the compiler indexes `lhs[0]` unchecked -/
example : compileFile [] [] [.assign 1 tAssign [] []] = .error (.panic "runtime error: index out of range [0] with length 0") := rfl
/-- non-vacuity: a program that compiles, one that is rejected -/
example : okSs [.expr 1 (.int 1 5#64)] = true := rfl
example : ∃ bc, compileFile [] [] [.expr 1 (.int 1 5#64)] = .ok bc := ⟨_, rfl⟩
example : ∃ p m, compileFile [] [] [.expr 1 (.ident 1 "x")] = .error (.err p m) := ⟨_, _, rfl⟩

/-! ### well-formedness of the result -/

/-- an operand read from `w` bytes is below `256 ^ w`: CALL / CALLNAME (1 + 1 bytes), ARRAY / MAP
    (2 bytes) and every other operand of a decoded instruction is within its width by construction;
    the compiler side is `emit_limit_is_error` (a count that does not fit is a compile error) -/
theorem readBE_lt (a : Array UInt8) (i : Nat) : ∀ w, readBE a i w < 256 ^ w
  | 0 => by simp [readBE]
  | w + 1 => by
    have ih := readBE_lt a i w
    have hb := (a[i + w]?.getD 0).toNat_lt
    have hstep : readBE a i (w + 1) = readBE a i w * 256 + (a[i + w]?.getD 0).toNat := by
      simp [readBE, List.range_succ, List.foldl_append]
    rw [hstep, Nat.pow_succ]
    have : readBE a i w + 1 ≤ 256 ^ w := ih
    have := Nat.mul_le_mul_right 256 this
    omega

/-- Well-formedness of one compiled function `f` with `nf` free variables against the constant pool
    `cs`.  `Bd a p`: `p` is the start of an instruction of `a` (reached by decoding from 0, and
    `p < a.size`); `Walk a 0 t`: `t` is the start of an instruction or the end of the stream. -/
structure WFFn (cs : Array Const) (nf : Nat) (f : CFn) : Prop where
  /-- NumParams ≤ NumLocals -/
  params : f.numParams ≤ f.numLocals
  /-- the stream decodes completely into instructions with known opcodes and full operands -/
  decodes : Walk f.insts 0 f.insts.size
  /-- the last instruction is RETURN -/
  ret : ∃ q b, Walk f.insts 0 q ∧ f.insts[q]? = some b ∧ b.toNat = OpReturn ∧ q + 1 + opWidth OpReturn = f.insts.size
  /-- JUMP / JUMPFALSY / ANDJUMP / ORJUMP: the target is the start of an instruction strictly inside the stream -/
  jump : ∀ p op, Bd f.insts p → f.insts[p]? = some op →
    (op.toNat = OpJump ∨ op.toNat = OpJumpFalsy ∨ op.toNat = OpAndJump ∨ op.toNat = OpOrJump) →
    Bd f.insts (readBE f.insts (p + 1) 4)
  /-- SETUPTRY: both operands are instruction starts (0 for an absent catch) or the end of the stream -/
  try_ : ∀ p op, Bd f.insts p → f.insts[p]? = some op → op.toNat = OpSetupTry →
    Walk f.insts 0 (readBE f.insts (p + 1) 4) ∧ Walk f.insts 0 (readBE f.insts (p + 5) 4)
  /-- GETFREE / SETFREE / GETFREEPTR: the index is below the number of free variables -/
  free : ∀ p op, Bd f.insts p → f.insts[p]? = some op →
    (op.toNat = OpGetFree ∨ op.toNat = OpSetFree ∨ op.toNat = OpGetFreePtr) → readBE f.insts (p + 1) 1 < nf
  /-- GETBUILTIN: the index names a builtin object -/
  builtin : ∀ p op, Bd f.insts p → f.insts[p]? = some op → op.toNat = OpGetBuiltin →
    readBE f.insts (p + 1) 1 < Gen.numBuiltins
  /-- GETGLOBAL / SETGLOBAL: the index names a String constant -/
  global : ∀ p op, Bd f.insts p → f.insts[p]? = some op → (op.toNat = OpGetGlobal ∨ op.toNat = OpSetGlobal) →
    ∃ b, cs[readBE f.insts (p + 1) 2]? = some (.val (.str b))
  /-- CONSTANT: the index is in the pool; a function loaded this way uses no free variable -/
  const : ∀ p op, Bd f.insts p → f.insts[p]? = some op → op.toNat = OpConstant →
    readBE f.insts (p + 1) 2 < cs.size ∧ ∀ g, cs[readBE f.insts (p + 1) 2]? = some (.fn g) → FreeBound 0 g.insts
  /-- CLOSURE i n: constant `i` is a compiled function that uses at most the `n` free variables supplied -/
  closure : ∀ p op, Bd f.insts p → f.insts[p]? = some op → op.toNat = OpClosure →
    ∃ g, cs[readBE f.insts (p + 1) 2]? = some (.fn g) ∧ FreeBound (readBE f.insts (p + 3) 1) g.insts

theorem wfFn_of_finFn {cs : Array Const} {nf : Nat} {f : CFn} (h : FinFn cs nf f) : WFFn cs nf f := by
  obtain ⟨⟨⟨hw, ht⟩, hj, hr⟩, hp, _⟩ := h
  refine ⟨hp, hw, hr, ?_, ?_, ?_, ?_, ?_, ?_, ?_⟩
  · intro p op hbd hop hc
    have hjo : isJumpOp op.toNat = true := by
      rcases hc with h | h | h | h <;> rw [h] <;> rfl
    exact ⟨(ht p op hbd hop).1 hjo, hj p op hbd hop hjo⟩
  · intro p op hbd hop hc
    exact (ht p op hbd hop).2.1 hc
  · intro p op hbd hop hc
    have hfo : isFreeOp op.toNat = true := by rcases hc with h | h | h <;> rw [h] <;> rfl
    have hw1 : operandWidths op.toNat = [1] := by rcases hc with h | h | h <;> rw [h] <;> rfl
    exact ((ht p op hbd hop).2.2.1 1 [] hw1).1 hfo
  · intro p op hbd hop hc
    have hw1 : operandWidths op.toNat = [1] := by rw [hc]; rfl
    exact ((ht p op hbd hop).2.2.1 1 [] hw1).2.1 hc
  · intro p op hbd hop hc
    have hgo : isGlobalOp op.toNat = true := by rcases hc with h | h <;> rw [h] <;> rfl
    have hw1 : operandWidths op.toNat = [2] := by rcases hc with h | h <;> rw [h] <;> rfl
    exact ((ht p op hbd hop).2.2.1 2 [] hw1).2.2.1 hgo
  · intro p op hbd hop hc
    have hw1 : operandWidths op.toNat = [2] := by rw [hc]; rfl
    have := (ht p op hbd hop).2.2.1 2 [] hw1
    exact ⟨this.2.2.2.1 (by rw [hc]; rfl), this.2.2.2.2 hc⟩
  · intro p op hbd hop hc
    exact (ht p op hbd hop).2.2.2 hc

/-- Well-formedness of returned bytecode: the main function has at most `maxNumLocals` (256) locals
    and is well formed without free variables; every compiled function in the constant pool has at
    most 256 locals and is well formed for some number of free variables (the number every CLOSURE
    naming it supplies, by `WFFn.closure`; 0 if it is loaded by CONSTANT, by `WFFn.const`). -/
def WF (bc : Bytecode) : Prop :=
  bc.main.numLocals ≤ maxNumLocals ∧ WFFn bc.constants 0 bc.main ∧
  ∀ g, Const.fn g ∈ bc.constants.toList → g.numLocals ≤ 256 ∧ ∃ nf, WFFn bc.constants nf g

/-- **the bytecode returned by Compile is well formed** (`WF`, over main and every function constant):
    streams decode; every jump target is an instruction start strictly inside its function, the
    last instruction is RETURN; SETUPTRY operands are instruction boundaries; free-variable, builtin,
    global-name, constant and closure indices are in range and of the right kind; NumParams ≤
    NumLocals ≤ 256.  (Not included: the local-slot index of GETLOCAL / SETLOCAL / DEFINELOCAL /
    GETLOCALPTR — see `C05_full`.) -/
theorem compile_wf (builtins : List (String × Nat)) (hb : BuiltinsOK builtins) (disabled : List String)
    (file : List Stmt) (hok : okSs file = true) (bc : Bytecode) (h : compileFile builtins disabled file = .ok bc) :
    WF bc := by
  have hg := compileFile_sat builtins hb disabled file hok
  rw [h] at hg
  obtain ⟨h1, h2, h3⟩ := hg
  refine ⟨h1, wfFn_of_finFn h2, ?_⟩
  intro g hgm
  obtain ⟨hl, nf, hf⟩ := h3 (.fn g) hgm g rfl
  exact ⟨hl, nf, wfFn_of_finFn hf⟩

/-- the slot operand of every local-variable instruction is below NumLocals -/
def LocalsOK (f : CFn) : Prop :=
  ∀ p op, Bd f.insts p → f.insts[p]? = some op →
    (op.toNat = OpGetLocal ∨ op.toNat = OpSetLocal ∨ op.toNat = OpDefineLocal ∨ op.toNat = OpGetLocalPtr) →
    readBE f.insts (p + 1) 1 < f.numLocals

/-- the operands of every SETUPTRY are instruction starts strictly inside the stream (catch: or 0) -/
def TryStrict (f : CFn) : Prop :=
  ∀ p op, Bd f.insts p → f.insts[p]? = some op → op.toNat = OpSetupTry →
    (readBE f.insts (p + 1) 4 = 0 ∨ Bd f.insts (readBE f.insts (p + 1) 4)) ∧ Bd f.insts (readBE f.insts (p + 5) 4)

theorem tryStrict_of_finFn {cs : Array Const} {nf : Nat} {f : CFn} (h : FinFn cs nf f) : TryStrict f := by
  intro p op hbd hop hc
  obtain ⟨w1, w2⟩ := (wfFn_of_finFn h).try_ p op hbd hop hc
  obtain ⟨l1, l2⟩ := h.2.2 p op hbd hop hc
  exact ⟨.inr ⟨w1, l1⟩, ⟨w2, l2⟩⟩

/-- **the SETUPTRY operands of compiled code lie strictly inside their function** (`TryStrict`, over
    main and every function constant): the catch operand (0 when there is no catch clause: the
    SETUPTRY itself is an instruction, so offset 0 is a start as well) and the finally operand are
    instruction starts, never the end-of-stream offset.  Invariant `Inv.tryLt` (`TryLt`: both
    operands of every SETUPTRY emitted so far are below the current length of the stream): the
    catch position is read right before SETUPCATCH is emitted at it, the finally position is that of
    the emitted SETUPFINALLY, and only then is SETUPTRY patched (`st_changeOperand … hstrict`);
    the stream only grows afterwards. -/
theorem compile_try_strict (builtins : List (String × Nat)) (hb : BuiltinsOK builtins) (disabled : List String)
    (file : List Stmt) (hok : okSs file = true) (bc : Bytecode) (h : compileFile builtins disabled file = .ok bc) :
    TryStrict bc.main ∧ ∀ g, Const.fn g ∈ bc.constants.toList → TryStrict g := by
  have hg := compileFile_sat builtins hb disabled file hok
  rw [h] at hg
  obtain ⟨_, h2, h3⟩ := hg
  refine ⟨tryStrict_of_finFn h2, ?_⟩
  intro g hgm
  obtain ⟨_, nf, hf⟩ := h3 (.fn g) hgm g rfl
  exact tryStrict_of_finFn hf

/-- non-vacuity of `compile_try_strict`: `try { 1 } catch { } finally { }` compiles; the stream starts
    with SETUPTRY, whose catch operand is non-zero and below the finally operand, which is below the
    length of the stream -/
def tryDemo : List Stmt := [.try_ 1 1 [.expr 2 (.int 2 1#64)] (some (3, none, 3, [])) (some (4, 4, []))]
example : okSs tryDemo = true := by decide
example : (match compileFile [] [] tryDemo with
    | .ok bc => bc.main.insts[0]? == some 34 && decide (0 < readBE bc.main.insts 1 4) &&
        decide (readBE bc.main.insts 1 4 < readBE bc.main.insts 5 4) && decide (readBE bc.main.insts 5 4 < bc.main.insts.size)
    | .error _ => false) = true := by decide +kernel

/-- The full statement: `compileFile` returns an error or bytecode that is well formed (`WF`) and in
    which, for main and every function constant, local slots are below NumLocals (`LocalsOK`) and try
    targets lie strictly inside (`TryStrict`); and the claim covers scanner, parser, optimizer and
    module import.

    Proved: `compile_no_panic` (the error side, for every AST), `compile_wf` (`WF`) and
    `compile_try_strict` (`TryStrict`, round 5).

    Not proved — checked on real bytecode by the structural scan of stream `compilefuzz`:
    `LocalsOK` (it does not hold for every AST: `DefineLocal(":array")` of a destructuring
    assignment and the identifier of `catch` / `for-in` return an existing symbol of any scope and
    its index is emitted as a local slot; excluding that needs identifier hygiene — no user symbol
    named `:array` — and block-table facts the invariant does not carry).
    Not modelled: scanner / parser / optimizer / imports. -/
def C05_full : Prop :=
  ∀ (builtins : List (String × Nat)), BuiltinsOK builtins → ∀ (disabled : List String) (file : List Stmt),
    okSs file = true →
    match compileFile builtins disabled file with
    | .ok bc => WF bc ∧ LocalsOK bc.main ∧ TryStrict bc.main ∧
        ∀ g, Const.fn g ∈ bc.constants.toList → LocalsOK g ∧ TryStrict g
    | .error e => ∀ m, e ≠ .panic m

/-! ### what the VM's prologue needs of compiler output (C06) -/

/-- `MainWF` — the hypothesis of the C06 theorems about `Run` (the prologue slices
    `stack[:NumLocals]` and indexes `locals[NumParams-1]` outside `recover`) — holds for every VM
    state into which compiler output is loaded with `SetBytecode`: `NumLocals ≤ 256 ≤ 2048` and
    `NumParams ≤ NumLocals` by `compile_wf`. -/
theorem compiled_main_wf (builtins : List (String × Nat)) (hb : BuiltinsOK builtins) (disabled : List String)
    (file : List Stmt) (hok : okSs file = true) (bc : Bytecode) (h : compileFile builtins disabled file = .ok bc)
    (vm : UgoVerif.VM.State) (oldN : Nat) (modules : Array UgoVerif.VM.V) :
    UgoVerif.Proofs.VM.MainWF (UgoVerif.Eval.setBytecode vm bc.main oldN bc.constants modules) := by
  have hwf := compile_wf builtins hb disabled file hok bc h
  intro c free hget
  simp only [UgoVerif.Eval.setBytecode, UgoVerif.Eval.allocFn] at hget ⊢
  simp only [Array.getElem?_push_size, Option.some.injEq] at hget
  injection hget with hc _
  subst hc
  simp [UgoVerif.Eval.codeOfCFn, UgoVerif.VM.stackSize]
  have h1 := hwf.1
  have h2 := hwf.2.1.params
  unfold maxNumLocals at h1
  omega

end UgoVerif.Props.C05
