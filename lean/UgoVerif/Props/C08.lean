import UgoVerif.Props.C07
/-
  C08 — many VMs may run one Bytecode concurrently.

  Model: N copies of `State` (one per VM: own stack, frames, heap, globals, module cache) that
  carry the same shared region — code memory `codes` and constant table `consts`.  An
  interleaving is a schedule (list of VM indices); `stepAt` advances one VM by one
  instruction.  Because no instruction writes the shared region (`step_keeps_bytecode`,
  from C07) the copies stay equal to the one shared Bytecode, every VM's write set is
  private, steps of different VMs commute and each VM reaches exactly its solo state.

  Proved in full (for this model): shared_stays_shared, steps_commute, independent,
  no_shared_write, stores_allowlisted.  Partial: `race_free_partial` — the statement
  covers the shared region as modelled (`codes`, `consts` and the bytecode header); heap
  objects reachable from constants (Map constants of builtin modules, function cells) live
  in each model VM's own heap, so sharing of those is covered by the structural table
  (`stores_allowlisted`), by `copy`-on-import tests and by the race detector in the
  `concurrent` stream, not by a theorem.  The Go memory model and `sync.Pool` are trusted.
-/
namespace UgoVerif.Props.C08
open UgoVerif UgoVerif.Go UgoVerif.VM

/-- all VMs carry the one Bytecode -/
def SharedBC (codes : Array Code) (consts : Array V) (vms : List State) : Prop :=
  ∀ s ∈ vms, s.codes = codes ∧ s.consts = consts

/-- VM `i` executes one instruction (its `.next`/`.ret`/panic result is the VM's own business) -/
def stepAt (F : FloatOps) (i : Nat) (vms : List State) : List State :=
  vms.modify i (fun s => (exec (step F) s).2)

/-- an interleaving of single instructions -/
def runSched (F : FloatOps) (sched : List Nat) (vms : List State) : List State :=
  sched.foldl (fun v i => stepAt F i v) vms

/-- `n` instructions of one VM alone -/
def solo (F : FloatOps) : Nat → State → State
  | 0, s => s
  | n+1, s => solo F n (exec (step F) s).2

/-- **no_shared_write**: an instruction of any VM leaves the shared region as it is -/
theorem no_shared_write (F : FloatOps) (s : State) :
    (exec (step F) s).2.codes = s.codes ∧ (exec (step F) s).2.consts = s.consts :=
  ⟨(C07.step_keeps_bytecode F s).1, (C07.step_keeps_bytecode F s).2.1⟩

theorem stepAt_shared (F : FloatOps) (codes : Array Code) (consts : Array V) (i : Nat) (vms : List State)
    (h : SharedBC codes consts vms) : SharedBC codes consts (stepAt F i vms) := by
  intro s hs
  unfold stepAt at hs
  rw [List.mem_iff_getElem] at hs
  obtain ⟨k, hk, rfl⟩ := hs
  rw [List.getElem_modify]
  have hk' : k < vms.length := by simpa using hk
  split
  · have := h vms[k] (List.getElem_mem hk')
    exact ⟨(no_shared_write F _).1.trans this.1, (no_shared_write F _).2.trans this.2⟩
  · exact h vms[k] (List.getElem_mem hk')

/-- **shared_stays_shared**: under every schedule all VMs keep seeing the one Bytecode -/
theorem shared_stays_shared (F : FloatOps) (codes : Array Code) (consts : Array V) (sched : List Nat) :
    ∀ vms, SharedBC codes consts vms → SharedBC codes consts (runSched F sched vms) := by
  induction sched with
  | nil => intro vms h; exact h
  | cons i rest ih => intro vms h; exact ih _ (stepAt_shared F codes consts i vms h)

/-- **steps_commute**: instructions of different VMs commute (private write sets) -/
theorem steps_commute (F : FloatOps) (i j : Nat) (hij : i ≠ j) (vms : List State) :
    stepAt F i (stepAt F j vms) = stepAt F j (stepAt F i vms) := by
  unfold stepAt
  apply List.ext_getElem
  · simp
  · intro k h1 h2
    simp only [List.getElem_modify]
    by_cases hi : i = k <;> by_cases hj : j = k <;> simp [hi, hj]

theorem stepAt_get (F : FloatOps) (i j : Nat) (vms : List State) :
    (stepAt F i vms)[j]? = if i = j then (vms[j]?).map (fun s => (exec (step F) s).2) else vms[j]? := by
  unfold stepAt
  rw [List.getElem?_modify]
  by_cases h : i = j <;> simp [h]

theorem solo_succ (F : FloatOps) (n : Nat) (s : State) :
    solo F (n + 1) s = (exec (step F) (solo F n s)).2 := by
  induction n generalizing s with
  | zero => rfl
  | succ n ih => show solo F (n + 1) (exec (step F) s).2 = _; rw [ih]; rfl

/-- **independent**: in ANY interleaving VM `j` ends in exactly the state it reaches when it
    executes its instructions alone -/
theorem independent (F : FloatOps) (sched : List Nat) (j : Nat) :
    ∀ vms : List State, (runSched F sched vms)[j]? = (vms[j]?).map (solo F (sched.count j)) := by
  suffices H : ∀ (rs : List Nat) (vms : List State),
      (rs.foldr (fun i v => stepAt F i v) vms)[j]? = (vms[j]?).map (solo F (rs.count j)) by
    intro vms
    have := H sched.reverse vms
    rw [List.foldr_reverse, List.count_reverse] at this
    exact this
  intro rs
  induction rs with
  | nil => intro vms; simp [solo]
  | cons i rest ih =>
    intro vms
    rw [List.foldr_cons, stepAt_get, ih]
    by_cases h : i = j
    · subst h
      simp only [if_true, List.count_cons_self, Option.map_map]
      congr 1
      funext s
      exact (solo_succ F _ s).symm
    · have : (i == j) = false := by simpa using h
      simp [h]

/-- a step of VM `i` writes the shared region -/
def SharedWrite (F : FloatOps) (s : State) : Prop :=
  (exec (step F) s).2.codes ≠ s.codes ∨ (exec (step F) s).2.consts ≠ s.consts

/-- **race_free_partial**: no instruction of any VM writes a location of the shared region
    (`codes`, `consts`), so no pair of accesses by two VMs to a shared location conflicts
    (a conflict needs a write).  Partial: see the header. -/
theorem race_free_partial (F : FloatOps) (s : State) : ¬ SharedWrite F s := by
  intro h
  rcases h with h | h
  · exact h (no_shared_write F s).1
  · exact h (no_shared_write F s).2

/-- the full statement: every location reachable from the shared Bytecode — including heap
    objects referenced by constants — is free of conflicting accesses in every interleaving,
    and every VM returns its solo outcome.  The part about heap objects needs a model in which
    VMs share one heap region for constants; it is not stated as a theorem. -/
def C08_full : Prop :=
  ∀ (F : FloatOps) (sched : List Nat) (j : Nat) (vms : List State),
    (runSched F sched vms)[j]? = (vms[j]?).map (solo F (sched.count j)) ∧
    ∀ s ∈ runSched F sched vms, ¬ SharedWrite F s

theorem C08_model (F : FloatOps) (sched : List Nat) (j : Nat) (vms : List State) :
    (runSched F sched vms)[j]? = (vms[j]?).map (solo F (sched.count j)) ∧
    ∀ s ∈ runSched F sched vms, ¬ SharedWrite F s :=
  ⟨independent F sched j vms, fun s _ => race_free_partial F s⟩

/-- structural half over the regenerated table: every store rooted at data shared between VMs
    (constants, Bytecode and CompiledFunction fields, the file set) — in vm.go, objects.go,
    modules.go, bytecode.go and parser/source_file.go — sits in a construction-time or
    reset-time function.  `SourceFileSet.File/Position/file` (called while formatting stack
    traces on any goroutine) are not in the list: the `LastFile` write is gone. -/
theorem stores_allowlisted :
    Gen.VmWrites.stores.all (fun w => C07.storeAllowed.contains (w.file, w.func)) = true := by decide

/-- no store at all remains in the lookup functions of the file set -/
theorem fileset_lookups_pure :
    Gen.VmWrites.stores.all (fun w => !(w.file == "parser/source_file.go" &&
      (w.func == "file" || w.func == "File" || w.func == "Position"))) = true := by decide

/-! ### non-vacuity -/
example : SharedBC #[] #[] [newState #[] #[] #[] 0 0, newState #[] #[] #[] 0 0] := by
  intro s hs
  simp at hs
  rcases hs with rfl | rfl <;> exact ⟨rfl, rfl⟩

example : [2, 0, 2, 1].count 2 = 2 := by decide

end UgoVerif.Props.C08
