import UgoVerif.Proofs.JsonEnc
import UgoVerif.Proofs.JsonScan
/-
  C17 — the json module produces and accepts exactly standard JSON.

  Spec:   `Spec/Json.lean`   RFC 8259 recogniser `isJson : Bytes → Bool` (compared with
                              encoding/json.Valid on every byte string of the `json` stream)
  Model:  `Model/JsonEnc.lean`  Marshal (escape tables regenerated from tables.go: `Gen/JsonTables`)
          `Model/JsonScan.lean` scanner automaton, Valid, Compact, Indent
  Tie:    stream `json` (model vs implementation on Marshal/Valid/Compact/Indent; the
          implementation vs encoding/json as the property's own oracle)

  Proved here for ALL values / byte strings: string escaping always yields a JSON string
  token (`escape_valid`); Marshal output is a JSON text (`marshal_valid_partial`, see the
  two side conditions); a value holding an object without encoder is never given a
  document (`marshal_unsupported_is_error`).  The full statement is `C17_full`; what is
  not proved is listed beside it.
-/
namespace UgoVerif.Props.C17
open UgoVerif UgoVerif.Go UgoVerif.Model.JsonEnc UgoVerif.Model.JsonScan UgoVerif.Spec.Json UgoVerif.Proofs.Json

/-! ### string escaping -/

/-- Every escaped string is exactly one JSON string token: for all byte strings (invalid
    UTF-8, control bytes, quotes, backslashes, `<>&`, U+2028/9) and both settings of the
    HTML option, the recogniser reads `"…"` and stops right after the closing quote. -/
theorem escape_valid (escapeHTML : Bool) (s rest : Bytes) :
    Spec.Json.string (quoteString escapeHTML s ++ rest) = some rest :=
  quoteString_string escapeHTML s rest

/-- … and is a complete JSON text on its own -/
theorem escape_valid_doc (escapeHTML : Bool) (s : Bytes) : isJson (quoteString escapeHTML s) = true :=
  (isVal_quoteString escapeHTML s).isJson

example : quoteString true [0x3C, 0xFF, 0x22, 0x08] =
    [0x22, 0x5C, 0x75, 0x30, 0x30, 0x33, 0x63, 0x5C, 0x75, 0x66, 0x66, 0x66, 0x64, 0x5C, 0x22, 0x5C, 0x62, 0x22] := by
  decide

/-! ### Marshal -/

/-- a `JsonLib` meeting the hypothesis exists (non-vacuity of `JsonLib.OK`) -/
def L0 : JsonLib := { appendFloat := fun _ _ => [0x30] }
theorem L0_text (f : F64) : floatText L0 f = [0x30] := by
  simp [floatText, L0, cleanExp]
theorem L0_ok : L0.OK :=
  ⟨fun f _ _ => by rw [L0_text]; decide,
   fun f _ _ x hx => by
    rw [L0_text] at hx; simp at hx; subst hx; decide⟩

/-- `compact` writes one JSON value for `src` whenever it succeeds (a scanner theorem that is
    not proved yet; it is only needed for raw messages, i.e. bytes returned by a `Marshaler`) -/
def CompactWritesValue (src : Bytes) : Prop := CompactValidOn src

/-- **Marshal returns an error or a JSON text** — every value type, arbitrary nesting, both
    options (quoted, escapeHTML) anywhere in the value.  Side conditions:
    * `isTopErr v = false`: the whole document is not a bare error value (for which the
      implementation still returns the empty document: open finding, see `marshal_full_false`);
    * every raw message inside `v` compacts to one value (`CompactWritesValue`).
    `L.OK` is the assumption on `strconv.AppendFloat` (checked by the driver on each float). -/
theorem marshal_valid_partial (L : JsonLib) (hL : L.OK) (v : JV) (bs : Bytes)
    (hTop : isTopErr v = false) (hRaw : rawsOK CompactWritesValue v)
    (h : marshal L v = .ok bs) : isJson bs = true :=
  (enc_valid L hL CompactWritesValue (fun _ hb => hb) v false true true bs hRaw h (Or.inr hTop)).isJson

/-- without raw messages there is no side condition on `compact` -/
theorem marshal_valid_rawfree (L : JsonLib) (hL : L.OK) (v : JV) (bs : Bytes)
    (hTop : isTopErr v = false) (hRaw : rawFree v)
    (h : marshal L v = .ok bs) : isJson bs = true :=
  (enc_valid L hL (fun _ => False) (fun _ hb => hb.elim) v false true true bs hRaw h (Or.inr hTop)).isJson

/-- the same for a value in any position and under any options: what `encode` appends is
    one JSON value (used for elements and members) -/
theorem encode_valid (L : JsonLib) (hL : L.OK) (v : JV) (quoted escapeHTML : Bool) (bs : Bytes)
    (hRaw : rawFree v) (h : enc L quoted escapeHTML false v = .ok bs) : isJson bs = true :=
  (enc_valid L hL (fun _ => False) (fun _ hb => hb.elim) v quoted escapeHTML false bs hRaw h (Or.inl rfl)).isJson

-- non-vacuity: a nested value with options and both hypotheses
example : marshal L0 (.map [([0x61], .opts true false (.array [.int 5, .str [0x3C], .undefined, .bytes [0xFF]]))])
    = .ok [0x7B, 0x22, 0x61, 0x22, 0x3A, 0x5B, 0x22, 0x35, 0x22, 0x2C, 0x22, 0x5C, 0x22, 0x3C, 0x5C, 0x22, 0x22,
           0x2C, 0x6E, 0x75, 0x6C, 0x6C, 0x2C, 0x22, 0x2F, 0x77, 0x3D, 0x3D, 0x22, 0x5D, 0x7D] := by decide
example : isTopErr (.map [([0x61], .errval)]) = false ∧ rawFree (.array [.int 1, .map []]) :=
  ⟨rfl, by simp [rawFree, rawsOK, rawsOKL, rawsOKM]⟩

/-- **A value that holds an object without encoder is never given a document**: functions,
    runtime errors, iterators … (`opaque`) anywhere, and error values anywhere but as the whole
    document, make Marshal fail instead of writing `{"a":,"b":1}`. -/
theorem marshal_unsupported_is_error (L : JsonLib) (v : JV) (hU : hasUnsupported v = true)
    (hTop : isTopErr v = false) : ∀ bs, marshal L v ≠ .ok bs :=
  enc_unsupported L v false true true hU (Or.inr hTop)

/-- the design-phase witness `{a: <function>, b: 1}` is now an UnsupportedTypeError -/
example : marshal L0 (.map [([0x61], .opaque "compiledFunction"), ([0x62], .int 1)])
    = .err (unsupportedType "compiledFunction") := by decide
example : hasUnsupported (.map [([0x61], .opaque "compiledFunction"), ([0x62], .int 1)]) = true := by decide

/-- Open finding `C17:marshal-empty:toplevel-error-value`: an error value as the whole
    document is "ignored" — Marshal returns the empty document and no error (pinned by
    module_test.go: `string(json.Marshal(error("test"))) == ""`). -/
theorem marshal_toplevel_error_empty (L : JsonLib) : marshal L .errval = .ok [] := rfl

/-- Marshal validity for *all* values (the statement of the property) … -/
def marshal_full : Prop :=
  ∀ (L : JsonLib), L.OK → ∀ (v : JV) (bs : Bytes), marshal L v = .ok bs → isJson bs = true

/-- … is refuted by that witness: the side condition `isTopErr v = false` cannot be dropped. -/
theorem marshal_full_false : ¬ marshal_full := by
  intro h
  have := h L0 L0_ok .errval [] rfl
  exact absurd this (by decide)

/-! ### the scanner never panics -/

/-- `valid` (checkValid over the scanner automaton) returns a verdict for every byte string:
    neither `parseState[n-1]` in `stateBeginStringOrEmpty` nor the slice in `popParseState`
    is ever reached with an empty parse stack. -/
theorem valid_no_panic (bs : Bytes) : ∃ b, valid bs = .ok b :=
  checkLoop_no_panic bs Scanner.new stackInv_new

/-- `indentBuffer` returns output or the scanner's error for every input, prefix and indent -/
theorem indent_no_panic (pre ind bs : Bytes) : ∃ o, indent pre ind bs = .ok o := by
  unfold indent
  obtain ⟨st', e, h'⟩ := indentLoop_no_panic pre ind bs
    { scan := Scanner.new, out := [], needIndent := false, depth := 0 } stackInv_new
  obtain ⟨s'', op, e2⟩ := eof_post st'.scan h'
  simp only [bind, Res.bind, e, e2]
  split <;> exact ⟨_, rfl⟩

example : valid [0x7B, 0x7D] = .ok true ∧ valid [0x7D] = .ok false := by decide

/-! ### the full statement -/

/-- C17 at full strength over the model.  Proved: the Marshal half (`marshal_valid_partial`,
    `marshal_unsupported_is_error`, `escape_valid`) up to the two side conditions.  Not
    proved (tested by the `json` stream on every generated byte string, against the
    implementation and against encoding/json): that the scanner automaton accepts exactly the
    JSON texts of nesting depth ≤ 10000, that Compact and Indent map JSON texts to JSON
    texts, and the round trip through Unmarshal (the decoder is not modelled). -/
def C17_full : Prop :=
  marshal_full
  ∧ (∀ bs, valid bs = .ok true → isJson bs = true)                                   -- scanner_sound
  ∧ (∀ bs out esc, compact esc bs = .ok (some out) → isJson out = true)                -- compact
  ∧ (∀ bs out p i, isJson bs = true → indent p i bs = .ok (some out) → isJson out = true)  -- indent

theorem C17_full_false : ¬ C17_full := fun h => marshal_full_false h.1

end UgoVerif.Props.C17
