import UgoVerif.Proofs.JsonEnc
import UgoVerif.Proofs.JsonScan
import UgoVerif.Proofs.JsonScanSpec
import UgoVerif.Proofs.JsonCompact2
import UgoVerif.Proofs.JsonIndent
/-
  C17 — the json module produces and accepts exactly standard JSON.

  Spec:   `Spec/Json.lean`   RFC 8259 recogniser `isJson : Bytes → Bool` (compared with
                              encoding/json.Valid on every byte string of the `json` stream)
  Model:  `Model/JsonEnc.lean`  Marshal (escape tables regenerated from tables.go: `Gen/JsonTables`)
          `Model/JsonScan.lean` scanner automaton, Valid, Compact, Indent
  Tie:    stream `json` (model vs implementation on Marshal/Valid/Compact/Indent; the
          implementation vs encoding/json as the property's own oracle)

  Proved here for ALL values / byte strings: string escaping always yields a JSON string
  token (`escape_valid`); Marshal output is a JSON text (`marshal_valid`, one side condition:
  the open finding); a value holding an object without encoder is never given a
  document (`marshal_unsupported_is_error`); the scanner automaton accepts exactly the JSON
  texts nested at most `maxNestingDepth` deep (`scanner_exact`, `scanner_sound`,
  `scanner_complete`); `compact` never panics and writes one JSON value (`compact_valid`).
  The full statement is `C17_full`; what is not proved is listed beside it.
-/
namespace UgoVerif.Props.C17
open UgoVerif UgoVerif.Go UgoVerif.Model.JsonEnc UgoVerif.Model.JsonScan UgoVerif.Spec.Json UgoVerif.Proofs.Json
open UgoVerif.Gen.JsonTables (maxNestingDepth)

/-! ### string escaping -/

/-- Every escaped string is exactly one JSON string token: for all byte strings (invalid
    UTF-8, control bytes, quotes, backslashes, `<>&`, U+2028/9) and both settings of the
    HTML option, the recogniser reads `"…"` and stops right after the closing quote. -/
theorem escape_valid (escapeHTML : Bool) (s rest : Bytes) :
    Spec.Json.string (quoteString escapeHTML s ++ rest) = some rest :=
  quoteString_string escapeHTML s rest

/-- … and is a complete JSON text on its own -/
theorem escape_valid_doc (escapeHTML : Bool) (s : Bytes) : isJson (quoteString escapeHTML s) = true :=
  (isVal_quoteString escapeHTML s).isJson

example : quoteString true [0x3C, 0xFF, 0x22, 0x08] =
    [0x22, 0x5C, 0x75, 0x30, 0x30, 0x33, 0x63, 0x5C, 0x75, 0x66, 0x66, 0x66, 0x64, 0x5C, 0x22, 0x5C, 0x62, 0x22] := by
  decide

/-! ### Marshal -/

/-- a `JsonLib` meeting the hypothesis exists (non-vacuity of `JsonLib.OK`) -/
def L0 : JsonLib := { appendFloat := fun _ _ => [0x30] }
theorem L0_text (f : F64) : floatText L0 f = [0x30] := by
  simp [floatText, L0, cleanExp]
theorem L0_ok : L0.OK :=
  ⟨fun f _ _ => by rw [L0_text]; decide,
   fun f _ _ x hx => by
    rw [L0_text] at hx; simp at hx; subst hx; decide⟩

/-- `compact` writes one JSON value for `src` whenever it succeeds (a scanner theorem that is
    not proved yet; it is only needed for raw messages, i.e. bytes returned by a `Marshaler`) -/
def CompactWritesValue (src : Bytes) : Prop := CompactValidOn src

/-- **Marshal returns an error or a JSON text** — every value type, arbitrary nesting, both
    options (quoted, escapeHTML) anywhere in the value.  Side conditions:
    * `isTopErr v = false`: the whole document is not a bare error value (for which the
      implementation still returns the empty document: open finding, see `marshal_full_false`);
    * every raw message inside `v` compacts to one value (`CompactWritesValue`).
    `L.OK` is the assumption on `strconv.AppendFloat` (checked by the driver on each float). -/
theorem marshal_valid_partial (L : JsonLib) (hL : L.OK) (v : JV) (bs : Bytes)
    (hTop : isTopErr v = false) (hRaw : rawsOK CompactWritesValue v)
    (h : marshal L v = .ok bs) : isJson bs = true :=
  (enc_valid L hL CompactWritesValue (fun _ hb => hb) v false true true bs hRaw h (Or.inr hTop)).isJson

/-- without raw messages there is no side condition on `compact` -/
theorem marshal_valid_rawfree (L : JsonLib) (hL : L.OK) (v : JV) (bs : Bytes)
    (hTop : isTopErr v = false) (hRaw : rawFree v)
    (h : marshal L v = .ok bs) : isJson bs = true :=
  (enc_valid L hL (fun _ => False) (fun _ hb => hb.elim) v false true true bs hRaw h (Or.inr hTop)).isJson

/-- the same for a value in any position and under any options: what `encode` appends is
    one JSON value (used for elements and members) -/
theorem encode_valid (L : JsonLib) (hL : L.OK) (v : JV) (quoted escapeHTML : Bool) (bs : Bytes)
    (hRaw : rawFree v) (h : enc L quoted escapeHTML false v = .ok bs) : isJson bs = true :=
  (enc_valid L hL (fun _ => False) (fun _ hb => hb.elim) v quoted escapeHTML false bs hRaw h (Or.inl rfl)).isJson

-- non-vacuity: a nested value with options and both hypotheses
example : marshal L0 (.map [([0x61], .opts true false (.array [.int 5, .str [0x3C], .undefined, .bytes [0xFF]]))])
    = .ok [0x7B, 0x22, 0x61, 0x22, 0x3A, 0x5B, 0x22, 0x35, 0x22, 0x2C, 0x22, 0x5C, 0x22, 0x3C, 0x5C, 0x22, 0x22,
           0x2C, 0x6E, 0x75, 0x6C, 0x6C, 0x2C, 0x22, 0x2F, 0x77, 0x3D, 0x3D, 0x22, 0x5D, 0x7D] := by decide
example : isTopErr (.map [([0x61], .errval)]) = false ∧ rawFree (.array [.int 1, .map []]) :=
  ⟨rfl, by simp [rawFree, rawsOK, rawsOKL, rawsOKM]⟩

/-- **A value that holds an object without encoder is never given a document**: functions,
    runtime errors, iterators … (`opaque`) anywhere, and error values anywhere but as the whole
    document, make Marshal fail instead of writing `{"a":,"b":1}`. -/
theorem marshal_unsupported_is_error (L : JsonLib) (v : JV) (hU : hasUnsupported v = true)
    (hTop : isTopErr v = false) : ∀ bs, marshal L v ≠ .ok bs :=
  enc_unsupported L v false true true hU (Or.inr hTop)

/-- the design-phase witness `{a: <function>, b: 1}` is now an UnsupportedTypeError -/
example : marshal L0 (.map [([0x61], .opaque "compiledFunction"), ([0x62], .int 1)])
    = .err (unsupportedType "compiledFunction") := by decide
example : hasUnsupported (.map [([0x61], .opaque "compiledFunction"), ([0x62], .int 1)]) = true := by decide

/-- Open finding `C17:marshal-empty:toplevel-error-value`: an error value as the whole
    document is "ignored" — Marshal returns the empty document and no error (pinned by
    module_test.go: `string(json.Marshal(error("test"))) == ""`). -/
theorem marshal_toplevel_error_empty (L : JsonLib) : marshal L .errval = .ok [] := rfl

/-- Marshal validity for *all* values (the statement of the property) … -/
def marshal_full : Prop :=
  ∀ (L : JsonLib), L.OK → ∀ (v : JV) (bs : Bytes), marshal L v = .ok bs → isJson bs = true

/-- … is refuted by that witness: the side condition `isTopErr v = false` cannot be dropped. -/
theorem marshal_full_false : ¬ marshal_full := by
  intro h
  have := h L0 L0_ok .errval [] rfl
  exact absurd this (by decide)

/-! ### the scanner accepts exactly standard JSON (up to the nesting limit) -/

/-- **`Valid` = the RFC 8259 recogniser with the nesting budget `maxNestingDepth`**, for every
    byte string: the 31-state automaton with its parse stack (`stdlib/json/scanner.go`) and the
    recursive-descent reading of the grammar (`Spec/JsonDepth.lean`) give the same verdict.
    (`isJsonD d` = `isJson` where arrays/objects may be nested at most `d` deep.) -/
theorem scanner_exact (bs : Bytes) : valid bs = .ok (isJsonD maxNestingDepth bs) :=
  valid_eq bs

/-- soundness: what the scanner accepts is a JSON text (RFC 8259 recogniser, no depth limit) -/
theorem scanner_sound (bs : Bytes) (h : valid bs = .ok true) : isJson bs = true := by
  rw [scanner_exact] at h
  injection h with h
  exact isJsonD_isJson _ _ h

/-- completeness: a JSON text nested at most `maxNestingDepth` deep is accepted -/
theorem scanner_complete (bs : Bytes) (h : isJsonD maxNestingDepth bs = true) : valid bs = .ok true := by
  rw [scanner_exact, h]

/-- the nesting-budget recogniser is the plain one restricted by depth: it implies `isJson`,
    every JSON text has a finite depth, and a larger budget accepts more -/
theorem depth_spec :
    (∀ d bs, isJsonD d bs = true → isJson bs = true) ∧
    (∀ bs, isJson bs = true → isJsonD (bs.length + 1) bs = true) ∧
    (∀ d d' bs, d ≤ d' → isJsonD d bs = true → isJsonD d' bs = true) :=
  ⟨isJsonD_isJson, isJson_isJsonD, isJsonD_mono⟩

/-- the only JSON texts the scanner rejects are those nested deeper than the limit -/
theorem scanner_rejects_only_deep (bs : Bytes) (_hj : isJson bs = true) (h : valid bs = .ok false) :
    isJsonD maxNestingDepth bs = false := by
  rw [scanner_exact] at h
  injection h

example : valid [0x5B, 0x31, 0x2C, 0x20, 0x7B, 0x22, 0x61, 0x22, 0x3A, 0x6E, 0x75, 0x6C, 0x6C, 0x7D, 0x5D] = .ok true := by
  decide
set_option linter.unusedSimpArgs false in
example : isJsonD 1 [0x5B, 0x5B, 0x5D, 0x5D] = false ∧ isJsonD 2 [0x5B, 0x5B, 0x5D, 0x5D] = true
    ∧ isJson [0x5B, 0x5B, 0x5D, 0x5D] = true := by
  refine ⟨?_, ?_, ?_⟩ <;> simp [isJsonD, isJson, skipWs, isWs, valueD, arrTailD, value, arrTail]

/-! ### Compact -/

/-- **`compact` (with or without HTML escaping) never panics**: no `src[start:i]` goes out of
    range and the scanner never indexes an empty parse stack. -/
theorem compact_no_panic (escape : Bool) (src : Bytes) : ∃ o, compact escape src = .ok o :=
  compact_ok escape src

/-- **What `compact` writes is one JSON value**: a JSON text (nested at most `maxNestingDepth`
    deep) that starts and ends with a byte that is not white space, so that it can stand as an
    element or member value (`IsVal`).  For all inputs and both settings of `escape`. -/
theorem compact_valid (escape : Bool) (src out : Bytes) (h : compact escape src = .ok (some out)) :
    isJson out = true ∧ isJsonD maxNestingDepth out = true ∧ valid out = .ok true ∧ IsVal out := by
  obtain ⟨h1, h2⟩ := Proofs.Json.compact_valid escape src out h
  exact ⟨h1.isJson, h2, scanner_complete out h2, h1⟩

example : compact true [0x20, 0x5B, 0x22, 0x3C, 0x22, 0x20, 0x5D, 0x0A] =
    .ok (some [0x5B, 0x22, 0x5C, 0x75, 0x30, 0x30, 0x33, 0x63, 0x22, 0x5D]) := by decide

/-- **`compact` returns bytes exactly for the inputs `Valid` accepts** (for the others it returns
    the scanner's error), with or without HTML escaping -/
theorem compact_accepts_iff_valid (escape : Bool) (src : Bytes) :
    (∃ out, compact escape src = .ok (some out)) ↔ valid src = .ok true :=
  compact_some_iff escape src

/-- the side condition of `marshal_valid_partial` on raw messages holds for every byte string -/
theorem compactWritesValue_all (src : Bytes) : CompactWritesValue src :=
  fun esc out h => (Proofs.Json.compact_valid esc src out h).1

mutual
theorem rawsOK_all (P : Bytes → Prop) (hP : ∀ b, P b) : ∀ v : JV, rawsOK P v
  | .raw b => by simp only [rawsOK]; exact hP b
  | .rawNil => by simp only [rawsOK]; exact hP _
  | .array xs => by simp only [rawsOK]; exact rawsOKL_all P hP xs
  | .map kvs => by simp only [rawsOK]; exact rawsOKM_all P hP kvs
  | .opts _ _ v => by simp only [rawsOK]; exact rawsOK_all P hP v
  | .ptr v => by simp only [rawsOK]; exact rawsOK_all P hP v
  | .undefined | .nil | .int _ | .uint _ | .float _ | .char _ | .bool _ | .str _ | .bytes _
  | .ptrNil | .errval | .opaque _ => by simp only [rawsOK]
theorem rawsOKL_all (P : Bytes → Prop) (hP : ∀ b, P b) : ∀ xs : List JV, rawsOKL P xs
  | [] => by simp only [rawsOKL]
  | x :: xs => by simp only [rawsOKL]; exact ⟨rawsOK_all P hP x, rawsOKL_all P hP xs⟩
theorem rawsOKM_all (P : Bytes → Prop) (hP : ∀ b, P b) : ∀ kvs : List (Bytes × JV), rawsOKM P kvs
  | [] => by simp only [rawsOKM]
  | (_, x) :: xs => by simp only [rawsOKM]; exact ⟨rawsOK_all P hP x, rawsOKM_all P hP xs⟩
end

/-- **Marshal returns an error or a JSON text** — every value type (raw messages / `Marshaler`
    results included: their bytes go through `compact`, see `compact_valid`), arbitrary
    nesting, both options anywhere in the value.  The only side condition left is the open
    finding: the whole document is not a bare error value (`marshal_full_false`). -/
theorem marshal_valid (L : JsonLib) (hL : L.OK) (v : JV) (bs : Bytes)
    (hTop : isTopErr v = false) (h : marshal L v = .ok bs) : isJson bs = true :=
  marshal_valid_partial L hL v bs hTop (rawsOK_all _ compactWritesValue_all v) h

-- non-vacuity: a raw message with white space and an HTML-sensitive byte inside an array
example : marshal L0 (.array [.raw [0x20, 0x22, 0x3C, 0x22, 0x20], .rawNil]) =
    .ok [0x5B, 0x22, 0x5C, 0x75, 0x30, 0x30, 0x33, 0x63, 0x22, 0x2C, 0x6E, 0x75, 0x6C, 0x6C, 0x5D] := by decide

/-! ### the scanner never panics -/

/-- `valid` (checkValid over the scanner automaton) returns a verdict for every byte string:
    neither `parseState[n-1]` in `stateBeginStringOrEmpty` nor the slice in `popParseState`
    is ever reached with an empty parse stack. -/
theorem valid_no_panic (bs : Bytes) : ∃ b, valid bs = .ok b :=
  checkLoop_no_panic bs Scanner.new stackInv_new

/-- `indentBuffer` returns output or the scanner's error for every input, prefix and indent -/
theorem indent_no_panic (pre ind bs : Bytes) : ∃ o, indent pre ind bs = .ok o := by
  unfold indent
  obtain ⟨st', e, h'⟩ := indentLoop_no_panic pre ind bs
    { scan := Scanner.new, out := [], needIndent := false, depth := 0 } stackInv_new
  obtain ⟨s'', op, e2⟩ := eof_post st'.scan h'
  simp only [bind, Res.bind, e, e2]
  split <;> exact ⟨_, rfl⟩

example : valid [0x7B, 0x7D] = .ok true ∧ valid [0x7D] = .ok false := by decide

/-- **`indentBuffer` returns bytes exactly for the inputs `Valid` accepts** (any prefix/indent);
    hence Valid, Compact and Indent accept the same documents: those of `scanner_exact` -/
theorem indent_accepts_iff_valid (pre ind src : Bytes) :
    (∃ out, indent pre ind src = .ok (some out)) ↔ valid src = .ok true :=
  indent_some_iff pre ind src

/-! ### the full statement -/

/-- C17 at full strength over the model.  Proved: the Marshal half (`marshal_valid`,
    `marshal_unsupported_is_error`, `escape_valid`) up to the open finding, the scanner half
    (`scanner_exact`: second conjunct below, and its converse up to the nesting limit), the
    Compact half (`compact_valid`: third conjunct; `compact_no_panic`).  Not proved (tested by
    the `json` stream on every generated byte string, against the implementation and against
    encoding/json): that Indent maps JSON texts to JSON texts (only `indent_no_panic`), that
    Compact/Indent keep the document's value, and the round trip through Unmarshal (the
    decoder is not modelled). -/
def C17_full : Prop :=
  marshal_full
  ∧ (∀ bs, valid bs = .ok true → isJson bs = true)                                   -- scanner_sound
  ∧ (∀ bs out esc, compact esc bs = .ok (some out) → isJson out = true)                -- compact
  ∧ (∀ bs out p i, (∀ x ∈ p, isWs x = true) → (∀ x ∈ i, isWs x = true) →              -- indent
      isJson bs = true → indent p i bs = .ok (some out) → isJson out = true)

/-- the restriction to white-space prefix/indent strings in the last conjunct is necessary: like
    encoding/json.Indent, `indent` copies `prefix` and `indent` verbatim -/
theorem indent_needs_ws_prefix :
    ¬ (∀ bs out p i, isJson bs = true → indent p i bs = .ok (some out) → isJson out = true) := by
  intro h
  have h1 : isJson [0x5B, 0x31, 0x5D] = true := by
    simp [isJson, skipWs, isWs, value, arrTail, number, optMinus, intPart, isDigit, skipDigits, fracPart, expPart]
  have h2 : indent [0x78] [] [0x5B, 0x31, 0x5D] = .ok (some [0x5B, 0x0A, 0x78, 0x31, 0x0A, 0x78, 0x5D]) := by decide
  have h3 := h _ _ _ _ h1 h2
  simp [isJson, skipWs, isWs, value, isDigit] at h3

/-- the second and third conjunct of `C17_full` hold -/
theorem C17_scanner_compact :
    (∀ bs, valid bs = .ok true → isJson bs = true) ∧
    (∀ bs out esc, compact esc bs = .ok (some out) → isJson out = true) :=
  ⟨scanner_sound, fun bs out esc h => (compact_valid esc bs out h).1⟩

theorem C17_full_false : ¬ C17_full := fun h => marshal_full_false h.1

end UgoVerif.Props.C17
