import UgoVerif.Proofs.VMExec
/-
  C03 — `finally` runs exactly once on every exit path and the pending outcome survives it.

  Proved here: the HANDLER MECHANISM of the VM model (vm.go OpSetupTry / OpSetupCatch /
  OpSetupFinally / OpThrow 0 / handleThrownError), opcode by opcode, for every state:
  entering a finally body consumes the handler's finally address (so no later exit
  can enter it again), a caught error is bound once and cleared, normal completion of
  a try statement leaves no handler behind, a pending jump/return recorded by
  FINALIZER is resumed by THROW 0, a pending error is re-thrown by THROW 0.
  These are the three repairs of commit 5ac371b stated as theorems.
  Delivery of a thrown error: `handle_delivers_to_catch`, `handle_enters_finally`,
  `handle_skips_exhausted` (a handler whose catch and finally are consumed never intercepts:
  a caught error is not raised into the same statement again), `searchFrames_nearest` and
  `throwF_goes_to_nearest_caller` (the error of a function without a live handler reaches
  the NEAREST calling frame that has one, which becomes current again — repair 9eeb286),
  `throwF_unhandled` (no live handler anywhere: the error is returned from Run).
  Leaving by return/break/continue: `exec_findFinally` (the Go loop equals the list function
  `ffSpec`), `ffSpec_suffix/found/none`, `finalizer_enters_pending_finally` (the NEAREST pending
  finally block of the statements being left is entered, the jump is suspended in its handler,
  enclosing statements that are not being left are not touched), `finalizer_no_pending`.

  The source-level statement `C03_full` (every script's log/outcome equals the
  reference semantics Spec/Sem) is NOT proved; it is tested by stream `sem`
  (try-dense generator: every exit kind at every position, earlier completed try
  statements, errors crossing call frames) against Spec/Sem.
-/
namespace UgoVerif.Props.C03
open UgoVerif UgoVerif.Go UgoVerif.VM UgoVerif.Proofs.ModCache UgoVerif.Proofs.VMExec

/-- SETUPFINALLY: entering the finally body consumes the catch and finally addresses of the
    statement's handler — nothing can jump to this finally block again while the handler lives. -/
theorem setupFinally_consumes (s : State) (h : Handler) (r : List Handler)
    (hc : s.curFrame < s.frames.size) (hh : handlersOf s = some (h :: r)) :
    (exec execSetupFinally s).1 = .ok .next ∧
    handlersOf (exec execSetupFinally s).2 = some ({ h with catch_ := 0, finally_ := 0 } :: r) := by
  have hf := hasHandler_of s h r hh
  unfold execSetupFinally
  simp only [exec_bind, exec_curFrame, hf, if_true, exec_setCurFrame, exec_pure]
  refine ⟨trivial, ?_⟩
  rw [handlersOf_modify s _ hc]
  unfold handlersOf at hh
  simp [setLast, hh]

theorem handlersOf_pop (s : State) (h : Handler) (r : List Handler) (hc : s.curFrame < s.frames.size)
    (hh : handlersOf s = some (h :: r)) (s' : State) (hf : s'.frames = s.frames.modify s.curFrame popHandler)
    (hcf : s'.curFrame = s.curFrame) : handlersOf s' = some r := by
  unfold handlersOf at hh ⊢
  rw [hcf, hf]
  have : s.frames[s.curFrame]! = s.frames[s.curFrame] := by simp [hc]
  rw [this] at hh
  simp [hc, Array.getElem_modify, popHandler, hh]

/-- THROW 0 at the end of a try statement that completed normally (no pending error, no
    pending jump) removes exactly that statement's handler and continues with the next
    instruction: completed try statements have no influence on later ones. -/
theorem throw0_normal_pops (s : State) (h : Handler) (r : List Handler)
    (hc : s.curFrame < s.frames.size) (hh : handlersOf s = some (h :: r))
    (hop : exec (opnd1 1) s = (.ok 0, s)) (herr : h.err = none) (hret : h.returnTo ≤ 0) :
    exec execThrow s = (.ok .next, { s with ip := s.ip + 1, frames := s.frames.modify s.curFrame popHandler }) ∧
    handlersOf (exec execThrow s).2 = some r := by
  have hl : lastHandler (({ s with ip := s.ip + 1 } : State).frames[({ s with ip := s.ip + 1 } : State).curFrame]!) = some h :=
    lastHandler_of _ h r (by simpa [handlersOf] using hh)
  have hnr : ¬ (h.returnTo > 0) := by omega
  have e : exec execThrow s = (.ok .next, { s with ip := s.ip + 1, frames := s.frames.modify s.curFrame popHandler }) := by
    unfold execThrow
    simp only [exec_bind, hop, exec_bumpIp, exec_curFrame, beq_self_eq_true, if_true, hl, herr, hnr,
      if_false, exec_setCurFrame, exec_pure]
  refine ⟨e, ?_⟩
  rw [e]
  exact handlersOf_pop s h r hc hh _ rfl rfl

/-- THROW 0 with a pending jump/return (recorded by FINALIZER in `returnTo`, `sp`): the
    handler is removed and control resumes the suspended return/break/continue at the
    recorded stack height. -/
theorem throw0_resumes_jump (s : State) (h : Handler) (r : List Handler)
    (hc : s.curFrame < s.frames.size) (hh : handlersOf s = some (h :: r))
    (hop : exec (opnd1 1) s = (.ok 0, s)) (herr : h.err = none) (hret : h.returnTo > 0)
    (hsp : s.sp < h.sp) :
    exec execThrow s = (.ok .next, { s with ip := h.returnTo - 1, sp := h.sp, frames := s.frames.modify s.curFrame popHandler }) ∧
    handlersOf (exec execThrow s).2 = some r := by
  have hl : lastHandler (({ s with ip := s.ip + 1 } : State).frames[({ s with ip := s.ip + 1 } : State).curFrame]!) = some h :=
    lastHandler_of _ h r (by simpa [handlersOf] using hh)
  have hns : ¬ (s.sp ≥ h.sp) := by omega
  have e : exec execThrow s = (.ok .next, { s with ip := h.returnTo - 1, sp := h.sp, frames := s.frames.modify s.curFrame popHandler }) := by
    unfold execThrow
    simp only [exec_bind, hop, exec_bumpIp, exec_curFrame, beq_self_eq_true, if_true, hl, herr, hret,
      exec_setCurFrame, exec_getSp, hns, if_false, exec_setSp, exec_setIp, exec_pure]
  refine ⟨e, ?_⟩
  rw [e]
  exact handlersOf_pop s h r hc hh _ rfl rfl

/-- SETUPCATCH: the pending error of the statement is bound (pushed for the catch variable)
    exactly once: it is cleared from the handler and the catch address is consumed, so the
    error is not raised again once caught. -/
theorem setupCatch_binds (s : State) (h : Handler) (r : List Handler) (e : Addr)
    (hc : s.curFrame < s.frames.size) (hh : handlersOf s = some (h :: r)) (herr : h.err = some e)
    (hsp : 0 ≤ s.sp ∧ s.sp < (stackSize : Int)) (hst : s.stack.size = stackSize) :
    (exec execSetupCatch s).1 = .ok .next ∧
    handlersOf (exec execSetupCatch s).2 = some ({ h with catch_ := 0, err := none } :: r) ∧
    (exec execSetupCatch s).2.sp = s.sp + 1 ∧
    (exec execSetupCatch s).2.stack[s.sp.toNat]! = .rterr e := by
  have hf := hasHandler_of s h r hh
  have hl := lastHandler_of s h r hh
  have hfr : s.frames[s.curFrame]! = s.frames[s.curFrame] := by simp [hc]
  have hh' : s.frames[s.curFrame].handlers = some (h :: r) := by
    unfold handlersOf at hh; rw [hfr] at hh; exact hh
  have e1 : exec execSetupCatch s = (.ok .next,
      { s with frames := (s.frames.modify s.curFrame fun f => setLast f fun h => { h with catch_ := 0 }).modify s.curFrame
                  (fun f => setLast f fun h => { h with err := none }),
               stack := s.stack.set! s.sp.toNat (.rterr e), sp := s.sp + 1 }) := by
    unfold execSetupCatch
    simp only [exec_bind, exec_curFrame, hf, if_true, exec_setCurFrame, hl, herr, exec_pure]
    rw [exec_pushV _ _ (by simpa using hsp)]
  rw [e1]
  refine ⟨rfl, ?_, rfl, ?_⟩
  · unfold handlersOf
    simp [hc, Array.getElem_modify, setLast, hh']
  · have h1 : s.sp.toNat < s.stack.size := by rw [hst]; omega
    simp [h1]

/-- SETUPTRY: entering a try statement pushes exactly one handler, recording the stack height,
    the catch and finally addresses, no pending error and no pending jump. -/
theorem setupTry_pushes (s : State) (c f : Nat) (hc : s.curFrame < s.frames.size)
    (h1 : exec (opnd4 1) s = (.ok c, s)) (h5 : exec (opnd4 5) s = (.ok f, s)) :
    (exec execSetupTry s).1 = .ok .next ∧
    handlersOf (exec execSetupTry s).2 =
      some ({ sp := s.sp, catch_ := c, finally_ := f, returnTo := 0, err := none } :: (handlersOf s).getD []) ∧
    (exec execSetupTry s).2.ip = s.ip + 8 ∧ (exec execSetupTry s).2.sp = s.sp := by
  have hfr : s.frames[s.curFrame]! = s.frames[s.curFrame] := by simp [hc]
  have e1 : exec execSetupTry s = (.ok .next,
      { s with frames := s.frames.modify s.curFrame (fun fr => { fr with handlers := some ({ sp := s.sp, catch_ := c, finally_ := f, returnTo := 0, err := none } :: (fr.handlers.getD [])) }),
               ip := s.ip + 8 }) := by
    unfold execSetupTry
    simp only [exec_bind, h1, h5, exec_getSp, exec_setCurFrame, exec_bumpIp, exec_pure]
  rw [e1]
  refine ⟨rfl, ?_, rfl, rfl⟩
  unfold handlersOf
  simp [hc, Array.getElem_modify, hfr]

/-! ### delivery of a thrown error (vm.go throw / handleThrownError) -/

set_option linter.unusedSimpArgs false

/-- `handleThrownError` with a live catch clause: the error is recorded in the statement's handler,
    control goes to the catch address, the operand stack is cut back to the height recorded at
    SETUPTRY, and the error is not propagated further. -/
theorem handle_delivers_to_catch (fuel : Nat) (err : Addr) (s : State) (h : Handler) (r : List Handler)
    (hc : s.curFrame < s.frames.size) (hh : handlersOf s = some (h :: r)) (hcatch : h.catch_ > 0)
    (hsp : s.sp < h.sp) :
    exec (throwF.handle fuel err) s = (.ok none,
      { s with frames := s.frames.modify s.curFrame (fun f => setLast f fun h => { h with err := some err }),
               ip := h.catch_ - 1, sp := h.sp }) := by
  have hfr : s.frames[s.curFrame]! = s.frames[s.curFrame] := by simp [hc]
  have hh' : s.frames[s.curFrame].handlers = some (h :: r) := by
    unfold handlersOf at hh; rw [hfr] at hh; exact hh
  unfold throwF.handle
  simp only [exec_bind, exec_setCurFrame, exec_curFrame]
  have hl : lastHandler (({ s with frames := s.frames.modify s.curFrame (fun f => setLast f fun h => { h with err := some err }) } : State).frames[s.curFrame]!)
      = some { h with err := some err } := by
    simp [hc, Array.getElem_modify, setLast, lastHandler, hh']
  simp only [hl]
  have hns : ¬ (s.sp ≥ h.sp) := by omega
  simp [hcatch, exec_bind, exec_setIp, exec_getSp, hns]
  rfl

theorem lastHandler_setLast (s : State) (h : Handler) (r : List Handler) (g : Handler → Handler)
    (hc : s.curFrame < s.frames.size) (hh : handlersOf s = some (h :: r)) :
    lastHandler (({ s with frames := s.frames.modify s.curFrame (fun f => setLast f g) } : State).frames[s.curFrame]!)
      = some (g h) := by
  have hfr : s.frames[s.curFrame]! = s.frames[s.curFrame] := by simp [hc]
  have hh' : s.frames[s.curFrame].handlers = some (h :: r) := by
    unfold handlersOf at hh; rw [hfr] at hh; exact hh
  simp [hc, Array.getElem_modify, setLast, lastHandler, hh']

/-- no live catch clause but a pending finally block: control goes to the finally address with the
    error recorded as the statement's pending outcome (THROW 0 re-throws it afterwards) -/
theorem handle_enters_finally (fuel : Nat) (err : Addr) (s : State) (h : Handler) (r : List Handler)
    (hc : s.curFrame < s.frames.size) (hh : handlersOf s = some (h :: r)) (hcatch : h.catch_ = 0)
    (hfin : h.finally_ > 0) (hsp : s.sp < h.sp) :
    exec (throwF.handle fuel err) s = (.ok none,
      { s with frames := s.frames.modify s.curFrame (fun f => setLast f fun h => { h with err := some err }),
               ip := h.finally_ - 1, sp := h.sp }) := by
  unfold throwF.handle
  simp only [exec_bind, exec_setCurFrame, exec_curFrame]
  simp only [lastHandler_setLast s h r _ hc hh]
  have hns : ¬ (s.sp ≥ h.sp) := by omega
  simp [hcatch, hfin, exec_bind, exec_setIp, exec_getSp, hns]
  rfl

/-- a handler whose catch and finally were both consumed (the error was raised inside its catch
    or finally body) does not intercept: it is removed and the error propagates to the next
    enclosing handler -/
theorem handle_skips_exhausted (fuel : Nat) (err : Addr) (s : State) (h : Handler) (r : List Handler)
    (hc : s.curFrame < s.frames.size) (hh : handlersOf s = some (h :: r)) (hcatch : h.catch_ = 0)
    (hfin : h.finally_ = 0) :
    exec (throwF.handle fuel err) s = exec (throwF fuel err)
      { s with frames := (s.frames.modify s.curFrame (fun f => setLast f fun h => { h with err := some err })).modify s.curFrame popHandler } := by
  unfold throwF.handle
  simp only [exec_bind, exec_setCurFrame, exec_curFrame]
  simp only [lastHandler_setLast s h r _ hc hh]
  simp [hcatch, hfin, exec_bind, exec_setCurFrame]

theorem frames_modify_lt (fs : Array Frame) (n j : Nat) (g : Frame → Frame) (h : j ≠ n) :
    (fs.modify n g)[j]! = fs[j]! := by
  by_cases hj : j < fs.size
  · simp [hj, Array.getElem_modify, Ne.symm h]
  · simp [hj]

/-- the frame search of `throw`: it stops at the NEAREST frame below the failing one that has a
    handler — every frame it skipped had none (and is released) — or finds none at all. -/
theorem searchFrames_nearest (n : Nat) (s : State) (hn : n ≤ frameSize) :
    (∃ k s', exec (searchFrames n) s = (.ok (some k), s') ∧ k < n ∧ hasHandler (s.frames[k]!) = true ∧
        (∀ j, k < j → j < n → hasHandler (s.frames[j]!) = false) ∧
        (∀ j, j ≤ k → s'.frames[j]! = s.frames[j]!) ∧ s'.stack = s.stack ∧ s'.sp = s.sp ∧ s'.heap = s.heap) ∨
    (∃ s', exec (searchFrames n) s = (.ok none, s') ∧ (∀ j, j < n → hasHandler (s.frames[j]!) = false) ∧
        s'.stack = s.stack ∧ s'.sp = s.sp ∧ s'.heap = s.heap) := by
  induction n generalizing s with
  | zero => right; exact ⟨s, rfl, by intro j hj; omega, rfl, rfl, rfl⟩
  | succ n ih =>
    have hlt : ¬ (n ≥ frameSize) := by omega
    unfold searchFrames
    simp only [hlt, if_false, exec_bind, exec_getS]
    by_cases hh : hasHandler (s.frames[n]!) = true
    · left
      refine ⟨n, s, ?_, by omega, hh, ?_, fun _ _ => rfl, rfl, rfl, rfl⟩
      · simp [hh, exec_pure]
      · intro j h1 h2; omega
    · simp only [hh, if_false, exec_modS]
      have hh' : hasHandler (s.frames[n]!) = false := by simpa using hh
      rcases ih { s with frames := s.frames.modify n fun f => { f with free := none, fn := none } } (by omega) with
        ⟨k, s', he, hk, hhk, hsk, hfr, h1, h2, h3⟩ | ⟨s', he, hall, h1, h2, h3⟩
      · left
        refine ⟨k, s', he, by omega, ?_, ?_, ?_, h1, h2, h3⟩
        · rw [← hhk]; simp [frames_modify_lt _ _ _ _ (Nat.ne_of_lt hk)]
        · intro j hj1 hj2
          by_cases hjn : j = n
          · subst hjn; exact hh'
          · have := hsk j hj1 (by omega)
            simpa [frames_modify_lt _ _ _ _ hjn] using this
        · intro j hj
          rw [hfr j hj]; simp [frames_modify_lt _ _ _ _ (show j ≠ n by omega)]
      · right
        refine ⟨s', he, ?_, h1, h2, h3⟩
        intro j hj
        by_cases hjn : j = n
        · subst hjn; exact hh'
        · have := hall j (by omega)
          simpa [frames_modify_lt _ _ _ _ hjn] using this

/-- an error raised in a function without a live handler goes to the NEAREST calling frame that
    has one: the frames in between are released, that frame becomes the current frame again
    (at the instruction pointer it saved when it made the call) and its handler takes the error -/
theorem throwF_goes_to_nearest_caller (fuel : Nat) (err : Addr) (s : State)
    (hcur : hasHandler (s.frames[s.curFrame]!) = false) (hfi : (s.frameIndex - 1).toNat ≤ frameSize)
    (k : Nat) (hk : k < (s.frameIndex - 1).toNat) (hhk : hasHandler (s.frames[k]!) = true)
    (hnear : ∀ j, k < j → j < (s.frameIndex - 1).toNat → hasHandler (s.frames[j]!) = false)
    (hfn : (s.frames[k]!).fn ≠ none) :
    ∃ s' : State, (∀ j, j ≤ k → s'.frames[j]! = s.frames[j]!) ∧ s'.stack = s.stack ∧ s'.sp = s.sp ∧ s'.heap = s.heap ∧
      exec (throwF (fuel + 1) err) s =
        exec (throwF.handle fuel err) { s' with frameIndex := (k : Int) + 1, curFrame := k, ip := (s.frames[k]!).ip } := by
  rcases searchFrames_nearest (s.frameIndex - 1).toNat s hfi with
    ⟨k', s', he, hk', hhk', hsk, hfr, h1, h2, h3⟩ | ⟨s', he, hall, _, _, _⟩
  · have hkk : k' = k := by
      rcases Nat.lt_trichotomy k' k with h | h | h
      · have := hsk k h hk; simp [hhk] at this
      · exact h
      · have := hnear k' h hk'; simp [hhk'] at this
    subst hkk
    refine ⟨s', hfr, h1, h2, h3, ?_⟩
    unfold throwF
    simp only [exec_bind, exec_curFrame, hcur, Bool.false_eq_true, ↓reduceIte, exec_getS, he]
    have hfk : s'.frames[k']! = s.frames[k']! := hfr k' (Nat.le_refl _)
    cases hf : (s.frames[k']!).fn with
    | none => exact absurd hf hfn
    | some fa =>
      simp [exec_bind, exec_pure, exec_modS, exec_curFrame, exec_setIp, hfk, hf]
  · have := hall k hk; simp [hhk] at this

/-- no frame has a live handler: the error is not intercepted and becomes the error returned by Run -/
theorem throwF_unhandled (fuel : Nat) (err : Addr) (s : State)
    (hcur : hasHandler (s.frames[s.curFrame]!) = false) (hfi : (s.frameIndex - 1).toNat ≤ frameSize)
    (hnone : ∀ j, j < (s.frameIndex - 1).toNat → hasHandler (s.frames[j]!) = false) :
    (exec (throwF (fuel + 1) err) s).1 = .ok (some err) := by
  rcases searchFrames_nearest (s.frameIndex - 1).toNat s hfi with
    ⟨k', s', he, hk', hhk', _⟩ | ⟨s', he, hall, _, _, _⟩
  · have := hnone k' hk'; simp [hhk'] at this
  · unfold throwF
    simp only [exec_bind, exec_curFrame, hcur, Bool.false_eq_true, ↓reduceIte, exec_getS, he]
    simp [exec_bind, exec_pure]

/-! ### leaving try statements by return / break / continue (vm.go OpFinalizer, errHandlers.findFinally) -/

/-- `errHandlers.findFinally(upto)` as a function of the handler list (innermost first): handlers of
    the statements being left (index ≥ upto) are visited from the innermost outwards; one whose
    finally block was already entered (`finally_ = 0`) is dropped, the first one with a pending
    finally block stops the search. -/
def ffSpec : List Handler → Int → Int × List Handler
  | [], _ => (0, [])
  | h :: r, upto =>
    if ((r.length : Int) < upto) then (0, h :: r)
    else if h.finally_ == 0 then ffSpec r upto
    else (h.finally_, h :: r)

theorem modify_handlers_id (fs : Array Frame) (i : Nat) (hs : List Handler) (hi : i < fs.size)
    (hh : fs[i].handlers = some hs) : fs.modify i (fun f => { f with handlers := some hs }) = fs := by
  apply Array.ext
  · simp
  · intro j h1 h2
    by_cases hj : i = j
    · subst hj; simp [Array.getElem_modify, ← hh]
    · simp [Array.getElem_modify, hj]

theorem modify_modify_handlers (fs : Array Frame) (i : Nat) (g : Frame → Frame) (hs : List Handler) :
    (fs.modify i g).modify i (fun f => { f with handlers := some hs }) =
      fs.modify i (fun f => { (g f) with handlers := some hs }) := by
  apply Array.ext
  · simp
  · intro j h1 h2
    by_cases hj : i = j
    · subst hj; simp [Array.getElem_modify]
    · simp [Array.getElem_modify, hj]

theorem exec_findFinally (fuel : Nat) (upto : Int) (s : State) (hs : List Handler)
    (hc : s.curFrame < s.frames.size) (hh : handlersOf s = some hs) (hf : hs.length < fuel) :
    exec (findFinally fuel upto) s =
      (.ok ((ffSpec hs upto).1 : Int),
       { s with frames := s.frames.modify s.curFrame fun f => { f with handlers := some (ffSpec hs upto).2 } }) := by
  induction hs generalizing fuel s with
  | nil =>
    cases fuel with
    | zero => omega
    | succ fuel =>
      have hfr : s.frames[s.curFrame]! = s.frames[s.curFrame] := by simp [hc]
      have hh' : s.frames[s.curFrame].handlers = some [] := by
        unfold handlersOf at hh; rw [hfr] at hh; exact hh
      unfold findFinally
      simp only [exec_bind, exec_curFrame, hfr, hh']
      simp [ffSpec, exec_pure, modify_handlers_id _ _ _ hc hh']
  | cons h r ih =>
    cases fuel with
    | zero => omega
    | succ fuel =>
      have hfr : s.frames[s.curFrame]! = s.frames[s.curFrame] := by simp [hc]
      have hh' : s.frames[s.curFrame].handlers = some (h :: r) := by
        unfold handlersOf at hh; rw [hfr] at hh; exact hh
      unfold findFinally
      simp only [exec_bind, exec_curFrame, hfr, hh']
      by_cases hlt : (r.length : Int) < upto
      · have : ((((h :: r).length : Int) - 1 < upto) ∨ (((h :: r).length : Int) - 1 < 0)) := by
          left; simp; omega
        simp [this, ffSpec, hlt, exec_pure, modify_handlers_id _ _ _ hc hh']
      · have hn : ¬ ((((h :: r).length : Int) - 1 < upto) ∨ (((h :: r).length : Int) - 1 < 0)) := by
          simp; omega
        have hr0 : ¬ ((r.length : Int) < 0) := by omega
        by_cases hz : h.finally_ = 0
        · have hs' : handlersOf ({ s with frames := s.frames.modify s.curFrame popHandler } : State) = some r := by
            unfold handlersOf
            simp [hc, Array.getElem_modify, popHandler, hh']
          have := ih fuel { s with frames := s.frames.modify s.curFrame popHandler } (by simpa using hc) hs' (by simp at hf; omega)
          simp [hn, hr0, hz, ffSpec, hlt, exec_bind, exec_setCurFrame, this, modify_modify_handlers]
          congr 1
          funext f
          unfold popHandler
          split <;> rfl
        · simp [hn, hr0, hz, ffSpec, hlt, exec_pure, modify_handlers_id _ _ _ hc hh']

/-- what the search drops are exactly consumed handlers (finally already entered), innermost first -/
theorem ffSpec_suffix (hs : List Handler) (upto : Int) :
    ∃ dropped, hs = dropped ++ (ffSpec hs upto).2 ∧ ∀ d ∈ dropped, d.finally_ = 0 := by
  induction hs with
  | nil => exact ⟨[], by simp [ffSpec], by simp⟩
  | cons h r ih =>
    unfold ffSpec
    by_cases hlt : (r.length : Int) < upto
    · exact ⟨[], by simp [hlt], by simp⟩
    · by_cases hz : h.finally_ = 0
      · obtain ⟨d, hd, hall⟩ := ih
        refine ⟨h :: d, ?_, ?_⟩
        · simp [hlt, hz]; exact hd
        · intro x hx
          simp at hx
          rcases hx with rfl | hx
          · exact hz
          · exact hall x hx
      · exact ⟨[], by simp [hlt, hz], by simp⟩

/-- a pending finally block that is found belongs to one of the statements being left
    (its index is at least the static depth `upto` of the jump target) and is the innermost such -/
theorem ffSpec_found (hs : List Handler) (upto : Int) (h : (ffSpec hs upto).1 ≠ 0) :
    ∃ x r, (ffSpec hs upto).2 = x :: r ∧ x.finally_ = (ffSpec hs upto).1 ∧ upto ≤ r.length := by
  induction hs with
  | nil => simp [ffSpec] at h
  | cons a r ih =>
    unfold ffSpec at h ⊢
    by_cases hlt : (r.length : Int) < upto
    · simp [hlt] at h
    · by_cases hz : a.finally_ = 0
      · simp only [hlt, hz, if_false, beq_self_eq_true, if_true] at h ⊢
        exact ih h
      · have hb : (a.finally_ == 0) = false := by simpa using hz
        simp only [hlt, hb, if_false, Bool.false_eq_true] at h ⊢
        exact ⟨a, r, rfl, rfl, by omega⟩

/-- nothing found: no handler of a statement being left remains (those that were there had their
    finally entered already and are dropped) -/
theorem ffSpec_none (hs : List Handler) (upto : Int) (h : (ffSpec hs upto).1 = 0) :
    ∀ x r, (ffSpec hs upto).2 = x :: r → (r.length : Int) < upto ∨ x.finally_ = 0 := by
  induction hs with
  | nil => intro x r hx; simp [ffSpec] at hx
  | cons a r ih =>
    unfold ffSpec at h ⊢
    by_cases hlt : (r.length : Int) < upto
    · intro x r' hx
      simp [hlt] at hx
      left; rw [← hx.2]; exact hlt
    · by_cases hz : a.finally_ = 0
      · simp only [hlt, hz, if_false, beq_self_eq_true, if_true] at h ⊢
        exact ih h
      · have hb : (a.finally_ == 0) = false := by simpa using hz
        simp only [hlt, hb, if_false, Bool.false_eq_true] at h
        exact absurd h hz

/-- FINALIZER k (emitted before every `return`/`break`/`continue` that leaves try statements down to
    static depth k) with a pending finally block among the statements being left: the jump is
    suspended — its resume address and stack height are recorded in that statement's handler, any
    pending error of it is cancelled — and control enters the NEAREST pending finally block. -/
theorem finalizer_enters_pending_finally (s : State) (hs : List Handler) (upto : Nat)
    (hop : exec (opnd1 1) s = (.ok upto, s)) (hc : s.curFrame < s.frames.size)
    (hh : handlersOf s = some hs) (hpos : (ffSpec hs upto).1 > 0) :
    ∃ x r, (ffSpec hs upto).2 = x :: r ∧ x.finally_ = (ffSpec hs upto).1 ∧ (upto : Int) ≤ r.length ∧
      exec execFinalizer s = (.ok .next,
        { s with frames := s.frames.modify s.curFrame (fun f =>
                   { f with handlers := some ({ x with returnTo := s.ip, sp := s.sp, err := none } :: r) }),
                 ip := x.finally_ - 1 }) := by
  obtain ⟨x, r, hx, hfin, hup⟩ := ffSpec_found hs upto (by omega)
  refine ⟨x, r, hx, hfin, hup, ?_⟩
  have hfr : s.frames[s.curFrame]! = s.frames[s.curFrame] := by simp [hc]
  have hh' : s.frames[s.curFrame].handlers = some hs := by
    unfold handlersOf at hh; rw [hfr] at hh; exact hh
  unfold execFinalizer
  simp only [exec_bind, hop, exec_curFrame, hfr, hh']
  rw [exec_findFinally _ _ s hs hc hh (by omega)]
  have hnp : ¬ ((ffSpec hs ↑upto).1 ≤ 0) := by omega
  simp only [hnp, if_false, exec_getIp, exec_getSp, exec_setCurFrame, exec_setIp, exec_pure, exec_bind]
  simp only [hx, ← hfin]
  congr 2
  apply Array.ext
  · simp
  · intro j h1 h2
    by_cases hj : s.curFrame = j
    · subst hj; simp [Array.getElem_modify, setLast]
    · simp [Array.getElem_modify, hj]

/-- FINALIZER k with no pending finally block among the statements being left: their (consumed)
    handlers are dropped and the jump proceeds at once -/
theorem finalizer_no_pending (s : State) (hs : List Handler) (upto : Nat)
    (hop : exec (opnd1 1) s = (.ok upto, s)) (hc : s.curFrame < s.frames.size)
    (hh : handlersOf s = some hs) (hpos : (ffSpec hs upto).1 ≤ 0) :
    exec execFinalizer s = (.ok .next,
      { s with frames := s.frames.modify s.curFrame (fun f => { f with handlers := some (ffSpec hs upto).2 }),
               ip := s.ip + 1 }) := by
  have hfr : s.frames[s.curFrame]! = s.frames[s.curFrame] := by simp [hc]
  have hh' : s.frames[s.curFrame].handlers = some hs := by
    unfold handlersOf at hh; rw [hfr] at hh; exact hh
  unfold execFinalizer
  simp only [exec_bind, hop, exec_curFrame, hfr, hh']
  rw [exec_findFinally _ _ s hs hc hh (by omega)]
  simp only [hpos, if_true, exec_bumpIp, exec_pure, exec_bind]

/-- THROW 0 at the end of a finally block whose statement has a pending error (the error was
    raised in the try or catch body and no catch took it, or it was recorded while another
    finally ran): the statement's handler is removed and the ORIGINAL error is thrown again,
    to the next enclosing handler — the pending outcome survives the finally block. -/
theorem throw0_rethrows_pending (s : State) (h : Handler) (r : List Handler) (e : Addr)
    (hc : s.curFrame < s.frames.size) (hh : handlersOf s = some (h :: r))
    (hop : exec (opnd1 1) s = (.ok 0, s)) (herr : h.err = some e) :
    exec execThrow s =
      (match exec (do let fuel ← throwFuel; throwF fuel e)
          ({ s with ip := s.ip + 1, frames := s.frames.modify s.curFrame popHandler } : State) with
       | (.ok none, s') => (.ok .next, s')
       | (.ok (some a), s') => (.ok .ret, { s' with err := some (.rt a) })
       | (.error x, s') => (.error x, s')) := by
  have hl : lastHandler (({ s with ip := s.ip + 1 } : State).frames[({ s with ip := s.ip + 1 } : State).curFrame]!) = some h :=
    lastHandler_of _ h r (by simpa [handlersOf] using hh)
  unfold execThrow
  simp only [exec_bind, hop, exec_bumpIp, exec_curFrame, beq_self_eq_true, if_true, hl, herr, exec_setCurFrame]
  rcases hr : exec throwFuel ({ s with ip := s.ip + 1, frames := s.frames.modify s.curFrame popHandler } : State) with ⟨r1, s1⟩
  cases r1 with
  | error x => simp [hr]
  | ok fuel =>
    simp only [hr]
    rcases hr2 : exec (throwF fuel e) s1 with ⟨r2, s2⟩
    cases r2 with
    | error x => simp [hr2]
    | ok o =>
      cases o with
      | none => simp [hr2, exec_pure]
      | some a => simp [hr2, exec_bind, exec_modS, exec_pure]; rfl

/-- the source-level statement (not proved; tested by stream `sem`): for every script of the
    try/loop/call fragment, the implementation's log and outcome are those of the reference
    semantics, in which `finally` runs exactly once per exit by definition. -/
def C03_full (Script Outcome : Type) (impl sem : Script → Option Outcome) : Prop :=
  ∀ p o₁ o₂, impl p = some o₁ → sem p = some o₂ → o₁ = o₂

/-- non-vacuity: a concrete handler stack meeting the hypotheses of `setupFinally_consumes` -/
example : ∃ s : State, s.curFrame < s.frames.size ∧
    handlersOf s = some ({ sp := 3, catch_ := 0, finally_ := 40, returnTo := 0, err := none } :: []) := by
  refine ⟨{ (newState #[] #[] #[] 0 0) with
    frames := #[{ handlers := some [{ sp := 3, catch_ := 0, finally_ := 40, returnTo := 0, err := none }] }] }, ?_, ?_⟩
  · simp [newState]
  · simp [handlersOf, newState]

end UgoVerif.Props.C03
