import UgoVerif.Proofs.V1
import UgoVerif.Spec.Reloc
/-
  C11 — bytecode in the version-1 format still runs the same program.

  The theorems are about `Model/V1.convFn`, the model of the repaired
  `convCompFuncV1ToV2` (tied to the code by stream `v1`), over the opcode tables
  `Gen/Opcodes.lean` regenerated from opcodes.go, encoder/opv1/opcodes_v1.go,
  MakeInstruction and the converter's switches on every run.
-/
set_option linter.unusedSimpArgs false
set_option linter.unusedVariables false
namespace UgoVerif.Props.C11
open UgoVerif.Go UgoVerif.Gen.Opcodes UgoVerif.Model.Bytecode UgoVerif.Model.V1
open UgoVerif.Proofs.Bytecode UgoVerif.Proofs.V1 UgoVerif.Spec.Reloc

/-! ### instruction encoding -/

/-- every operand fits its width -/
def Fits : List Nat → List Nat → Prop
  | [], [] => True
  | w :: ws, a :: as => a < 256 ^ w ∧ Fits ws as
  | _, _ => False

theorem readOperands_encodeArgs : ∀ (ws args : List Nat) (rest : Bytes), Supported ws →
    Fits ws args → readOperands ws (encodeArgs ws args ++ rest) = .ok (args, rest) := by
  intro ws
  induction ws with
  | nil =>
    intro args rest _ hf
    cases args with
    | nil => simp [encodeArgs, readOperands]
    | cons a as => simp [Fits] at hf
  | cons w ws ih =>
    intro args rest hs hf
    cases args with
    | nil => simp [Fits] at hf
    | cons a as =>
      obtain ⟨hwa, hf'⟩ := hf
      have hw : readOperandsWidths.contains w = true := hs w (by simp)
      have hs' : Supported ws := fun x hx => hs x (by simp [hx])
      rw [encodeArgs, readOperands, if_pos hw, if_pos (by simp [beBytes_length])]
      have ht : List.take w (beBytes w a ++ encodeArgs ws as ++ rest) = beBytes w a := by
        rw [List.append_assoc, List.take_append_of_le_length (by simp [beBytes_length])]
        simp [List.take_of_length_le, beBytes_length]
      have hd : List.drop w (beBytes w a ++ encodeArgs ws as ++ rest) = encodeArgs ws as ++ rest := by
        rw [List.append_assoc, List.drop_append_of_le_length (by simp [beBytes_length])]
        simp [List.drop_of_length_le, beBytes_length]
      rw [ht, hd, ih as rest hs' hf', beVal_beBytes, Nat.mod_eq_of_lt hwa]

/-- decoding an encoded instruction gives the instruction back (operands fitting their widths) -/
theorem decode_encode (tbl : WidthTable) (op : Nat) (ws args : List Nat) (bs rest : Bytes)
    (hop : op < 256) (ht : tbl op = some ws) (hs : Supported ws)
    (hfit : Fits ws args)
    (henc : encodeInstr tbl op args = some bs) :
    decodeInstr tbl (bs ++ rest) = some (op, args, rest) := by
  simp [encodeInstr, ht] at henc
  obtain ⟨_, rfl⟩ := henc
  have hb : (UInt8.ofNat op).toNat = op := by simp [UInt8.toNat_ofNat']; omega
  simp [decodeInstr, hb, ht, readOperands_encodeArgs ws args rest hs hfit]

example : decodeInstr opcodeOperands ([12, 0, 0, 1, 2] ++ [22]) = some (OpJump, [258], [22]) := by decide

/-! ### facts about the regenerated tables -/

/-- every opcode the converter re-encodes is at least as wide in the current table (the
    subtraction `shift -= w` of the first pass never goes below zero) and grows by at most its
    own version-1 size -/
theorem widen_nonneg : ∀ op ∈ convJumpClass, ∀ w ws2, opWidthTable[op]? = some w →
    opcodeOperands op = some ws2 → w ≤ ws2.sum ∧ ws2.sum ≤ 2 * w + 1 := by
  intro op hop w ws2 hw h2
  exact jump_widen (by simpa [isJumpClass] using hop) hw h2

/-- opcodes that are copied unchanged have the same operand layout in both formats -/
theorem unchanged_same_layout (op : Nat) (ws : List Nat) (hj : isJumpClass op = false)
    (h : V1.opcodeOperands op = some ws) : opcodeOperands op = some ws := nonjump_same hj h

/-! ### the offset map -/

theorem relocate_strict_mono (np : List Nat) (sh : Nat) (hpw : np.Pairwise (· < ·))
    (hub : ∀ x ∈ np, x + 1 ≤ np.length + sh) (a b : Nat) (hab : a < b) :
    relocate np sh a < relocate np sh b := by
  unfold relocate
  cases ha : np[a]? with
  | none =>
    have hal := List.getElem?_eq_none_iff.mp ha
    have hb : np[b]? = none := List.getElem?_eq_none_iff.mpr (by omega)
    simp [hb]; omega
  | some x =>
    obtain ⟨hal, hax⟩ := List.getElem?_eq_some_iff.mp ha
    cases hb : np[b]? with
    | none =>
      have hbl := List.getElem?_eq_none_iff.mp hb
      have := hub x (List.mem_of_getElem? ha)
      simp; omega
    | some y =>
      obtain ⟨hbl, hby⟩ := List.getElem?_eq_some_iff.mp hb
      have := List.pairwise_iff_getElem.mp hpw a b hal hbl hab
      simp; omega

/-- the boundary map the converter computes is strictly monotone (on all offsets, hence on the
    instruction boundaries), for every byte string -/
theorem newOff_strict_mono (ins : Bytes) (a b : Nat) (hab : a < b) : newOff ins a < newOff ins b := by
  unfold newOff
  cases hp : pass1 (ins.length + 1) ins 0 0 with
  | ok p =>
    obtain ⟨np, sh⟩ := p
    obtain ⟨h1, _, h3, h4, _⟩ := pass1_inv _ _ _ _ _ _ hp
    exact relocate_strict_mono np sh h3 (fun x hx => by have := (h4 x hx).2; omega) a b hab
  | err e => exact hab
  | panic m => exact hab

theorem newOff_zero (ins : Bytes) : newOff ins 0 = 0 := by
  unfold newOff
  cases hp : pass1 (ins.length + 1) ins 0 0 with
  | ok p =>
    obtain ⟨np, sh⟩ := p
    obtain ⟨h1, _, _, _, h5⟩ := pass1_inv _ _ _ _ _ _ hp
    obtain ⟨_, h7⟩ := h5 (Nat.le_refl _)
    simp only [relocate]
    cases h0 : np[0]? with
    | none => have := List.getElem?_eq_none_iff.mp h0; omega
    | some x => have := h7 0 x h0; simp; omega
  | err e => rfl
  | panic m => rfl

/-- a zero (absent catch / finally) operand of SETUPTRY stays zero; every other operand of a
    re-encoded instruction goes through the offset map -/
theorem absent_stays_zero (φ : Nat → Nat) : relocArgs φ convKeepZeroOp [0, 0] = [0, 0] := by
  simp [relocArgs]

theorem relocArgs_jump (φ : Nat → Nat) (op t : Nat) (h : op ≠ convKeepZeroOp) :
    relocArgs φ op [t] = [φ t] := by simp [relocArgs, h]

theorem relocArgs_try (φ : Nat → Nat) (c f : Nat) (hc : c ≠ 0) (hf : f ≠ 0) :
    relocArgs φ convKeepZeroOp [c, f] = [φ c, φ f] := by simp [relocArgs, hc, hf]

/-! ### the converter -/

theorem relocate_bound {np : List Nat} {sh : Nat} {n : Nat} (hlen : np.length = n + 1) (hsh : sh ≤ n)
    (hb : ∀ j x, np[j]? = some x → x ≤ 2 * (0 + j)) : ∀ p, p < 65536 → relocate np sh p ≤ 2147483647 := by
  intro p hp
  unfold relocate
  cases h : np[p]? with
  | none => have := List.getElem?_eq_none_iff.mp h; simp; omega
  | some x => have := hb p x h; simp; omega

theorem relocInstr_id (x : Instr) : relocInstr (fun p => p) x = x := by
  cases x with
  | mk off op args =>
    simp only [relocInstr, relocArgs]
    congr 1
    split <;> simp

theorem map_relocInstr_id (is : List Instr) : is.map (relocInstr (fun p => p)) = is := by
  induction is with
  | nil => rfl
  | cons x xs ih => simp [relocInstr_id, ih]

theorem convSm_map (sm : SrcMap) (φ : Nat → Nat) (is : List Instr) :
    convSm sm is (is.map (relocInstr φ)) =
      is.filterMap (fun x => (sm.lookup x.off).map (fun p => (φ x.off, p))) := by
  induction is with
  | nil => simp [convSm]
  | cons x xs ih =>
    simp only [List.map, convSm, ih, List.filterMap_cons, relocInstr]
    cases sm.lookup x.off <;> simp

/-- **Main structural theorem.**  For every version-1 stream that decodes (all opcodes known, no
    truncated instruction) and every source map, the converter succeeds and the converted
    stream decodes, in the current format, to the same instructions moved by the offset map
    `newOff ins`: same opcodes, same operands except that the jump / try operands go through
    `newOff ins` (a zero SETUPTRY operand stays zero), every instruction offset goes through
    `newOff ins`; the source map is unchanged when nothing had to be widened (then `newOff ins`
    is the identity) and otherwise consists of the entries of the old instruction offsets
    re-keyed through `newOff ins`.  The converted stream ends where the map sends the old end. -/
theorem conv_decodes (ins : Bytes) (sm : SrcMap) (is : List Instr) (h : decodeV1 ins = some is) :
    ∃ out m, convFn ins sm = .ok (out, m) ∧
      decodeV2 out = some (is.map (relocInstr (newOff ins))) ∧
      out.length = newOff ins ins.length ∧
      ((m = sm ∧ ∀ p, newOff ins p = p) ∨
       m = is.filterMap (fun x => (sm.lookup x.off).map (fun p => (newOff ins x.off, p)))) := by
  unfold decodeV1 decodeAll at h
  obtain ⟨bj, hbj⟩ := hasJump_of_decodable _ _ _ _ (ins.length + 1) h (Nat.lt_succ_self _)
  cases bj with
  | false =>
    obtain ⟨hd, np, hp, hnp⟩ := nojump_spec _ _ _ 0 _ _ (ins.length + 1) h hbj (Nat.lt_succ_self _)
    have hid : ∀ p, newOff ins p = p := by
      intro p
      simp only [newOff, hp, relocate]
      cases hx : np[p]? with
      | none => simp
      | some x => have := hnp p x hx; simp; omega
    have hfun : newOff ins = fun p => p := funext hid
    refine ⟨ins, sm, by simp [convFn, hbj], ?_, (hid _).symm, Or.inl ⟨rfl, hid⟩⟩
    rw [hfun]
    simp only [decodeV2, decodeAll, hd, map_relocInstr_id]
  | true =>
    obtain ⟨np, sh, hp, hag, hlast⟩ := pass1_of_decodable _ _ _ 0 _ (ins.length + 1) h (Nat.lt_succ_self _)
    obtain ⟨h1, _, _, _, h5⟩ := pass1_inv _ _ _ _ _ _ hp
    obtain ⟨h6, h7⟩ := h5 (Nat.le_refl _)
    have hφ := relocate_bound h1 (by simpa using h6) h7
    obtain ⟨out, m, hp2, hd2, hm, hol⟩ := pass2_decodes (relocate np sh) sm hφ _ _ _ 0 _ (ins.length + 1) h
      (Nat.lt_succ_self _)
    have hno : newOff ins = relocate np sh := by
      funext p; simp [newOff, hp]
    have hrel := hag (relocate np sh) (by
      intro j x hx
      simp [relocate, hx])
    simp at hrel
    refine ⟨out, m, by simp [convFn, hbj, hp, hp2], ?_, ?_, Or.inr ?_⟩
    · rw [hno, ← hrel]
      exact hd2 _ (Nat.lt_succ_self _)
    · rw [hno, hol]; simp [relocate, hlast]
    · rw [hm, hno, hrel, convSm_map]

/-- decodable input: the converter neither panics nor fails -/
theorem conv_no_panic (ins : Bytes) (sm : SrcMap) (is : List Instr) (h : decodeV1 ins = some is) :
    (convFn ins sm).isOk = true := by
  obtain ⟨out, m, hc, _⟩ := conv_decodes ins sm is h
  simp [hc, Res.isOk]

/-- **Arbitrary bytes** (shared with C18): the converter returns a converted function or an error,
    it never panics — unknown opcodes and truncated instructions are rejected by the first pass,
    and everything the first pass accepts the second pass can rewrite. -/
theorem conv_total (ins : Bytes) (sm : SrcMap) : (convFn ins sm).isPanic = false := by
  unfold convFn
  have hj := hasJump_no_panic (ins.length + 1) ins (Nat.lt_succ_self _)
  cases hbj : hasJumpLoop (ins.length + 1) ins with
  | panic m => simp [hbj, Res.isPanic] at hj
  | err e => simp [Res.isPanic]
  | ok bj =>
    cases bj with
    | false => simp [Res.isPanic]
    | true =>
      simp only
      have h1 := pass1_no_panic (ins.length + 1) ins 0 0 (Nat.lt_succ_self _)
      cases hp : pass1 (ins.length + 1) ins 0 0 with
      | panic m => simp [hp, Res.isPanic] at h1
      | err e => simp [Res.isPanic]
      | ok p =>
        obtain ⟨np, sh⟩ := p
        obtain ⟨is, his⟩ := pass1_decodable _ _ _ _ _ _ hp (ins.length + 1) (Nat.lt_succ_self _)
        obtain ⟨out, m, hc, _⟩ := conv_decodes ins sm is his
        simp only [convFn, hbj, hp] at hc
        simp [hc, Res.isPanic]

/-- the version-1 witness of DESIGN.md section 6 has the hypotheses of the theorems:
    `JUMPFALSY 7; CONSTANT 0; RETURN 1; …` decodes, and its jump target moves from 7 to 9 -/
example : decodeV1 [13, 0, 7, 1, 0, 0, 39, 1, 21, 39, 1] =
    some [⟨0, 13, [7]⟩, ⟨3, 1, [0]⟩, ⟨6, 39, [1]⟩, ⟨8, 21, []⟩, ⟨9, 39, [1]⟩] := by decide
example : convFn [13, 0, 7, 1, 0, 0, 39, 1, 21, 39, 1] [(0, 5), (6, 9)] =
    .ok ([13, 0, 0, 0, 9, 1, 0, 0, 39, 1, 21, 39, 1], [(0, 5), (8, 9)]) := by decide
example : newOff [13, 0, 7, 1, 0, 0, 39, 1, 21, 39, 1] 8 = 10 := by decide

/-! ### behaviour: the `Reloc` simulation -/

theorem fetch_map (φ : Nat → Nat) (hinj : ∀ a b, φ a = φ b → a = b) (endOff : Nat) (is : List Instr) (ip : Nat) :
    fetch (φ endOff) (is.map (relocInstr φ)) (φ ip) =
      (fetch endOff is ip).map (fun p => (relocInstr φ p.1, φ p.2)) := by
  induction is with
  | nil => simp [fetch]
  | cons x xs ih =>
    simp only [List.map, fetch]
    by_cases hx : x.off = ip
    · have : (relocInstr φ x).off = φ ip := by simp [relocInstr, hx]
      simp only [this, hx, if_true, Option.map_some]
      cases xs with
      | nil => simp
      | cons y ys => simp [relocInstr]
    · have : ¬ (relocInstr φ x).off = φ ip := by
        simp only [relocInstr]; intro hc; exact hx (hinj _ _ hc)
      simp only [this, hx, if_false]
      exact ih

/-- an equivariant machine runs the relocated program, from the relocated state, to the same
    result (for every amount of fuel, in particular: one side runs out of fuel iff the other does) -/
theorem reloc_sim {δ ρ : Type} (M : Machine δ ρ) (φ : Nat → Nat) (hinj : ∀ a b, φ a = φ b → a = b)
    (hM : M.Equivariant φ) (posOf posOf' : Nat → Option Nat) (hpos : ∀ o, posOf' (φ o) = posOf o)
    (endOff : Nat) (is : List Instr) :
    ∀ (fuel ip : Nat) (d : δ),
      run M posOf' (φ endOff) (is.map (relocInstr φ)) fuel (φ ip) (M.mapD φ d) =
        run M posOf endOff is fuel ip d := by
  intro fuel
  induction fuel with
  | zero => intro ip d; rfl
  | succ fuel ih =>
    intro ip d
    simp only [run, fetch_map φ hinj]
    cases hf : fetch endOff is ip with
    | none => simp
    | some p =>
      obtain ⟨x, nx⟩ := p
      simp only [Option.map_some, hM posOf posOf' hpos x d]
      cases he : M.exec posOf x d with
      | next d' => simp only [Effect.map]; exact ih nx d'
      | goto t d' => simp only [Effect.map]; exact ih t d'
      | halt r => simp only [Effect.map]

/-- **Full statement of C11 for a VM semantics `M`**: a function in the version-1 layout and its
    conversion run to the same outcome (result value or error, including the source positions an
    error reports through the source map) from every state, with every amount of fuel.  `M` is
    the VM (to be instantiated with `Model/VM` by the coordinator). -/
def C11_full {δ ρ : Type} (M : Machine δ ρ) : Prop :=
  ∀ (ins : Bytes) (sm : SrcMap) (is : List Instr), decodeV1 ins = some is →
    ∃ out m is', convFn ins sm = .ok (out, m) ∧ decodeV2 out = some is' ∧
      ∀ (fuel : Nat) (d : δ),
        run M (srcPos m) out.length is' fuel 0 (M.mapD (newOff ins) d) =
          run M (srcPos sm) ins.length is fuel 0 d

/-- What is proved of `C11_full`: it holds for every machine that is equivariant under the
    converter's offset map, given that the converted source map answers position queries like
    the original one (`hpos`; true when every source-map key is an instruction offset, which
    holds for compiler output but is not proved here).
    Missing for the full statement: `Equivariant` for the real VM model, and `hpos`. -/
theorem C11_partial {δ ρ : Type} (M : Machine δ ρ)
    (hM : ∀ ins, M.Equivariant (newOff ins))
    (hpos : ∀ ins sm out m, convFn ins sm = .ok (out, m) → ∀ o, srcPos m (newOff ins o) = srcPos sm o) :
    C11_full M := by
  intro ins sm is h
  obtain ⟨out, m, hc, hd, hlen, _⟩ := conv_decodes ins sm is h
  refine ⟨out, m, _, hc, hd, ?_⟩
  intro fuel d
  have hinj : ∀ a b, newOff ins a = newOff ins b → a = b := by
    intro a b hab
    rcases Nat.lt_trichotomy a b with hlt | heq | hgt
    · have := newOff_strict_mono ins a b hlt; omega
    · exact heq
    · have := newOff_strict_mono ins b a hgt; omega
  have := reloc_sim M (newOff ins) hinj (hM ins) (srcPos sm) (srcPos m) (hpos ins sm out m hc)
    ins.length is fuel 0 d
  rw [newOff_zero, ← hlen] at this
  exact this

/-- non-vacuity of `Equivariant`: a machine whose JUMP continues at its operand and whose other
    instructions fall through is equivariant under every offset map that fixes nothing special -/
example : (⟨fun _ x d => if x.op = OpJump then (match x.args with | [t] => .goto t d | _ => .halt 0) else .next d,
    fun _ d => d, 1⟩ : Machine Unit Nat).Equivariant (newOff [12, 0, 3, 21]) := by
  intro posOf posOf' _ x d
  simp only [relocInstr, Effect.map]
  by_cases hx : x.op = OpJump
  · simp only [hx, if_true]
    have : isJumpClass OpJump = true := by decide
    simp only [this, if_true, relocArgs]
    match x.args with
    | [] => simp [Effect.map]
    | [t] => simp [Effect.map, OpJump, convKeepZeroOp]
    | _ :: _ :: _ => simp [Effect.map]
  · simp [hx, Effect.map]

end UgoVerif.Props.C11
