import UgoVerif.Proofs.Sym
import UgoVerif.Gen.SymFacts
import UgoVerif.Proofs.CompileGbEval
/-
  C13 — a disabled builtin cannot be reached by any script.

  Model: `Model/Sym.lean` (symbol_table.go statement by statement, the module-table
  lines of compileModule, the first lines of optimizerEval.resetCompiler), tied to
  the code by the `symops` correspondence stream; structural facts regenerated
  from the Go source in `Gen/SymFacts.lean`.  The theorems hold for every table of
  builtin names `B`; the examples instantiate the regenerated `BuiltinsMap`.
-/
set_option linter.unusedVariables false
namespace UgoVerif.Props.C13
open UgoVerif UgoVerif.Go UgoVerif.Model.Sym UgoVerif.Proofs.Sym UgoVerif.Gen.SymFacts

/-! ## Regenerated structural facts (a code edit that removes one of these features
    breaks the corresponding `decide`) -/

/-- (a) the only `BuiltinsMap` lookup of `Resolve` sits in the statement guarded by
    `!ok && st.parent == nil && !st.isBuiltinDisabled(name)`, in this order -/
theorem fact_resolve_guard :
    resolveFallbackGuard = ["!ok", "st.parent == nil", "!st.isBuiltinDisabled(name)"] ∧
    resolveBuiltinLookups = 1 ∧ resolveBuiltinLookupsGuarded = resolveBuiltinLookups := by decide

/-- the helpers the guard relies on read the *root* scope's set -/
theorem fact_isBuiltinDisabled :
    isBuiltinDisabledBody = ["root := st.root()", "_, ok := root.disabledBuiltins[name]", "return ok"] ∧
    rootBody = ["if st.parent == nil { return st }", "return st.parent.root()"] ∧
    disabledBuiltinsMapBody = ["if st == nil { return nil }", "root := st.root()", "return root.disabledBuiltins"] := by
  decide

/-- BUILTIN symbols are created only by `Resolve` -/
theorem fact_builtin_scope_sites : builtinScopeSites = [("symbol_table.go", "SymbolTable.Resolve")] := by decide

/-- `DisableBuiltin` evicts a builtin symbol cached by an earlier `Resolve` -/
theorem fact_disable_evicts :
    disableBuiltinLoop = ["root.disabledBuiltins[n] = struct{}{}",
      "if s, ok := root.store[n]; ok && s.Scope == ScopeBuiltin { delete(root.store, n) }"] := by decide

/-- (b) `compileModule` hands the forked compiler a new table that received a copy of the
    disabled set of the compiler's table -/
theorem fact_compileModule_copies :
    compileModuleTableInit = ["symbolTable := NewSymbolTable()",
      "symbolTable.disabledBuiltins = copyMapStringSet(c.symbolTable.disabledBuiltinsMap())",
      "fork := c.fork(modFile, modulePath, moduleMap, symbolTable)"] ∧
    copyMapStringSetBody = ["if m == nil { return nil }", "n := make(map[string]struct{}, len(m))",
      "for k, v := range m { n[k] = v }", "return n"] := by decide

/-- (c) the optimizer's evaluator builds its table (new or reset), copies the disabled and
    shadowed names, and only then compiles with that table -/
theorem fact_evaluator_copies :
    resetCompilerPrefix = ["if ev.symtab == nil { ev.symtab = NewSymbolTable() } else { ev.symtab.reset() }",
      "ev.symtab.EnableParams(false)", "optimCopyBuiltinStates(ev.symtab, so.compSymTab)",
      "optimCopyBuiltinStatesFromScope(ev.symtab, so.scope)"] ∧
    resetCompilerSymtabField = "ev.symtab" ∧ "ev.resetCompiler(so)" ∈ evalBeforeCompile := by decide

/-- every place that creates a symbol table is one the model covers -/
theorem fact_newSymbolTable_sites :
    newSymbolTableSites = [("compiler.go", "newCompiler"), ("compiler.go", "Compiler.compileModule"),
      ("eval.go", "NewEval"), ("optimizer.go", "optimizerEval.resetCompiler"),
      ("symbol_table.go", "SymbolTable.Fork")] := by decide

/-- (d) GETBUILTIN is emitted at exactly two places: `compileIdent` with the index of the
    symbol `Resolve` returned in scope BUILTIN, and destructuring with the private `:makeArray` -/
theorem fact_getbuiltin_sites :
    getBuiltinEmitSites = [("compiler_nodes.go", "Compiler.compileAssignStmt", "int(BuiltinMakeArray)"),
      ("compiler_nodes.go", "Compiler.compileIdent", "symbol.Index")] ∧
    compileIdentFirstStmt = "symbol, ok := c.symbolTable.Resolve(node.Name)" ∧
    compileIdentSwitchTag = "symbol.Scope" ∧
    compileIdentBuiltinCase = ["c.emit(node, OpGetBuiltin, symbol.Index)"] ∧
    opGetBuiltinUses = [("compiler.go", "MakeInstruction", "1"), ("opcodes.go", "(package)", "3"),
      ("optimizer.go", "canOptimizeInsts", "2"), ("vm.go", "VM.loop", "1")] := by decide

/-- distinct builtin names have distinct indices in the regenerated `BuiltinsMap`, and
    `:makeArray` (not a lexable identifier) is the builtin destructuring uses -/
theorem fact_builtins_distinct :
    (builtinsMap.map (·.2)).Nodup ∧ (builtinsMap.map (·.1)).Nodup ∧
    mapGet builtinsMap [58, 109, 97, 107, 101, 65, 114, 114, 97, 121] = some builtinMakeArray := by decide

/-! ## Theorems about the model -/

/-- `Resolve` never answers with a BUILTIN symbol for a disabled name — on chains satisfying the invariant -/
theorem resolve_disabled_chain (B : Builtins) (ch ch' : Chain) (n : Name) (s : Symbol)
    (hok : ChainOK B ch) (hd : n ∈ rootDisabled ch) (hr : resolve B ch n = .ok (ch', some s)) :
    s.scope ≠ .builtin := by
  intro hb
  exact ((resolve_rel B n ch ch' (some s) hok hr).2 s rfl hb).1 hd

/-- **resolve_disabled.**  For every table reachable by *any* sequence of API calls (NewSymbolTable,
    Fork, Parent, Define*, SetParams, Resolve, DisableBuiltin in any order and on any table,
    module-table and evaluator-table construction) from the empty heap: if `n` is in the disabled
    set of the table's root, `Resolve` does not return a BUILTIN symbol for `n`. -/
theorem resolve_disabled (B : Builtins) (ops : List Op) (id : Nat) (n : Name) (ch' : Chain) (s : Symbol)
    (hd : n ∈ rootDisabled (tabsOf (run B [] ops) (some id)))
    (hr : resolve B (tabsOf (run B [] ops) (some id)) n = .ok (ch', some s)) : s.scope ≠ .builtin :=
  resolve_disabled_chain B _ ch' n s (chainOf_ok B _ id (run_ok B ops [] trivial)) hd hr

def nLen : Name := [108, 101, 110]

/-- non-vacuity: `len` disabled on a root, a function scope forked: the name is in the governing
    set and `Resolve` answers "unresolved" -/
example :
    let H := run builtinsMap [] [.newTable, .disable (some 0) [nLen], .fork (some 0) false]
    nLen ∈ rootDisabled (tabsOf H (some 1)) ∧
    (resolve builtinsMap (tabsOf H (some 1)) nLen).isOk = true := by decide

/-- without disabling, the same table resolves `len` to the builtin (so the theorem is not vacuous
    because builtins never resolve) -/
example : ∃ ch', resolve builtinsMap (tabsOf (run builtinsMap [] [.newTable, .fork (some 0) false]) (some 1)) nLen
    = .ok (ch', some { name := nLen, index := 5, scope := .builtin }) := ⟨_, rfl⟩

/-- a reference to a disabled name that no enclosing scope declares is unresolved (compile error) -/
theorem resolve_disabled_undeclared (B : Builtins) (n : Name) : ∀ (ch : Chain), ch ≠ [] →
    n ∈ rootDisabled ch → (∀ t, t ∈ ch → mapGet t.store n = none) →
    ∃ ch', resolve B ch n = .ok (ch', none)
  | [], h, _, _ => absurd rfl h
  | [st], _, hd, hs => by
    have h1 : mapGet st.store n = none := hs st (by simp)
    have h2 : memDisabled st n = true := (memDisabled_iff st n).2 (by simpa [rootDisabled, rootTab] using hd)
    exact ⟨[st], by simp [resolve, h1, h2]⟩
  | st :: p :: pps, _, hd, hs => by
    have h1 : mapGet st.store n = none := hs st (by simp)
    obtain ⟨ps', hr⟩ := resolve_disabled_undeclared B n (p :: pps) (by simp)
      (by simpa [rootDisabled, rootTab] using hd) (fun t ht => hs t (by simp [ht]))
    exact ⟨st :: ps', by simp [resolve, h1, hr]⟩

example : ∃ ch', resolve builtinsMap [forkTab newTab true, { newTab with disabledBuiltins := some [nLen] }] nLen
    = .ok (ch', none) :=
  resolve_disabled_undeclared builtinsMap nLen _ (by simp) (by decide) (by decide)

/-- **fork_keeps_disabled** (scopes): the table `Fork` returns is governed by the same root set -/
theorem fork_keeps_disabled (B : Builtins) (H : Heap) (id : Nat) (block : Bool) (hid : id < H.length) :
    rootDisabled (tabsOf (step B H (.fork (some id) block)).1 (some H.length)) =
    rootDisabled (tabsOf H (some id)) := by
  have hne : chainOf H id ≠ [] := by
    intro he; rw [chainOf_eq_nil_iff] at he; omega
  cases hc : chainOf H id with
  | nil => exact absurd hc hne
  | cons a r =>
    simp only [step, tabsOf, hc, List.map_cons, alloc]
    rw [chainOf_alloc_new]
    simp [hc, rootDisabled, rootTab]

example : (1 : Nat) < (run builtinsMap [] [.newTable, .disable (some 0) [nLen], .fork (some 0) false]).length := by
  decide

/-- **fork_keeps_disabled** (modules): the table `compileModule` creates has exactly the disabled
    set of the importing compiler's table -/
theorem module_table_keeps_disabled (ch : Chain) (t : Tab) (h : newModuleTab ch = .ok t) :
    t.store = [] ∧ ∀ n, n ∈ disabledSet t ↔ n ∈ rootDisabled ch := newModuleTab_spec ch t h

example : ∃ t, newModuleTab [forkTab newTab false, { newTab with disabledBuiltins := some [nLen] }] = .ok t ∧
    nLen ∈ disabledSet t := ⟨_, rfl, by decide⟩

/-- **evaluator_table_disabled.**  The table the optimizer's evaluator compiles an expression with
    (created or reset by `resetCompiler`) is empty and disables every name that is disabled in the
    compiler's table, shadowed in any scope of the compiler's table, or shadowed in the optimizer's
    scope chain at the call site. -/
theorem evaluator_table_disabled (B : Builtins) (ev : Option Tab) (comp : Chain) (scopes : List (List Name))
    (t : Tab) (h : evalResetTab ev comp scopes = .ok t) :
    t.store = [] ∧ (∀ n, n ∈ rootDisabled comp → n ∈ disabledSet t) ∧
    (∀ n, n ∈ shadowedAlong comp → n ∈ disabledSet t) ∧
    (∀ sc, sc ∈ scopes → ∀ n, n ∈ sc → n ∈ disabledSet t) := evalResetTab_spec B ev comp scopes t h

/-- hence the evaluator cannot resolve any of those names -/
theorem evaluator_cannot_resolve (B : Builtins) (ev : Option Tab) (comp : Chain) (scopes : List (List Name))
    (t : Tab) (h : evalResetTab ev comp scopes = .ok t) (n : Name)
    (hn : n ∈ rootDisabled comp ∨ n ∈ shadowedAlong comp ∨ ∃ sc, sc ∈ scopes ∧ n ∈ sc) :
    resolve B [t] n = .ok ([t], none) := by
  obtain ⟨h1, h2, h3, h4⟩ := evalResetTab_spec B ev comp scopes t h
  have hd : memDisabled t n = true := (memDisabled_iff t n).2 (by
    rcases hn with hn | hn | ⟨sc, hsc, hn⟩
    · exact h2 n hn
    · exact h3 n hn
    · exact h4 sc hsc n hn)
  simp [resolve, h1, mapGet, hd]

example : ∃ t, evalResetTab (some { newTab with store := [(nLen, { name := nLen, index := 5, scope := .builtin })] })
      [{ newTab with shadowedBuiltins := [[105, 110, 116]], disabledBuiltins := some [nLen] }] [[[99, 97, 112]]] = .ok t ∧
    disabledSet t = [nLen, [105, 110, 116], [99, 97, 112]] := ⟨_, rfl, by decide⟩

/-- **shadow_then_resolve.**  After the script declares the (disabled) name, `Resolve` in that scope
    answers with the script's own symbol, never a builtin. -/
theorem shadow_then_resolve (B : Builtins) (ch ch1 : Chain) (n : Name) (s : Symbol) (e : Bool)
    (hok : ChainOK B ch) (hd : n ∈ rootDisabled ch) (h : defineLocal B ch n = .ok (ch1, s, e)) :
    resolve B ch1 n = .ok (ch1, some s) ∧ s.scope ≠ .builtin := by
  have hrel : ChainRel B ch ch1 := by
    rcases defineLocal_rel B ch n ch1 s e h with h' | h'
    · exact h'.1
    · exact h'.1
  have hres : resolve B ch1 n = .ok (ch1, some s) := by
    cases ch with
    | nil => simp [defineLocal, nilDeref] at h
    | cons st ps =>
      unfold defineLocal at h
      cases hg : mapGet st.store n with
      | some sym =>
        simp only [hg] at h
        split at h
        · obtain ⟨_, _, st2, ps2, hc, hm⟩ := defineNewLocal_spec B st ps n ch1 s e h
          subst hc
          exact resolve_hit B _ _ _ _ hm
        · simp only [Res.ok.injEq, Prod.mk.injEq] at h
          obtain ⟨h1, h2, _⟩ := h
          subst h1 h2
          exact resolve_hit B _ _ _ _ hg
      | none =>
        simp only [hg] at h
        obtain ⟨_, _, st2, ps2, hc, hm⟩ := defineNewLocal_spec B st ps n ch1 s e h
        subst hc
        exact resolve_hit B _ _ _ _ hm
  exact ⟨hres, resolve_disabled_chain B ch1 ch1 n s (hrel.ok hok) (hrel.rootDisabled n hd) hres⟩

example : ∃ ch1 s e, defineLocal builtinsMap [{ newTab with disabledBuiltins := some [nLen] }] nLen = .ok (ch1, s, e) ∧
    s.scope = .local := ⟨_, _, _, rfl, rfl⟩

/-- a declaration in *any* enclosing scope makes the name resolve to a non-builtin symbol (the
    script's symbol or the free-variable copy of it), in nested functions and blocks -/
theorem shadow_then_resolve_nested (B : Builtins) (n : Name) : ∀ (ch : Chain), ChainOK B ch →
    n ∈ rootDisabled ch → (∃ t, t ∈ ch ∧ (mapGet t.store n).isSome = true) →
    ∃ ch' s, resolve B ch n = .ok (ch', some s) ∧ s.scope ≠ .builtin := by
  intro ch hok hd hex
  have key : ∀ (ch : Chain), (∃ t, t ∈ ch ∧ (mapGet t.store n).isSome = true) →
      ∃ ch' s, resolve B ch n = .ok (ch', some s) := by
    intro ch
    induction ch with
    | nil => rintro ⟨t, ht, _⟩; cases ht
    | cons st ps ih =>
      rintro ⟨t, ht, hs⟩
      cases hg : mapGet st.store n with
      | some sym => exact ⟨_, sym, resolve_hit B _ _ _ _ hg⟩
      | none =>
        have htps : t ∈ ps := by
          simp only [List.mem_cons] at ht
          rcases ht with ht | ht
          · subst ht; simp [hg] at hs
          · exact ht
        obtain ⟨ps', s, hr⟩ := ih ⟨t, htps, hs⟩
        cases ps with
        | nil => cases htps
        | cons p pps =>
          unfold resolve
          simp only [hg, hr]
          split
          · exact ⟨_, _, rfl⟩
          · exact ⟨_, _, rfl⟩
  obtain ⟨ch', s, hr⟩ := key ch hex
  exact ⟨ch', s, hr, resolve_disabled_chain B ch ch' n s hok hd hr⟩

/-- **Persistence across Eval fragments.**  An Eval session threads one symbol table through its
    compile calls; a fragment is any sequence of calls (none of which is the optimizer resetting
    *that* table, which it never owns).  A name disabled before the first fragment stays disabled
    for the table after all fragments, and `Resolve` never answers with the builtin. -/
theorem eval_fragments_persist (B : Builtins) (ops0 : List Op) (fragments : List (List Op)) (id : Nat) (n : Name)
    (hid : id < (run B [] ops0).length)
    (hd : n ∈ rootDisabled (tabsOf (run B [] ops0) (some id)))
    (hnr : ∀ f, f ∈ fragments → ∀ op, op ∈ f → NoReset op) :
    let H := run B (run B [] ops0) fragments.flatten
    n ∈ rootDisabled (tabsOf H (some id)) ∧
    ∀ ch' s, resolve B (tabsOf H (some id)) n = .ok (ch', some s) → s.scope ≠ .builtin := by
  intro H
  have h0 : HeapOK B (run B [] ops0) := run_ok B ops0 [] trivial
  have hm : Mono (run B [] ops0) H := run_mono B _ _ h0 (by
    intro op hop
    obtain ⟨f, hf, hof⟩ := List.mem_flatten.1 hop
    exact hnr f hf op hof)
  have hd' : n ∈ rootDisabled (tabsOf H (some id)) := hm.2 id hid n hd
  exact ⟨hd', fun ch' s hr => resolve_disabled_chain B _ ch' n s (chainOf_ok B _ id (run_ok B _ _ h0)) hd' hr⟩

example :
    let H0 := run builtinsMap [] [.newTable, .disable (some 0) [nLen]]
    0 < H0.length ∧ nLen ∈ rootDisabled (tabsOf H0 (some 0)) := by decide

/-! ## The compiled Bytecode -/

theorem BInj_of_nodup (B : Builtins) (h : (B.map (·.2)).Nodup) : BInj B := by
  have mem : ∀ (B : Builtins) a i, mapGet B a = some i → (a, i) ∈ B := by
    intro B
    induction B with
    | nil => intro a i h; simp [mapGet] at h
    | cons p r ih =>
      intro a i h
      obtain ⟨k, v⟩ := p
      unfold mapGet at h
      split at h
      · rename_i hk; simp only [Option.some.injEq] at h; subst h hk; simp
      · exact List.mem_cons_of_mem _ (ih a i h)
  have uniq : ∀ (B : Builtins), (B.map (·.2)).Nodup → ∀ a b i, (a, i) ∈ B → (b, i) ∈ B → a = b := by
    intro B
    induction B with
    | nil => intro _ a b i h; cases h
    | cons p r ih =>
      intro hn a b i ha hb
      simp only [List.map_cons, List.nodup_cons, List.mem_map, not_exists, not_and] at hn
      simp only [List.mem_cons] at ha hb
      rcases ha with ha | ha <;> rcases hb with hb | hb
      · rw [← hb] at ha; exact (Prod.mk.inj ha).1
      · subst ha; exact absurd rfl (hn.1 (b, i) hb)
      · subst hb; exact absurd rfl (hn.1 (a, i) ha)
      · exact ih hn.2 a b i ha hb
  intro a b i ha hb
  exact uniq B h a b i (mem B a i ha) (mem B b i hb)

theorem builtinsMap_injective : BInj builtinsMap := BInj_of_nodup _ fact_builtins_distinct.1

theorem crun_inv (B : Builtins) (mk : Nat) (D : List Name) (hinj : BInj B) : ∀ (evs : List CEvent) (s : CState),
    CInv B mk D s → AllLegal B mk s evs → CInv B mk D (crun B mk s evs)
  | [], _, h, _ => h
  | e :: es, s, h, hl => crun_inv B mk D hinj es _ (cstep_inv B mk D hinj s e h hl.1) hl.2

/-- an abstract compiler: on success, the operands of all GETBUILTIN instructions of all compiled
    functions of the Bytecode (main script, nested functions, imported source modules), given the
    symbol table state (a reachable heap and the handle of the table handed to the compiler) -/
structure CompilerSem (Prog : Type) where
  compile : Heap → Nat → Prog → Res (List Int)

/-- **Full statement (no_getbuiltin).**  If every name of `D` is disabled in the table handed to the
    compiler, the produced Bytecode contains no GETBUILTIN whose operand is the index of a name in
    `D` (the private `:makeArray`, index `mk`, excepted). -/
def C13_full (B : Builtins) (mk : Nat) {Prog : Type} (C : CompilerSem Prog) : Prop :=
  ∀ (ops0 : List Op) (id : Nat) (D : List Name) (p : Prog) (out : List Int),
    id < (run B [] ops0).length → Covered D (run B [] ops0) id →
    C.compile (run B [] ops0) id p = .ok out →
    ∀ i, i ∈ out → GoodOperand B mk D i

/-- What is assumed about the compiler (not modelled here; `Model/Compile` of DESIGN.md §5):
    a successful compilation is a finite trace of (1) calls of the symbol-table API on tables of
    its own family — the handed table, scopes forked from family tables, module tables built by
    `compileModule` from a family table, evaluator tables built by `resetCompiler` from a family
    table (a reused evaluator table is represented by a fresh one, which `evaluator_table_disabled`
    justifies: the reset table is empty and receives the same names) —, (2) `compileIdent` on a
    family table, (3) the destructuring emission; and its GETBUILTIN operands are exactly those the
    trace emits.  The regenerated facts `fact_getbuiltin_sites`, `fact_newSymbolTable_sites`,
    `fact_builtin_scope_sites`, `fact_compileModule_copies`, `fact_evaluator_copies` pin the code
    features this description relies on. -/
def CompilerDiscipline (B : Builtins) (mk : Nat) {Prog : Type} (C : CompilerSem Prog) : Prop :=
  ∀ (H : Heap) (id : Nat) (p : Prog) (out : List Int), C.compile H id p = .ok out →
    ∃ evs, AllLegal B mk { heap := H, fam := [id], out := [] } evs ∧
      (crun B mk { heap := H, fam := [id], out := [] } evs).out = out

/-- **no_getbuiltin_partial.**  The reduction: every GETBUILTIN emission goes through `Resolve`
    returning a BUILTIN-scope symbol (or is the fixed `:makeArray`), and `Resolve` on every table
    of the compilation's family is governed by a root set that contains `D`
    (`fork_keeps_disabled`, `module_table_keeps_disabled`, `evaluator_table_disabled`,
    monotonicity), so by `resolve_disabled` no operand names a member of `D`. -/
theorem no_getbuiltin_partial (B : Builtins) (mk : Nat) {Prog : Type} (C : CompilerSem Prog)
    (hinj : BInj B) (hdisc : CompilerDiscipline B mk C) : C13_full B mk C := by
  intro ops0 id D p out hid hcov hc i hi
  obtain ⟨evs, hl, hout⟩ := hdisc _ id p out hc
  have inv0 : CInv B mk D { heap := run B [] ops0, fam := [id], out := [] } :=
    ⟨run_ok B ops0 [] trivial, by
      intro j hj; simp only [List.mem_singleton] at hj; subst hj; exact ⟨hid, hcov⟩,
     by intro i hi; cases hi⟩
  have := (crun_inv B mk D hinj evs _ inv0 hl).out i (by rw [hout]; exact hi)
  exact this

/-- non-vacuity of the trace model: `len` disabled; the main script forks a function scope, declares
    `x`, compiles the identifiers `x` (local) and `int` (builtin 11) and a destructuring: the trace is
    legal and emits GETBUILTIN 11 and GETBUILTIN :makeArray; compiling `len` emits nothing. -/
example :
    let s0 : CState := { heap := run builtinsMap [] [.newTable, .disable (some 0) [nLen]], fam := [0], out := [] }
    let evs : List CEvent := [.api (.fork (some 0) false), .api (.defineLocal (some 1) [120]),
      .ident (some 1) [120], .ident (some 1) [105, 110, 116], .destructure, .ident (some 1) nLen]
    (crun builtinsMap builtinMakeArray s0 evs).out = [11, 47] := by decide


/-! ## The compiled Bytecode, over the compiler model (`Model/Compile.lean`)

  `Model/Compile.lean` (builder-c05) is a total model of compiler.go / compiler_nodes.go /
  symbol_table.go with the optimizer off, byte-identical with the real compiler on every generated
  program (stream `compile`).  For it the discipline assumed by `no_getbuiltin_partial` is PROVED:
  the invariant "every GETBUILTIN operand emitted so far — in the current stream and in every compiled
  function of the constant pool — is `:makeArray` or the index of a builtin name outside `D`; every
  BUILTIN-scope symbol in any table of the chain carries such an index; `D` is contained in the root
  table's disabled set" is carried through the eleven mutual compile functions, all block / function
  scopes (`Fork`/`Parent`), loops and back-patches (`Proofs/CompileGb{Inv,Prims,Main,Eval}.lean`).
  Not in that model: import expressions (module compilation: `fact_compileModule_copies`,
  `module_table_keeps_disabled` and the `disable` oracle) and the optimizer
  (`fact_evaluator_copies`, `evaluator_table_disabled` and the `disable` oracle). -/

end UgoVerif.Props.C13

namespace UgoVerif.Props.C13
open UgoVerif UgoVerif.Go UgoVerif.Ast UgoVerif.Compile UgoVerif.Compile.GB UgoVerif.Eval

/-- `i` is the operand of a GETBUILTIN instruction of the stream `a`: `p` is an instruction
    boundary when `a` is decoded from offset 0 (`Walk`), the opcode byte there is GETBUILTIN and the
    next byte (its one-byte operand) is `i` -/
def GetBuiltinAt (a : Array UInt8) (i : Nat) : Prop :=
  ∃ p op b, Walk a 0 p ∧ a[p]? = some op ∧ op.toNat = OpGetBuiltin ∧ a[p + 1]? = some b ∧ b.toNat = i

/-- positive form: every GETBUILTIN operand of the stream is `:makeArray` or the index of a builtin
    name that is NOT disabled -/
def GetBuiltinsAllowed (bs : List (String × Nat)) (D : List String) (a : Array UInt8) : Prop :=
  ∀ i, GetBuiltinAt a i → i = Gen.builtinMakeArray ∨ ∃ n, (n, i) ∈ bs ∧ n ∉ D

/-- the property: no GETBUILTIN operand of the stream is the index of a name in `D`
    (`:makeArray`, which no script can name, excepted) -/
def NoDisabledGetBuiltin (bs : List (String × Nat)) (D : List String) (a : Array UInt8) : Prop :=
  ∀ i, GetBuiltinAt a i → i = Gen.builtinMakeArray ∨ ∀ n, n ∈ D → (n, i) ∉ bs

/-- … for the main function and every compiled function (nested functions, closures) of the Bytecode -/
def BytecodeClean (bs : List (String × Nat)) (D : List String) (bc : Bytecode) : Prop :=
  (NoDisabledGetBuiltin bs D bc.main.insts ∧ GetBuiltinsAllowed bs D bc.main.insts) ∧
  ∀ f, Const.fn f ∈ bc.constants.toList → NoDisabledGetBuiltin bs D f.insts ∧ GetBuiltinsAllowed bs D f.insts

theorem pair_unique : ∀ (bs : List (String × Nat)), (bs.map (·.2)).Nodup → ∀ a b i, (a, i) ∈ bs → (b, i) ∈ bs → a = b := by
  intro bs
  induction bs with
  | nil => intro _ a b i h; cases h
  | cons p r ih =>
    intro hn a b i ha hb
    simp only [List.map_cons, List.nodup_cons, List.mem_map, not_exists, not_and] at hn
    simp only [List.mem_cons] at ha hb
    rcases ha with ha | ha <;> rcases hb with hb | hb
    · rw [← hb] at ha; exact (Prod.mk.inj ha).1
    · subst ha; exact absurd rfl (hn.1 (b, i) hb)
    · subst hb; exact absurd rfl (hn.1 (a, i) ha)
    · exact ih hn.2 a b i ha hb

theorem gbOK_allowed {bs : List (String × Nat)} {D : List String} {a : Array UInt8} (h : GbOK ⟨bs, D⟩ a) :
    GetBuiltinsAllowed bs D a := by
  rintro i ⟨p, op, b, hw, hop, h7, hb, rfl⟩
  exact h p op b hw hop h7 hb

theorem gbOK_clean {bs : List (String × Nat)} {D : List String} {a : Array UInt8} (hinj : (bs.map (·.2)).Nodup)
    (h : GbOK ⟨bs, D⟩ a) : NoDisabledGetBuiltin bs D a := by
  intro i hi
  rcases gbOK_allowed h i hi with h | ⟨n, hn, hnd⟩
  · exact .inl h
  · refine .inr fun n' hn' hmem => ?_
    have := pair_unique bs hinj n n' i hn hmem
    subst this
    exact hnd hn'

theorem bcOK_clean {bs : List (String × Nat)} {D : List String} {bc : Bytecode} (hinj : (bs.map (·.2)).Nodup)
    (h : BcOK ⟨bs, D⟩ bc) : BytecodeClean bs D bc :=
  ⟨⟨gbOK_clean hinj h.1, gbOK_allowed h.1⟩, fun f hf => ⟨gbOK_clean hinj (h.2 f hf), gbOK_allowed (h.2 f hf)⟩⟩

/-- **no_getbuiltin_compiled** (C13 at the Bytecode level, over the compiler model, with NO hypothesis
    on the compiler).  For every builtin table with distinct indices, every disabled set `D` and EVERY
    AST (any nesting of functions, closures, blocks, loops, try, destructuring, declarations): if
    `compileFile` returns a Bytecode, then no GETBUILTIN instruction of its main function or of any
    compiled function in its constant pool has as operand the index of a name in `D` (`:makeArray`
    excepted), and every such operand is the index of a builtin that is not disabled.
    Partial w.r.t. `C13_full` only in what the compiler model leaves out: import expressions (module
    compilation) and the optimizer's evaluator. -/
theorem no_getbuiltin_compiled (bs : List (String × Nat)) (hinj : (bs.map (·.2)).Nodup) (D : List String)
    (file : List Stmt) (bc : Bytecode) (h : compileFile bs D file = .ok bc) : BytecodeClean bs D bc := by
  have hg := goodP_compileProg (c := ⟨bs, D⟩) file (initState bs D) (inv_initState bs D)
  unfold compileFile at h
  unfold GB.Sat at hg
  change (runCM (compileProg file) (initState bs D)).1 = _ at h
  cases hr : runCM (compileProg file) (initState bs D) with
  | mk r s' =>
    rw [hr] at hg h
    simp only at h
    subst h
    exact bcOK_clean hinj hg.2.2

/-- the same from ANY compiler state satisfying the invariant `GB.Inv` — a re-used symbol table
    with cached BUILTIN symbols and earlier definitions, nested scopes, a constant pool holding earlier
    compiled functions, pending loops —, and the invariant holds again afterwards (the counterpart of
    C05's `compile_no_panic_reused` / `compile_keeps_invariant`) -/
theorem no_getbuiltin_reused (bs : List (String × Nat)) (hinj : (bs.map (·.2)).Nodup) (D : List String)
    (s : CState) (hs : GB.Inv ⟨bs, D⟩ s) (file : List Stmt) (bc : Bytecode) (s' : CState)
    (h : runCM (compileProg file) s = (.ok bc, s')) : BytecodeClean bs D bc ∧ GB.Inv ⟨bs, D⟩ s' := by
  have hg := goodP_compileProg (c := ⟨bs, D⟩) file s hs
  unfold GB.Sat at hg
  rw [h] at hg
  exact ⟨bcOK_clean hinj hg.2.2, hg.1⟩

/-- a compilation that ends with an error (or a Go panic) leaves symbol tables that still satisfy
    their part of the invariant: nothing a failed fragment cached can make a later one reach a
    disabled builtin -/
theorem failed_compile_keeps_tables (bs : List (String × Nat)) (D : List String)
    (s : CState) (hs : GB.Inv ⟨bs, D⟩ s) (file : List Stmt) (e : CErr) (s' : CState)
    (h : runCM (compileProg file) s = (.error e, s')) : GB.TabsInv ⟨bs, D⟩ s'.tables := by
  have hg := goodP_compileProg (c := ⟨bs, D⟩) file s hs
  unfold GB.Sat at hg
  rw [h] at hg
  exact hg

/-- `resolve` of the compiler model never answers with a BUILTIN-scope symbol for a name in `D`
    (the model-level counterpart of `resolve_disabled`, used by the invariant at `compileIdent`) -/
theorem compile_resolve_disabled (bs : List (String × Nat)) (hinj : (bs.map (·.2)).Nodup) (D : List String)
    (s : CState) (hs : GB.Inv ⟨bs, D⟩ s) (name : String) (y : Symbol) (s' : CState)
    (h : runCM (Compile.resolve name) s = (.ok (some y), s')) (hb : y.scope = .builtin) :
    ∃ i : Nat, y.index = i ∧ (∃ n, (n, i) ∈ bs ∧ n ∉ D) ∧ ∀ n, n ∈ D → (n, i) ∉ bs := by
  have hg := goodP_resolve (c := ⟨bs, D⟩) name s hs
  unfold GB.Sat at hg
  rw [h] at hg
  obtain ⟨i, hi, n, hn, hnd⟩ := hg.2.2 y rfl hb
  refine ⟨i, hi, ⟨n, hn, hnd⟩, fun n' hn' hmem => ?_⟩
  have := pair_unique bs hinj n n' i hn hmem
  subst this
  exact hnd hn'

/-- the regenerated `BuiltinsMap` of builtins.go (`Gen/SymFacts.lean`) with its names as strings: the
    table the compiler model is run with -/
def builtinsStrMap : List (String × Nat) :=
  Gen.SymFacts.builtinsMap.map fun p => (String.ofList (p.1.map fun b => Char.ofNat b.toNat), p.2)

theorem builtinsStrMap_distinct : (builtinsStrMap.map (·.2)).Nodup := by
  have h := fact_builtins_distinct.1
  have e : builtinsStrMap.map (·.2) = Gen.SymFacts.builtinsMap.map (·.2) := by
    simp [builtinsStrMap, List.map_map, Function.comp_def]
  rw [e]; exact h

/-- the instance for the real builtin table; `:makeArray` is the index the compiler model emits for
    destructuring -/
theorem no_getbuiltin_builtinsMap (D : List String) (file : List Stmt) (bc : Bytecode)
    (h : compileFile builtinsStrMap D file = .ok bc) : BytecodeClean builtinsStrMap D bc :=
  no_getbuiltin_compiled _ builtinsStrMap_distinct D file bc h

example : Gen.builtinMakeArray = Gen.SymFacts.builtinMakeArray ∧ (":makeArray", Gen.builtinMakeArray) ∈ builtinsStrMap := by
  decide +kernel

def exBs : List (String × Nat) := [("len", 5), ("int", 11)]

theorem getBuiltinAt_of_head {a : Array UInt8} {b : UInt8} (h : a.toList.take 2 = [7, b]) : GetBuiltinAt a b.toNat := by
  have h0 : a[0]? = some 7 := by
    have := congrArg (·[0]?) h
    simpa [List.getElem?_take] using this
  have h1 : a[0 + 1]? = some b := by
    have := congrArg (·[1]?) h
    simpa [List.getElem?_take] using this
  exact ⟨0, 7, b, .refl 0, h0, rfl, h1, rfl⟩

/-- test helper: the first two bytes of the main function and of every compiled function -/
def firstTwo (r : Except CErr Bytecode) : List (List UInt8) :=
  match r with
  | .ok bc => bc.main.insts.toList.take 2 :: bc.constants.toList.filterMap fun k =>
      match k with | .fn f => some (f.insts.toList.take 2) | _ => none
  | .error _ => []

/-- non-vacuity: with `len` disabled, a closure inside a block that calls `int(1)` compiles, and its
    compiled function starts with GETBUILTIN 11 (`int`); a reference to `len` is a compile error;
    without disabling, the same reference compiles to GETBUILTIN 5 (so the theorem does not hold
    because builtins never compile) -/
example : firstTwo (compileFile exBs ["len"]
    [.block 1 [.expr 1 (.func 1 false [] 1 [.return_ 1 (some (.call 1 false (.ident 1 "int") [.int 1 1#64]))])]])
    = [[1, 0], [7, 11]] := by decide +kernel
example : ∃ p m, compileFile exBs ["len"] [.expr 1 (.call 1 false (.ident 1 "len") [])] = .error (.err p m) := ⟨_, _, rfl⟩
example : ∃ bc, compileFile exBs [] [.expr 1 (.ident 1 "len")] = .ok bc ∧ GetBuiltinAt bc.main.insts 5 :=
  ⟨_, rfl, getBuiltinAt_of_head (b := 5) rfl⟩
example : (exBs.map (·.2)).Nodup := by decide
example (bs : List (String × Nat)) (D : List String) : GB.Inv ⟨bs, D⟩ (initState bs D) := inv_initState bs D

/-! ### Eval sessions -/

/-- what an Eval session must satisfy for `D` to stay unreachable: its root table is acceptable
    (`GB.TableOK`: cached BUILTIN symbols are indices of names outside `D`, `D ⊆ disabled`), holds no
    pending global (`NoPending`, builder-c10), and the compiled functions in its constant pool are clean -/
structure SessionOK (bs : List (String × Nat)) (D : List String) (s : Session) : Prop where
  builtins : s.builtins = bs
  table : GB.TableOK ⟨bs, D⟩ s.table
  pending : NoPending s.table
  consts : GB.ConstsOK ⟨bs, D⟩ s.constants

/-- a new session whose options disable `D` is fine -/
theorem session_new_ok (bs : List (String × Nat)) (D : List String) (heap : Array VM.Cell) (globals : VM.V) (args : List VM.V) :
    SessionOK bs D (newSession bs D heap globals args) :=
  ⟨rfl, ⟨fun _ h => by simp [newSession] at h, fun n hn => hn⟩, fun p h => by simp [newSession] at h,
   fun f hf => by simp [newSession] at hf⟩

/-- **no_getbuiltin_session** (one `Eval.Run`).  The compile of the fragment — which continues from
    the session's root table and constants — yields, when it succeeds, a Bytecode without GETBUILTIN
    of a name in `D` (main function, new and earlier function constants); and whatever the outcome
    (compile error, run-time error, success) the session handed to the next fragment is fine again.
    (The disabled set itself is unchanged by every compile: `session_table_monotone_full`, C10.)
    Not covered: the two bytes `fixOpPop` rewrites in the main function afterwards (NOOP, RETURN 1). -/
theorem no_getbuiltin_session (bs : List (String × Nat)) (hinj : (bs.map (·.2)).Nodup) (D : List String)
    (F : FloatOps) (fuel : Nat) (s : Session) (file : List Stmt) (hs : SessionOK bs D s) :
    SessionOK bs D (evalRun F fuel s file).session ∧
    ∀ bc, (compileSession s.builtins s.table s.constants file).result = .ok bc → BytecodeClean bs D bc := by
  have hc := compileSession_gb (c := ⟨bs, D⟩) s.table s.constants file hs.table hs.pending hs.consts
  have hp := (UgoVerif.Proofs.EvalMono.compileSession_spec bs s.table s.constants file hs.pending).1.pend hs.pending
  rw [hs.builtins]
  refine ⟨?_, fun bc hbc => bcOK_clean hinj (hc.2 bc hbc)⟩
  have key : (evalRun F fuel s file).session.table = (compileSession s.builtins s.table s.constants file).table ∧
      (evalRun F fuel s file).session.builtins = s.builtins ∧
      ((evalRun F fuel s file).session.constants = s.constants ∨
        ∃ bc, (compileSession s.builtins s.table s.constants file).result = .ok bc ∧
          (evalRun F fuel s file).session.constants = bc.constants) := by
    unfold evalRun
    simp only
    split
    · exact ⟨rfl, rfl, .inl rfl⟩
    · rename_i bc hbc
      split
      · exact ⟨rfl, rfl, .inr ⟨bc, hbc, rfl⟩⟩
      · exact ⟨rfl, rfl, .inr ⟨bc, hbc, rfl⟩⟩
      · split
        · exact ⟨rfl, rfl, .inr ⟨bc, hbc, rfl⟩⟩
        · exact ⟨rfl, rfl, .inr ⟨bc, hbc, rfl⟩⟩
        · exact ⟨rfl, rfl, .inr ⟨bc, hbc, rfl⟩⟩
  rw [hs.builtins] at key
  obtain ⟨k1, k2, k3⟩ := key
  refine ⟨k2, by rw [k1]; exact hc.1, by rw [k1]; exact hp, ?_⟩
  rcases k3 with k3 | ⟨bc, hbc, k3⟩
  · rw [k3]; exact hs.consts
  · rw [k3]; exact (hc.2 bc hbc).2

/-- … hence along a whole session: after every fragment the session is fine, so the statement above
    applies to every fragment (re-used tables, definitions and cached symbols of earlier fragments,
    fragments that failed to compile in between) -/
theorem no_getbuiltin_session_all (bs : List (String × Nat)) (hinj : (bs.map (·.2)).Nodup) (D : List String)
    (F : FloatOps) (fuel : Nat) : ∀ (fs : List (List Stmt)) (s : Session), SessionOK bs D s →
      ∀ o, o ∈ evalSession F fuel s fs → SessionOK bs D o.session
  | [], _, _, o, ho => by simp [evalSession] at ho
  | f :: fs, s, hs, o, ho => by
    have h1 := (no_getbuiltin_session bs hinj D F fuel s f hs).1
    unfold evalSession at ho
    simp only at ho
    split at ho
    · simp only [List.mem_cons] at ho
      rcases ho with ho | ho
      · subst ho; exact h1
      · exact no_getbuiltin_session_all bs hinj D F fuel fs _ h1 o ho
    · simp only [List.mem_singleton] at ho
      subst ho; exact h1

example : SessionOK exBs ["len"] (newSession exBs ["len"] #[] .undefined []) := session_new_ok _ _ _ _ _

end UgoVerif.Props.C13
