import UgoVerif.Proofs.Sym
import UgoVerif.Gen.SymFacts
/-
  C13 — a disabled builtin cannot be reached by any script.

  Model: `Model/Sym.lean` (symbol_table.go statement by statement, the module-table
  lines of compileModule, the first lines of optimizerEval.resetCompiler), tied to
  the code by the `symops` correspondence stream; structural facts regenerated
  from the Go source in `Gen/SymFacts.lean`.  The theorems hold for every table of
  builtin names `B`; the examples instantiate the regenerated `BuiltinsMap`.
-/
set_option linter.unusedVariables false
namespace UgoVerif.Props.C13
open UgoVerif UgoVerif.Go UgoVerif.Model.Sym UgoVerif.Proofs.Sym UgoVerif.Gen.SymFacts

/-! ## Regenerated structural facts (a code edit that removes one of these features
    breaks the corresponding `decide`) -/

/-- (a) the only `BuiltinsMap` lookup of `Resolve` sits in the statement guarded by
    `!ok && st.parent == nil && !st.isBuiltinDisabled(name)`, in this order -/
theorem fact_resolve_guard :
    resolveFallbackGuard = ["!ok", "st.parent == nil", "!st.isBuiltinDisabled(name)"] ∧
    resolveBuiltinLookups = 1 ∧ resolveBuiltinLookupsGuarded = resolveBuiltinLookups := by decide

/-- the helpers the guard relies on read the *root* scope's set -/
theorem fact_isBuiltinDisabled :
    isBuiltinDisabledBody = ["root := st.root()", "_, ok := root.disabledBuiltins[name]", "return ok"] ∧
    rootBody = ["if st.parent == nil { return st }", "return st.parent.root()"] ∧
    disabledBuiltinsMapBody = ["if st == nil { return nil }", "root := st.root()", "return root.disabledBuiltins"] := by
  decide

/-- BUILTIN symbols are created only by `Resolve` -/
theorem fact_builtin_scope_sites : builtinScopeSites = [("symbol_table.go", "SymbolTable.Resolve")] := by decide

/-- `DisableBuiltin` evicts a builtin symbol cached by an earlier `Resolve` -/
theorem fact_disable_evicts :
    disableBuiltinLoop = ["root.disabledBuiltins[n] = struct{}{}",
      "if s, ok := root.store[n]; ok && s.Scope == ScopeBuiltin { delete(root.store, n) }"] := by decide

/-- (b) `compileModule` hands the forked compiler a new table that received a copy of the
    disabled set of the compiler's table -/
theorem fact_compileModule_copies :
    compileModuleTableInit = ["symbolTable := NewSymbolTable()",
      "symbolTable.disabledBuiltins = copyMapStringSet(c.symbolTable.disabledBuiltinsMap())",
      "fork := c.fork(modFile, modulePath, moduleMap, symbolTable)"] ∧
    copyMapStringSetBody = ["if m == nil { return nil }", "n := make(map[string]struct{}, len(m))",
      "for k, v := range m { n[k] = v }", "return n"] := by decide

/-- (c) the optimizer's evaluator builds its table (new or reset), copies the disabled and
    shadowed names, and only then compiles with that table -/
theorem fact_evaluator_copies :
    resetCompilerPrefix = ["if ev.symtab == nil { ev.symtab = NewSymbolTable() } else { ev.symtab.reset() }",
      "ev.symtab.EnableParams(false)", "optimCopyBuiltinStates(ev.symtab, so.compSymTab)",
      "optimCopyBuiltinStatesFromScope(ev.symtab, so.scope)"] ∧
    resetCompilerSymtabField = "ev.symtab" ∧ "ev.resetCompiler(so)" ∈ evalBeforeCompile := by decide

/-- every place that creates a symbol table is one the model covers -/
theorem fact_newSymbolTable_sites :
    newSymbolTableSites = [("compiler.go", "newCompiler"), ("compiler.go", "Compiler.compileModule"),
      ("eval.go", "NewEval"), ("optimizer.go", "optimizerEval.resetCompiler"),
      ("symbol_table.go", "SymbolTable.Fork")] := by decide

/-- (d) GETBUILTIN is emitted at exactly two places: `compileIdent` with the index of the
    symbol `Resolve` returned in scope BUILTIN, and destructuring with the private `:makeArray` -/
theorem fact_getbuiltin_sites :
    getBuiltinEmitSites = [("compiler_nodes.go", "Compiler.compileAssignStmt", "int(BuiltinMakeArray)"),
      ("compiler_nodes.go", "Compiler.compileIdent", "symbol.Index")] ∧
    compileIdentFirstStmt = "symbol, ok := c.symbolTable.Resolve(node.Name)" ∧
    compileIdentSwitchTag = "symbol.Scope" ∧
    compileIdentBuiltinCase = ["c.emit(node, OpGetBuiltin, symbol.Index)"] ∧
    opGetBuiltinUses = [("compiler.go", "MakeInstruction", "1"), ("opcodes.go", "(package)", "3"),
      ("optimizer.go", "canOptimizeInsts", "2"), ("vm.go", "VM.loop", "1")] := by decide

/-- distinct builtin names have distinct indices in the regenerated `BuiltinsMap`, and
    `:makeArray` (not a lexable identifier) is the builtin destructuring uses -/
theorem fact_builtins_distinct :
    (builtinsMap.map (·.2)).Nodup ∧ (builtinsMap.map (·.1)).Nodup ∧
    mapGet builtinsMap [58, 109, 97, 107, 101, 65, 114, 114, 97, 121] = some builtinMakeArray := by decide

/-! ## Theorems about the model -/

/-- `Resolve` never answers with a BUILTIN symbol for a disabled name — on chains satisfying the invariant -/
theorem resolve_disabled_chain (B : Builtins) (ch ch' : Chain) (n : Name) (s : Symbol)
    (hok : ChainOK B ch) (hd : n ∈ rootDisabled ch) (hr : resolve B ch n = .ok (ch', some s)) :
    s.scope ≠ .builtin := by
  intro hb
  exact ((resolve_rel B n ch ch' (some s) hok hr).2 s rfl hb).1 hd

/-- **resolve_disabled.**  For every table reachable by *any* sequence of API calls (NewSymbolTable,
    Fork, Parent, Define*, SetParams, Resolve, DisableBuiltin in any order and on any table,
    module-table and evaluator-table construction) from the empty heap: if `n` is in the disabled
    set of the table's root, `Resolve` does not return a BUILTIN symbol for `n`. -/
theorem resolve_disabled (B : Builtins) (ops : List Op) (id : Nat) (n : Name) (ch' : Chain) (s : Symbol)
    (hd : n ∈ rootDisabled (tabsOf (run B [] ops) (some id)))
    (hr : resolve B (tabsOf (run B [] ops) (some id)) n = .ok (ch', some s)) : s.scope ≠ .builtin :=
  resolve_disabled_chain B _ ch' n s (chainOf_ok B _ id (run_ok B ops [] trivial)) hd hr

def nLen : Name := [108, 101, 110]

/-- non-vacuity: `len` disabled on a root, a function scope forked: the name is in the governing
    set and `Resolve` answers "unresolved" -/
example :
    let H := run builtinsMap [] [.newTable, .disable (some 0) [nLen], .fork (some 0) false]
    nLen ∈ rootDisabled (tabsOf H (some 1)) ∧
    (resolve builtinsMap (tabsOf H (some 1)) nLen).isOk = true := by decide

/-- without disabling, the same table resolves `len` to the builtin (so the theorem is not vacuous
    because builtins never resolve) -/
example : ∃ ch', resolve builtinsMap (tabsOf (run builtinsMap [] [.newTable, .fork (some 0) false]) (some 1)) nLen
    = .ok (ch', some { name := nLen, index := 5, scope := .builtin }) := ⟨_, rfl⟩

/-- a reference to a disabled name that no enclosing scope declares is unresolved (compile error) -/
theorem resolve_disabled_undeclared (B : Builtins) (n : Name) : ∀ (ch : Chain), ch ≠ [] →
    n ∈ rootDisabled ch → (∀ t, t ∈ ch → mapGet t.store n = none) →
    ∃ ch', resolve B ch n = .ok (ch', none)
  | [], h, _, _ => absurd rfl h
  | [st], _, hd, hs => by
    have h1 : mapGet st.store n = none := hs st (by simp)
    have h2 : memDisabled st n = true := (memDisabled_iff st n).2 (by simpa [rootDisabled, rootTab] using hd)
    exact ⟨[st], by simp [resolve, h1, h2]⟩
  | st :: p :: pps, _, hd, hs => by
    have h1 : mapGet st.store n = none := hs st (by simp)
    obtain ⟨ps', hr⟩ := resolve_disabled_undeclared B n (p :: pps) (by simp)
      (by simpa [rootDisabled, rootTab] using hd) (fun t ht => hs t (by simp [ht]))
    exact ⟨st :: ps', by simp [resolve, h1, hr]⟩

example : ∃ ch', resolve builtinsMap [forkTab newTab true, { newTab with disabledBuiltins := some [nLen] }] nLen
    = .ok (ch', none) :=
  resolve_disabled_undeclared builtinsMap nLen _ (by simp) (by decide) (by decide)

/-- **fork_keeps_disabled** (scopes): the table `Fork` returns is governed by the same root set -/
theorem fork_keeps_disabled (B : Builtins) (H : Heap) (id : Nat) (block : Bool) (hid : id < H.length) :
    rootDisabled (tabsOf (step B H (.fork (some id) block)).1 (some H.length)) =
    rootDisabled (tabsOf H (some id)) := by
  have hne : chainOf H id ≠ [] := by
    intro he; rw [chainOf_eq_nil_iff] at he; omega
  cases hc : chainOf H id with
  | nil => exact absurd hc hne
  | cons a r =>
    simp only [step, tabsOf, hc, List.map_cons, alloc]
    rw [chainOf_alloc_new]
    simp [hc, rootDisabled, rootTab]

example : (1 : Nat) < (run builtinsMap [] [.newTable, .disable (some 0) [nLen], .fork (some 0) false]).length := by
  decide

/-- **fork_keeps_disabled** (modules): the table `compileModule` creates has exactly the disabled
    set of the importing compiler's table -/
theorem module_table_keeps_disabled (ch : Chain) (t : Tab) (h : newModuleTab ch = .ok t) :
    t.store = [] ∧ ∀ n, n ∈ disabledSet t ↔ n ∈ rootDisabled ch := newModuleTab_spec ch t h

example : ∃ t, newModuleTab [forkTab newTab false, { newTab with disabledBuiltins := some [nLen] }] = .ok t ∧
    nLen ∈ disabledSet t := ⟨_, rfl, by decide⟩

/-- **evaluator_table_disabled.**  The table the optimizer's evaluator compiles an expression with
    (created or reset by `resetCompiler`) is empty and disables every name that is disabled in the
    compiler's table, shadowed in any scope of the compiler's table, or shadowed in the optimizer's
    scope chain at the call site. -/
theorem evaluator_table_disabled (B : Builtins) (ev : Option Tab) (comp : Chain) (scopes : List (List Name))
    (t : Tab) (h : evalResetTab ev comp scopes = .ok t) :
    t.store = [] ∧ (∀ n, n ∈ rootDisabled comp → n ∈ disabledSet t) ∧
    (∀ n, n ∈ shadowedAlong comp → n ∈ disabledSet t) ∧
    (∀ sc, sc ∈ scopes → ∀ n, n ∈ sc → n ∈ disabledSet t) := evalResetTab_spec B ev comp scopes t h

/-- hence the evaluator cannot resolve any of those names -/
theorem evaluator_cannot_resolve (B : Builtins) (ev : Option Tab) (comp : Chain) (scopes : List (List Name))
    (t : Tab) (h : evalResetTab ev comp scopes = .ok t) (n : Name)
    (hn : n ∈ rootDisabled comp ∨ n ∈ shadowedAlong comp ∨ ∃ sc, sc ∈ scopes ∧ n ∈ sc) :
    resolve B [t] n = .ok ([t], none) := by
  obtain ⟨h1, h2, h3, h4⟩ := evalResetTab_spec B ev comp scopes t h
  have hd : memDisabled t n = true := (memDisabled_iff t n).2 (by
    rcases hn with hn | hn | ⟨sc, hsc, hn⟩
    · exact h2 n hn
    · exact h3 n hn
    · exact h4 sc hsc n hn)
  simp [resolve, h1, mapGet, hd]

example : ∃ t, evalResetTab (some { newTab with store := [(nLen, { name := nLen, index := 5, scope := .builtin })] })
      [{ newTab with shadowedBuiltins := [[105, 110, 116]], disabledBuiltins := some [nLen] }] [[[99, 97, 112]]] = .ok t ∧
    disabledSet t = [nLen, [105, 110, 116], [99, 97, 112]] := ⟨_, rfl, by decide⟩

/-- **shadow_then_resolve.**  After the script declares the (disabled) name, `Resolve` in that scope
    answers with the script's own symbol, never a builtin. -/
theorem shadow_then_resolve (B : Builtins) (ch ch1 : Chain) (n : Name) (s : Symbol) (e : Bool)
    (hok : ChainOK B ch) (hd : n ∈ rootDisabled ch) (h : defineLocal B ch n = .ok (ch1, s, e)) :
    resolve B ch1 n = .ok (ch1, some s) ∧ s.scope ≠ .builtin := by
  have hrel : ChainRel B ch ch1 := by
    rcases defineLocal_rel B ch n ch1 s e h with h' | h'
    · exact h'.1
    · exact h'.1
  have hres : resolve B ch1 n = .ok (ch1, some s) := by
    cases ch with
    | nil => simp [defineLocal, nilDeref] at h
    | cons st ps =>
      unfold defineLocal at h
      cases hg : mapGet st.store n with
      | some sym =>
        simp only [hg] at h
        split at h
        · obtain ⟨_, _, st2, ps2, hc, hm⟩ := defineNewLocal_spec B st ps n ch1 s e h
          subst hc
          exact resolve_hit B _ _ _ _ hm
        · simp only [Res.ok.injEq, Prod.mk.injEq] at h
          obtain ⟨h1, h2, _⟩ := h
          subst h1 h2
          exact resolve_hit B _ _ _ _ hg
      | none =>
        simp only [hg] at h
        obtain ⟨_, _, st2, ps2, hc, hm⟩ := defineNewLocal_spec B st ps n ch1 s e h
        subst hc
        exact resolve_hit B _ _ _ _ hm
  exact ⟨hres, resolve_disabled_chain B ch1 ch1 n s (hrel.ok hok) (hrel.rootDisabled n hd) hres⟩

example : ∃ ch1 s e, defineLocal builtinsMap [{ newTab with disabledBuiltins := some [nLen] }] nLen = .ok (ch1, s, e) ∧
    s.scope = .local := ⟨_, _, _, rfl, rfl⟩

/-- a declaration in *any* enclosing scope makes the name resolve to a non-builtin symbol (the
    script's symbol or the free-variable copy of it), in nested functions and blocks -/
theorem shadow_then_resolve_nested (B : Builtins) (n : Name) : ∀ (ch : Chain), ChainOK B ch →
    n ∈ rootDisabled ch → (∃ t, t ∈ ch ∧ (mapGet t.store n).isSome = true) →
    ∃ ch' s, resolve B ch n = .ok (ch', some s) ∧ s.scope ≠ .builtin := by
  intro ch hok hd hex
  have key : ∀ (ch : Chain), (∃ t, t ∈ ch ∧ (mapGet t.store n).isSome = true) →
      ∃ ch' s, resolve B ch n = .ok (ch', some s) := by
    intro ch
    induction ch with
    | nil => rintro ⟨t, ht, _⟩; cases ht
    | cons st ps ih =>
      rintro ⟨t, ht, hs⟩
      cases hg : mapGet st.store n with
      | some sym => exact ⟨_, sym, resolve_hit B _ _ _ _ hg⟩
      | none =>
        have htps : t ∈ ps := by
          simp only [List.mem_cons] at ht
          rcases ht with ht | ht
          · subst ht; simp [hg] at hs
          · exact ht
        obtain ⟨ps', s, hr⟩ := ih ⟨t, htps, hs⟩
        cases ps with
        | nil => cases htps
        | cons p pps =>
          unfold resolve
          simp only [hg, hr]
          split
          · exact ⟨_, _, rfl⟩
          · exact ⟨_, _, rfl⟩
  obtain ⟨ch', s, hr⟩ := key ch hex
  exact ⟨ch', s, hr, resolve_disabled_chain B ch ch' n s hok hd hr⟩

/-- **Persistence across Eval fragments.**  An Eval session threads one symbol table through its
    compile calls; a fragment is any sequence of calls (none of which is the optimizer resetting
    *that* table, which it never owns).  A name disabled before the first fragment stays disabled
    for the table after all fragments, and `Resolve` never answers with the builtin. -/
theorem eval_fragments_persist (B : Builtins) (ops0 : List Op) (fragments : List (List Op)) (id : Nat) (n : Name)
    (hid : id < (run B [] ops0).length)
    (hd : n ∈ rootDisabled (tabsOf (run B [] ops0) (some id)))
    (hnr : ∀ f, f ∈ fragments → ∀ op, op ∈ f → NoReset op) :
    let H := run B (run B [] ops0) fragments.flatten
    n ∈ rootDisabled (tabsOf H (some id)) ∧
    ∀ ch' s, resolve B (tabsOf H (some id)) n = .ok (ch', some s) → s.scope ≠ .builtin := by
  intro H
  have h0 : HeapOK B (run B [] ops0) := run_ok B ops0 [] trivial
  have hm : Mono (run B [] ops0) H := run_mono B _ _ h0 (by
    intro op hop
    obtain ⟨f, hf, hof⟩ := List.mem_flatten.1 hop
    exact hnr f hf op hof)
  have hd' : n ∈ rootDisabled (tabsOf H (some id)) := hm.2 id hid n hd
  exact ⟨hd', fun ch' s hr => resolve_disabled_chain B _ ch' n s (chainOf_ok B _ id (run_ok B _ _ h0)) hd' hr⟩

example :
    let H0 := run builtinsMap [] [.newTable, .disable (some 0) [nLen]]
    0 < H0.length ∧ nLen ∈ rootDisabled (tabsOf H0 (some 0)) := by decide

/-! ## The compiled Bytecode -/

theorem BInj_of_nodup (B : Builtins) (h : (B.map (·.2)).Nodup) : BInj B := by
  have mem : ∀ (B : Builtins) a i, mapGet B a = some i → (a, i) ∈ B := by
    intro B
    induction B with
    | nil => intro a i h; simp [mapGet] at h
    | cons p r ih =>
      intro a i h
      obtain ⟨k, v⟩ := p
      unfold mapGet at h
      split at h
      · rename_i hk; simp only [Option.some.injEq] at h; subst h hk; simp
      · exact List.mem_cons_of_mem _ (ih a i h)
  have uniq : ∀ (B : Builtins), (B.map (·.2)).Nodup → ∀ a b i, (a, i) ∈ B → (b, i) ∈ B → a = b := by
    intro B
    induction B with
    | nil => intro _ a b i h; cases h
    | cons p r ih =>
      intro hn a b i ha hb
      simp only [List.map_cons, List.nodup_cons, List.mem_map, not_exists, not_and] at hn
      simp only [List.mem_cons] at ha hb
      rcases ha with ha | ha <;> rcases hb with hb | hb
      · rw [← hb] at ha; exact (Prod.mk.inj ha).1
      · subst ha; exact absurd rfl (hn.1 (b, i) hb)
      · subst hb; exact absurd rfl (hn.1 (a, i) ha)
      · exact ih hn.2 a b i ha hb
  intro a b i ha hb
  exact uniq B h a b i (mem B a i ha) (mem B b i hb)

theorem builtinsMap_injective : BInj builtinsMap := BInj_of_nodup _ fact_builtins_distinct.1

theorem crun_inv (B : Builtins) (mk : Nat) (D : List Name) (hinj : BInj B) : ∀ (evs : List CEvent) (s : CState),
    CInv B mk D s → AllLegal B mk s evs → CInv B mk D (crun B mk s evs)
  | [], _, h, _ => h
  | e :: es, s, h, hl => crun_inv B mk D hinj es _ (cstep_inv B mk D hinj s e h hl.1) hl.2

/-- an abstract compiler: on success, the operands of all GETBUILTIN instructions of all compiled
    functions of the Bytecode (main script, nested functions, imported source modules), given the
    symbol table state (a reachable heap and the handle of the table handed to the compiler) -/
structure CompilerSem (Prog : Type) where
  compile : Heap → Nat → Prog → Res (List Int)

/-- **Full statement (no_getbuiltin).**  If every name of `D` is disabled in the table handed to the
    compiler, the produced Bytecode contains no GETBUILTIN whose operand is the index of a name in
    `D` (the private `:makeArray`, index `mk`, excepted). -/
def C13_full (B : Builtins) (mk : Nat) {Prog : Type} (C : CompilerSem Prog) : Prop :=
  ∀ (ops0 : List Op) (id : Nat) (D : List Name) (p : Prog) (out : List Int),
    id < (run B [] ops0).length → Covered D (run B [] ops0) id →
    C.compile (run B [] ops0) id p = .ok out →
    ∀ i, i ∈ out → GoodOperand B mk D i

/-- What is assumed about the compiler (not modelled here; `Model/Compile` of DESIGN.md §5):
    a successful compilation is a finite trace of (1) calls of the symbol-table API on tables of
    its own family — the handed table, scopes forked from family tables, module tables built by
    `compileModule` from a family table, evaluator tables built by `resetCompiler` from a family
    table (a reused evaluator table is represented by a fresh one, which `evaluator_table_disabled`
    justifies: the reset table is empty and receives the same names) —, (2) `compileIdent` on a
    family table, (3) the destructuring emission; and its GETBUILTIN operands are exactly those the
    trace emits.  The regenerated facts `fact_getbuiltin_sites`, `fact_newSymbolTable_sites`,
    `fact_builtin_scope_sites`, `fact_compileModule_copies`, `fact_evaluator_copies` pin the code
    features this description relies on. -/
def CompilerDiscipline (B : Builtins) (mk : Nat) {Prog : Type} (C : CompilerSem Prog) : Prop :=
  ∀ (H : Heap) (id : Nat) (p : Prog) (out : List Int), C.compile H id p = .ok out →
    ∃ evs, AllLegal B mk { heap := H, fam := [id], out := [] } evs ∧
      (crun B mk { heap := H, fam := [id], out := [] } evs).out = out

/-- **no_getbuiltin_partial.**  The reduction: every GETBUILTIN emission goes through `Resolve`
    returning a BUILTIN-scope symbol (or is the fixed `:makeArray`), and `Resolve` on every table
    of the compilation's family is governed by a root set that contains `D`
    (`fork_keeps_disabled`, `module_table_keeps_disabled`, `evaluator_table_disabled`,
    monotonicity), so by `resolve_disabled` no operand names a member of `D`. -/
theorem no_getbuiltin_partial (B : Builtins) (mk : Nat) {Prog : Type} (C : CompilerSem Prog)
    (hinj : BInj B) (hdisc : CompilerDiscipline B mk C) : C13_full B mk C := by
  intro ops0 id D p out hid hcov hc i hi
  obtain ⟨evs, hl, hout⟩ := hdisc _ id p out hc
  have inv0 : CInv B mk D { heap := run B [] ops0, fam := [id], out := [] } :=
    ⟨run_ok B ops0 [] trivial, by
      intro j hj; simp only [List.mem_singleton] at hj; subst hj; exact ⟨hid, hcov⟩,
     by intro i hi; cases hi⟩
  have := (crun_inv B mk D hinj evs _ inv0 hl).out i (by rw [hout]; exact hi)
  exact this

/-- non-vacuity of the trace model: `len` disabled; the main script forks a function scope, declares
    `x`, compiles the identifiers `x` (local) and `int` (builtin 11) and a destructuring: the trace is
    legal and emits GETBUILTIN 11 and GETBUILTIN :makeArray; compiling `len` emits nothing. -/
example :
    let s0 : CState := { heap := run builtinsMap [] [.newTable, .disable (some 0) [nLen]], fam := [0], out := [] }
    let evs : List CEvent := [.api (.fork (some 0) false), .api (.defineLocal (some 1) [120]),
      .ident (some 1) [120], .ident (some 1) [105, 110, 116], .destructure, .ident (some 1) nLen]
    (crun builtinsMap builtinMakeArray s0 evs).out = [11, 47] := by decide

end UgoVerif.Props.C13
