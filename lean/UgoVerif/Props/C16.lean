import UgoVerif.Proofs.PosLines
/-
  C16 — runtime errors report the true source locations.

  Theorems about the hand model of parser/source_file.go, bytecode.go
  `SourcePos` and the trace bookkeeping of objects.go / vm.go
  (`Model/SourceFile.lean`, `Model/Trace.lean`; tied to the code by stream `pos`).
  Every statement quantifies over all tables, offsets, file sets, source maps,
  frame lists and texts.  The VM/compiler side (that the saved ip of a frame lies
  in the call's own statement) is the explicit hypothesis `SavedIpInCallStmt`;
  the full statement is `C16_full`, the proved part `C16_partial`.
-/
namespace UgoVerif.Props.C16
open UgoVerif UgoVerif.Go UgoVerif.Model UgoVerif.Proofs.Pos

/-! ### 1. Position: the binary search is correct -/

/-- For a well-formed line table and every offset ≥ 0 (in particular every offset
    `< size`), `position` reports the file's name, the offset, and the **unique**
    line `L+1` with `lineStart (L+1) ≤ offset < lineStart (L+2)` (no upper bound
    for the last line), with column `offset − lineStart + 1`.  No panic. -/
theorem position_spec (f : SrcFile) (hwf : WFLines f.lines f.size) (p : Pos) (h0 : f.base ≤ p) :
    ∃ (L : Nat) (start : Int),
      position f p = .ok { filename := f.name, offset := p - f.base, line := (L : Int) + 1,
                           column := (p - f.base) - start + 1 } ∧
      f.lines[L]? = some start ∧ start ≤ p - f.base ∧
      (∀ nxt, f.lines[L+1]? = some nxt → p - f.base < nxt) ∧
      (∀ (L' : Nat) (s' : Int), f.lines[L']? = some s' → s' ≤ p - f.base →
        (∀ nxt, f.lines[L'+1]? = some nxt → p - f.base < nxt) → L' = L) := by
  obtain ⟨L, start, h1, h2, h3, h4, h5⟩ := unpack_spec f hwf (p - f.base) (by omega)
  exact ⟨L, start, by simp [position, h1, bind, Res.bind], h2, h3, h4, h5⟩

example : WFLines [0, 4, 9] 12 :=
  ⟨rfl, by decide, by decide⟩
example : position { name := "a", base := 1, size := 12, lines := [0, 4, 9] } 6
    = .ok { filename := "a", offset := 5, line := 2, column := 2 } := by decide

/-- `lineStart` agrees with the table: the line reported by `position` starts at
    `base + start`. -/
theorem lineStart_spec (f : SrcFile) (L : Nat) (start : Int) (h : f.lines[L]? = some start) :
    lineStart f ((L : Int) + 1) = .ok (f.base + start) := by
  have hl : L < f.lines.length := (List.getElem?_eq_some_iff.mp h).1
  have e : ((L : Int) + 1 - 1).toNat = L := by omega
  have h1 : ¬ ((L : Int) + 1 < 1) := by omega
  have h2 : ¬ ((L : Int) + 1 > (f.lines.length : Int)) := by omega
  simp [lineStart, h1, h2, e, h]

/-! ### 2. every reported position lies inside the file it names -/

/-- In a well-formed file set (files at increasing bases, disjoint ranges) with
    well-formed line tables, `SourceFileSet.Position p` never panics; when some file's
    range `[base, base+size]` contains `p` the answer names **that** file (it is
    unique, `file_unique`), the offset is `p − base ∈ [0, size]` and the line is ≥ 1;
    otherwise the answer is the zero position.  Holds for every state of the
    `LastFile` cache. -/
theorem position_in_file (s : FileSet) (h : WFSet s)
    (hl : ∀ f ∈ s.files, WFLines f.lines f.size) (p : Pos) (hp : p ≠ NoPos) :
    ∃ fp s', fsPosition s p = .ok (fp, s') ∧ s'.files = s.files ∧
      ((∃ (i : Nat) (f : SrcFile), s.files[i]? = some f ∧ f.base ≤ p ∧ p ≤ f.base + f.size ∧
          fp.filename = f.name ∧ fp.offset = p - f.base ∧ 0 ≤ fp.offset ∧ fp.offset ≤ f.size ∧
          1 ≤ fp.line) ∨
       ((∀ (i : Nat) (f : SrcFile), s.files[i]? = some f → ¬ (f.base ≤ p ∧ p ≤ f.base + f.size)) ∧
          fp = FilePos.zero)) := by
  obtain ⟨r, s', h1, h2, _, h4, h5⟩ := fileOf_spec s h p
  cases r with
  | none =>
    refine ⟨FilePos.zero, s', ?_, h2, Or.inr ⟨h5 rfl, rfl⟩⟩
    simp [fsPosition, hp, h1, bind, Res.bind]
  | some i =>
    obtain ⟨f, hf, hb1, hb2⟩ := h4 i rfl
    have hmem : f ∈ s.files := List.mem_of_getElem? hf
    obtain ⟨L, start, hpos, _, _, _, _⟩ := position_spec f (hl f hmem) p hb1
    refine ⟨{ filename := f.name, offset := p - f.base, line := (L : Int) + 1,
              column := (p - f.base) - start + 1 }, s', ?_, h2,
            Or.inl ⟨i, f, hf, hb1, hb2, rfl, rfl, ?_, ?_, ?_⟩⟩
    · have hf' : s'.files[i]? = some f := by rw [h2]; exact hf
      simp [fsPosition, hp, h1, bind, Res.bind, hf', hpos]
    · simp; omega
    · simp; omega
    · simp; omega

/-- positions of different files never overlap -/
theorem file_unique (s : FileSet) (h : WFSet s) (p : Pos) (i j : Nat) (fi fj : SrcFile)
    (hi : s.files[i]? = some fi) (hj : s.files[j]? = some fj)
    (hpi : fi.base ≤ p ∧ p ≤ fi.base + fi.size) (hpj : fj.base ≤ p ∧ p ≤ fj.base + fj.size) :
    i = j :=
  Proofs.Pos.file_unique h p i j fi fj hi hj hpi hpj

/-- multi-file base arithmetic: `NewFileSet` is well-formed and `AddFile` keeps it so —
    the new file (main script, then every imported source module) starts at or after
    the set's `Base`, i.e. strictly after the EOF position of every earlier file. -/
theorem newFileSet_wf : WFSet newFileSet :=
  ⟨by simp [newFileSet], by simp [newFileSet], by simp [newFileSet]⟩

theorem addFile_wf (s : FileSet) (h : WFSet s) (name : String) (base size : Int)
    (s' : FileSet) (i : Nat) (hadd : addFile s name base size = .ok (s', i)) :
    WFSet s' ∧ i = s.files.length ∧
      ∃ f, s'.files = s.files ++ [f] ∧ f.name = name ∧ f.size = size ∧ f.lines = [0] ∧
        s.base ≤ f.base ∧ s'.base = f.base + f.size + 1 := by
  unfold addFile at hadd
  simp only [] at hadd
  generalize hbdef : (if base < 0 then s.base else base) = b at hadd
  by_cases hg : b < s.base ∨ size < 0
  · simp [hg] at hadd
  · by_cases hov : b + size + 1 > maxInt
    · simp [hg, hov] at hadd
    · simp [hg, hov] at hadd
      obtain ⟨hs', hi⟩ := hadd
      subst hs'
      have hb : s.base ≤ b ∧ 0 ≤ size := by omega
      refine ⟨⟨?_, ?_, ?_⟩, hi.symm, _, rfl, rfl, rfl, rfl, hb.1, rfl⟩
      · intro f hf
        rcases List.mem_append.mp hf with hf | hf
        · exact h.sizes f hf
        · simp at hf; subst hf; exact hb.2
      · rw [List.pairwise_append]
        refine ⟨h.disjoint, by simp, ?_⟩
        intro a ha b' hb'
        simp at hb'; subst hb'
        have := h.below a ha
        simp; omega
      · intro f hf
        rcases List.mem_append.mp hf with hf | hf
        · have := h.below f hf; simp; omega
        · simp at hf; subst hf; simp; omega

example : ∃ s' i, addFile newFileSet "(main)" (-1) 10 = .ok (s', i) := ⟨_, _, rfl⟩

/-! ### 3. line tables of texts; k prepended newlines -/

/-- The table the scanner builds for any text: exactly 0 and the offsets that follow a
    newline byte and are still inside the text; it is well-formed (first entry 0, strictly
    increasing, later entries inside the text), so `position_spec` applies to every
    scanned file. -/
theorem lines_spec (text : List UInt8) :
    WFLines (scanLines text) text.length ∧
    (∀ v ∈ scanLines text, 0 ≤ v ∧ v ≤ (text.length : Int)) ∧
    (∀ v : Int, v ∈ scanLines text ↔
      v = 0 ∨ ∃ j : Nat, text[j]? = some 10 ∧ v = (j : Int) + 1 ∧ v < (text.length : Int)) :=
  ⟨scanLines_wf text, scanLines_range text, scanLines_mem text⟩

/-- the scanned file of a text -/
def fileOfText (name : String) (base : Int) (text : List UInt8) : SrcFile :=
  { name := name, base := base, size := text.length, lines := scanLines text }

/-- **Prepending k blank lines moves every position down by exactly k lines, same
    column**: for every non-empty text, every k, and every offset ≥ 0 of the original
    text (the same byte sits at `offset + k` in the new text). -/
theorem shift_lines (name : String) (base : Int) (text : List UInt8) (hne : text ≠ []) (k : Nat)
    (offset : Int) (h0 : 0 ≤ offset) (line col : Int)
    (h : unpack (fileOfText name base text) offset = .ok (line, col)) :
    unpack (fileOfText name base (List.replicate k 10 ++ text)) (offset + k) = .ok (line + k, col) := by
  have hwf := scanLines_wf text
  have hwf' := scanLines_wf (List.replicate k 10 ++ text)
  obtain ⟨L, start, h1, h2, h3, h4, _⟩ :=
    unpack_spec (fileOfText name base text) (by simpa [fileOfText] using hwf) offset h0
  obtain ⟨L', start', h1', h2', _, _, h5'⟩ :=
    unpack_spec (fileOfText name base (List.replicate k 10 ++ text))
      (by simpa [fileOfText] using hwf') (offset + k) (by omega)
  rw [h] at h1
  simp only [Res.ok.injEq, Prod.mk.injEq] at h1
  obtain ⟨hline, hcol⟩ := h1
  -- index k + L of the new table holds start + k
  have hpre : ((List.range k).map Int.ofNat).length = k := by simp
  have hidx : ∀ (n : Nat) (v : Int), (scanLines text)[n]? = some v →
      (scanLines (List.replicate k 10 ++ text))[k + n]? = some (v + k) := by
    intro n v hv
    rw [scanLines_prepend text hne k, List.getElem?_append_right (by omega), hpre]
    simp [hv]
  have hidx' : ∀ (n : Nat) (v : Int), (scanLines (List.replicate k 10 ++ text))[k + n]? = some v →
      ∃ w, (scanLines text)[n]? = some w ∧ v = w + k := by
    intro n v hv
    rw [scanLines_prepend text hne k, List.getElem?_append_right (by omega), hpre] at hv
    simp at hv
    obtain ⟨w, hw, hwv⟩ := hv
    exact ⟨w, hw, hwv.symm⟩
  simp only [fileOfText] at h2 h4 h2' h5'
  have huniq : k + L = L' := by
    apply h5' (k + L) (start + k) (hidx L start h2) (by omega)
    intro nxt hn
    obtain ⟨w, hw, hwv⟩ := hidx' (L + 1) nxt (by simpa [Nat.add_assoc] using hn)
    have := h4 w hw
    omega
  subst huniq
  have hst : start' = start + k := by
    have := hidx L start h2
    rw [this] at h2'
    cases h2'; rfl
  rw [h1']
  subst hst
  simp only [Res.ok.injEq, Prod.mk.injEq]
  constructor <;> omega

/-- the table itself: `[0, 1, …, k−1]` followed by the original table shifted by k -/
theorem shift_table (text : List UInt8) (hne : text ≠ []) (k : Nat) :
    scanLines (List.replicate k 10 ++ text)
      = (List.range k).map Int.ofNat ++ (scanLines text).map (· + (k : Int)) :=
  scanLines_prepend text hne k

example : scanLines [97, 10, 98, 10, 10, 99] = [0, 2, 4, 5] := by decide
example : unpack (fileOfText "t" 1 [97, 10, 98]) 2 = .ok (2, 1) := by decide

/-! ### 4. SourcePos: nearest key at or below ip -/

/-- `SourcePos ip` is the position attached to the greatest key `k ≤ ip` (`0 ≤ k`) of
    the source map, and `NoPos` when there is none (or `ip < 0`). -/
theorem sourcepos_nearest (sm : SourceMap) (ip : Int) :
    (∀ (k : Nat) (v : Int), (k : Int) ≤ ip → smLookup sm (k : Int) = some v →
        (∀ k' : Nat, k < k' → (k' : Int) ≤ ip → smLookup sm (k' : Int) = none) → sourcePos sm ip = v) ∧
    ((∀ k : Nat, (k : Int) ≤ ip → smLookup sm (k : Int) = none) → sourcePos sm ip = NoPos) := by
  by_cases hneg : ip < 0
  · constructor
    · intro k v hk; omega
    · intro _; simp [sourcePos]; omega
  · have hip : ip ≥ 0 := by omega
    obtain ⟨h1, h2⟩ := sourcePosN_spec sm ip.toNat
    constructor
    · intro k v hk hv hgap
      have := h1 k v (by omega) hv (fun k' a b => hgap k' a (by omega))
      simp [sourcePos, hip, this]
    · intro hnone
      have := h2 (fun k hk => hnone k (by omega))
      simp [sourcePos, hip, this]

example : sourcePos [(0, 5), (3, 9), (7, 2)] 6 = 9 := by decide
example : sourcePos [(3, 9)] 2 = NoPos := by decide

/-! ### 5. shape of the trace -/

/-- `addTrace` never drops or reorders earlier entries, and the new last entry is `pos` -/
theorem addTrace_spec (tr : List Pos) (pos : Pos) :
    (addTrace tr pos = tr ∨ addTrace tr pos = tr ++ [pos]) ∧ (addTrace tr pos).getLast? = some pos := by
  unfold addTrace
  cases h : tr.getLast? with
  | none => simp
  | some l =>
    by_cases hc : l = pos
    · subst hc; simp [h]
    · simp [hc]

/-- For an uncaught error raised at `(curFn, curIp)` with the active caller frames
    `callers` (innermost first; none of them has a handler), `StackTrace` lists the
    callers' saved positions **outermost first** — one entry per active frame — and
    the position of the failing instruction **last**. -/
theorem trace_shape (curFn : Option SourceMap) (curIp : Int) (callers : List TFrame)
    (h : ∀ f ∈ callers, f.hasHandler = false) :
    (stackTraceRaw (throwTrace false curFn curIp callers []).1).map (·.offset)
      = callers.reverse.map getFrameSourcePos ++ [getSourcePos curFn curIp] := by
  simp [throwTrace, addTrace, unwind_uncaught _ callers h, stackTraceRaw, List.map_reverse]

example : (stackTraceRaw (throwTrace false (some [(0, 30)]) 0
      [⟨some [(0, 20)], 4, false⟩, ⟨some [(0, 10)], 2, false⟩] []).1).map (·.offset) = [10, 20, 30] := by
  decide

/-- With a file set the entries are the `Position`s of the same list, in the same order. -/
theorem stackTrace_order (s : FileSet) (tr : List Pos) :
    stackTrace s tr = stackTraceFrom s tr.reverse := rfl

/-! ### 6. the full statement and the proved part -/

/-- One throw site as the VM presents it to `throw`, together with what the source
    says: `stmtPos` is the position of the failing statement's instruction,
    `callPos` the positions of the call statements of the active callers (innermost
    first). -/
structure ThrowSite where
  curFn   : Option SourceMap
  curIp   : Int
  callers : List TFrame
  stmtPos : Pos
  callPos : List Pos

/-- The VM/compiler side of C16: the current ip maps to the failing statement, and
    the saved `ip + 1` of every active frame maps into that frame's call statement.
    (Needs the coordinator's `Model/VM` + `Model/Compile`: `emit` records `node.Pos()`
    per instruction, `xOpCallCompiled` saves `ip + 2`.) -/
def SavedIpInCallStmt (t : ThrowSite) : Prop :=
  getSourcePos t.curFn t.curIp = t.stmtPos ∧ t.callers.map getFrameSourcePos = t.callPos ∧
  ∀ f ∈ t.callers, f.hasHandler = false

/-- what C16 asks of the reported trace at one throw site -/
def TraceTrue (t : ThrowSite) : Prop :=
  (stackTraceRaw (throwTrace false t.curFn t.curIp t.callers []).1).map (·.offset)
    = t.callPos.reverse ++ [t.stmtPos]

/-- **Full statement** (kept visible): at every throw site the VM can reach on compiled
    bytecode (`Reach`, to be instantiated by the VM/compiler model) the reported trace
    is: call statements of the active frames outermost first, failing statement last. -/
def C16_full (Reach : ThrowSite → Prop) : Prop := ∀ t, Reach t → TraceTrue t

/-- **Proved part**: C16 holds at every reachable throw site provided reachable sites
    satisfy the VM/compiler hypothesis `SavedIpInCallStmt`. -/
theorem C16_partial (Reach : ThrowSite → Prop) (hvm : ∀ t, Reach t → SavedIpInCallStmt t) :
    C16_full Reach := by
  intro t ht
  obtain ⟨h1, h2, h3⟩ := hvm t ht
  unfold TraceTrue
  rw [trace_shape t.curFn t.curIp t.callers h3, h1, ← h2, List.map_reverse]

example : SavedIpInCallStmt
    { curFn := some [(0, 30)], curIp := 0, callers := [⟨some [(0, 20)], 4, false⟩],
      stmtPos := 30, callPos := [20] } := by
  refine ⟨by decide, by decide, ?_⟩
  intro f hf; simp at hf; subst hf; rfl

end UgoVerif.Props.C16
