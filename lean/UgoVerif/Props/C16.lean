import UgoVerif.Proofs.PosLines
import UgoVerif.Proofs.C16Site
import UgoVerif.Proofs.ExecAtStartsLoad
import UgoVerif.Props.C05
/-
  C16 — runtime errors report the true source locations.

  Theorems about the hand model of parser/source_file.go, bytecode.go
  `SourcePos` and the trace bookkeeping of objects.go / vm.go
  (`Model/SourceFile.lean`, `Model/Trace.lean`; tied to the code by stream `pos`).
  Every statement quantifies over all tables, offsets, file sets, source maps,
  frame lists and texts.  The VM/compiler side (that the saved ip of a frame lies
  in the call's own statement) is the explicit hypothesis `SavedIpInCallStmt`;
  the full statement is `C16_full`, the proved part `C16_partial`.

  Round 3 (sections 7-9): `SavedIpInCallStmt` is discharged for the output of the total
  compile model (`Model/Compile.lean`, optimizer off, no imports) run by the VM model
  (`VM/*.lean`): `sourcemap_covers` (compile side: every instruction has its own source-map
  entry; the instruction after a CALL / CALLNAME exists and carries the label — the line — of the
  call), `saved_ip_is_call_site` (VM side: every frame below the current one is suspended at a
  CALL / CALLNAME of its own function, `frame.ip = p + 2`), `C16_compiled` (their combination).
  What remains a hypothesis is named `ExecAtStarts`: the VM dispatches opcodes only at
  instruction starts of compiled code.
-/
namespace UgoVerif.Props.C16
open UgoVerif UgoVerif.Go UgoVerif.Model UgoVerif.Proofs.Pos

/-! ### 1. Position: the binary search is correct -/

/-- For a well-formed line table and every offset ≥ 0 (in particular every offset
    `< size`), `position` reports the file's name, the offset, and the **unique**
    line `L+1` with `lineStart (L+1) ≤ offset < lineStart (L+2)` (no upper bound
    for the last line), with column `offset − lineStart + 1`.  No panic. -/
theorem position_spec (f : SrcFile) (hwf : WFLines f.lines f.size) (p : Pos) (h0 : f.base ≤ p) :
    ∃ (L : Nat) (start : Int),
      position f p = .ok { filename := f.name, offset := p - f.base, line := (L : Int) + 1,
                           column := (p - f.base) - start + 1 } ∧
      f.lines[L]? = some start ∧ start ≤ p - f.base ∧
      (∀ nxt, f.lines[L+1]? = some nxt → p - f.base < nxt) ∧
      (∀ (L' : Nat) (s' : Int), f.lines[L']? = some s' → s' ≤ p - f.base →
        (∀ nxt, f.lines[L'+1]? = some nxt → p - f.base < nxt) → L' = L) := by
  obtain ⟨L, start, h1, h2, h3, h4, h5⟩ := unpack_spec f hwf (p - f.base) (by omega)
  exact ⟨L, start, by simp [position, h1, bind, Res.bind], h2, h3, h4, h5⟩

example : WFLines [0, 4, 9] 12 :=
  ⟨rfl, by decide, by decide⟩
example : position { name := "a", base := 1, size := 12, lines := [0, 4, 9] } 6
    = .ok { filename := "a", offset := 5, line := 2, column := 2 } := by decide

/-- `lineStart` agrees with the table: the line reported by `position` starts at
    `base + start`. -/
theorem lineStart_spec (f : SrcFile) (L : Nat) (start : Int) (h : f.lines[L]? = some start) :
    lineStart f ((L : Int) + 1) = .ok (f.base + start) := by
  have hl : L < f.lines.length := (List.getElem?_eq_some_iff.mp h).1
  have e : ((L : Int) + 1 - 1).toNat = L := by omega
  have h1 : ¬ ((L : Int) + 1 < 1) := by omega
  have h2 : ¬ ((L : Int) + 1 > (f.lines.length : Int)) := by omega
  simp [lineStart, h1, h2, e, h]

/-! ### 2. every reported position lies inside the file it names -/

/-- In a well-formed file set (files at increasing bases, disjoint ranges) with
    well-formed line tables, `SourceFileSet.Position p` never panics; when some file's
    range `[base, base+size]` contains `p` the answer names **that** file (it is
    unique, `file_unique`), the offset is `p − base ∈ [0, size]` and the line is ≥ 1;
    otherwise the answer is the zero position.  Holds for every state of the
    `LastFile` cache. -/
theorem position_in_file (s : FileSet) (h : WFSet s)
    (hl : ∀ f ∈ s.files, WFLines f.lines f.size) (p : Pos) (hp : p ≠ NoPos) :
    ∃ fp s', fsPosition s p = .ok (fp, s') ∧ s'.files = s.files ∧
      ((∃ (i : Nat) (f : SrcFile), s.files[i]? = some f ∧ f.base ≤ p ∧ p ≤ f.base + f.size ∧
          fp.filename = f.name ∧ fp.offset = p - f.base ∧ 0 ≤ fp.offset ∧ fp.offset ≤ f.size ∧
          1 ≤ fp.line) ∨
       ((∀ (i : Nat) (f : SrcFile), s.files[i]? = some f → ¬ (f.base ≤ p ∧ p ≤ f.base + f.size)) ∧
          fp = FilePos.zero)) := by
  obtain ⟨r, s', h1, h2, _, h4, h5⟩ := fileOf_spec s h p
  cases r with
  | none =>
    refine ⟨FilePos.zero, s', ?_, h2, Or.inr ⟨h5 rfl, rfl⟩⟩
    simp [fsPosition, hp, h1, bind, Res.bind]
  | some i =>
    obtain ⟨f, hf, hb1, hb2⟩ := h4 i rfl
    have hmem : f ∈ s.files := List.mem_of_getElem? hf
    obtain ⟨L, start, hpos, _, _, _, _⟩ := position_spec f (hl f hmem) p hb1
    refine ⟨{ filename := f.name, offset := p - f.base, line := (L : Int) + 1,
              column := (p - f.base) - start + 1 }, s', ?_, h2,
            Or.inl ⟨i, f, hf, hb1, hb2, rfl, rfl, ?_, ?_, ?_⟩⟩
    · have hf' : s'.files[i]? = some f := by rw [h2]; exact hf
      simp [fsPosition, hp, h1, bind, Res.bind, hf', hpos]
    · simp; omega
    · simp; omega
    · simp; omega

/-- positions of different files never overlap -/
theorem file_unique (s : FileSet) (h : WFSet s) (p : Pos) (i j : Nat) (fi fj : SrcFile)
    (hi : s.files[i]? = some fi) (hj : s.files[j]? = some fj)
    (hpi : fi.base ≤ p ∧ p ≤ fi.base + fi.size) (hpj : fj.base ≤ p ∧ p ≤ fj.base + fj.size) :
    i = j :=
  Proofs.Pos.file_unique h p i j fi fj hi hj hpi hpj

/-- multi-file base arithmetic: `NewFileSet` is well-formed and `AddFile` keeps it so —
    the new file (main script, then every imported source module) starts at or after
    the set's `Base`, i.e. strictly after the EOF position of every earlier file. -/
theorem newFileSet_wf : WFSet newFileSet :=
  ⟨by simp [newFileSet], by simp [newFileSet], by simp [newFileSet]⟩

theorem addFile_wf (s : FileSet) (h : WFSet s) (name : String) (base size : Int)
    (s' : FileSet) (i : Nat) (hadd : addFile s name base size = .ok (s', i)) :
    WFSet s' ∧ i = s.files.length ∧
      ∃ f, s'.files = s.files ++ [f] ∧ f.name = name ∧ f.size = size ∧ f.lines = [0] ∧
        s.base ≤ f.base ∧ s'.base = f.base + f.size + 1 := by
  unfold addFile at hadd
  simp only [] at hadd
  generalize hbdef : (if base < 0 then s.base else base) = b at hadd
  by_cases hg : b < s.base ∨ size < 0
  · simp [hg] at hadd
  · by_cases hov : b + size + 1 > maxInt
    · simp [hg, hov] at hadd
    · simp [hg, hov] at hadd
      obtain ⟨hs', hi⟩ := hadd
      subst hs'
      have hb : s.base ≤ b ∧ 0 ≤ size := by omega
      refine ⟨⟨?_, ?_, ?_⟩, hi.symm, _, rfl, rfl, rfl, rfl, hb.1, rfl⟩
      · intro f hf
        rcases List.mem_append.mp hf with hf | hf
        · exact h.sizes f hf
        · simp at hf; subst hf; exact hb.2
      · rw [List.pairwise_append]
        refine ⟨h.disjoint, by simp, ?_⟩
        intro a ha b' hb'
        simp at hb'; subst hb'
        have := h.below a ha
        simp; omega
      · intro f hf
        rcases List.mem_append.mp hf with hf | hf
        · have := h.below f hf; simp; omega
        · simp at hf; subst hf; simp; omega

example : ∃ s' i, addFile newFileSet "(main)" (-1) 10 = .ok (s', i) := ⟨_, _, rfl⟩

/-! ### 3. line tables of texts; k prepended newlines -/

/-- The table the scanner builds for any text: exactly 0 and the offsets that follow a
    newline byte and are still inside the text; it is well-formed (first entry 0, strictly
    increasing, later entries inside the text), so `position_spec` applies to every
    scanned file. -/
theorem lines_spec (text : List UInt8) :
    WFLines (scanLines text) text.length ∧
    (∀ v ∈ scanLines text, 0 ≤ v ∧ v ≤ (text.length : Int)) ∧
    (∀ v : Int, v ∈ scanLines text ↔
      v = 0 ∨ ∃ j : Nat, text[j]? = some 10 ∧ v = (j : Int) + 1 ∧ v < (text.length : Int)) :=
  ⟨scanLines_wf text, scanLines_range text, scanLines_mem text⟩

/-- the scanned file of a text -/
def fileOfText (name : String) (base : Int) (text : List UInt8) : SrcFile :=
  { name := name, base := base, size := text.length, lines := scanLines text }

/-- **Prepending k blank lines moves every position down by exactly k lines, same
    column**: for every non-empty text, every k, and every offset ≥ 0 of the original
    text (the same byte sits at `offset + k` in the new text). -/
theorem shift_lines (name : String) (base : Int) (text : List UInt8) (hne : text ≠ []) (k : Nat)
    (offset : Int) (h0 : 0 ≤ offset) (line col : Int)
    (h : unpack (fileOfText name base text) offset = .ok (line, col)) :
    unpack (fileOfText name base (List.replicate k 10 ++ text)) (offset + k) = .ok (line + k, col) := by
  have hwf := scanLines_wf text
  have hwf' := scanLines_wf (List.replicate k 10 ++ text)
  obtain ⟨L, start, h1, h2, h3, h4, _⟩ :=
    unpack_spec (fileOfText name base text) (by simpa [fileOfText] using hwf) offset h0
  obtain ⟨L', start', h1', h2', _, _, h5'⟩ :=
    unpack_spec (fileOfText name base (List.replicate k 10 ++ text))
      (by simpa [fileOfText] using hwf') (offset + k) (by omega)
  rw [h] at h1
  simp only [Res.ok.injEq, Prod.mk.injEq] at h1
  obtain ⟨hline, hcol⟩ := h1
  -- index k + L of the new table holds start + k
  have hpre : ((List.range k).map Int.ofNat).length = k := by simp
  have hidx : ∀ (n : Nat) (v : Int), (scanLines text)[n]? = some v →
      (scanLines (List.replicate k 10 ++ text))[k + n]? = some (v + k) := by
    intro n v hv
    rw [scanLines_prepend text hne k, List.getElem?_append_right (by omega), hpre]
    simp [hv]
  have hidx' : ∀ (n : Nat) (v : Int), (scanLines (List.replicate k 10 ++ text))[k + n]? = some v →
      ∃ w, (scanLines text)[n]? = some w ∧ v = w + k := by
    intro n v hv
    rw [scanLines_prepend text hne k, List.getElem?_append_right (by omega), hpre] at hv
    simp at hv
    obtain ⟨w, hw, hwv⟩ := hv
    exact ⟨w, hw, hwv.symm⟩
  simp only [fileOfText] at h2 h4 h2' h5'
  have huniq : k + L = L' := by
    apply h5' (k + L) (start + k) (hidx L start h2) (by omega)
    intro nxt hn
    obtain ⟨w, hw, hwv⟩ := hidx' (L + 1) nxt (by simpa [Nat.add_assoc] using hn)
    have := h4 w hw
    omega
  subst huniq
  have hst : start' = start + k := by
    have := hidx L start h2
    rw [this] at h2'
    cases h2'; rfl
  rw [h1']
  subst hst
  simp only [Res.ok.injEq, Prod.mk.injEq]
  constructor <;> omega

/-- the table itself: `[0, 1, …, k−1]` followed by the original table shifted by k -/
theorem shift_table (text : List UInt8) (hne : text ≠ []) (k : Nat) :
    scanLines (List.replicate k 10 ++ text)
      = (List.range k).map Int.ofNat ++ (scanLines text).map (· + (k : Int)) :=
  scanLines_prepend text hne k

example : scanLines [97, 10, 98, 10, 10, 99] = [0, 2, 4, 5] := by decide
example : unpack (fileOfText "t" 1 [97, 10, 98]) 2 = .ok (2, 1) := by decide

/-! ### 4. SourcePos: nearest key at or below ip -/

/-- `SourcePos ip` is the position attached to the greatest key `k ≤ ip` (`0 ≤ k`) of
    the source map, and `NoPos` when there is none (or `ip < 0`). -/
theorem sourcepos_nearest (sm : SourceMap) (ip : Int) :
    (∀ (k : Nat) (v : Int), (k : Int) ≤ ip → smLookup sm (k : Int) = some v →
        (∀ k' : Nat, k < k' → (k' : Int) ≤ ip → smLookup sm (k' : Int) = none) → sourcePos sm ip = v) ∧
    ((∀ k : Nat, (k : Int) ≤ ip → smLookup sm (k : Int) = none) → sourcePos sm ip = NoPos) := by
  by_cases hneg : ip < 0
  · constructor
    · intro k v hk; omega
    · intro _; simp [sourcePos]; omega
  · have hip : ip ≥ 0 := by omega
    obtain ⟨h1, h2⟩ := sourcePosN_spec sm ip.toNat
    constructor
    · intro k v hk hv hgap
      have := h1 k v (by omega) hv (fun k' a b => hgap k' a (by omega))
      simp [sourcePos, hip, this]
    · intro hnone
      have := h2 (fun k hk => hnone k (by omega))
      simp [sourcePos, hip, this]

example : sourcePos [(0, 5), (3, 9), (7, 2)] 6 = 9 := by decide
example : sourcePos [(3, 9)] 2 = NoPos := by decide

/-! ### 5. shape of the trace -/

/-- `addTrace` never drops or reorders earlier entries, and the new last entry is `pos` -/
theorem addTrace_spec (tr : List Pos) (pos : Pos) :
    (addTrace tr pos = tr ∨ addTrace tr pos = tr ++ [pos]) ∧ (addTrace tr pos).getLast? = some pos := by
  unfold addTrace
  cases h : tr.getLast? with
  | none => simp
  | some l =>
    by_cases hc : l = pos
    · subst hc; simp [h]
    · simp [hc]

/-- For an uncaught error raised at `(curFn, curIp)` with the active caller frames
    `callers` (innermost first; none of them has a handler), `StackTrace` lists the
    callers' saved positions **outermost first** — one entry per active frame — and
    the position of the failing instruction **last**. -/
theorem trace_shape (curFn : Option SourceMap) (curIp : Int) (callers : List TFrame)
    (h : ∀ f ∈ callers, f.hasHandler = false) :
    (stackTraceRaw (throwTrace false curFn curIp callers []).1).map (·.offset)
      = callers.reverse.map getFrameSourcePos ++ [getSourcePos curFn curIp] := by
  simp [throwTrace, addTrace, unwind_uncaught _ callers h, stackTraceRaw, List.map_reverse]

example : (stackTraceRaw (throwTrace false (some [(0, 30)]) 0
      [⟨some [(0, 20)], 4, false⟩, ⟨some [(0, 10)], 2, false⟩] []).1).map (·.offset) = [10, 20, 30] := by
  decide

/-- With a file set the entries are the `Position`s of the same list, in the same order. -/
theorem stackTrace_order (s : FileSet) (tr : List Pos) :
    stackTrace s tr = stackTraceFrom s tr.reverse := rfl

/-! ### 6. the full statement and the proved part -/

/-- One throw site as the VM presents it to `throw`, together with what the source
    says: `stmtPos` is the position of the failing statement's instruction,
    `callPos` the positions of the call statements of the active callers (innermost
    first). -/
structure ThrowSite where
  curFn   : Option SourceMap
  curIp   : Int
  callers : List TFrame
  stmtPos : Pos
  callPos : List Pos

/-- The VM/compiler side of C16: the current ip maps to the failing statement, and
    the saved `ip + 1` of every active frame maps into that frame's call statement.
    (Needs the coordinator's `Model/VM` + `Model/Compile`: `emit` records `node.Pos()`
    per instruction, `xOpCallCompiled` saves `ip + 2`.) -/
def SavedIpInCallStmt (t : ThrowSite) : Prop :=
  getSourcePos t.curFn t.curIp = t.stmtPos ∧ t.callers.map getFrameSourcePos = t.callPos ∧
  ∀ f ∈ t.callers, f.hasHandler = false

/-- what C16 asks of the reported trace at one throw site -/
def TraceTrue (t : ThrowSite) : Prop :=
  (stackTraceRaw (throwTrace false t.curFn t.curIp t.callers []).1).map (·.offset)
    = t.callPos.reverse ++ [t.stmtPos]

/-- **Full statement** (kept visible): at every throw site the VM can reach on compiled
    bytecode (`Reach`, to be instantiated by the VM/compiler model) the reported trace
    is: call statements of the active frames outermost first, failing statement last. -/
def C16_full (Reach : ThrowSite → Prop) : Prop := ∀ t, Reach t → TraceTrue t

/-- **Proved part**: C16 holds at every reachable throw site provided reachable sites
    satisfy the VM/compiler hypothesis `SavedIpInCallStmt`. -/
theorem C16_partial (Reach : ThrowSite → Prop) (hvm : ∀ t, Reach t → SavedIpInCallStmt t) :
    C16_full Reach := by
  intro t ht
  obtain ⟨h1, h2, h3⟩ := hvm t ht
  unfold TraceTrue
  rw [trace_shape t.curFn t.curIp t.callers h3, h1, ← h2, List.map_reverse]

example : SavedIpInCallStmt
    { curFn := some [(0, 30)], curIp := 0, callers := [⟨some [(0, 20)], 4, false⟩],
      stmtPos := 30, callPos := [20] } := by
  refine ⟨by decide, by decide, ?_⟩
  intro f hf; simp at hf; subst hf; rfl

/-! ### 7. compile side: the source map covers every instruction -/

section compile
open UgoVerif.Compile UgoVerif.Ast

/-- **sourcemap_covers.**  For every script the total compile model accepts and every labelling
    `lab` of source positions under which the script has one statement per label (`labSs`: every
    expression that belongs directly to a statement is labelled like the statement; `lab` = "line
    of"), the main function and every function constant of the bytecode satisfy `FnCov lab`:
    the stream decodes; EVERY instruction start has its own source-map entry (the VM can raise an
    error or record a trace entry only at an instruction, so `SourcePos` never has to search);
    and for every CALL / CALLNAME at an instruction start `p`, `p + 3` — the offset
    `getFrameSourcePos` looks up for the suspended caller: saved `ip + 1 = (p + 2) + 1` — is the
    start of a further instruction whose own entry has the same label as the entry of the call.
    (vm.go reports the position of the instruction AFTER the call, not of the call.) -/
theorem sourcemap_covers (lab : Nat → Nat) (builtins : List (String × Nat)) (disabled : List String)
    (file : List Stmt) (hl : labSs lab file = true) (bc : Compile.Bytecode)
    (h : compileFile builtins disabled file = .ok bc) :
    FnCov lab bc.main ∧ ∀ g, Const.fn g ∈ bc.constants.toList → FnCov lab g :=
  compileFile_cov lab builtins disabled file hl bc h

/-- the part that needs nothing of the script (any layout): every instruction has its own entry and
    a call is always followed by an instruction with its own entry -/
theorem sourcemap_covers_any (builtins : List (String × Nat)) (disabled : List String)
    (file : List Stmt) (bc : Compile.Bytecode) (h : compileFile builtins disabled file = .ok bc) :
    FnCov lab0 bc.main ∧ ∀ g, Const.fn g ∈ bc.constants.toList → FnCov lab0 g :=
  compileFile_cov0 builtins disabled file bc h

/-- two statements on two "lines" (label = position / 20), each with a call -/
def demoFile : List Stmt :=
  [ .expr 10 (.call 10 false (.undef 10) []),
    .return_ 30 (some (.call 35 false (.undef 35) [])) ]

example : labSs (fun p => p / 20) demoFile = true := by decide
example : ∃ bc, compileFile [] [] demoFile = .ok bc := ⟨_, rfl⟩

end compile

/-! ### 8. VM side: the saved ip of a suspended frame is a call site -/

section vm
open UgoVerif.VM

/-- **saved_ip_is_call_site.**  At every instruction boundary of a run of the VM model (after the
    prologue; after an instruction that ended with `continue`; after a recovered Go panic) at which
    `vm.err` is unset, every frame below the current one belongs to a heap function cell whose code
    has a CALL / CALLNAME opcode byte at `frame.ip - 2`, and `G` — whatever is known of every
    dispatched offset (`DispG`) — holds of that offset: frames are pushed only by
    `xOpCallCompiled`, which stores `ip + 2`; a self tail call reuses the frame; `OpReturn` and
    `throw` only pop.  For ARBITRARY bytecode. -/
theorem saved_ip_is_call_site (G : Code → Nat → Prop) (F : FloatOps) {s0 : State} (h0 : CallSites G s0)
    (hD : ∀ s, Boundary F s0 s → s.err = none → DispG G s) (s : State) (hb : Boundary F s0 s)
    (he : s.err = none) : CallSites G s :=
  reach_callSites F h0 hD s hb he

/-- one instruction (any opcode) keeps it … -/
theorem saved_ip_step (G : Code → Nat → Prop) (F : FloatOps) {s : State} (hcs : CallSites G s) (hd : DispG G s)
    (s' : State) (hstep : exec (step F) s = (.ok .next, s')) (herr : s'.err = none) : CallSites G s' :=
  step_callSites F hcs hd s' hstep herr

/-- … and the prologue of `Run` establishes it -/
theorem saved_ip_after_prologue (G : Code → Nat → Prop) (g : V) (args : List V) {s s' : State}
    (hsz : s.frames.size = frameSize) (h : exec (prologue g args) s = (.ok (), s')) : CallSites G s' :=
  callSites_prologue g args hsz h

example (codes : Array Code) (heap : Array Cell) (consts : Array V) (mainFn : Addr) (nm : Nat) :
    CallSites (fun _ _ => True) { newState codes heap consts mainFn nm with frameIndex := 1 } :=
  callSites_init rfl rfl (by simp [newState, emptyFrames])

end vm

/-! ### 9. the combination: compiled scripts -/

section compiled
open UgoVerif.VM UgoVerif.Compile UgoVerif.Proofs.C16

/-- what `throw` reads off the VM state `s` (code memory `fns.map codeOfCFn`) when the instruction at
    `s.ip` raises an error, and what the compiler recorded: `stmtPos` = the entry of the failing
    instruction, `callPos` = for every frame below the current one (innermost first) the entry of the
    instruction that follows its call -/
def siteOf (fns : List CFn) (s : State) : ThrowSite :=
  { curFn := (frameFn fns s (s.frames[s.curFrame]!)).map smOf
    curIp := s.ip
    callers := callersOf fns s
    stmtPos := recorded fns s (s.frames[s.curFrame]!) s.ip
    callPos := (List.range s.curFrame).reverse.map fun i =>
      recorded fns s (s.frames[i]!) ((s.frames[i]!).ip + 1) }

/-- a VM state in which an error raised by the instruction at `s.ip` escapes: the code memory
    is compiler output, the frame stack satisfies the call-site invariant for "instruction start",
    the failing instruction is at an instruction start of the current function, and no frame
    below has a handler -/
structure UncaughtThrow (lab : Nat → Nat) (fns : List CFn) (s : State) : Prop where
  codes : s.codes.toList = fns.map Eval.codeOfCFn
  cov : ∀ g ∈ fns, FnCov lab g
  sites : CallSites AtStart s
  cur : ∃ fa c fr, (s.frames[s.curFrame]!).fn = some fa ∧ s.heap[fa]? = some (Cell.fn c fr) ∧ 0 ≤ s.ip ∧
    Bd (s.codes[c]!).insts s.ip.toNat
  uncaught : ∀ i, i ≤ s.curFrame → hasHandler (s.frames[i]!) = false

/-- the VM/compiler hypothesis of `C16_partial`, proved for such states -/
theorem throw_site_ok (lab : Nat → Nat) (fns : List CFn) (s : State) (h : UncaughtThrow lab fns s) :
    SavedIpInCallStmt (siteOf fns s) := by
  obtain ⟨fa, c, fr, hfn, hheap, h0, hbd⟩ := h.cur
  refine ⟨?_, ?_, ?_⟩
  · obtain ⟨g, v, hff, hv, hpos⟩ := current_reports lab h.codes h.cov hfn hheap h0 hbd
    simp only [siteOf]
    rw [hpos]
    simp [recorded, hff, hv]
  · simp only [siteOf, callersOf, List.map_map]
    apply List.map_congr_left
    intro i hi
    have hi' : i < s.curFrame := by simpa using hi
    obtain ⟨g, v, v', hff, _, hv', _, hpos⟩ := caller_reports lab h.codes h.cov (h.sites.inv i hi')
    simp only [Function.comp]
    rw [hpos]
    simp [recorded, hff, hv']
  · intro f hf
    simp only [siteOf, callersOf, List.mem_map, List.mem_reverse, List.mem_range] at hf
    obtain ⟨i, hi, rfl⟩ := hf
    exact h.uncaught i (Nat.le_of_lt hi)

/-- the throw sites of compiled scripts -/
def ReachCompiled (lab : Nat → Nat) (fns : List CFn) (t : ThrowSite) : Prop :=
  ∃ s, UncaughtThrow lab fns s ∧ t = siteOf fns s

/-- **C16_compiled.**  `C16_full` for the throw sites of compiled scripts: the reported trace is
    the entries recorded behind the calls of the active frames, outermost first, then the entry of
    the failing instruction. -/
theorem C16_compiled (lab : Nat → Nat) (fns : List CFn) : C16_full (ReachCompiled lab fns) :=
  C16_partial _ fun t ⟨s, hs, ht⟩ => ht ▸ throw_site_ok lab fns s hs

/-- **C16_compiled_lines.**  In labels (lines): the reported trace lists, outermost first, the label
    of the position the compiler recorded for the CALL / CALLNAME instruction at which each active
    frame is suspended (`frame.ip - 2`: the position of the call expression), and last the label of
    the position recorded for the failing instruction. -/
theorem C16_compiled_lines (lab : Nat → Nat) (fns : List CFn) (s : State) (h : UncaughtThrow lab fns s) :
    ((stackTraceRaw (throwTrace false (siteOf fns s).curFn (siteOf fns s).curIp (siteOf fns s).callers []).1).map
        fun fp => lab fp.offset.toNat)
      = ((List.range s.curFrame).map fun i => lab (recorded fns s (s.frames[i]!) ((s.frames[i]!).ip - 2)).toNat)
        ++ [lab (recorded fns s (s.frames[s.curFrame]!) s.ip).toNat] := by
  have ht : TraceTrue (siteOf fns s) := C16_compiled lab fns _ ⟨s, h, rfl⟩
  unfold TraceTrue at ht
  have hm := congrArg (List.map fun p : Int => lab p.toNat) ht
  rw [List.map_map] at hm
  rw [show (fun fp : FilePos => lab fp.offset.toNat) = ((fun p : Int => lab p.toNat) ∘ fun fp => fp.offset) from rfl, hm]
  simp only [siteOf, List.map_append, List.map_cons, List.map_nil, List.map_reverse, List.reverse_reverse, List.map_map]
  congr 1
  apply List.map_congr_left
  intro i hi
  have hi' : i < s.curFrame := by simpa using hi
  obtain ⟨g, v, v', hff, hv, hv', hlab, _⟩ := caller_reports lab h.codes h.cov (h.sites.inv i hi')
  simp [Function.comp, recorded, hff, hv, hv', hlab]

/-- the loader: `NewVM(bc)` for compile-model bytecode (`Model/Eval.setBytecode` on a new VM;
    `Props/C04.load_compiled`: the serializer's loader builds the same state) -/
def loaded (bc : Compile.Bytecode) : State := Eval.setBytecode (newState #[] #[] #[] 0 0) bc.main 0 bc.constants #[]

/-- **Control-flow integrity of the VM on compiled code** (a hypothesis in round 3; PROVED in round 4 as
    `exec_at_starts_compiled` below, from `Proofs/ExecAtStarts*.lean`): at every instruction boundary
    of the run with `vm.err` unset, the offset `ip + 1` at which the next opcode is fetched is ≥ 0 and
    an instruction start of the current function.  (Also tested by the lock-step `vmtrace` stream,
    which compares (frameIndex, ip, opcode) before every instruction.) -/
def ExecAtStarts (F : FloatOps) (s1 : State) : Prop :=
  ∀ s, Boundary F s1 s → s.err = none → 0 ≤ s.ip + 1 ∧
    ∃ fa c fr, (s.frames[s.curFrame]!).fn = some fa ∧ s.heap[fa]? = some (Cell.fn c fr) ∧
      Bd (s.codes[c]!).insts (s.ip + 1).toNat

theorem ExecAtStarts.dispG {F : FloatOps} {s1 : State} (hx : ExecAtStarts F s1) (s : State) (hb : Boundary F s1 s)
    (he : s.err = none) : DispG AtStart s := by
  obtain ⟨_, fa, c, fr, hfn, hheap, hbd⟩ := hx s hb he
  intro fa' c' fr' hfn' hheap'
  rw [hfn] at hfn'; cases hfn'
  rw [hheap] at hheap'; cases hheap'
  exact hbd

/-- **compiled_run_sites** with control-flow integrity as a hypothesis (round 3).  Compile (total compile model), load, run the prologue of `Run` with any
    globals and arguments, execute any number of instructions (recovered Go panics included): at
    every instruction boundary, the state in which the next instruction is dispatched
    (`vm.ip++` done) satisfies `UncaughtThrow` when no active frame has a handler: the code memory
    is the compiler's functions, all of them satisfy `FnCov lab`, every frame below the current one
    is suspended at a CALL / CALLNAME instruction START of its function, the dispatched offset is an
    instruction start. -/
theorem compiled_run_sites_of_ExecAtStarts (lab : Nat → Nat) (builtins : List (String × Nat)) (disabled : List String)
    (file : List Ast.Stmt) (hl : Ast.labSs lab file = true) (bc : Compile.Bytecode)
    (hc : compileFile builtins disabled file = .ok bc) (F : FloatOps) (g : V) (args : List V) (s1 : State)
    (hpro : exec (prologue g args) (loaded bc) = (.ok (), s1)) (hx : ExecAtStarts F s1)
    (s : State) (hb : Boundary F s1 s) (he : s.err = none)
    (hnh : ∀ i, i ≤ s.curFrame → hasHandler (s.frames[i]!) = false) :
    UncaughtThrow lab (fnList bc) { s with ip := s.ip + 1 } := by
  have hcodes1 : s1.codes = (loaded bc).codes := by
    have := prologue_codes g args (loaded bc)
    rw [hpro] at this; exact this
  have hcodes : s.codes.toList = (fnList bc).map Eval.codeOfCFn := by
    rw [boundary_codes F hb, hcodes1]; exact load_codes bc
  have hcs1 : CallSites AtStart s1 := callSites_prologue g args (load_frames bc) hpro
  have hcs : CallSites AtStart s := reach_callSites F hcs1 (fun s hb he => hx.dispG s hb he) s hb he
  obtain ⟨h0, fa, c, fr, hfn, hheap, hbd⟩ := hx s hb he
  exact ⟨hcodes, fnList_cov lab builtins disabled file hl bc hc, ⟨hcs.link, hcs.size, hcs.lt, hcs.inv⟩,
    ⟨fa, c, fr, hfn, hheap, h0, hbd⟩, hnh⟩

/-- … hence the reported lines (`C16_compiled_lines`) for an error raised by the instruction
    dispatched at that boundary, as far as `throw` is entered with the frames below, the current
    function and `vm.ip` as they are at the dispatch (true of every opcode of vm.go by inspection;
    every primitive of the VM model keeps them: `Proofs/VMCallSiteOps.lean`, `ck_*`). -/
theorem compiled_run_lines_of_ExecAtStarts (lab : Nat → Nat) (builtins : List (String × Nat)) (disabled : List String)
    (file : List Ast.Stmt) (hl : Ast.labSs lab file = true) (bc : Compile.Bytecode)
    (hc : compileFile builtins disabled file = .ok bc) (F : FloatOps) (g : V) (args : List V) (s1 : State)
    (hpro : exec (prologue g args) (loaded bc) = (.ok (), s1)) (hx : ExecAtStarts F s1)
    (s : State) (hb : Boundary F s1 s) (he : s.err = none)
    (hnh : ∀ i, i ≤ s.curFrame → hasHandler (s.frames[i]!) = false) :
    let sd : State := { s with ip := s.ip + 1 }
    let t := siteOf (fnList bc) sd
    ((stackTraceRaw (throwTrace false t.curFn t.curIp t.callers []).1).map fun fp => lab fp.offset.toNat)
      = ((List.range s.curFrame).map fun i =>
            lab (recorded (fnList bc) sd (s.frames[i]!) ((s.frames[i]!).ip - 2)).toNat)
        ++ [lab (recorded (fnList bc) sd (s.frames[s.curFrame]!) (s.ip + 1)).toNat] :=
  C16_compiled_lines lab (fnList bc) _
    (compiled_run_sites_of_ExecAtStarts lab builtins disabled file hl bc hc F g args s1 hpro hx s hb he hnh)

end compiled

/-! ### 10. control-flow integrity: the VM fetches opcodes only at instruction starts (round 4) -/

section cfi
open UgoVerif.VM UgoVerif.VM.Cfi UgoVerif.Compile UgoVerif.Proofs.C16 UgoVerif.Props.C05

/-- **exec_at_starts** (`Proofs/ExecAtStartsRun.lean`; the general statement, for ANY code memory):
    in a run of the VM model that starts at an instruction boundary of well-formed code — `Good s0`:
    every code a function cell of the heap names satisfies `WfCode` (the stream decodes, the last
    instruction is RETURN, jump targets and non-zero SETUPTRY operands are instruction starts strictly
    inside), `ip + 1` is an instruction start of the current function, every frame below resumes at an
    instruction start, every handler stores instruction starts — the same holds at every
    instruction boundary (`Boundary`: after any number of instructions of any of the 44 opcodes,
    calls incl. self tail calls, returns, thrown errors taken by catch / finally handlers of the
    current or a lower frame, finalizers, recovered Go panics): the next opcode is fetched at an
    instruction start of the code of the current frame's function.  "Compiled code never executes
    operand bytes."  No `vm.err` side condition, no fuel. -/
theorem exec_at_starts (F : FloatOps) {s0 : State} (h0 : Good s0) (s : State) (hb : Boundary F s0 s) :
    0 ≤ s.ip + 1 ∧ ∃ fa c fr, (s.frames[s.curFrame]!).fn = some fa ∧ s.heap[fa]? = some (Cell.fn c fr) ∧
      Bd (s.codes[c]!).insts (s.ip + 1).toNat :=
  UgoVerif.VM.Cfi.exec_at_starts F h0 s hb

/-- one instruction keeps it (`step` ending with `continue`) … -/
theorem exec_at_starts_step (F : FloatOps) {s s' : State} (h : Good s) (hstep : exec (step F) s = (.ok .next, s')) :
    Good s' :=
  ((tq_step F).elim_ok h hstep).2 rfl

/-- … a Go panic at any panic site of any opcode leaves a state from which `handlePanic` reaches an
    instruction boundary again (or sets `vm.err`) … -/
theorem exec_at_starts_recover (F : FloatOps) {s s1 s' : State} {msg : String} (h : Good s)
    (hstep : exec (step F) s = (.error (.panic msg), s1)) (hp : exec (handlePanic msg) s1 = (.ok (), s'))
    (he : s'.err = none) : Good s' :=
  (tq_handlePanic msg).elim_ok ((tq_step F).elim_err h hstep) hp he

/-- … and the prologue of `Run` establishes it on a loaded VM -/
theorem exec_at_starts_after_prologue (g : V) (args : List V) {s s' : State} (h0 : Safe0 s)
    (h : exec (prologue g args) s = (.ok (), s')) : Good s' :=
  good_prologue g args h0 h

theorem walk_le_size {a : Array UInt8} {i j : Nat} (h : Walk a i j) (hi : i ≤ a.size) : j ≤ a.size := by
  induction h with
  | refl => exact hi
  | step op h1 h2 h3 h4 ih => exact ih h3

/-- no operand of a SETUPTRY is the end-of-stream offset.  (`Props/C05.compile_wf` proves every such
    operand is an instruction start OR the end of the stream; that it is never the end — the catch /
    finally positions are those of emitted SETUPCATCH / SETUPFINALLY instructions — is
    `Props/C05.compile_try_strict` (`TryStrict`, round 5), which implies this.) -/
def TryNotEnd (f : CFn) : Prop :=
  ∀ p op, Bd f.insts p → f.insts[p]? = some op → op.toNat = Compile.OpSetupTry →
    readBE f.insts (p + 1) 4 ≠ f.insts.size ∧ readBE f.insts (p + 5) 4 ≠ f.insts.size

theorem tryNotEnd_of_tryStrict {f : CFn} (h : TryStrict f) : TryNotEnd f := by
  intro p op hbd hop hc
  obtain ⟨t1, t2⟩ := h p op hbd hop hc
  have hp := hbd.2
  refine ⟨?_, by have := t2.2; omega⟩
  rcases t1 with t1 | t1
  · omega
  · have := t1.2; omega

/-- what `Props/C05.compile_wf` (`WFFn`) and `TryNotEnd` say of a compiled function is `WfCode` of its code -/
theorem wfCode_of_wfFn {cs : Array Const} {nf : Nat} {g : CFn} (h : WFFn cs nf g) (ht : TryNotEnd g) :
    WfCode (Eval.codeOfCFn g) := by
  refine ⟨h.decodes, ?_, ?_, ?_⟩
  · obtain ⟨q, b, h1, h2, h3, h4⟩ := h.ret
    have : opWidth Compile.OpReturn = 1 := rfl
    exact ⟨q, b, h1, h2, h3, by rw [this] at h4; exact h4⟩
  · intro p op hbd hop hc
    exact h.jump p op hbd hop hc
  · intro p op hbd hop hc
    obtain ⟨w1, w2⟩ := h.try_ p op hbd hop hc
    obtain ⟨n1, n2⟩ := ht p op hbd hop hc
    have l1 := walk_le_size w1 (Nat.zero_le _)
    have l2 := walk_le_size w2 (Nat.zero_le _)
    exact ⟨fun _ => ⟨w1, by show readBE g.insts (p + 1) 4 < g.insts.size; omega⟩,
      fun _ => ⟨w2, by show readBE g.insts (p + 5) 4 < g.insts.size; omega⟩⟩

/-- no operand of a SETUPTRY — in main or in a function constant — is the end-of-stream offset
    (`TryNotEnd`; implied by `Props/C05.TryStrict`, `tryNotEnd_of_tryStrict`).  A hypothesis in round
    4; since round 5 a theorem about compile-model output: `compiled_try_targets_strict`.  (Also
    checked on real bytecode by the structural scan of the `compilefuzz` stream.) -/
def TryTargetsStrict (bc : Compile.Bytecode) : Prop :=
  TryNotEnd bc.main ∧ ∀ g, Const.fn g ∈ bc.constants.toList → TryNotEnd g

/-- every function of well-formed bytecode has well-formed code -/
theorem fnList_wfCode (bc : Compile.Bytecode) (hwf : WF bc) (ht : TryTargetsStrict bc) :
    ∀ g ∈ fnList bc, WfCode (Eval.codeOfCFn g) := by
  intro g hg
  simp only [fnList, List.mem_append, List.mem_singleton] at hg
  rcases hg with hg | hg
  · obtain ⟨_, nf, hf⟩ := hwf.2.2 g (mem_fnsOf hg)
    exact wfCode_of_wfFn hf (ht.2 g (mem_fnsOf hg))
  · subst hg; exact wfCode_of_wfFn hwf.2.1 ht.1

/-- **compiled_try_targets_strict** (round 5): `TryTargetsStrict` is a theorem about the output of the
    total compile model — `Props/C05.compile_try_strict` (invariant `TryLt` carried through every
    compile function: a SETUPTRY is patched only with the position at which SETUPCATCH was emitted
    and the position of the emitted SETUPFINALLY). -/
theorem compiled_try_targets_strict (builtins : List (String × Nat)) (hbi : BuiltinsOK builtins) (disabled : List String)
    (file : List Ast.Stmt) (hok : Ast.okSs file = true) (bc : Compile.Bytecode)
    (hc : compileFile builtins disabled file = .ok bc) : TryTargetsStrict bc := by
  obtain ⟨h1, h2⟩ := compile_try_strict builtins hbi disabled file hok bc hc
  exact ⟨tryNotEnd_of_tryStrict h1, fun g hg => tryNotEnd_of_tryStrict (h2 g hg)⟩

/-- **exec_at_starts_compiled_of_TryTargetsStrict** (the round-4 statement): `ExecAtStarts` for the output
    of the total compile model loaded into a new VM and run by the VM model, given `TryTargetsStrict`. -/
theorem exec_at_starts_compiled_of_TryTargetsStrict (builtins : List (String × Nat)) (hbi : BuiltinsOK builtins) (disabled : List String)
    (file : List Ast.Stmt) (hok : Ast.okSs file = true) (bc : Compile.Bytecode)
    (hc : compileFile builtins disabled file = .ok bc) (ht : TryTargetsStrict bc)
    (F : FloatOps) (g : V) (args : List V) (s1 : State)
    (hpro : exec (prologue g args) (loaded bc) = (.ok (), s1)) : ExecAtStarts F s1 := by
  have hwf := compile_wf builtins hbi disabled file hok bc hc
  have h0 : Safe0 (loaded bc) := safe0_loaded bc (fnList_wfCode bc hwf ht)
  have hg : Good s1 := good_prologue g args h0 hpro
  intro s hb _
  exact UgoVerif.VM.Cfi.exec_at_starts F hg s hb

/-- **exec_at_starts_compiled**: `ExecAtStarts` — the hypothesis of the round-3 theorems — holds for
    the output of the total compile model (hypotheses of `compile_wf`: builtin table in range,
    assignment statements have a left-hand side) loaded into a new VM and run by the VM model.  No
    compiler-side hypothesis is left: `TryTargetsStrict` is `compiled_try_targets_strict`. -/
theorem exec_at_starts_compiled (builtins : List (String × Nat)) (hbi : BuiltinsOK builtins) (disabled : List String)
    (file : List Ast.Stmt) (hok : Ast.okSs file = true) (bc : Compile.Bytecode)
    (hc : compileFile builtins disabled file = .ok bc)
    (F : FloatOps) (g : V) (args : List V) (s1 : State)
    (hpro : exec (prologue g args) (loaded bc) = (.ok (), s1)) : ExecAtStarts F s1 :=
  exec_at_starts_compiled_of_TryTargetsStrict builtins hbi disabled file hok bc hc
    (compiled_try_targets_strict builtins hbi disabled file hok bc hc) F g args s1 hpro

/-- a function without SETUPTRY satisfies `TryNotEnd` -/
theorem tryNotEnd_of_noTry (f : CFn) (h : ∀ b ∈ f.insts.toList, b.toNat ≠ Compile.OpSetupTry) : TryNotEnd f := by
  intro p op _ hop he
  have hlt : p < f.insts.size := by
    rcases Nat.lt_or_ge p f.insts.size with hl | hl
    · exact hl
    · rw [Array.getElem?_eq_none hl] at hop; cases hop
  have hm : op ∈ f.insts.toList := by
    have : f.insts[p]? = some f.insts[p] := by simp [hlt]
    rw [this] at hop
    cases hop
    exact Array.getElem_mem_toList hlt
  exact absurd he (h op hm)

theorem exec_ok_of_isOk {m : M Unit} {s : State}
    (h : (match (exec m s).1 with | .ok _ => true | .error _ => false) = true) :
    exec m s = (.ok (), (exec m s).2) := by
  rcases hx : exec m s with ⟨r, s'⟩
  rw [hx] at h
  cases r with
  | ok u => rfl
  | error e => cases h

/-- non-vacuity of `exec_at_starts_compiled` / `compiled_run_sites`: the demo script compiles, its
    bytecode satisfies `TryTargetsStrict`, the loaded VM passes the prologue -/
theorem demo_run : BuiltinsOK [] ∧ Ast.okSs demoFile = true ∧ Ast.labSs (fun p => p / 20) demoFile = true ∧
    ∃ bc, compileFile [] [] demoFile = .ok bc ∧ TryTargetsStrict bc ∧
      ∃ s1, exec (prologue .nil []) (loaded bc) = (.ok (), s1) := by
  refine ⟨by decide, by decide, by decide, _, rfl, ⟨tryNotEnd_of_noTry _ (by decide), ?_⟩, _,
    exec_ok_of_isOk (by decide +kernel)⟩
  intro g hg
  simp [initState] at hg

/-- non-vacuity of `exec_at_starts`: the state after the prologue of the demo run is `Good` -/
example : ∃ s0 : State, Good s0 := by
  obtain ⟨hb, hok, _, bc, hc, ht, s1, hp⟩ := demo_run
  exact ⟨s1, good_prologue _ _ (safe0_loaded bc (fnList_wfCode bc (compile_wf [] hb [] demoFile hok bc hc) ht)) hp⟩

/-- **compiled_run_sites.**  Compile (total compile model), load, run the prologue of `Run` with any
    globals and arguments, execute any number of instructions (recovered Go panics included): at
    every instruction boundary, the state in which the next instruction is dispatched
    (`vm.ip++` done) satisfies `UncaughtThrow` when no active frame has a handler: the code memory
    is the compiler's functions, all of them satisfy `FnCov lab`, every frame below the current one
    is suspended at a CALL / CALLNAME instruction START of its function, the dispatched offset is an
    instruction start.  Control-flow integrity is no longer a hypothesis, and (round 5) neither is
    `TryTargetsStrict`: the hypotheses are those of `Props/C05.compile_wf`, the labelling of the AST
    and the success of the prologue. -/
theorem compiled_run_sites (lab : Nat → Nat) (builtins : List (String × Nat)) (hbi : BuiltinsOK builtins)
    (disabled : List String) (file : List Ast.Stmt) (hok : Ast.okSs file = true) (hl : Ast.labSs lab file = true)
    (bc : Compile.Bytecode) (hc : compileFile builtins disabled file = .ok bc)
    (F : FloatOps) (g : V) (args : List V) (s1 : State)
    (hpro : exec (prologue g args) (loaded bc) = (.ok (), s1))
    (s : State) (hb : Boundary F s1 s) (he : s.err = none)
    (hnh : ∀ i, i ≤ s.curFrame → hasHandler (s.frames[i]!) = false) :
    UncaughtThrow lab (fnList bc) { s with ip := s.ip + 1 } :=
  compiled_run_sites_of_ExecAtStarts lab builtins disabled file hl bc hc F g args s1 hpro
    (exec_at_starts_compiled builtins hbi disabled file hok bc hc F g args s1 hpro) s hb he hnh

/-- **compiled_run_lines.**  … hence the reported lines (`C16_compiled_lines`) for an error raised by
    the instruction dispatched at that boundary (as far as `throw` is entered with the frames below,
    the current function and `vm.ip` as they are at the dispatch: by inspection of vm.go; every
    primitive of the VM model keeps them: `Proofs/VMCallSiteOps.lean`, `ck_*`). -/
theorem compiled_run_lines (lab : Nat → Nat) (builtins : List (String × Nat)) (hbi : BuiltinsOK builtins)
    (disabled : List String) (file : List Ast.Stmt) (hok : Ast.okSs file = true) (hl : Ast.labSs lab file = true)
    (bc : Compile.Bytecode) (hc : compileFile builtins disabled file = .ok bc)
    (F : FloatOps) (g : V) (args : List V) (s1 : State)
    (hpro : exec (prologue g args) (loaded bc) = (.ok (), s1))
    (s : State) (hb : Boundary F s1 s) (he : s.err = none)
    (hnh : ∀ i, i ≤ s.curFrame → hasHandler (s.frames[i]!) = false) :
    let sd : State := { s with ip := s.ip + 1 }
    let t := siteOf (fnList bc) sd
    ((stackTraceRaw (throwTrace false t.curFn t.curIp t.callers []).1).map fun fp => lab fp.offset.toNat)
      = ((List.range s.curFrame).map fun i =>
            lab (recorded (fnList bc) sd (s.frames[i]!) ((s.frames[i]!).ip - 2)).toNat)
        ++ [lab (recorded (fnList bc) sd (s.frames[s.curFrame]!) (s.ip + 1)).toNat] :=
  compiled_run_lines_of_ExecAtStarts lab builtins disabled file hl bc hc F g args s1 hpro
    (exec_at_starts_compiled builtins hbi disabled file hok bc hc F g args s1 hpro) s hb he hnh

end cfi

end UgoVerif.Props.C16
