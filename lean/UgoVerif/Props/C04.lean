import UgoVerif.Proofs.EncBytecode
import UgoVerif.Proofs.EncNorm
import UgoVerif.Proofs.EncCompile
import UgoVerif.Spec.EncPos
/-
  C04 — encoding bytecode and decoding it again preserves behaviour.

  Theorems over the hand model `Model/Enc.lean` of encoder/encoder.go + encoder/bytecode.go
  (repaired tree: Float −0.0 fix 43e8e7c, BuiltinFunction fix 6a8cdec, decoder hardening
  6f5a90c), whose tag/header constants are the regenerated `Gen/EncTags.lean`; tied to the
  implementation by the `enc` correspondence stream (implementation-encoded bytes decoded by
  the model and compared structurally; the model's re-encoding must be byte-identical).

  What is proved here is the *structural* half: decoding what the encoder wrote yields the
  normal form `norm` of the original, for every value and every bytecode, with `norm` proved
  to be idempotent and to be the identity on well-formed values (so the only things a round
  trip can change are: non-positive NumParams/NumLocals/NumModules ↦ 0, Free variables
  dropped, repeated keys of an association list collapsed — none of which the compiler
  produces).  The *behavioural* half ("runs to the same outcome") needs the VM model
  (`Model/VM`, coordinator); it is stated as `C04_full` over an abstract `run`.

  gob (objects without a binary marshaler) is a parameter assumed to round-trip
  (`Encodable C (.gob ..)`).
-/
namespace UgoVerif.Props.C04
open UgoVerif UgoVerif.Go UgoVerif.Model.Enc UgoVerif.Spec.Enc UgoVerif.Proofs.Enc UgoVerif.Gen.EncTags

/-! ### varints -/

/-- `binary.Uvarint` reads back what `binary.PutUvarint` wrote (any uint64, any trailing bytes) -/
theorem uvarint_roundtrip (n : Nat) (rest : Bytes) (hn : n < 2 ^ 64) :
    uvarint (putUvarint n ++ rest) = (n, ((putUvarint n).length : Int)) :=
  uvarint_put n rest hn

/-- `binary.Varint` reads back what `binary.PutVarint` wrote (any int64, incl. MinInt64/MaxInt64) -/
theorem varint_roundtrip (x : Int) (rest : Bytes) (h : -(2 ^ 63 : Int) ≤ x ∧ x < 2 ^ 63) :
    varint (putVarint x ++ rest) = (x, ((putVarint x).length : Int)) :=
  varint_put x rest (by simp [inInt64]; omega)

/-- the length-prefixed varint of `varintConv` through all three readers -/
theorem varintConv_roundtrip (v : Int) (rest : Bytes) (h : -(2 ^ 63 : Int) ≤ v ∧ v < 2 ^ 63) :
    viRead (toBytes v ++ rest) = .ok (v, rest) ∧
    viReadBytes (toBytes v ++ rest) = .ok (v, toBytes v, rest) ∧
    toVarint (toBytes v ++ rest) = .ok (v, (toBytes v).length) := by
  have hin : inInt64 v = true := by simp [inInt64]; omega
  exact ⟨viRead_toBytes v rest hin, viReadBytes_toBytes v rest hin, toVarint_toBytes v rest hin⟩

/-- the scratch buffers of the Go encoders are large enough (so the encoders cannot panic) -/
theorem varint_buffers_suffice (n : Nat) :
    (n < 2 ^ 64 → (putUvarint n).length ≤ 10) ∧ (n < 2 ^ 35 → (putUvarint n).length ≤ 5) :=
  ⟨putUvarint_len10 n, putUvarint_len5 n⟩

/-! ### objects -/

/-- `DecodeObject (MarshalBinary o ++ rest) = (norm o, rest)`: every constant kind — ints and
    uints at the extremes, chars, floats as bit patterns (NaN payloads, ±Inf, −0.0), empty
    and arbitrary (non-UTF-8) strings and bytes, arbitrarily nested arrays / maps / sync maps,
    compiled functions with instructions / source map / params / variadic flag, functions and
    builtin functions by name, gob-encoded objects — by induction on `o`.  Hypotheses: `o` has
    an encoding (`Encodable`: no nil interface, known builtin names, gob round-trips), the
    model has fuel, and lengths fit Go's `int`. -/
theorem object_roundtrip (C : Ctx) (o : Obj) (fuel : Nat) (rest : Bytes) (hE : Encodable C o)
    (hf : need o ≤ fuel) (hs : (encodeObject C o).length < 2 ^ 63) :
    (decodeObjectF C fuel (encodeObject C o ++ rest)).res = .ok (norm o, rest) :=
  rt_obj C o fuel rest hE hf hs

/-- the same for `decodeObject` (fuel 3·|input|+16, as used by the driver): the fuel always
    suffices, so no fuel hypothesis is left -/
theorem object_roundtrip_default_fuel (C : Ctx) (o : Obj) (rest : Bytes) (hE : Encodable C o)
    (hs : (encodeObject C o).length < 2 ^ 63) :
    (decodeObject C (encodeObject C o ++ rest)).res = .ok (norm o, rest) := by
  unfold decodeObject
  have := need_le C o
  exact rt_obj C o _ rest hE (by simp only [List.length_append]; omega) hs

/-- on well-formed values (unique map keys, compiler-shaped compiled functions) the round trip
    is the identity -/
theorem object_roundtrip_exact (C : Ctx) (o : Obj) (fuel : Nat) (rest : Bytes) (hE : Encodable C o)
    (hw : WF o) (hf : need o ≤ fuel) (hs : (encodeObject C o).length < 2 ^ 63) :
    (decodeObjectF C fuel (encodeObject C o ++ rest)).res = .ok (o, rest) := by
  rw [object_roundtrip C o fuel rest hE hf hs, norm_of_WF o hw]

private theorem encodeFloat_length_le (v : F64) : (encodeFloat v).length ≤ 12 := by
  unfold encodeFloat; split
  · simp
  · have := putUvarint_len10 v.toNat v.isLt
    simp; omega

/-- the −0.0 row of DESIGN §6: after the repair the sign bit survives (and −0.0 is not
    elided: its encoding is longer than the two bytes of +0.0) -/
theorem negative_zero_roundtrip (C : Ctx) (rest : Bytes) :
    (decodeObjectF C 1 (encodeObject C (.float 0x8000000000000000#64) ++ rest)).res =
      .ok (.float 0x8000000000000000#64, rest) ∧
    encodeObject C (.float 0x8000000000000000#64) ≠ encodeObject C (.float 0#64) := by
  refine ⟨rt_obj C _ 1 rest (by simp [Encodable]) (by simp [need]) (by
    simp only [encodeObject]
    have := encodeFloat_length_le 0x8000000000000000#64
    omega), ?_⟩
  intro h
  have := congrArg List.length h
  have hp := putUvarint_length_pos (0x8000000000000000#64 : BitVec 64).toNat
  simp [encodeObject, encodeFloat] at this hp
  rw [this] at hp
  simp at hp

/-! ### bytecode -/

/-- `DecodeBytecodeFrom (EncodeBytecodeTo bc)` is `fixObjects` applied to the normal form of
    `bc`: file set, main function, constants, number of modules. -/
theorem bytecode_roundtrip (C : Ctx) (conv : BC → Res BC) (mods : Mods) (bc : BC) (fuel : Nat)
    (hf : needBC bc ≤ fuel) (hE : EncodableBC C bc) :
    (decodeBytecodeF C conv mods fuel (encodeBytecode C bc)).res = fixObjects mods (normBC bc) :=
  rt_bytecode C conv mods bc fuel hf hE

/-- the same for `decodeBytecode` (fuel 3·|input|+16) -/
theorem bytecode_roundtrip_default_fuel (C : Ctx) (conv : BC → Res BC) (mods : Mods) (bc : BC)
    (hE : EncodableBC C bc) :
    (decodeBytecode C conv mods (encodeBytecode C bc)).res = fixObjects mods (normBC bc) := by
  unfold decodeBytecode
  refine rt_bytecode C conv mods bc _ ?_ hE
  unfold needBC
  have hb := (body_bounds C bc).2.2
  have hlen : (encodeBytecodeBody C bc).length ≤ (encodeBytecode C bc).length := by
    unfold encodeBytecode; simp only [List.length_append]; omega
  cases hc : bc.constants with
  | none => simp only; omega
  | some cs =>
    have h1 := need_le C (.array cs)
    have h2 := hb cs hc
    simp only; omega

/-- the file set (names, bases, sizes, line tables) survives exactly, and so does every
    source map without repeated keys: error positions and stack traces are computed from
    exactly these -/
theorem positions_survive (bc : BC) (f : CF) (sm : List (BitVec 64 × BitVec 64)) :
    (normBC bc).fileSet = bc.fileSet ∧
    (f.sourceMap = some sm → (keys sm).Nodup → (normCF f).sourceMap = some sm) ∧
    (normCF f).instructions = f.instructions ∧ (normCF f).variadic = f.variadic := by
  refine ⟨rfl, ?_, rfl, rfl⟩
  intro h hk
  simp [normCF, h, mapOfList_of_nodup sm hk]

/-- `norm` changes nothing but representation: it is the identity on well-formed values … -/
theorem norm_only_representation (o : Obj) (h : WF o) : norm o = o := norm_of_WF o h

/-- … and on compiled functions it touches exactly NumParams/NumLocals ≤ 0, Free, and
    repeated source-map keys -/
theorem normCF_spec (f : CF) :
    (normCF f).numParams = (if 0 < f.numParams.toInt then f.numParams else 0) ∧
    (normCF f).numLocals = (if 0 < f.numLocals.toInt then f.numLocals else 0) ∧
    (normCF f).instructions = f.instructions ∧ (normCF f).variadic = f.variadic ∧
    (normCF f).numFree = 0 ∧ (normCF f).sourceMap = f.sourceMap.map mapOfList :=
  ⟨rfl, rfl, rfl, rfl, rfl, rfl⟩

/-- decode-twice clause, value level: normalising again changes nothing -/
theorem norm_idem (o : Obj) : norm (norm o) = norm o := UgoVerif.Proofs.Enc.norm_idem o

/-- decode-twice clause: encoding the decoded bytecode and decoding once more gives the same
    bytecode again -/
theorem decode_twice (C : Ctx) (conv : BC → Res BC) (mods : Mods) (bc : BC) (fuel : Nat)
    (hf : needBC (normBC bc) ≤ fuel) (hE : EncodableBC C (normBC bc)) :
    (decodeBytecodeF C conv mods fuel (encodeBytecode C (normBC bc))).res = fixObjects mods (normBC bc) := by
  rw [rt_bytecode C conv mods (normBC bc) fuel hf hE, normBC_idem]

/-- `fix_rebinds`: for a constant that was imported from the builtin module `name` (its entries
    are the module's attributes plus the `__module_name__` entry, in any order), decoding
    its encoding and running `fixObjects` with the same module map re-binds every item to the
    module's live object: the module lookup succeeds and every Go-type check passes. -/
theorem fix_rebinds (mods : Mods) (name : Bytes) (attrs items : List (Bytes × Obj))
    (hm : mods name = some attrs)
    (hname : lookupKV attrModuleName items = some (.str name))
    (hitems : ∀ k v, (k, v) ∈ items → (k = attrModuleName ∧ v = .str name) ∨
      (k ≠ attrModuleName ∧ lookupKV k attrs = some v)) :
    fixConst mods (.map (normKVs items)) = .ok (.map items) :=
  UgoVerif.Proofs.Enc.fix_rebinds mods name attrs items hm hname hitems

/-- the object tags are pairwise distinct (a duplicated tag in the Go const block breaks this) -/
theorem tags_distinct : (allTags.map (·.2)).Nodup := UgoVerif.Proofs.Enc.tags_distinct

/-- the field numbers the model uses are the ones in the source -/
theorem field_numbers : bcFieldsEnc = [0, 1, 2, 3] ∧ bcFieldsDec = [0, 1, 2, 3] ∧
    cfFieldsEnc = [0, 1, 2, 3, 5] ∧ cfFieldsDec = [0, 1, 2, 3, 4, 5] := by decide

/-! ### the full statement -/

/-- Full-strength C04 over an abstract `run` (the VM model's `Run` on a fresh state: bytecode,
    globals, arguments ↦ outcome) and an abstract compiler image `compiled`: every compiled
    bytecode, encoded and decoded with the same builtin modules, runs to the same outcome —
    and so does the bytecode obtained by encoding and decoding once more. -/
def C04_full {Outcome Inputs : Type} (C : Ctx) (conv : BC → Res BC) (mods : Mods)
    (compiled : BC → Prop) (run : BC → Inputs → Outcome) : Prop :=
  ∀ bc, compiled bc → ∃ bc', (∀ fuel, needBC bc ≤ fuel →
      (decodeBytecodeF C conv mods fuel (encodeBytecode C bc)).res = .ok bc') ∧
    (∀ i, run bc' i = run bc i) ∧
    ∃ bc'', (∀ fuel, needBC bc' ≤ fuel →
      (decodeBytecodeF C conv mods fuel (encodeBytecode C bc')).res = .ok bc'') ∧ ∀ i, run bc'' i = run bc i

/-- The proved part: whenever the compiler's output is encodable and `run` cannot observe
    what `norm`/`fixObjects` change (for compiler output `norm` is the identity up to the
    dropped Free list, `fixObjects` re-binds module items to the live objects they were
    copied from), `C04_full` holds.  Missing for the full theorem: `run` instantiated by the
    VM model together with the proof of `hrun` (VM model, compile-model lemma "constants never
    carry free variables"). -/
theorem C04_partial {Outcome Inputs : Type} (C : Ctx) (conv : BC → Res BC) (mods : Mods)
    (compiled : BC → Prop) (run : BC → Inputs → Outcome)
    (hE : ∀ bc, compiled bc → EncodableBC C bc)
    (hfix : ∀ bc, compiled bc → ∃ bc', fixObjects mods (normBC bc) = .ok bc' ∧
      EncodableBC C bc' ∧ fixObjects mods (normBC bc') = .ok bc' ∧ ∀ i, run bc' i = run bc i) :
    C04_full C conv mods compiled run := by
  intro bc hc
  obtain ⟨bc', hfx, hE', hfx', hrun⟩ := hfix bc hc
  refine ⟨bc', ?_, hrun, bc', ?_, hrun⟩
  · intro fuel hf
    rw [rt_bytecode C conv mods bc fuel hf (hE bc hc), hfx]
  · intro fuel hf
    rw [rt_bytecode C conv mods bc' fuel hf hE', hfx']

/-! ### the behavioural half over the VM model

  `run F H bc i` (`Spec/EncVM.lean`) is `VM.runFrom` — the VM model's `Run`, tied to vm.go by the
  lock-step `vmtrace` stream — on the state `load H bc` of a new VM for `bc`.  On well-formed
  bytecode `load` builds exactly the denoted objects (`load_is_plain`), and on the output of the
  compile model it is the state `Model/Eval.setBytecode` builds (`load_compiled`, the loader C10
  is stated over). -/

section vm
open UgoVerif.Spec.EncVM UgoVerif.Spec.EncPos UgoVerif.VM

/-- `norm_run`: a bytecode and its normal form run to the same outcome, for all inputs (the two
    new VMs are in *equal* states) -/
theorem norm_run (F : FloatOps) (H : Host) (bc : BC) (i : Inputs) : run F H (normBC bc) i = run F H bc i :=
  run_norm F H bc i

/-- `load` is the plain construction of the denoted Go objects on well-formed bytecode -/
theorem load_is_plain (H : Host) (bc : BC) (h : WFBC bc) : load H bc = loadRaw H bc := load_of_WF H bc h

/-- more than that: `load = loadRaw` as soon as the maps among the constants are Go maps (unique
    keys) — compiled functions may have negative counts, a non-empty `Free`, repeated source-map
    keys: none of that is part of the VM state, so `norm_run` is not an artefact of loading through
    the normal form -/
theorem load_is_plain_keys (H : Host) (hH : HostNorm H) (bc : BC)
    (h : ∀ cs, bc.constants = some cs → KeysOKL cs) : load H bc = loadRaw H bc :=
  loadRaw_norm H hH bc h

/-- … and on compiler output it is `NewVM(bc)` of the Eval model -/
theorem load_compiled (H : Host) (fs : Option FileSet) (cbc : Compile.Bytecode) (hs : SmallCounts cbc) :
    load H (toEnc fs cbc) = Eval.setBytecode (newState #[] #[] #[] 0 0) cbc.main 0 cbc.constants #[] :=
  load_toEnc H fs cbc hs

/-- `C04_roundtrip_run`: encoding a bytecode and decoding it with the same builtin modules gives
    a bytecode that runs to the same outcome for all globals and arguments.  Hypotheses: the
    bytecode has an encoding (`EncodableBC`), and `fixObjects` succeeds constant by constant
    without changing normal forms (`FixOK`: true for every constant that is not a module map —
    `FixOK_notModule` — and for the map of an imported builtin module when the same module is
    supplied — `FixOK_module`, from `fix_rebinds`).  Function constants carry no free
    variables (the loader gives them `Free = nil`; the encoder does not write `Free`). -/
theorem C04_roundtrip_run (F : FloatOps) (H : Host) (C : Ctx) (conv : BC → Res BC) (mods : Mods) (bc : BC)
    (hE : EncodableBC C bc) (hfix : ∀ cs, bc.constants = some cs → ∀ c ∈ cs, FixOK mods c) :
    ∃ bc', (decodeBytecode C conv mods (encodeBytecode C bc)).res = .ok bc' ∧
      ∀ i, run F H bc' i = run F H bc i := by
  obtain ⟨bc', hfx, hn⟩ := fixObjects_of_FixOK mods bc hfix
  exact ⟨bc', by rw [bytecode_roundtrip_default_fuel C conv mods bc hE, hfx],
    fun i => run_congr_norm F H bc bc' hn i⟩

/-- `C04_full` with `run` := the VM model: holds for every class of bytecodes that are encodable
    and whose constants `fixObjects` re-binds (`FixOK`), provided the re-bound bytecode is
    encodable again (second round trip). -/
theorem C04_vm (F : FloatOps) (H : Host) (C : Ctx) (conv : BC → Res BC) (mods : Mods) (compiled : BC → Prop)
    (hE : ∀ bc, compiled bc → EncodableBC C bc)
    (hfix : ∀ bc, compiled bc → ∀ cs, bc.constants = some cs → ∀ c ∈ cs, FixOK mods c)
    (hE' : ∀ bc bc', compiled bc → fixObjects mods (normBC bc) = .ok bc' → EncodableBC C bc') :
    C04_full C conv mods compiled (run F H) := by
  intro bc hc
  obtain ⟨bc', hfx, hn⟩ := fixObjects_of_FixOK mods bc (hfix bc hc)
  refine ⟨bc', ?_, fun i => run_congr_norm F H bc bc' hn i, bc', ?_, fun i => run_congr_norm F H bc bc' hn i⟩
  · intro fuel hf
    rw [rt_bytecode C conv mods bc fuel hf (hE bc hc), hfx]
  · intro fuel hf
    rw [rt_bytecode C conv mods bc' fuel hf (hE' bc bc' hc hfx), hn, hfx]

/-- the compile-model lemma: constants produced by the compile model never carry free variables
    (`Compile.CFn` has no `Free` at all; closures are built at run time by OpClosure) -/
theorem compiled_constants_no_free (cbc : Compile.Bytecode) :
    (cfOfCFn cbc.main).numFree = 0 ∧
    ∀ c ∈ cbc.constants.toList, ∀ f, objOfConst c = .compiledFunction f → f.numFree = 0 :=
  constants_no_free cbc

/-- bytecodes returned by the compile model (optimizer off, no imports), with the parser's file
    set `fs`; side conditions: every length and count fits Go's `int` -/
def CompilerOutput (C : Ctx) (builtins : List (String × Nat)) (disabled : List String) (fs : Option FileSet)
    (bc : BC) : Prop :=
  ∃ file cbc, Compile.compileFile builtins disabled file = .ok cbc ∧ bc = toEnc fs cbc ∧
    SmallCounts cbc ∧ (encodeBytecodeBody C bc).length < 2 ^ 63

/-- compiler output is well-formed, so the round trip returns *exactly* the bytecode that was
    encoded: instructions, constants, source maps, file set, counts — nothing is normalised away
    (`Free` is nil to begin with) -/
theorem compiled_roundtrip_exact (C : Ctx) (conv : BC → Res BC) (mods : Mods) (fs : Option FileSet)
    (cbc : Compile.Bytecode) (hs : SmallCounts cbc)
    (hsmall : (encodeBytecodeBody C (toEnc fs cbc)).length < 2 ^ 63) :
    (decodeBytecode C conv mods (encodeBytecode C (toEnc fs cbc))).res = .ok (toEnc fs cbc) := by
  have hE : EncodableBC C (toEnc fs cbc) := by
    refine ⟨?_, hsmall⟩
    intro cs h
    simp only [toEnc, Option.some.injEq] at h
    subst h
    exact consts_encodable C _
  rw [bytecode_roundtrip_default_fuel C conv mods _ hE, normBC_of_WF _ (toEnc_WF fs cbc hs)]
  apply fixObjects_id
  intro cs h c hc
  simp only [toEnc, Option.some.injEq] at h
  subst h
  obtain ⟨k, _, rfl⟩ := List.mem_map.mp hc
  have := objOfConst_notModule k
  rwa [norm_of_WF _ (objOfConst_WF k (fun f hf => hs.2 k (by assumption) f hf))] at this

/-- every bytecode of the shape the compiler produces without imports — constants are scalars
    and compiled functions without free variables, a main function — whether or not the optimizer
    produced it -/
def CompilerShaped (C : Ctx) (fs : Option FileSet) (bc : BC) : Prop :=
  ∃ cbc : Compile.Bytecode, bc = toEnc fs cbc ∧ SmallCounts cbc ∧ (encodeBytecodeBody C bc).length < 2 ^ 63

theorem C04_full_shaped (F : FloatOps) (H : Host) (C : Ctx) (conv : BC → Res BC) (mods : Mods) (fs : Option FileSet) :
    C04_full C conv mods (CompilerShaped C fs) (run F H) := by
  rintro bc ⟨cbc, rfl, hs, hsmall⟩
  have hrt := compiled_roundtrip_exact C conv mods fs cbc hs hsmall
  have hE : EncodableBC C (toEnc fs cbc) := by
    refine ⟨?_, hsmall⟩
    intro cs h
    simp only [toEnc, Option.some.injEq] at h
    subst h
    exact consts_encodable C _
  have hfx : fixObjects mods (normBC (toEnc fs cbc)) = .ok (toEnc fs cbc) := by
    rw [← bytecode_roundtrip_default_fuel C conv mods _ hE]; exact hrt
  refine ⟨toEnc fs cbc, ?_, fun _ => rfl, toEnc fs cbc, ?_, fun _ => rfl⟩
  · intro fuel hf
    rw [rt_bytecode C conv mods _ fuel hf hE, hfx]
  · intro fuel hf
    rw [rt_bytecode C conv mods _ fuel hf hE, hfx]

/-- `C04_full` for compiler output of the modelled language: for every script the compile model
    accepts, the compiled bytecode, encoded and decoded (and encoded and decoded once more), runs
    to the same outcome and final state in the VM model, for all globals and arguments. -/
theorem C04_full_compiled (F : FloatOps) (H : Host) (C : Ctx) (conv : BC → Res BC) (mods : Mods)
    (builtins : List (String × Nat)) (disabled : List String) (fs : Option FileSet) :
    C04_full C conv mods (CompilerOutput C builtins disabled fs) (run F H) := by
  rintro bc ⟨file, cbc, _, hbc, hs, hsmall⟩
  exact C04_full_shaped F H C conv mods fs bc ⟨cbc, hbc, hs, hsmall⟩

/-! ### positions (C16): the decoded bytecode reports the same error positions -/

/-- the decoded bytecode has the same file set, and every function whose source map is a Go map
    (unique keys) has the same source map: as values of the position model -/
theorem positions_equal (bc : BC) (f : CF) (hk : ∀ sm, f.sourceMap = some sm → (keys sm).Nodup) :
    (normBC bc).fileSet.map fileSetOf = bc.fileSet.map fileSetOf ∧ sourceMapOf (normCF f) = sourceMapOf f := by
  refine ⟨rfl, ?_⟩
  unfold sourceMapOf normCF
  cases h : f.sourceMap with
  | none => rfl
  | some sm => simp only [Option.map_some, Option.getD_some, mapOfList_of_nodup sm (hk sm h)]

/-- `getSourcePos` / `getFrameSourcePos` / the trace built by `throw` / `StackTrace()` of the
    position model (`Model/Trace.lean`, property C16) are the same over the decoded bytecode as
    over the original: for every call stack (current function, ip, caller frames) whose
    functions have Go-map source maps, and every file set. -/
theorem trace_positions_equal (bc : BC) (noTrace : Bool) (cur : Option CF) (ip : Int) (callers : List PFrame)
    (trace : List Model.Pos)
    (hcur : ∀ f, cur = some f → ∀ sm, f.sourceMap = some sm → (keys sm).Nodup)
    (hcallers : ∀ fr ∈ callers, ∀ f, fr.fn = some f → ∀ sm, f.sourceMap = some sm → (keys sm).Nodup) :
    Model.throwTrace noTrace ((cur.map normCF).map sourceMapOf) ip ((callers.map decodedFrame).map tframeOf) trace =
      Model.throwTrace noTrace (cur.map sourceMapOf) ip (callers.map tframeOf) trace ∧
    ∀ tr, ((normBC bc).fileSet.map fun fs => Model.stackTrace (fileSetOf fs) tr) =
      (bc.fileSet.map fun fs => Model.stackTrace (fileSetOf fs) tr) := by
  refine ⟨?_, fun _ => rfl⟩
  have h1 : (cur.map normCF).map sourceMapOf = cur.map sourceMapOf := by
    cases cur with
    | none => rfl
    | some f => simp only [Option.map_some, (positions_equal {} f (hcur f rfl)).2]
  have h2 : (callers.map decodedFrame).map tframeOf = callers.map tframeOf := by
    rw [List.map_map]
    apply List.map_congr_left
    intro fr hfr
    obtain ⟨fn, fip, hh⟩ := fr
    cases fn with
    | none => rfl
    | some f =>
      simp only [Function.comp, decodedFrame, tframeOf, Option.map_some,
        (positions_equal {} f (hcallers _ hfr f rfl)).2]
  rw [h1, h2]

end vm

/-! ### non-vacuity -/

/-- a context in which gob rejects everything and `len` is a builtin -/
def ctx0 : Ctx :=
  { gobDec := fun _ => none, gobAlloc := fun _ => 0, gobEnc := fun _ _ => [],
    isBuiltinFn := fun n => n == "len".toUTF8.toList }

/-- a nested constant meeting the hypotheses of `object_roundtrip` -/
def sample : Obj :=
  .array [.int 0x8000000000000000#64, .float 0x7FF8000000000001#64, .str [0xff, 0x00],
          .map [([0x61], .array []), ([], .undefined)], .compiledFunction { numParams := 1#64, variadic := true },
          .builtinFunction "len".toUTF8.toList, .syncMap true []]

example : Encodable ctx0 sample := by
  simp [sample, Encodable, EncodableL, EncodableKV, ctx0]
example : WF sample := by
  simp only [sample, WF, WFL, WFKV, keys, and_true, true_and]
  refine ⟨by decide, ?_⟩
  exact ⟨by decide, by decide, rfl, by intro sm h; cases h⟩
/-- the hypotheses of `fix_rebinds` are satisfiable: module "m" = {f: <function f>} -/
example : fixConst (fun n => if n = [0x6d] then some [([0x66], .function [0x66])] else none)
    (.map (normKVs [([0x66], .function [0x66]), (attrModuleName, .str [0x6d])])) =
    .ok (.map [([0x66], .function [0x66]), (attrModuleName, .str [0x6d])]) :=
  fix_rebinds _ [0x6d] [([0x66], .function [0x66])] _ (by simp) rfl (by
    intro k v h
    simp only [List.mem_cons, Prod.mk.injEq, List.mem_nil_iff, or_false] at h
    rcases h with ⟨rfl, rfl⟩ | ⟨rfl, rfl⟩
    · right; exact ⟨by decide, rfl⟩
    · left; exact ⟨rfl, rfl⟩)

/-- the hypotheses of `C04_partial` are satisfiable: the empty bytecode with a trivial `run` -/
example : C04_full ctx0 (fun bc => .ok bc) (fun _ => none) (fun bc => bc = {}) (fun _ (_ : Unit) => ()) :=
  C04_partial ctx0 _ _ _ _
    (by intro bc h; subst h; exact ⟨(by intro cs h; cases h), (by simp [encodeBytecodeBody])⟩)
    (by intro bc h; subst h
        exact ⟨{}, rfl, ⟨(by intro cs h; cases h), (by simp [encodeBytecodeBody])⟩, rfl, fun _ => rfl⟩)

/-- the empty script compiles (compile model, evaluated by the kernel): `RETURN 0` -/
def emptyMain : Compile.CFn :=
  { numParams := 0, numLocals := 0, variadic := false, insts := #[39, 0], sourceMap := [(0, 0)] }
theorem emptyProg : Compile.compileFile [] [] [] = .ok { main := emptyMain, constants := #[] } := rfl

/-- `CompilerOutput` is inhabited: the bytecode of the empty script meets every side condition of
    `C04_full_compiled` -/
example : CompilerOutput ctx0 [] [] none (toEnc none { main := emptyMain, constants := #[] }) := by
  have hsmall : (encodeBytecodeBody ctx0 (toEnc none { main := emptyMain, constants := #[] })).length < 2 ^ 63 := by
    have h := encodeCF_length_le (cfOfCFn emptyMain) 2 1 (by intro i hi; simp [cfOfCFn, emptyMain] at hi; subst hi; simp)
      (by intro sm hs; simp [cfOfCFn, emptyMain, mapOfList, mapSet] at hs; subst hs; simp) (by decide)
    simp only [encodeBytecodeBody, toEnc, encodeObject]
    simp
    omega
  exact ⟨[], _, emptyProg, rfl, ⟨⟨by decide, by decide⟩, by intro c hc; simp at hc⟩, hsmall⟩

/-- the hypotheses of `C04_roundtrip_run` with a module constant are satisfiable (`FixOK_module`) -/
example : FixOK (fun n => if n = [0x6d] then some [([0x66], .function [0x66])] else none)
    (.map [([0x66], .function [0x66]), (attrModuleName, .str [0x6d])]) :=
  FixOK_module _ [0x6d] [([0x66], .function [0x66])] _ (by simp) (by decide) rfl (by
    intro k v h
    simp only [List.mem_cons, Prod.mk.injEq, List.mem_nil_iff, or_false] at h
    rcases h with ⟨rfl, rfl⟩ | ⟨rfl, rfl⟩
    · right; exact ⟨by decide, rfl⟩
    · left; exact ⟨rfl, rfl⟩)

/-- a call stack meeting the hypotheses of `trace_positions_equal` -/
example : ∀ sm, (cfOfCFn emptyMain).sourceMap = some sm → (keys sm).Nodup :=
  (cfOfCFn_WF emptyMain ⟨by decide, by decide⟩).smKeys

end UgoVerif.Props.C04
