import UgoVerif.Proofs.Builtins
/-
  C19 — builtin and standard-library functions are total over their arguments.

  * `adapters_safe`, `dispatch_complete` are about the REGENERATED tables of
    `Gen/Adapters.lean` (translated from zfuncs.go, stdlib/zfuncs.go,
    stdlib/time/zfuncs.go, stdlib/time/time.go, builtins.go, the module maps and
    objects.go on every run).
  * the `*_no_panic` theorems are about the hand models of `Model/Builtins.lean`
    (tied by the `builtins` correspondence stream): every Go panic site of the body is a
    `.panic` branch of the model, library callees panic outside their documented
    domains, and the theorem shows that the guards of the body keep every call inside.

  Assumptions that appear as hypotheses (never as axioms):
    `hL`  the runtime accepts allocations of up to 2^32 elements without *panicking*
          (`make`, `Builder.Grow`; on 64-bit Go the limit is 2^48 bytes).  Whether the
          machine has that much memory is outside every model: an out-of-memory
          condition is a fatal error of the Go runtime, not a panic.
    `hS`  strings that exist are shorter than `B`, with `2*(B+1) + 2^32 ≤ makeLimit`;
    `hM`  `makeLimit ≤ MaxInt64`.
-/
namespace UgoVerif.Props.C19
open UgoVerif UgoVerif.Go UgoVerif.Gen.Adapters UgoVerif.Model.Builtins UgoVerif.Proofs.Builtins

/-! ### generated adapters and the dispatch tables -/

set_option maxRecDepth 100000 in
/-- the structural fact, by evaluation of the complete regenerated table: every index an
    adapter (or time method closure) reads is below the argument count it checked first -/
theorem adapters_table_safe : adapters.all adapterSafe = true := by decide

/-- No generated adapter and no `CallName` method of a time value indexes past the
    argument list, for every argument list (any split between args and vargs). -/
theorem adapters_safe (a : Adapter) (ha : a ∈ adapters) (c : Call) :
    (argPhase a c).isPanic = false :=
  argPhase_no_panic a (List.all_eq_true.mp adapters_table_safe a ha) c

-- non-vacuity: the table is not empty and the guard is what makes the reads safe — an
-- adapter that reads index 1 after checking one argument does panic on one argument
set_option maxRecDepth 100000 in
example : adapters.length > 90 := by decide
example : (argPhase ⟨"mutant", "", true, some 1, [0, 1], []⟩ { args := [.undefined], vargs := [] }).isPanic = true := by
  decide

/-- hand-written bodies (taking the whole `Call` / argument slice) that have a model in
    `Model/Builtins.lean` -/
def modelledHand : List String :=
  ["builtinAppendFunc", "builtinBytesFunc", "builtinGlobalsFunc", "builtinIsErrorFunc",
   "builtinPrintfFunc", "builtinPrintlnFunc", "builtinSprintfFunc", "Error.New", "RuntimeError.New",
   "pad", "replaceFunc", "newSplitFunc", "toValidUTF8Func",
   "fieldsFuncInv", "mapFuncInv", "newIndexFuncInv", "newTrimFuncInv",
   "newPrint", "newSprint", "newPrintf", "newSprintf",
   "dateFunc", "dateFuncEx", "unixFunc", "unixFuncEx"]

/-- hand-written bodies covered by the direct oracle only (scan targets, time parsing, sleeping) -/
def oracleOnlyHand : List String :=
  ["newSscan", "newSscanf", "newScanArgFunc", "parseFunc", "parseFuncEx", "sleepFunc"]

/-- typed bodies behind an adapter in which size arithmetic happens: modelled -/
def modelledTyped : List String := ["builtinMakeArrayFunc", "builtinRepeatFunc", "repeatFunc"]

/-- typed bodies behind an adapter that only wrap a Go library call or a type switch
    (they never see the argument list; their library callees are trusted on their
    documented domains and exercised by the oracle) -/
def wrapperTyped : List String :=
  ["<closure>", "inline", "ugo.Bool", "ugo.Int",
   "builtinBoolFunc", "builtinCapFunc", "builtinCharFunc", "builtinCharsFunc", "builtinContainsFunc",
   "builtinCopyFunc", "builtinDeleteFunc", "builtinErrorFunc", "builtinFloatFunc", "builtinIntFunc",
   "builtinIsArrayFunc", "builtinIsBoolFunc", "builtinIsBytesFunc", "builtinIsCallableFunc",
   "builtinIsCharFunc", "builtinIsFloatFunc", "builtinIsFunctionFunc", "builtinIsIntFunc",
   "builtinIsIterableFunc", "builtinIsMapFunc", "builtinIsStringFunc", "builtinIsSyncMapFunc",
   "builtinIsUintFunc", "builtinIsUndefinedFunc", "builtinLenFunc", "builtinSortFunc",
   "builtinSortReverseFunc", "builtinStringFunc", "builtinTypeNameFunc", "builtinUintFunc",
   "compactFunc", "containsAnyFunc", "containsCharFunc", "containsFunc", "countFunc",
   "durationHoursFunc", "durationMicrosecondsFunc", "durationMillisecondsFunc", "durationMinutesFunc",
   "durationNanosecondsFunc", "durationRoundFunc", "durationSecondsFunc", "durationStringFunc",
   "durationTruncateFunc", "equalFoldFunc", "fieldsFunc", "fixedZoneFunc", "hasPrefixFunc",
   "hasSuffixFunc", "indentFunc", "indexAnyFunc", "indexByteFunc", "indexCharFunc", "indexFunc",
   "isLocationFunc", "isTimeFunc", "joinFunc", "lastIndexAnyFunc", "lastIndexByteFunc", "lastIndexFunc",
   "loadLocationFunc", "localFunc", "marshalFunc", "marshalIndentFunc", "monthStringFunc", "noEscapeFunc",
   "noQuoteFunc", "nowFunc", "parseDurationFunc", "quoteFunc", "rawMessageFunc", "sinceFunc",
   "timeAdd", "timeAddDate", "timeAfter", "timeAppendFormat", "timeBefore", "timeEqual", "timeFormat",
   "timeIn", "timeRound", "timeSub", "timeTruncate", "titleFunc", "toLowerFunc", "toTitleFunc",
   "toUpperFunc", "trimFunc", "trimLeftFunc", "trimPrefixFunc", "trimRightFunc", "trimSpaceFunc",
   "trimSuffixFunc", "unmarshalFunc", "untilFunc", "utcFunc", "validFunc", "weekdayStringFunc",
   "zerotimeFunc"]

def adapterNamed (slotEx : Bool) (n : String) : Bool :=
  adapters.any fun a => a.name == n && a.ex == slotEx && adapterSafe a

/-- one slot (`Value` or `ValueEx`) of a dispatch entry is accounted for -/
def implOk (slotEx : Bool) : Impl → Bool
  | .adapter n body => adapterNamed slotEx n && (modelledTyped.contains body || wrapperTyped.contains body)
  | .hand b => modelledHand.contains b || oracleOnlyHand.contains b
  | .value => !slotEx
  | .absent => true

def entryOk (e : Entry) : Bool :=
  implOk false e.value && implOk true e.valueEx && !(e.value == .absent && e.valueEx == .absent)

set_option maxRecDepth 100000 in
set_option maxHeartbeats 4000000 in
/-- Every entry of `BuiltinObjects`, of the fmt / json / strings / time module maps, of the
    time method table and the `New` callables of error objects is implemented by a safe
    generated adapter of the right kind around a classified body, or by a classified
    hand-written body.  A new callable, a new body or an adapter without its guard breaks
    this obligation. -/
theorem dispatch_complete : dispatch.all entryOk = true := by decide

set_option maxRecDepth 100000 in
example : dispatch.length > 200 := by decide

/-! ### hand-written bodies -/

/-- `:makeArray` -/
theorem makeArray_no_panic (E : Env) (hL : 4294967296 ≤ E.makeLimit) (n : Int) (arg : Val) :
    (makeArray E n arg).isPanic = false := by
  unfold makeArray
  split
  · rfl
  · rename_i h0
    split
    · rfl
    · rename_i h1
      have hn : 0 < n := by omega
      have hm : n ≤ 2147483647 := by unfold maxAllocLen at h1; omega
      have hmk : goMake E n = .ok () := by
        unfold goMake
        have : ¬ (n < 0 ∨ n > (E.makeLimit : Int)) := by omega
        simp [this]
      split
      · split
        · rename_i arr hle
          have : sliceTo arr n = .ok (arr.take n.toNat) := by
            unfold sliceTo
            have : ¬ (n < 0 ∨ n > (arr.length : Int)) := by omega
            simp [this]
          rw [this]; rfl
        · rw [hmk]; rfl
      · rw [hmk]
        have : n.toNat ≠ 0 := by omega
        simp [this, Res.isPanic]

example : makeArray ⟨fun _ => none, by simp, fun _ => [], 281474976710656, fun _ => false, fun _ => false, fun _ => false, fun _ _ => .undefined⟩ 3 (.array [.bool true])
    = .ok (.array [.bool true, .undefined, .undefined]) := by rfl

theorem libRepeat_ok (E : Env) (hL : 4294967296 ≤ E.makeLimit) (s : Bytes) (count : Int)
    (h0 : 0 ≤ count) (hle : (s.length : Int) * count ≤ 4294967296) :
    ∃ r, libRepeat E s count = .ok r := by
  unfold libRepeat
  have h1 : ¬ count < 0 := by omega
  have h2 : ¬ (s.length : Int) * count > maxInt := by unfold maxInt; omega
  have h3 : ¬ (s.length : Int) * count > (E.makeLimit : Int) := by omega
  simp [h1, h2, h3]

/-- the guard of the repair: `n > 0 && count > maxAllocLen / n` is false -/
theorem guard_bound {n : Nat} {count : Int} (_h0 : 0 ≤ count)
    (hg : ¬ (n > 0 ∧ count > maxAllocLen / (n : Int))) : (n : Int) * count ≤ 2147483647 := by
  by_cases hn : n > 0
  · have : count ≤ maxAllocLen / (n : Int) := by
      have := fun h => hg ⟨hn, h⟩
      omega
    have := mul_le_of_le_div (M := maxAllocLen) hn this
    unfold maxAllocLen at this; exact this
  · have : n = 0 := by omega
    subst this; simp

/-- `repeat`: the preconditions of `make`, `strings.Repeat` and `bytes.Repeat` (non-negative
    count, no overflow of `len*count`, an allocatable size) are all guarded in the body. -/
theorem repeat_no_panic (E : Env) (hL : 4294967296 ≤ E.makeLimit) (arg : Val) (count : Int) :
    (repeatB E arg count).isPanic = false := by
  unfold repeatB
  split
  · rfl
  · rename_i hc
    have h0 : 0 ≤ count := by omega
    split
    · rfl
    · rename_i hg
      split
      · rename_i v
        have hb : (v.length : Int) * count ≤ 2147483647 := by
          apply guard_bound h0
          intro ⟨h1, h2⟩
          apply hg
          simp [repeatTooLarge, lengthOf, h1, h2]
        have hnn : 0 ≤ (v.length : Int) * count := Int.mul_nonneg (by omega) h0
        have hw : wrap64 ((v.length : Int) * count) = (v.length : Int) * count :=
          wrap64_id (by unfold minInt; omega) (by unfold maxInt; omega)
        have : goMake E (wrap64 ((v.length : Int) * count)) = .ok () := by
          rw [hw]; unfold goMake
          have : ¬ ((v.length : Int) * count < 0 ∨ (v.length : Int) * count > (E.makeLimit : Int)) := by omega
          simp [this]
        rw [this]; rfl
      · rename_i s
        have hb : (s.length : Int) * count ≤ 2147483647 := by
          apply guard_bound h0
          intro ⟨h1, h2⟩
          apply hg
          simp [repeatTooLarge, lengthOf, h1, h2]
        obtain ⟨r, hr⟩ := libRepeat_ok E hL s count h0 (by omega)
        rw [hr]; rfl
      · rename_i s
        have hb : (s.length : Int) * count ≤ 2147483647 := by
          apply guard_bound h0
          intro ⟨h1, h2⟩
          apply hg
          simp [repeatTooLarge, lengthOf, h1, h2]
        obtain ⟨r, hr⟩ := libRepeat_ok E hL s count h0 (by omega)
        rw [hr]; rfl
      · rfl

/-- The same body without the size guard (the tree before commit c895260) is refuted:
    the precondition of `strings.Repeat` is not guarded — `repeat("ab", 1<<62)` panics. -/
theorem repeat_unguarded_refuted :
    ∃ (E : Env) (arg : Val) (count : Int), 4294967296 ≤ E.makeLimit ∧ (repeatB_unrepaired E arg count).isPanic = true :=
  ⟨⟨fun _ => none, by simp, fun _ => [], 281474976710656, fun _ => false, fun _ => false, fun _ => false, fun _ _ => .undefined⟩,
   .str [97, 98], 4611686018427387904, by decide, by decide⟩

/-- strings.Repeat -/
theorem stringsRepeat_no_panic (E : Env) (hL : 4294967296 ≤ E.makeLimit) (s : Bytes) (count : Int) :
    (stringsRepeat E s count).isPanic = false := by
  unfold stringsRepeat
  split
  · rfl
  · rename_i hc
    have h0 : 0 ≤ count := by omega
    split
    · rfl
    · rename_i hg
      have hb : (s.length : Int) * count ≤ 2147483647 := guard_bound h0 (by simpa using hg)
      obtain ⟨r, hr⟩ := libRepeat_ok E hL s count h0 (by omega)
      rw [hr]; rfl

/-- `append`: `shift` tests the argument list before anything is indexed. -/
theorem append_no_panic (c : Call) : (appendB c).isPanic = false := by
  unfold appendB
  split
  · rfl
  · split
    · rfl
    · rename_i bs _
      have := appendBytes_no_panic (Call.all ‹Call›) bs 0
      revert this
      cases appendBytes bs 0 (Call.all ‹Call›) <;> simp [Res.isPanic]
    · rfl
    · rfl

/-- `bytes`: `c.Get(0)` is reached only when `c.Len() == 1`. -/
theorem bytes_no_panic (c : Call) : (bytesB c).isPanic = false := by
  unfold bytesB
  have hf : ∀ (r : Res Val), r = (match bytesLoop [] 0 c.args with
      | .ok acc => (match bytesLoop acc 0 c.vargs with
         | .ok r => .ok (.bytes r)
         | .err e => .err e
         | .panic m => .panic m)
      | .err e => .err e
      | .panic m => .panic m) → r.isPanic = false := by
    intro r hr
    subst hr
    have h1 := bytesLoop_no_panic c.args [] 0
    cases h : bytesLoop [] 0 c.args with
    | ok acc =>
      simp only
      have h2 := bytesLoop_no_panic c.vargs acc 0
      cases h' : bytesLoop acc 0 c.vargs <;> simp_all [Res.isPanic]
    | err e => rfl
    | panic m => simp [h, Res.isPanic] at h1
  simp only
  split
  · rfl
  · split
    · rename_i h1
      obtain ⟨v, hv⟩ := get_lt (c := c) (n := 0) (by omega)
      rw [hv]
      simp only
      split
      · rfl
      · exact hf _ rfl
    · exact hf _ rfl

/-- `sprintf` / `printf`: after `shift` the loop reads `size-1` arguments of a list of `size-1`. -/
theorem sprintf_no_panic (E : Env) (c : Call) : (sprintfB E c).isPanic = false := by
  unfold sprintfB
  simp only
  split
  · rfl
  · split
    · rename_i h1
      obtain ⟨v, hv⟩ := get_lt (c := c) (n := 0) (by omega)
      rw [hv]; rfl
    · rename_i h0 h1
      cases hs : c.shift with
      | none => have := shift_none hs; omega
      | some p =>
        obtain ⟨format, c'⟩ := p
        have hl := shift_len hs
        simp only
        have := getRange_no_panic c' (c.len - 1) 0 (by omega)
        revert this
        cases getRange c' 0 (c.len - 1) <;> simp [Res.isPanic]

/-- `println` -/
theorem println_no_panic (c : Call) : (printlnB c).isPanic = false := by
  unfold printlnB
  simp only
  split
  · rfl
  · split
    · obtain ⟨v, hv⟩ := get_lt (c := c) (n := 0) (by omega)
      rw [hv]; rfl
    · have := getRange_no_panic c c.len 0 (by omega)
      revert this
      cases getRange c 0 c.len <;> simp [Res.isPanic]

/-- `isError` -/
theorem isError_no_panic (E : Env) (c : Call) : (isErrorB E c).isPanic = false := by
  unfold isErrorB
  split
  · obtain ⟨v, hv⟩ := get_lt (c := c) (n := 0) (by omega)
    rw [hv]; rfl
  · split
    · obtain ⟨v, hv⟩ := get_lt (c := c) (n := 0) (by omega)
      obtain ⟨t, ht⟩ := get_lt (c := c) (n := 1) (by omega)
      rw [hv]; simp only
      split
      · rw [ht]; simp only; split <;> rfl
      · rfl
    · rfl

/-- `globals` (after the repair) -/
theorem globals_no_panic (E : Env) (c : Call) : (globalsB E c).isPanic = false := by
  unfold globalsB; split <;> rfl

/-- `New` of error objects: `args[0]` is read only when `len(args) >= 1`. -/
theorem errorNew_no_panic (E : Env) (args : List Val) : (errorNewB E args).isPanic = false := by
  unfold errorNewB
  match args with
  | [] => rfl
  | [_] => rfl
  | _ :: _ :: _ => rfl

set_option maxRecDepth 100000 in
/-- strings `PadLeft` / `PadRight`: the argument indices, the division by `len(padWith)`,
    `Builder.Grow(padLen)`, `strings.Repeat(padWith, r)` and the slice `[:diff]` are all
    inside their domains — `padLen ≤ len(s)` is tested before `padLen - len(s)` is formed, so the
    subtraction cannot wrap, and `padLen` is bounded by the size limit. -/
theorem pad_no_panic (E : Env) (B : Nat) (hS : ∀ v, (E.toStr v).length ≤ B)
    (hL : 2 * (B + 1) + 4294967296 ≤ E.makeLimit) (hM : (E.makeLimit : Int) ≤ maxInt)
    (c : Call) (left : Bool) : (pad E c left).isPanic = false := by
  unfold pad
  simp only
  split
  · rfl
  · rename_i hsz
    obtain ⟨a0, h0⟩ := get_lt (c := c) (n := 0) (by omega)
    obtain ⟨a1, h1⟩ := get_lt (c := c) (n := 1) (by omega)
    rw [h0]; simp only; rw [h1]; simp only
    cases hi : E.toGoInt a1 with
    | none => rfl
    | some padLen =>
      simp only
      split
      · rfl
      · rename_i hbig
        split
        · rfl
        · rename_i hle
          have hp : padLen ≤ 2147483647 := by unfold maxAllocLen at hbig; omega
          have hdw : wrap64 (padLen - ((E.toStr a0).length : Int)) = padLen - ((E.toStr a0).length : Int) :=
            wrap64_id (by unfold minInt; omega) (by unfold maxInt; omega)
          generalize hg : wrap64 (padLen - ((E.toStr a0).length : Int)) = diff
          have hdv : diff = padLen - ((E.toStr a0).length : Int) := by rw [← hg]; exact hdw
          split
          · obtain ⟨a2, h2⟩ := get_lt (c := c) (n := 2) (by omega)
            rw [h2]; simp only
            split
            · rfl
            · rename_i hne
              have q2 : 0 ≤ padLen := by omega
              have q3 : 0 < diff := by omega
              have q4 : diff ≤ 2147483647 := by omega
              have q5 : 0 < (E.toStr a2).length := by omega
              exact padCont_no_panic E (B + 1) hL hM (E.toStr a0) padLen diff left (E.toStr a2) q2 hp q3 q4 q5
                (Nat.le_succ_of_le (hS a2))
          · have q2 : 0 ≤ padLen := by omega
            have q3 : 0 < diff := by omega
            have q4 : diff ≤ 2147483647 := by omega
            have q5 : 0 < ([32] : Bytes).length := Nat.zero_lt_one
            have q6 : ([32] : Bytes).length ≤ B + 1 := Nat.le_add_left 1 B
            exact padCont_no_panic E (B + 1) hL hM (E.toStr a0) padLen diff left [32] q2 hp q3 q4 q5 q6

-- non-vacuity of the hypotheses of `pad_no_panic`: strings up to 2^40 bytes, Go's 2^48 limit
example : ∃ (E : Env) (B : Nat), (∀ v, (E.toStr v).length ≤ B) ∧ 2 * (B + 1) + 4294967296 ≤ E.makeLimit ∧ (E.makeLimit : Int) ≤ maxInt :=
  ⟨⟨fun _ => none, by simp, fun _ => [97], 281474976710656, fun _ => false, fun _ => false, fun _ => false, fun _ _ => .undefined⟩,
   1099511627776, by simp, by decide, by decide⟩

/-- strings `Replace`, `Split`, `SplitAfter` -/
theorem optIntTail_no_panic (E : Env) (c : Call) (lo : Nat) (n p : String) :
    (optIntTail E c lo n p).isPanic = false := by
  unfold optIntTail
  simp only
  split
  · rfl
  · rename_i hsz
    have hr := getRange_no_panic c lo 0 (by omega)
    cases hg : getRange c 0 lo with
    | panic m => simp [hg, Res.isPanic] at hr
    | err e => rfl
    | ok strs =>
      simp only
      split
      · obtain ⟨v, hv⟩ := get_lt (c := c) (n := lo) (by omega)
        rw [hv]; simp only; split <;> rfl
      · rfl

theorem replace_no_panic (E : Env) (c : Call) : (replaceB E c).isPanic = false := optIntTail_no_panic ..
theorem split_no_panic (E : Env) (c : Call) : (splitB E c).isPanic = false := optIntTail_no_panic ..

/-- strings `ToValidUTF8` -/
theorem toValidUTF8_no_panic (E : Env) (c : Call) : (toValidUTF8B E c).isPanic = false := by
  unfold toValidUTF8B
  simp only
  split
  · rfl
  · obtain ⟨v, hv⟩ := get_lt (c := c) (n := 0) (by omega)
    rw [hv]; simp only
    split
    · obtain ⟨r, hr⟩ := get_lt (c := c) (n := 1) (by omega)
      rw [hr]; rfl
    · rfl

/-- strings `*Func` (FieldsFunc, IndexFunc, LastIndexFunc, Map, Trim*Func): `stringInvoke`
    with (sidx, cidx) = (0, 1) or (1, 0) -/
theorem stringInvoke_no_panic (E : Env) (c : Call) (sidx cidx : Nat) (hs : sidx < 2) (hc : cidx < 2) :
    (stringInvoke E c sidx cidx).isPanic = false := by
  unfold stringInvoke
  split
  · rfl
  · obtain ⟨v, hv⟩ := get_lt (c := c) (n := sidx) (by omega)
    obtain ⟨w, hw⟩ := get_lt (c := c) (n := cidx) (by omega)
    rw [hv]; simp only; rw [hw]; simp only
    split
    · rfl
    · split <;> rfl

/-- fmt `Print`, `Println`, `Sprint`, `Sprintln` -/
theorem fmtPrint_no_panic (E : Env) (c : Call) : (fmtPrint E c).isPanic = false := by
  unfold fmtPrint toPrintArgs
  have := getRange_no_panic c (c.len - 0) 0 (by omega)
  revert this
  cases getRange c 0 (c.len - 0) <;> simp [Res.isPanic]

/-- fmt `Printf`, `Sprintf` -/
theorem fmtPrintf_no_panic (E : Env) (c : Call) : (fmtPrintf E c).isPanic = false := by
  unfold fmtPrintf toPrintArgs
  split
  · rfl
  · have hr := getRange_no_panic c (c.len - 1) 1 (by omega)
    cases hg : getRange c 1 (c.len - 1) with
    | panic m => simp [hg, Res.isPanic] at hr
    | err e => rfl
    | ok vs =>
      obtain ⟨v, hv⟩ := get_lt (c := c) (n := 0) (by omega)
      simp only; rw [hv]; rfl

/-- time `Unix` -/
theorem unix_no_panic (E : Env) (c : Call) : (unixB E c).isPanic = false := by
  unfold unixB
  simp only
  split
  · rfl
  · obtain ⟨v, hv⟩ := get_lt (c := c) (n := 0) (by omega)
    rw [hv]; simp only
    split
    · rfl
    · split
      · obtain ⟨w, hw⟩ := get_lt (c := c) (n := 1) (by omega)
        rw [hw]; simp only; split <;> rfl
      · rfl

theorem dateLoop_no_panic (E : Env) (c : Call) (isLoc : Val → Bool) :
    ∀ (k i : Nat), i + k ≤ c.len → (dateLoop E c isLoc i k).isPanic = false
  | 0, _, _ => rfl
  | k + 1, i, h => by
    obtain ⟨v, hv⟩ := get_lt (c := c) (n := i) (by omega)
    unfold dateLoop
    rw [hv]; simp only
    split
    · rename_i hi
      have : ¬ 7 ≤ i := by omega
      simp only [this, if_false]
      split
      · rfl
      · exact dateLoop_no_panic E c isLoc k (i + 1) (by omega)
    · split
      · exact dateLoop_no_panic E c isLoc k (i + 1) (by omega)
      · rfl

/-- time `Date`: the index into the `[7]int` array is guarded by `i < 7`. -/
theorem date_no_panic (E : Env) (c : Call) (isLoc : Val → Bool) : (dateB E c isLoc).isPanic = false := by
  unfold dateB
  simp only
  split
  · rfl
  · have := dateLoop_no_panic E c isLoc c.len 0 (by omega)
    revert this
    cases dateLoop E c isLoc 0 c.len <;> simp [Res.isPanic]

end UgoVerif.Props.C19
