import UgoVerif.Proofs.RelocConvMain
import UgoVerif.Proofs.RelocPos
/-
  C11, behavioural half on the VM model (`VM/*.lean`): a program in the version-1 layout run by
  the version-1 reading of the VM (`Spec/RelocVM.lean`: `stepW false`, `runFromW false` — the VM model
  with the operands of JUMP, JUMPFALSY, ANDJUMP, ORJUMP, SETUPTRY read 2 bytes wide) and its
  conversion (`convCodes` = `convFn` on every function) run by the VM model return the same outcome.

  * `vm_equivariant`  — one instruction (`step`, all 44 opcodes, `throw`, calls, returns): the VM-model
    counterpart of `Spec.Reloc.Machine.Equivariant`, for several functions with one offset map each
    (the abstract `Machine` of `Spec/Reloc.lean` is a one-function, instruction-level machine and
    cannot hold the byte-level, multi-frame VM model; the relation `Proofs/RelocRel.lean: R` is the
    relocation relation of DESIGN §5 spelled out on `VM.State`).
  * `reloc_vm`        — run level, for any pair of programs related by `CodeRel` (in particular a
    constant shift `φ = (· + d)` of a function in the current layout: `wide = true`).
  * `C11_vm`          — the instance for the converter, from two new VMs.
  * `C11_positions`   — the converted source map answers `SourcePos` like the original (`hpos` of
    `Props.C11.C11_partial`) when its keys are instruction offsets.
-/
set_option linter.unusedVariables false
namespace UgoVerif.Props.C11VM
open UgoVerif UgoVerif.Go UgoVerif.VM UgoVerif.VM.Reloc
open UgoVerif.Model.Bytecode UgoVerif.Model.V1 UgoVerif.Spec.Reloc

/-- **Equivariance of the VM model, one instruction.**  `P` gives, per function index, the source
    stream (layout `P.wide`), the target stream (current layout), the offset map `P.Φ c` and the
    instruction offsets `P.BB c` (`P.OK`: they are related by `CodeRel`).  From two states related by
    the relocation relation at an instruction boundary (`RB`: equal except code, `ip ↦ Φ ip`, saved
    ips of the frames, handler catch/finally/returnTo addresses), one instruction of the source VM
    and one `VM.step` end the same way — same `Ctl`, or the same Go panic / model exit — in related
    states; related at an instruction boundary again when the loop goes on. -/
theorem vm_equivariant (P : Params) (hP : P.OK) (F : FloatOps) (s t : State) (h : RB P s t) :
    (∃ r s' t', exec (stepW P.wide F) s = (.ok r, s') ∧ exec (step F) t = (.ok r, t') ∧
        RM P s' t' ∧ (r = .next → RB P s' t')) ∨
    (∃ e s' t', exec (stepW P.wide F) s = (.error e, s') ∧ exec (step F) t = (.error e, t') ∧ RM P s' t') := by
  rcases (vm_step hP F).elim h with ⟨a, b, s', t', h1, h2, hab, hRM, hRB⟩ | ⟨e, s', t', h1, h2, hE⟩
  · subst hab
    exact Or.inl ⟨a, s', t', h1, h2, hRM, hRB⟩
  · exact Or.inr ⟨e, s', t', h1, h2, hE⟩

/-- in the current layout the source VM is the VM model itself -/
theorem runFromW_true (F : FloatOps) (fuel : Nat) (g : V) (args : List V) (s0 : State) :
    runFromW true F fuel g args s0 = runFrom F fuel g args s0 := by
  unfold runFromW
  rw [stepW_true]
  exact runFromG_step F fuel g args s0

/-- **Run-level relocation theorem** for any two programs related by `CodeRel` (`P.OK`), from two VMs
    that hold the same data and no frame in use (`D`; two new VMs: `D_new`): same outcome of `Run`
    for every fuel, globals, arguments. -/
theorem reloc_vm (P : Params) (hP : P.OK) (F : FloatOps) (fuel : Nat) (g : V) (args : List V) (s0 t0 : State)
    (h : D P s0 t0) : (runFromW P.wide F fuel g args s0).1 = (runFrom F fuel g args t0).1 :=
  vm_reloc hP F fuel g args h

/-- **C11 on the VM model.**  `cs` = the functions of a version-1 program (every function decodes in
    the version-1 table, its jump / try operands are instruction offsets and it ends with RETURN:
    `WFProg`), `heap`/`consts`/`mainFn` the rest of the bytecode (function cells refer to functions of
    `cs`).  A new VM reading `cs` in the version-1 layout and a new VM (the VM model) over the
    converted functions `convCodes cs` return the same outcome of `Run` — value, run-time error,
    escaping Go panic, model exit or out-of-fuel — for every float semantics, fuel, globals and
    arguments. -/
theorem C11_vm (F : FloatOps) (cs : Array Code) (hwf : WFProg cs) (heap : Array Cell) (consts : Array V)
    (mainFn : Addr) (nm : Nat) (hfn : ∀ (a : Nat) k fr, heap[a]? = some (Cell.fn k fr) → k < cs.size)
    (fuel : Nat) (g : V) (args : List V) :
    (runFromW false F fuel g args (newState cs heap consts mainFn nm)).1 =
      (runFrom F fuel g args (newState (convCodes cs) heap consts mainFn nm)).1 :=
  vm_reloc (P := convParams cs) (convParams_OK cs hwf) F fuel g args
    (D_new (convParams cs) heap consts mainFn nm (fun a k fr hk => convParams_entry cs hwf k (hfn a k fr hk)))

/-- the hypotheses of `C11_vm` are satisfiable: `JUMPFALSY 8; CONSTANT 0; RETURN 1; NULL; RETURN 1` -/
example : WFProg #[{ insts := #[13, 0, 8, 1, 0, 0, 39, 1, 21, 39, 1], numParams := 0, numLocals := 0, variadic := false }] := by
  intro k hk
  have hk0 : k = 0 := by
    have : k < 1 := hk
    omega
  subst hk0
  exact ⟨[⟨0, 13, [8]⟩, ⟨3, 1, [0]⟩, ⟨6, 39, [1]⟩, ⟨8, 21, []⟩, ⟨9, 39, [1]⟩], by decide,
    ⟨by decide, ⟨[⟨0, 13, [8]⟩, ⟨3, 1, [0]⟩, ⟨6, 39, [1]⟩, ⟨8, 21, []⟩], ⟨9, 39, [1]⟩, rfl, rfl⟩⟩⟩

/-- and the conversion of that function has the jump target moved from 8 to 10 -/
example : (convCode { insts := #[13, 0, 8, 1, 0, 0, 39, 1, 21, 39, 1], numParams := 0, numLocals := 0, variadic := false }).insts =
    #[13, 0, 0, 0, 10, 1, 0, 0, 39, 1, 21, 39, 1] := by decide

/-- **Positions** (`hpos` of `Props.C11.C11_partial`): when the keys of the source map are instruction
    offsets (the compiler records `SourceMap[len(instructions)]` before emitting an instruction), the
    converted source map answers `SourcePos` at the relocated offset like the original at the
    original offset — for every offset, also inside an instruction and behind the stream. -/
theorem C11_positions (ins : Bytes) (sm : SrcMap) (is : List Instr) (hd : decodeV1 ins = some is)
    (hkeys : ∀ k p, (k, p) ∈ sm → ∃ x ∈ is, x.off = k)
    (out : Bytes) (m : SrcMap) (hc : convFn ins sm = .ok (out, m)) :
    ∀ o, srcPos m (newOff ins o) = srcPos sm o :=
  UgoVerif.Proofs.RelocPos.srcPos_conv ins sm is hd hkeys out m hc

/-- **Full statement on the VM model** (not proved): `C11_vm` for every decodable version-1 program,
    without the well-formedness `WF1` of its functions.  `C11_vm` is the part proved; what `WF1`
    excludes are streams whose jumps go into the middle of an instruction or behind the stream and
    functions that run off their end — there the Go index panic of the instruction fetch carries the
    stream length in its text, which differs between the layouts. -/
def C11_vm_full : Prop :=
  ∀ (F : FloatOps) (cs : Array Code), (∀ k, k < cs.size → ∃ is, decodeV1 (cs[k]!).insts.toList = some is) →
    ∀ (heap : Array Cell) (consts : Array V) (mainFn : Addr) (nm : Nat),
      (∀ (a : Nat) k fr, heap[a]? = some (Cell.fn k fr) → k < cs.size) →
      ∀ (fuel : Nat) (g : V) (args : List V),
        (runFromW false F fuel g args (newState cs heap consts mainFn nm)).1 =
          (runFrom F fuel g args (newState (convCodes cs) heap consts mainFn nm)).1

end UgoVerif.Props.C11VM
