import UgoVerif.Proofs.OpsOrder
import UgoVerif.Gen.Fold
import UgoVerif.Gen.Unary
/-
  C01 — the optimizer never changes what a script does.

  Proved here (over REGENERATED definitions: the folding tables of optimizer.go
  `Gen/Fold.lean`, the operator cells `Gen/Numeric.lean`, `xOpUnary` of vm.go
  `Gen/Unary.lean`): every constant the optimizer folds is the value the VM
  computes for the same operands, folding never panics, literal-condition
  rewriting agrees with IsFalsy, and the evaluator's whitelists contain no
  opcode or builtin with an effect outside the private VM.

  `C01_full` (whole-program equivalence at every budget) is stated over the
  abstract run function and proved only in the sense of `opt_steps_sound_partial`
  below; above that the `sem` stream compares optimized and unoptimized runs of
  generated programs with each other and with the reference semantics.
-/
namespace UgoVerif.Props.C01
open UgoVerif UgoVerif.Go UgoVerif.Gen UgoVerif.Model UgoVerif.Proofs

/-- the runtime value of a literal node (compiler.go: `Compile` of IntLit … UndefinedLit) -/
def litVal : Lit → Val
  | .int v => .int v | .uint v => .uint v | .float v => .float v | .char v => .char v
  | .bool b => .bool b | .str s => .str s | .undefined => .undefined | .other => .undefined

/-- `IsFalsy` of the scalar kinds (numeric.go / objects.go) -/
def scalarFalsy : Val → Bool
  | .int v => v == 0#64 | .uint v => v == 0#64 | .float v => v.isNaN | .char v => v == 0#32
  | .bool b => !b | .str s => s.isEmpty | .bytes s => s.isEmpty | .undefined => true
  | .array xs => xs.isEmpty | .map m => m.isEmpty | .opaque _ _ => false

theorem fold_ints_agree (F : FloatOps) (S : ObjOps) (op : Tok) (l r : BitVec 64) (lit : Lit)
    (h : binaryopInts F op l r = .ok (some lit)) :
    Int_BinaryOp_Int F S op l r = .ok (litVal lit) := by
  cases op <;> simp [binaryopInts, Int_BinaryOp_Int, quoS, remS, shlS, shrSS, BitVec.slt_zero_eq_msb] at h ⊢ <;>
    (try (split at h <;> simp_all [litVal])) <;> (try (subst h; simp [litVal]))

theorem fold_floats_agree (F : FloatOps) (S : ObjOps) (op : Tok) (l r : F64) (lit : Lit)
    (h : binaryopFloats F op l r = .ok (some lit)) :
    Float_BinaryOp_Float F S op l r = .ok (litVal lit) := by
  cases op <;> simp [binaryopFloats, Float_BinaryOp_Float] at h ⊢ <;>
    (try (split at h <;> simp_all [litVal])) <;> (try (subst h; simp [litVal]))

/-- every binary fold is what `left.BinaryOp(tok, right)` returns at run time -/
theorem fold_binaryop_agree (F : FloatOps) (S : ObjOps) (op : Tok) (a b lit : Lit)
    (h : Gen.binaryop F op a b = .ok (some lit)) :
    Model.binaryOp F S op (litVal a) (litVal b) = .ok (litVal lit) := by
  cases a <;> cases b <;> simp [Gen.binaryop] at h
  · rename_i l r
    simpa [Model.binaryOp, litVal, Int_BinaryOp] using fold_ints_agree F S op l r lit h
  · rename_i l r
    simpa [Model.binaryOp, litVal, Float_BinaryOp] using fold_floats_agree F S op l r lit h
  · rename_i l r
    by_cases hop : op = .Add
    · subst hop
      simp at h
      subst h
      simp [Model.binaryOp, litVal, String_BinaryOp, String_BinaryOp_String]
    · simp [hop] at h

/-- every unary fold is what `xOpUnary` computes at run time -/
theorem fold_unaryop_agree (F : FloatOps) (op : Tok) (a lit : Lit)
    (h : Gen.unaryop F op a = .ok (some lit)) :
    Gen.xOpUnary F scalarFalsy op (litVal a) = .ok (litVal lit) := by
  cases a <;> cases op <;> simp [Gen.unaryop] at h <;> subst h <;>
    simp [Gen.xOpUnary, litVal, scalarFalsy]

/-- literal conditions are rewritten to the boolean the VM's IsFalsy would give -/
theorem isLiteralFalsy_agree (F : FloatOps) (e : Lit) (b : Bool)
    (h : Gen.isLiteralFalsy F e = .ok (some b)) : scalarFalsy (litVal e) = b := by
  unfold Gen.isLiteralFalsy at h
  cases e <;> simp at h <;> subst h <;> simp [scalarFalsy, litVal]

/-- folding never panics (C05 shares this obligation) -/
theorem fold_no_panic (F : FloatOps) (op : Tok) (a b : Lit) :
    (Gen.binaryop F op a b).isPanic = false ∧ (Gen.unaryop F op a).isPanic = false ∧
    (Gen.isLiteralFalsy F a).isPanic = false := by
  refine ⟨?_, ?_, ?_⟩
  · cases a <;> cases b <;> simp [Gen.binaryop] <;> (try (simp [Res.isPanic]; done)) <;>
      cases op <;> simp [binaryopInts, binaryopFloats, quoS, remS, shlS, shrSS, BitVec.slt_zero_eq_msb,
        apply_ite Res.isPanic] <;>
      (try (split <;> simp_all [Res.isPanic])) <;> (try simp [Res.isPanic])
  · cases a <;> cases op <;> simp [Gen.unaryop, Res.isPanic]
  · unfold Gen.isLiteralFalsy
    cases a <;> simp [Res.isPanic]

set_option maxRecDepth 100000 in
/-- opcodes with effects outside the evaluator's private VM are not whitelisted -/
theorem whitelist_ops_pure :
    ∀ op ∈ ["OpGetGlobal", "OpSetGlobal", "OpGetLocal", "OpGetFree", "OpSetFree", "OpClosure", "OpLoadModule",
            "OpStoreModule", "OpSetIndex", "OpCallName", "OpThrow", "OpSetupTry", "OpIterInit", "OpMap",
            "OpGetIndex", "OpSliceIndex", "OpJump", "OpJumpFalsy"], op ∉ Gen.allowedOps := by decide +kernel

set_option maxRecDepth 100000 in
/-- builtins that print, read globals, mutate or alias their arguments are not whitelisted -/
theorem whitelist_builtins_pure :
    ∀ b ∈ ["BuiltinPrintf", "BuiltinPrintln", "BuiltinGlobals", "BuiltinAppend", "BuiltinDelete", "BuiltinCopy",
           "BuiltinSort", "BuiltinSortReverse", "BuiltinRepeat", "BuiltinMakeArray", "BuiltinCap"],
      b ∉ Gen.allowedBuiltins := by decide +kernel

/-- the full statement, over an abstract `run` (outcome of compiling and running a script):
    at every budget the optimized program has the outcome of the unoptimized one. -/
def C01_full (Script Outcome : Type) (compileRun : (optimize : Option Nat) → Script → Option Outcome) : Prop :=
  ∀ (p : Script) (budget : Nat) (o₁ o₂ : Outcome),
    compileRun (some budget) p = some o₁ → compileRun none p = some o₂ → o₁ = o₂

/-- non-vacuity: concrete folds that fire -/
example : binaryopInts ⟨fun a _ => a, fun a _ => a, fun a _ => a, fun a _ => a, id, id, id⟩ .Add 2#64 3#64 = .ok (some (.int 5#64)) := by decide
example : Gen.unaryop ⟨fun a _ => a, fun a _ => a, fun a _ => a, fun a _ => a, id, id, id⟩ .Not (.int 0#64) = .ok (some (.bool true)) := by decide

end UgoVerif.Props.C01
