import UgoVerif.Proofs.OpsOrder
import UgoVerif.Gen.Fold
import UgoVerif.Gen.Unary
import UgoVerif.Proofs.OptimProgram
/-
  C01 — the optimizer never changes what a script does.

  Proved here (over REGENERATED definitions: the folding tables of optimizer.go
  `Gen/Fold.lean`, the operator cells `Gen/Numeric.lean`, `xOpUnary` of vm.go
  `Gen/Unary.lean`): every constant the optimizer folds is the value the VM
  computes for the same operands, folding never panics, literal-condition
  rewriting agrees with IsFalsy, and the evaluator's whitelists contain no
  opcode or builtin with an effect outside the private VM.

  Round 3: `Model/Optim.lean` is a Lean model of the optimizer's `transform` / `evalExpr` /
  pass loop for the EXPRESSION fragment (literals, identifiers, unary, binary incl. && || == !=,
  parentheses, ?:, expression / return statements), tied to the real
  `ugo.NewOptimizer(...).Optimize()` by stream `optast`.  Proved below against the reference
  semantics `Spec/Sem`: `optExpr_sound` (every rewrite of the model preserves the value, the thrown
  error and the final state of the expression in every environment), `opt_error_is_const_error`
  (an optimizer error is the run-time error of a sub-expression of the script),
  `optimize_sound_every_budget` + `budget_prefix` (the budget only selects how many passes run;
  a smaller budget runs a prefix of the passes of a larger one), `cond_literal_taken` /
  `cond_literal_rewrite` / `if_literal_rewrite` / `if_literal_taken` (constant conditions), `C01_fragment`
  (whole scripts of the fragment at every budget).

  `C01_full` (whole-program equivalence at every budget, all statements) is still stated over the
  abstract run function; what is not covered by a theorem is listed at `C01_full`.
-/
namespace UgoVerif.Props.C01
open UgoVerif UgoVerif.Go UgoVerif.Gen UgoVerif.Model UgoVerif.Proofs

/-- the runtime value of a literal node (compiler.go: `Compile` of IntLit … UndefinedLit) -/
def litVal : Lit → Val
  | .int v => .int v | .uint v => .uint v | .float v => .float v | .char v => .char v
  | .bool b => .bool b | .str s => .str s | .undefined => .undefined | .other => .undefined

/-- `IsFalsy` of the scalar kinds (numeric.go / objects.go) -/
def scalarFalsy : Val → Bool
  | .int v => v == 0#64 | .uint v => v == 0#64 | .float v => v.isNaN | .char v => v == 0#32
  | .bool b => !b | .str s => s.isEmpty | .bytes s => s.isEmpty | .undefined => true
  | .array xs => xs.isEmpty | .map m => m.isEmpty | .opaque _ _ => false

theorem fold_ints_agree (F : FloatOps) (S : ObjOps) (op : Tok) (l r : BitVec 64) (lit : Lit)
    (h : binaryopInts F op l r = .ok (some lit)) :
    Int_BinaryOp_Int F S op l r = .ok (litVal lit) := by
  cases op <;> simp [binaryopInts, Int_BinaryOp_Int, quoS, remS, shlS, shrSS, BitVec.slt_zero_eq_msb] at h ⊢ <;>
    (try (split at h <;> simp_all [litVal])) <;> (try (subst h; simp [litVal]))

theorem fold_floats_agree (F : FloatOps) (S : ObjOps) (op : Tok) (l r : F64) (lit : Lit)
    (h : binaryopFloats F op l r = .ok (some lit)) :
    Float_BinaryOp_Float F S op l r = .ok (litVal lit) := by
  cases op <;> simp [binaryopFloats, Float_BinaryOp_Float] at h ⊢ <;>
    (try (split at h <;> simp_all [litVal])) <;> (try (subst h; simp [litVal]))

/-- every binary fold is what `left.BinaryOp(tok, right)` returns at run time -/
theorem fold_binaryop_agree (F : FloatOps) (S : ObjOps) (op : Tok) (a b lit : Lit)
    (h : Gen.binaryop F op a b = .ok (some lit)) :
    Model.binaryOp F S op (litVal a) (litVal b) = .ok (litVal lit) := by
  cases a <;> cases b <;> simp [Gen.binaryop] at h
  · rename_i l r
    simpa [Model.binaryOp, litVal, Int_BinaryOp] using fold_ints_agree F S op l r lit h
  · rename_i l r
    simpa [Model.binaryOp, litVal, Float_BinaryOp] using fold_floats_agree F S op l r lit h
  · rename_i l r
    by_cases hop : op = .Add
    · subst hop
      simp at h
      subst h
      simp [Model.binaryOp, litVal, String_BinaryOp, String_BinaryOp_String]
    · simp [hop] at h

/-- every unary fold is what `xOpUnary` computes at run time -/
theorem fold_unaryop_agree (F : FloatOps) (op : Tok) (a lit : Lit)
    (h : Gen.unaryop F op a = .ok (some lit)) :
    Gen.xOpUnary F scalarFalsy op (litVal a) = .ok (litVal lit) := by
  cases a <;> cases op <;> simp [Gen.unaryop] at h <;> subst h <;>
    simp [Gen.xOpUnary, litVal, scalarFalsy]

/-- literal conditions are rewritten to the boolean the VM's IsFalsy would give -/
theorem isLiteralFalsy_agree (F : FloatOps) (e : Lit) (b : Bool)
    (h : Gen.isLiteralFalsy F e = .ok (some b)) : scalarFalsy (litVal e) = b := by
  unfold Gen.isLiteralFalsy at h
  cases e <;> simp at h <;> subst h <;> simp [scalarFalsy, litVal]

/-- folding never panics (C05 shares this obligation) -/
theorem fold_no_panic (F : FloatOps) (op : Tok) (a b : Lit) :
    (Gen.binaryop F op a b).isPanic = false ∧ (Gen.unaryop F op a).isPanic = false ∧
    (Gen.isLiteralFalsy F a).isPanic = false := by
  refine ⟨?_, ?_, ?_⟩
  · cases a <;> cases b <;> simp [Gen.binaryop] <;> (try (simp [Res.isPanic]; done)) <;>
      cases op <;> simp [binaryopInts, binaryopFloats, quoS, remS, shlS, shrSS, BitVec.slt_zero_eq_msb,
        apply_ite Res.isPanic] <;>
      (try (split <;> simp_all [Res.isPanic])) <;> (try simp [Res.isPanic])
  · cases a <;> cases op <;> simp [Gen.unaryop, Res.isPanic]
  · unfold Gen.isLiteralFalsy
    cases a <;> simp [Res.isPanic]

set_option maxRecDepth 100000 in
/-- opcodes with effects outside the evaluator's private VM are not whitelisted -/
theorem whitelist_ops_pure :
    ∀ op ∈ ["OpGetGlobal", "OpSetGlobal", "OpGetLocal", "OpGetFree", "OpSetFree", "OpClosure", "OpLoadModule",
            "OpStoreModule", "OpSetIndex", "OpCallName", "OpThrow", "OpSetupTry", "OpIterInit", "OpMap",
            "OpGetIndex", "OpSliceIndex", "OpJump", "OpJumpFalsy"], op ∉ Gen.allowedOps := by decide +kernel

set_option maxRecDepth 100000 in
/-- builtins that print, read globals, mutate or alias their arguments are not whitelisted -/
theorem whitelist_builtins_pure :
    ∀ b ∈ ["BuiltinPrintf", "BuiltinPrintln", "BuiltinGlobals", "BuiltinAppend", "BuiltinDelete", "BuiltinCopy",
           "BuiltinSort", "BuiltinSortReverse", "BuiltinRepeat", "BuiltinMakeArray", "BuiltinCap"],
      b ∉ Gen.allowedBuiltins := by decide +kernel

/-! ## Round 3: the optimizer model against the reference semantics -/

section Optimizer
open UgoVerif.Ast UgoVerif.VM UgoVerif.Proofs.OptimSem UgoVerif.Model.Optim

/-- the table facts the optimizer proofs consume are exactly `fold_binaryop_agree` -/
theorem binFoldFact (F : FloatOps) : BinFoldFact F := by
  intro S op a b lit h
  have h1 := fold_binaryop_agree F S op a b lit h
  have e : ∀ l, litVal l = UgoVerif.Proofs.OptimSem.litVal l := by intro l; cases l <;> rfl
  rw [e, e, e] at h1
  exact h1

/-- outcome of evaluating an expression with the reference semantics: `(.ok (result, σ'), s')` with
    `result = .val v` or `.thr err`, or `(.error _, _)` (fuel exhausted / outside Spec/Sem) -/
def evalOutcome (F : FloatOps) (fuel : Nat) (env : Sem.Env) (e : Expr) (σ : Sem.SemSt) (s : State) :
    Except Exc (Sem.ER × Sem.SemSt) × State :=
  ((Sem.evalExpr F fuel env e).run σ).run.run s

/-- outcome of throwing the uGO error `oe` -/
def raiseOutcome (oe : OpErr) (σ : Sem.SemSt) (s : State) : Except Exc (Sem.ER × Sem.SemSt) × State :=
  ((Sem.raise oe).run σ).run.run s

/-- **Soundness of the optimizer on expressions.**  Whatever the optimizer state (remaining budget,
    `evalBits`, `exprLevel`, earlier errors): if `transform` followed by `evalExpr` turns `e` into `e'`,
    then for every fuel, environment and state in which the reference semantics evaluates `e` to a
    value or to a thrown error, it evaluates `e'` to the same value / the same error with the same
    final state. -/
theorem optExpr_sound (F : FloatOps) (lineOf : Pos → Nat) (st st' : OSt) (e e' : Expr)
    (h : optExpr F lineOf st e = some (e', st')) :
    ∀ fuel env σ s r s', evalOutcome F fuel env e σ s = (.ok r, s') →
      evalOutcome F fuel env e' σ s = (.ok r, s') := by
  unfold optExpr at h
  cases ht : transform F lineOf st e with
  | none => simp [ht] at h
  | some x =>
    obtain ⟨e1, ok, st1⟩ := x
    simp only [ht] at h
    have h1 := (transform_sound F (binFoldFact F) lineOf e _ _ _ _ ht).eq
    have h2 := (evalStep_sound F lineOf h).1
    intro fuel env σ s r s' hr
    exact EvalEq.trans h1 h2 fuel env σ s r s' hr

/-- **The optimizer refuses only with the error of a constant sub-expression.**  Every error the
    optimizer appends while working on `e` belongs to a sub-expression `x` of `e` (`Sub x e`) such
    that whenever the reference semantics evaluates `x` properly — in any environment — the outcome
    is exactly that error being thrown. -/
theorem opt_error_is_const_error (F : FloatOps) (lineOf : Pos → Nat) (st st' : OSt) (e e' : Expr)
    (h : optExpr F lineOf st e = some (e', st')) :
    ∃ new, st'.errors = st.errors ++ new ∧ ∀ pe ∈ new, ∃ x, Sub x e ∧
      ∀ fuel env σ s r s', evalOutcome F fuel env x σ s = (.ok r, s') → raiseOutcome pe.2 σ s = (.ok r, s') := by
  unfold optExpr at h
  cases ht : transform F lineOf st e with
  | none => simp [ht] at h
  | some x =>
    obtain ⟨e1, ok, st1⟩ := x
    simp only [ht] at h
    have h1 := transform_sound F (binFoldFact F) lineOf e _ _ _ _ ht
    have h2 := evalStep_sound F lineOf h
    obtain ⟨new, hn, hall⟩ := ErrsFrom.trans h1.errs (h2.2.to_from h1.eq)
    refine ⟨new, hn, fun pe hpe => ?_⟩
    obtain ⟨x, hx, hc⟩ := hall pe hpe
    exact ⟨x, hx, fun fuel env σ s r s' hr => hc fuel env σ s r s' hr⟩

/-- **Soundness at every budget.**  Whatever `OptimizerLimit` is, the file the pass loop ends with
    consists of the same statements with interchangeable operand expressions (`FileRel`: expression and
    return statements whose expressions satisfy the conclusion of `optExpr_sound`). -/
theorem optimize_sound_every_budget (F : FloatOps) (lineOf : Pos → Nat) (limit : Int) (file : List Stmt) (o : Out)
    (h : optimize F lineOf limit file = some o) : FileRel F file o.file := by
  unfold optimize at h
  obtain ⟨k, _, hk⟩ := loop_is_passN F lineOf _ _ _ h
  exact passN_sound F (binFoldFact F) lineOf k _ _ _ _ hk

/-- **The budget selects a prefix of the passes.**  The result at limit `l` is the result of
    `o.passes` passes of the budget-independent pass function, and a smaller limit runs at most as many
    passes as a larger one: it stops the same rewriting sequence earlier.  (optimizer.go checks
    `limit` only between passes; within a pass no replacement is suppressed.) -/
theorem budget_prefix (F : FloatOps) (lineOf : Pos → Nat) (l l' : Int) (hle : l ≤ l') (file : List Stmt) (o o' : Out)
    (h : optimize F lineOf l file = some o) (h' : optimize F lineOf l' file = some o') :
    o.passes ≤ o'.passes ∧
    passN F lineOf o.passes (file, {}) = some (o.file, o.st) ∧
    passN F lineOf o'.passes (file, {}) = some (o'.file, o'.st) := by
  unfold optimize at h h'
  refine ⟨?_, ?_, ?_⟩
  · refine loop_mono F lineOf _ _ _ _ _ _ ?_ ?_ ?_ ?_ ?_ h h'
    · rfl
    · rfl
    · rfl
    · exact hle
    · exact Nat.le_refl _
  · obtain ⟨k, hk1, hk2⟩ := loop_is_passN F lineOf _ _ _ h
    simp only [Nat.zero_add] at hk1
    rw [hk1]; exact hk2
  · obtain ⟨k, hk1, hk2⟩ := loop_is_passN F lineOf _ _ _ h'
    simp only [Nat.zero_add] at hk1
    rw [hk1]; exact hk2

/-- soundness of any number of passes follows from the single-pass fact -/
theorem passes_sound (F : FloatOps) (lineOf : Pos → Nat) (n : Nat) (file file' : List Stmt) (st st' : OSt)
    (h : passN F lineOf n (file, st) = some (file', st')) : FileRel F file file' :=
  passN_sound F (binFoldFact F) lineOf n _ _ _ _ h

/-- **Constant conditions.**  `c ? t : e` on a literal `c` is the taken branch (the branch selected by
    the regenerated `isLiteralFalsy`). -/
theorem cond_literal_taken (F : FloatOps) (c : Expr) (falsy : Bool)
    (h : Gen.isLiteralFalsy F (litOf c) = .ok (some falsy)) (p : Pos) (t e : Expr) (fuel : Nat) (env : Sem.Env) :
    Sem.evalExpr F (fuel+2) env (.cond p c t e) = Sem.evalExpr F (fuel+1) env (if falsy then e else t) :=
  cond_lit_taken F h p t e fuel env

/-- the optimizer's rewrite of a literal condition into a BoolLit keeps the meaning of `?:` -/
theorem cond_literal_rewrite (F : FloatOps) (c c' : Expr) (h : condLit F c = some c') (p p' : Pos) (t e : Expr) :
    ∀ fuel env σ s r s', evalOutcome F fuel env (.cond p c t e) σ s = (.ok r, s') →
      evalOutcome F fuel env (.cond p' c' t e) σ s = (.ok r, s') :=
  fun fuel env σ s r s' hr => condLit_sound h p p' t e fuel env σ s r s' hr

/-- `if` on a literal condition: the BoolLit the optimizer writes into `IfStmt.Cond` (so that the compiler
    drops the untaken branch) keeps the meaning of the statement, with or without init statement / else -/
theorem if_literal_rewrite (F : FloatOps) (c : Expr) (falsy : Bool)
    (h : Gen.isLiteralFalsy F (litOf c) = .ok (some falsy)) (p bp : Pos) (init : Option Stmt) (body : List Stmt)
    (els : Option Stmt) (fuel : Nat) (env : Sem.Env) :
    Sem.execStmt F fuel env (.if_ p init c bp body els) =
      Sem.execStmt F fuel env (.if_ p init (.bool c.pos (!falsy)) bp body els) :=
  if_lit_rewrite F h p bp init body els fuel env

/-- `if true { body } else e` is `body` (in its own scope), `if false …` is the else branch / nothing -/
theorem if_literal_taken (F : FloatOps) (p q bp : Pos) (b : Bool) (body : List Stmt) (els : Option Stmt)
    (fuel : Nat) (env : Sem.Env) :
    Sem.execStmt F (fuel+2) env (.if_ p none (.bool q b) bp body els) =
      (if b then do
          let (c, _) ← Sem.execBlock F (fuel+1) ([] :: env) body
          pure (c, env)
        else
          match els with
          | some e => do let (c, _) ← Sem.execStmt F (fuel+1) ([] :: env) e; pure (c, env)
          | none => pure (.normal, env)) :=
  if_bool_taken F p q bp b body els fuel env

/-- outcome of running a whole script with the reference semantics -/
def programOutcome (F : FloatOps) (fuel : Nat) (file : List Stmt) (args : List V) (σ : Sem.SemSt) (s : State) :
    Except Exc (Sem.Result × Sem.SemSt) × State :=
  ((Sem.runProgram F fuel file args).run σ).run.run s

/-- **C01 for the modelled fragment** (scripts of `param`/`global` declarations, expression statements and
    `return`, over the expression fragment): at EVERY `OptimizerLimit` the script the optimizer model
    returns has the outcome of the original script — same returned value or same uncaught error, same
    final heap and globals — for all arguments, in every state, for every fuel with which the
    reference semantics ends properly. -/
theorem C01_fragment (F : FloatOps) (lineOf : Pos → Nat) (limit : Int) (file : List Stmt) (o : Out)
    (h : optimize F lineOf limit file = some o) :
    ∀ fuel args σ s r s', programOutcome F fuel file args σ s = (.ok r, s') →
      programOutcome F fuel o.file args σ s = (.ok r, s') :=
  fun fuel args σ s r s' hr =>
    runProgram_rel (optimize_sound_every_budget F lineOf limit file o h) fuel args σ s r s' hr

/-! non-vacuity: the rewrites fire, the semantic hypotheses are satisfiable, errors are reported -/

private def F0 : FloatOps := ⟨fun a _ => a, fun a _ => a, fun a _ => a, fun a _ => a, id, id, id⟩
/-- `1 + 2` -/
private def onePlusTwo : Expr := .binary 1 12 (.int 1 1#64) (.int 5 2#64)
/-- `(1 / 0) + x` -/
private def divZeroPlusX : Expr := .binary 1 12 (.paren 1 (.binary 2 15 (.int 2 1#64) (.int 6 0#64))) (.ident 9 "x")
/-- `param x; 1 + 2; return (2 > 1) ? x : 7` -/
private def prog : List Stmt :=
  [.declParam 1 [(7, "x", false)], .expr 9 onePlusTwo,
   .return_ 15 (some (.cond 23 (.paren 22 (.binary 23 40 (.int 23 2#64) (.int 27 1#64))) (.ident 32 "x") (.int 36 7#64)))]

example : (optExpr F0 (fun _ => 1) { exprLevel := 1 } onePlusTwo).map (·.1) = some (.int 1 3#64) := rfl
example : ∃ r s', evalOutcome F0 3 [] onePlusTwo {} default = (.ok r, s') := ⟨_, _, rfl⟩
example : (optExpr F0 (fun _ => 1) { exprLevel := 1 } divZeroPlusX).map (·.2.errors.length) = some 1 := rfl
example : (optimize F0 (fun p => p / 9) 1 prog).map (·.passes) = some 1 ∧
    (optimize F0 (fun p => p / 9) 100 prog).map (·.passes) = some 2 := ⟨rfl, rfl⟩
example : (optimize F0 (fun p => p / 9) 100 prog).map (·.file) =
    some [.declParam 1 [(7, "x", false)], .expr 1 (.int 1 3#64), .return_ 15 (some (.cond 23 (.bool 23 true) (.ident 32 "x") (.int 36 7#64)))] := rfl
example : ∃ r s', programOutcome F0 9 prog [.int 5#64] {} default = (.ok r, s') := ⟨_, _, rfl⟩

end Optimizer

/-- the full statement, over an abstract `run` (outcome of compiling and running a script):
    at every budget the optimized program has the outcome of the unoptimized one.

    Proved of it (Round 3): `C01_fragment` — the instance where `Script` is a file of the modelled
    fragment, "optimize" is `Model.Optim.optimize` (tied to the real optimizer by stream `optast`) and
    the outcome is the one of the reference semantics `Spec/Sem` (tied to compiler+VM by stream `sem`).
    NOT covered by a theorem, oracles only (`optshadow`, `optconst`, `sem`, `optast`'s own oracle):
    * statements other than expression / return / param / global: assignments, `var`/`const` declarations,
      if / for / for-in / try / throw, function literals — and with them the scope discipline
      (`optimizerScope.shadowed`: every binding form must reach `scope.define`);
    * builtin calls and identifiers that name builtins, evaluated on the private VM
      (`canOptimizeInsts`' builtin whitelist: `whitelist_builtins_pure`), containers, index / selector / slice;
    * constant identifiers substituted by the compiler (`optimizeExpr`, `handleConstLits`, ScopeConstLit) and
      the budget shared between the optimizer, the modules and that const folding;
    * the compiler's dead-branch elimination on the BoolLit the optimizer leaves in `if` (for `?:` the
      semantic fact is `cond_literal_taken` / `cond_literal_rewrite`);
    * that the compiled bytecode of the optimized AST run by the VM has the outcome `Spec/Sem` gives
      (compiler/VM correctness: streams `sem`, `compile`, `vmtrace`). -/
def C01_full (Script Outcome : Type) (compileRun : (optimize : Option Nat) → Script → Option Outcome) : Prop :=
  ∀ (p : Script) (budget : Nat) (o₁ o₂ : Outcome),
    compileRun (some budget) p = some o₁ → compileRun none p = some o₂ → o₁ = o₂

/-- non-vacuity: concrete folds that fire -/
example : binaryopInts ⟨fun a _ => a, fun a _ => a, fun a _ => a, fun a _ => a, id, id, id⟩ .Add 2#64 3#64 = .ok (some (.int 5#64)) := by decide
example : Gen.unaryop ⟨fun a _ => a, fun a _ => a, fun a _ => a, fun a _ => a, id, id, id⟩ .Not (.int 0#64) = .ok (some (.bool true)) := by decide

end UgoVerif.Props.C01
