import UgoVerif.Proofs.Conc
/-
  C09 — Abort and context cancellation are never lost.

  Model: `Model/Conc.lean` (interleaving semantics of Run / Abort / Invoker / pool / Eval.run at
  the granularity of the named sync points).  Tie to the source: the `shape_*` facts below
  compare the synchronisation-operation lists regenerated from vm.go / eval.go /
  cmd/ugo/main.go (`Gen/AbortOps.lean`) with the order of operations the model's steps
  implement; moving the reset, dropping a lock, reordering `pool.abort()` and the store, or
  moving a sync point changes a regenerated list and breaks the corresponding fact.  The
  `sched` correspondence stream forces every schedule of the model on the real code.

  The full statement `C09_full` is FALSE of the code (open finding
  `C09:abort-before-reset@Run-entry` and siblings): `C09_full_false`.  Proved: `C09_partial` /
  `abort_after_reset_not_lost`, which exclude exactly the reset windows and the
  registration of a child after the abort's pool snapshot.
-/
namespace UgoVerif.Props.C09
open UgoVerif.Model.Conc UgoVerif.Proofs.Conc UgoVerif.Gen.AbortOps

/-! ### the regenerated operation lists have the order the model implements -/

theorem shape_VM_Abort : VM_Abort =
    [.sync "Abort.enter", .call "vm.pool.abort", .sync "Abort.between", .store "vm.abort" 1, .ret] := rfl
theorem shape_VM_Aborted : VM_Aborted =
    [.load "vm.abort", .ret] := rfl
theorem shape_VM_Run : VM_Run =
    [.sync "Run.enter", .lock "vm.mu", .deferUnlock "vm.mu", .ifBegin, .unlock "vm.mu", .ret, .ifEnd, .sync "Run.beforeReset", .store "vm.abort" 0, .sync "Run.afterReset", .loopBegin, .call "vm.run", .loopEnd, .ifBegin, .unlock "vm.mu", .ret, .ifEnd, .ifBegin, .ifBegin, .unlock "vm.mu", .ret, .ifEnd, .unlock "vm.mu", .ret, .ifEnd, .unlock "vm.mu", .ret] := rfl
theorem shape_VM_run : VM_run =
    [.call "vm.loop", .ret] := rfl
theorem shape_VM_loop : VM_loop =
    [.sync "loop.enter", .loopBegin, .load "vm.abort", .sync "loop.body", .loopEnd, .ret] := rfl
theorem shape_Invoker_Acquire : Invoker_Acquire =
    [.call "inv.acquire", .ret] := rfl
theorem shape_Invoker_acquire : Invoker_acquire =
    [.call "inv.vm.pool.acquire", .ret] := rfl
theorem shape_Invoker_Release : Invoker_Release =
    [.ifBegin, .call "inv.child.pool.release", .ifEnd, .ret] := rfl
theorem shape_Invoker_Invoke : Invoker_Invoke =
    [.ifBegin, .call "inv.acquire", .ifEnd, .sync "Invoke.beforeCheck", .call "inv.child.Aborted", .sync "Invoke.afterCheck", .ifBegin, .call "inv.child.Run", .ret, .ifEnd, .ret] := rfl
theorem shape_vmPool_abort : vmPool_abort =
    [.lock "v.mu", .deferUnlock "v.mu", .rangeBegin "v.vms", .call "vm.Abort", .loopEnd, .unlock "v.mu", .ret] := rfl
theorem shape_vmPool_acquire : vmPool_acquire =
    [.call "v.root.pool._acquire", .ret] := rfl
theorem shape_vmPool__acquire : vmPool__acquire =
    [.sync "_acquire.outside", .lock "v.mu", .deferUnlock "v.mu", .sync "_acquire.inside", .poolAdd "v.vms", .unlock "v.mu", .ret] := rfl
theorem shape_vmPool_release : vmPool_release =
    [.call "v.root.pool._release", .ret] := rfl
theorem shape_vmPool__release : vmPool__release =
    [.sync "_release.outside", .lock "v.mu", .sync "_release.inside", .poolDel "v.vms", .unlock "v.mu", .sync "_release.after", .ret] := rfl
theorem shape_Eval_run : Eval_run =
    [.sync "Eval.run.beforeSelect1", .selectBegin, .caseRecv "ctx.Done()", .call "r.VM.Abort", .caseDefault, .sync "Eval.run.beforeGo", .goBegin, .deferClose "doneCh", .call "r.VM.Run", .close "doneCh", .goEnd, .sync "Eval.run.beforeSelect2", .selectBegin, .caseRecv "ctx.Done()", .call "r.VM.Abort", .recv "doneCh", .caseRecv "doneCh", .selectEnd, .selectEnd, .ret] := rfl
theorem shape_executeScript : executeScript =
    [.goBegin, .deferClose "done", .call "vm.Run", .close "done", .goEnd, .selectBegin, .caseRecv "done", .caseRecv "ctx.Done()", .call "vm.Abort", .recv "done", .selectEnd, .ret] := rfl
/-! ### what is proved -/

/-- An Abort whose stores landed outside the reset windows (`armedOK`: the root `Store 1`
    came after the root's `Store 0` of the current Run, and no child `Store 1` of this
    Abort fell between a child's `Aborted()` check and its reset), with no child registered
    after the pool snapshot, is never lost, in every interleaving of any length: the root
    flag stays 1, the flag of the child R is working with stays 1 and R is not inside the
    child window, and at most one further instruction (root or child) is executed — the
    one that was already past its loop-condition load. -/
theorem abort_after_reset_not_lost (cfg : Cfg) (s : State) (h : Reach cfg s)
    (ha : s.armedOK = true) (hl : s.lateAcq = false) :
    s.rootFlag = 1 ∧ postReset s.rpc = true ∧
    (∀ c, cur s.rpc = some c → s.childFlag c = 1 ∧ childWin s.rpc c = false) ∧
    s.extraOK + (if isBody s.rpc then 1 else 0) ≤ 1 := by
  have i := inv_reach h
  exact ⟨(i.j1 ha).1, (i.j1 ha).2, i.okc (Or.inl ha) hl, i.phi ha hl⟩

/-- … and the next loop-condition load of the root VM makes Run return the aborted error -/
theorem abort_exits_root_loop (cfg : Cfg) (s : State) (h : Reach cfg s) (ha : s.armedOK = true)
    (hp : s.rpc = .loopEnter) : stepR cfg s = some (finishRun s .aborted) := by
  have i := inv_reach h
  have := (i.j1 ha).1
  simp [stepR, hp, this]

/-- … likewise the next load of a running child makes the child's Run return (Invoke then
    reports the aborted error and every later Invoke on that child returns at its check) -/
theorem abort_exits_child_loop (cfg : Cfg) (s : State) (h : Reach cfg s) (ha : s.armedOK = true)
    (hl : s.lateAcq = false) (cb : Cb) (c : Nat) (hp : s.rpc = .kLoopEnter cb c) :
    stepR cfg s = some (afterCb s cb.ip (cbNext cb.ip cb.ops (some c) cb.dorel)) := by
  have i := inv_reach h
  have := (i.okc (Or.inl ha) hl c (by simp [hp, cur])).1
  simp [stepR, hp, this]

theorem invoke_after_abort_returns (cfg : Cfg) (s : State) (h : Reach cfg s) (ha : s.armedOK = true)
    (hl : s.lateAcq = false) (cb : Cb) (c : Nat) (hp : s.rpc = .invBefore cb c) :
    stepR cfg s = some (afterCb s cb.ip (cbNext cb.ip cb.ops (some c) cb.dorel)) := by
  have i := inv_reach h
  have := (i.okc (Or.inl ha) hl c (by simp [hp, cur])).1
  simp [stepR, hp, this]

/-- the proved part of C09: outside the windows at most one further instruction runs -/
theorem C09_partial (cfg : Cfg) (s : State) (h : Reach cfg s)
    (ha : s.armedOK = true) (hl : s.lateAcq = false) : s.extraOK ≤ 1 := by
  have := (abort_after_reset_not_lost cfg s h ha hl).2.2.2
  omega

/-- Abort may be called any number of times: once an abort is in effect (root flag and the
    flags of all registered children are 1) every step of any further Abort call, however
    interleaved, leaves all flags, the pool and the runner untouched. -/
theorem abort_idempotent (cfg : Cfg) (s s' : State) (order : List Nat) (h : Reach cfg s)
    (hr : s.rootFlag = 1) (hc : ∀ c, c ∈ s.pool → s.childFlag c = 1)
    (hs : stepC s order = some s') :
    s'.rootFlag = 1 ∧ (∀ c, s'.childFlag c = s.childFlag c) ∧ s'.pool = s.pool ∧ s'.rpc = s.rpc := by
  have hp := pend_in_pool h
  unfold stepC at hs
  split at hs
  all_goals (rename_i hpc; simp only [hpc, pend] at hp)
  · simp at hs; subst hs; simp [hr]
  · split at hs
    · split at hs <;> (simp at hs; subst hs; simp [hr])
    · simp at hs
  · simp at hs; subst hs; simp [hr]
  · rename_i c rest
    have h1 : s.childFlag c = 1 := hc c (hp c (by simp))
    have hf : ∀ x, setFlag s.childFlag c 1 x = s.childFlag x := by
      intro x; unfold setFlag; split <;> simp_all
    simp only at hs
    split at hs <;> (simp at hs; subst hs; simp [hr, hf])
  · simp at hs; subst hs; simp

/-- An aborted VM runs later scripts normally: whatever happened before (any number of
    aborts, aborted or completed runs), once Run has passed its reset and no new Abort store
    has landed since, the flag is 0, so the loop condition holds and the script proceeds. -/
theorem reset_allows_rerun (cfg : Cfg) (s : State) (h : Reach cfg s)
    (hp : postReset s.rpc = true) (hn : s.storesSinceReset = 0) : s.rootFlag = 0 :=
  (inv_reach h).l1 hp hn

/-! ### the full statement and its refutation -/

/-- Full strength: there is a bound B such that in every interleaving, once an Abort has
    completed at any moment after Run was entered (`armedAny`: the root `Store 1` happened
    while R was anywhere between Run entry — for `Eval.run`: the `go` statement — and Run's
    return), at most B further instructions (root or child VMs) are executed. -/
def C09_full : Prop := ∃ B : Nat, ∀ (cfg : Cfg) (s : State), Reach cfg s → s.armedAny = true → s.extraAny ≤ B

def cfgLoop : Cfg := { prog := fun _ _ => .plain, cprog := fun _ _ => .ret }

/-- the state n instructions after the lost abort -/
def lostState (n : Nat) : State :=
  { init with rpc := .body n, rootFlag := 0, aborts := 1, armedAny := true, excl := true, extraAny := n,
              storesSinceReset := 0 }

/-- witness schedule: R enters Run and parks before the reset; Abort runs to completion;
    R resets the flag and starts the loop -/
def lostPrefix : List Label := [.r, .r, .c [], .c [], .c [], .r, .r, .r]

theorem lostPrefix_run : runLabels cfgLoop init lostPrefix = some (lostState 0) := by
  simp [runLabels, lostPrefix, step, stepR, stepC, init, sameMembers, rootWin, lostState]

theorem lostState_reach : ∀ n, Reach cfgLoop (lostState n) := by
  intro n
  induction n with
  | zero => exact runLabels_reach Reach.init lostPrefix_run
  | succ n ih =>
    refine Reach.step .r ih ?_
    simp [step, stepR, lostState, cfgLoop, count, rootLoad, init]

/-- C09 at full strength is false of the code as it stands: an Abort that lands between Run
    entry and `abort.Store(0)` is overwritten by the reset and the script runs on for any
    number of instructions.  (Open finding `C09:abort-before-reset@Run-entry`.) -/
theorem C09_full_false : ¬ C09_full := by
  rintro ⟨B, hB⟩
  have := hB cfgLoop (lostState (B + 1)) (lostState_reach (B + 1)) (by simp [lostState])
  simp [lostState] at this
  omega

/-! ### the sibling windows (each one a concrete schedule of the model) -/

def cfgInv : Cfg :=
  { prog := fun _ ip => if ip = 0 then .cb [.acquire, .invoke, .invoke, .release] else .plain,
    cprog := fun _ j => if j < 3 then .plain else .ret }

def rs (n : Nat) : List Label := List.replicate n .r

/-- `C09:abort-before-reset@Invoke`: the child's `Store 1` lands between `child.Aborted()` and
    the child's reset; the child function then runs to its end — twice, because the reset
    also makes the next `Aborted()` check pass — although Abort returned long ago. -/
theorem lost_at_invoke_window :
    ∃ s, Reach cfgInv s ∧ s.armedAny = true ∧ s.lateAcq = false ∧ s.armedOK = false ∧ s.extraAny = 8 := by
  have : ∃ s, runLabels cfgInv init (rs 9 ++ [.c [0], .c [0], .c [0], .c [0], .c [0]] ++ rs 19) = some s ∧
      s.armedAny = true ∧ s.lateAcq = false ∧ s.armedOK = false ∧ s.extraAny = 8 := by
    refine ⟨_, rfl, ?_⟩
    decide
  obtain ⟨s, hs, h⟩ := this
  exact ⟨s, runLabels_reach Reach.init hs, h⟩

/-- `C09:abort-before-acquire@Invoke`: Abort completes (outside every reset window: `armedOK`)
    while R is inside a callback that has not registered its child yet; the child is not in
    the pool snapshot, starts with flag 0 and runs on.  This is why `C09_partial` needs
    `lateAcq = false`. -/
theorem lost_at_late_acquire :
    ∃ s, Reach cfgInv s ∧ s.armedOK = true ∧ s.lateAcq = true ∧ s.extraOK = 9 := by
  have : ∃ s, runLabels cfgInv init (rs 5 ++ [.c [], .c [], .c []] ++ rs 23) = some s ∧
      s.armedOK = true ∧ s.lateAcq = true ∧ s.extraOK = 9 := by
    refine ⟨_, rfl, ?_⟩
    decide
  obtain ⟨s, hs, h⟩ := this
  exact ⟨s, runLabels_reach Reach.init hs, h⟩

def cfgEval : Cfg := { prog := fun _ ip => if ip < 5 then .plain else .ret, cprog := fun _ _ => .ret }

/-- `C09:abort-before-reset@Eval-run`: `Eval.run` starts Run on a new goroutine, the context is
    cancelled, the second select calls Abort before the new goroutine reached the reset;
    the script runs to its end while `Eval.run` waits on `doneCh`. -/
theorem lost_at_eval_start :
    ∃ es, EReach cfgEval es ∧ es.cancelled = true ∧ es.epc = .waitDone ∧ es.s.armedAny = true ∧ es.s.extraAny = 5 := by
  have : ∃ es, runELabels cfgEval einit ([.e [], .e [], .cancel, .e [], .e [], .e []] ++ List.replicate 9 .r) = some es ∧
      es.cancelled = true ∧ es.epc = .waitDone ∧ es.s.armedAny = true ∧ es.s.extraAny = 5 := by
    refine ⟨_, rfl, ?_⟩
    decide
  obtain ⟨es, hs, h⟩ := this
  exact ⟨es, runELabels_reach EReach.init hs, h⟩

/-- the theorems about `Reach` cover evaluation under a context -/
theorem eval_covered (cfg : Cfg) (es : EState) (h : EReach cfg es)
    (ha : es.s.armedOK = true) (hl : es.s.lateAcq = false) : es.s.extraOK ≤ 1 :=
  C09_partial cfg es.s h.base ha hl

/-! ### non-vacuity -/

/-- hypotheses of `abort_after_reset_not_lost` are satisfiable: Abort while the root loop runs -/
example : ∃ s, Reach cfgLoop s ∧ s.armedOK = true ∧ s.lateAcq = false ∧ s.rpc = .body 2 := by
  have : ∃ s, runLabels cfgLoop init (rs 7 ++ [.c [], .c [], .c []]) = some s ∧
      s.armedOK = true ∧ s.lateAcq = false ∧ s.rpc = .body 2 := by
    refine ⟨_, rfl, ?_⟩
    decide
  obtain ⟨s, hs, h⟩ := this
  exact ⟨s, runLabels_reach Reach.init hs, h⟩

/-- … and while a registered child runs (child flag set by `vmPool.abort`, outside its window) -/
example : ∃ s cb, Reach cfgInv s ∧ s.armedOK = true ∧ s.lateAcq = false ∧ s.rpc = .kBody cb 0 1 := by
  have : ∃ s cb, runLabels cfgInv init (rs 15 ++ [.c [0], .c [0], .c [0], .c [0], .c [0]]) = some s ∧
      s.armedOK = true ∧ s.lateAcq = false ∧ s.rpc = .kBody cb 0 1 := by
    refine ⟨_, ⟨[.invoke, .release], 0, true⟩, rfl, ?_⟩
    decide
  obtain ⟨s, cb, hs, h⟩ := this
  exact ⟨s, cb, runLabels_reach Reach.init hs, h⟩

/-- `abort_idempotent`: a second Abort in a state where the first is in effect -/
example : ∃ s, Reach cfgLoop s ∧ s.rootFlag = 1 ∧ s.aborts = 1 ∧ (stepC s []).isSome = true := by
  have : ∃ s, runLabels cfgLoop init (rs 7 ++ [.c [], .c [], .c []]) = some s ∧
      s.rootFlag = 1 ∧ s.aborts = 1 ∧ (stepC s []).isSome = true := by
    refine ⟨_, rfl, ?_⟩
    decide
  obtain ⟨s, hs, h⟩ := this
  exact ⟨s, runLabels_reach Reach.init hs, h⟩

/-- `reset_allows_rerun`: a run is aborted, Abort is called once more while the VM is idle,
    the next Run passes its reset: flag 0 again, second run in progress -/
example : ∃ s, Reach cfgLoop s ∧ s.results = [.aborted] ∧ s.aborts = 2 ∧ postReset s.rpc = true ∧
    s.storesSinceReset = 0 ∧ s.rpc = .body 1 := by
  have : ∃ s, runLabels cfgLoop init (rs 7 ++ [.c [], .c [], .c []] ++ rs 1 ++ [.c [], .c [], .c []] ++ rs 6) = some s ∧
      s.results = [.aborted] ∧ s.aborts = 2 ∧ postReset s.rpc = true ∧ s.storesSinceReset = 0 ∧ s.rpc = .body 1 := by
    refine ⟨_, rfl, ?_⟩
    decide
  obtain ⟨s, hs, h⟩ := this
  exact ⟨s, runLabels_reach Reach.init hs, h⟩

end UgoVerif.Props.C09
