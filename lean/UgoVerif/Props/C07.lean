import UgoVerif.Proofs.C07Ops
import UgoVerif.Proofs.C07Heap
import UgoVerif.Gen.VmWrites
/-
  C07 — a run's outcome depends only on bytecode, globals and arguments.

  Model: `VM/{Types,Base,Step,Run}.lean` (vm.go in Go statement order) + `VM/Reset.lean`
  (`Clear`, `SetBytecode`).  `runFrom F fuel globals args s` is `VM.Run` on an ARBITRARY
  prior state `s`: the history of the VM (earlier runs that returned, failed, panicked,
  overflowed or were aborted) is quantified as "any state whatsoever".

  Proved in full:   prologue_live, prologue_live_cleared, step_live, panic_live, lifting_run,
                    run_history_independent, rerun_same, C07_holds (= `C07_full`),
                    bytecode_immutable, step_keeps_bytecode, no_shared_store_outside_allowlist.
  `step_live` is proved opcode by opcode (Proofs/C07Step, C07Throw, C07Ops): every function of
  VM/Base, VM/Step and `handlePanic` is `Live` — it gives the same result on two states that
  differ only in dead frame data and the recorded trace, which is exactly the difference that
  `Clear`/`SetBytecode` leave between a used VM and a new one (both nil the whole stack).
  `function_cells_immutable`: the heap part of the constants — no function cell is ever overwritten.
-/
namespace UgoVerif.Props.C07
open UgoVerif UgoVerif.Go UgoVerif.VM

/-- a new VM for bytecode (consts, mainFn, numModules) over the same code memory and heap,
    with the embedder's settings (`SetRecover`, trace recording) of `s` -/
def freshFor (s : State) (consts : Array V) (mainFn : Addr) (numModules : Nat) : State :=
  { newState s.codes s.heap consts mainFn numModules with noPanic := s.noPanic, traceOn := s.traceOn }

theorem resetEq_setBytecode (c : Array V) (m : Addr) (n : Nat) (s : State) (hs : Shape s) :
    ResetEq (setBytecode c m n s) (freshFor s c m n) :=
  { heap := rfl, codes := rfl, consts := rfl, mainFn := rfl, numModules := rfl, modules := rfl, noPanic := rfl,
    steps := rfl, traceOn := rfl, shapeS := ⟨by simp [setBytecode], hs.frames⟩,
    shapeT := ⟨by simp [freshFor, newState], by simp [freshFor, newState, emptyFrames]⟩ }

theorem resetEq_clear (s : State) (hs : Shape s) :
    ResetEq (clear s) (freshFor s s.consts s.mainFn s.numModules) :=
  { heap := rfl, codes := rfl, consts := rfl, mainFn := rfl, numModules := rfl, modules := rfl, noPanic := rfl,
    steps := rfl, traceOn := rfl, shapeS := ⟨by simp [clear], hs.frames⟩,
    shapeT := ⟨by simp [freshFor, newState], by simp [freshFor, newState, emptyFrames]⟩ }

theorem resetEq_clear_setBytecode (c : Array V) (m : Addr) (n : Nat) (s : State) (hs : Shape s) :
    ResetEq (setBytecode c m n (clear s)) (freshFor s c m n) :=
  { heap := rfl, codes := rfl, consts := rfl, mainFn := rfl, numModules := rfl, modules := rfl, noPanic := rfl,
    steps := rfl, traceOn := rfl, shapeS := ⟨by simp [clear, setBytecode], hs.frames⟩,
    shapeT := ⟨by simp [freshFor, newState], by simp [freshFor, newState, emptyFrames]⟩ }

theorem stack_clear_fresh (s : State) (c : Array V) (m : Addr) (n : Nat) (i : Nat) :
    (clear s).stack[i]! = (freshFor s c m n).stack[i]! := rfl

/-- **prologue_live.**  For ANY residue state `s` (any history), after `SetBytecode(bc)` —
    with or without `Clear()` — or after `Clear()` alone, the prologue of `Run` ends the same
    way as on a new VM, and when it ends normally the two states are `liveEq`. -/
theorem prologue_live (g : V) (args : List V) (c : Array V) (m : Addr) (n : Nat) (s : State) (hs : Shape s) :
    SameEnd liveEq (exec (prologue g args) (setBytecode c m n s)) (exec (prologue g args) (freshFor s c m n))
    ∧ SameEnd liveEq (exec (prologue g args) (setBytecode c m n (clear s))) (exec (prologue g args) (freshFor s c m n))
    ∧ SameEnd liveEq (exec (prologue g args) (clear s))
        (exec (prologue g args) (freshFor s s.consts s.mainFn s.numModules)) := by
  refine ⟨?_, ?_, ?_⟩
  · exact (prologue_live_core g args (fun _ => False) _ _ (resetEq_setBytecode c m n s hs) (fun _ h => h.elim)).mono
      (fun _ _ h => h.1)
  · exact (prologue_live_core g args (fun _ => False) _ _ (resetEq_clear_setBytecode c m n s hs) (fun _ h => h.elim)).mono
      (fun _ _ h => h.1)
  · exact (prologue_live_core g args (fun _ => False) _ _ (resetEq_clear s hs) (fun _ h => h.elim)).mono
      (fun _ _ h => h.1)

/-- `liveEq`, all stack slots agree, the frame array has its Go size: what holds after the
    prologue on a VM that was cleared or given new bytecode -/
def liveEqS : State → State → Prop := liveEqW (fun _ => True)

theorem stack_setBytecode_fresh (s : State) (c : Array V) (m : Addr) (n : Nat) (i : Nat) :
    (setBytecode c m n s).stack[i]! = (freshFor s c m n).stack[i]! := rfl

/-- **prologue_live_cleared.**  `Clear` and (the repaired) `SetBytecode` nil the whole stack:
    after the prologue the two states agree on every stack slot, not only below `sp`. -/
theorem prologue_live_cleared (g : V) (args : List V) (c : Array V) (m : Addr) (n : Nat) (s : State) (hs : Shape s) :
    SameEnd liveEqS (exec (prologue g args) (setBytecode c m n s)) (exec (prologue g args) (freshFor s c m n))
    ∧ SameEnd liveEqS (exec (prologue g args) (setBytecode c m n (clear s))) (exec (prologue g args) (freshFor s c m n))
    ∧ SameEnd liveEqS (exec (prologue g args) (clear s))
        (exec (prologue g args) (freshFor s s.consts s.mainFn s.numModules)) :=
  ⟨prologue_live_core g args _ _ _ (resetEq_setBytecode c m n s hs) (fun _ _ => rfl),
   prologue_live_core g args _ _ _ (resetEq_clear_setBytecode c m n s hs) (fun _ _ => rfl),
   prologue_live_core g args _ _ _ (resetEq_clear s hs) (fun _ _ => rfl)⟩

/-! ### the Bytecode is never modified -/

/-- **bytecode_immutable** (model half).  `Run` from any state, ending in any way, for any
    fuel, leaves the shared Bytecode — code memory, constants, main function, module count —
    exactly as it was. -/
theorem bytecode_immutable (F : FloatOps) (fuel : Nat) (g : V) (args : List V) (s : State) :
    (runFrom F fuel g args s).2.codes = s.codes ∧ (runFrom F fuel g args s).2.consts = s.consts ∧
    (runFrom F fuel g args s).2.mainFn = s.mainFn ∧ (runFrom F fuel g args s).2.numModules = s.numModules :=
  runFrom_keeps (codes := s.codes) (consts := s.consts) (mainFn := s.mainFn) (nm := s.numModules)
    F fuel g args s ⟨rfl, rfl, rfl, rfl⟩

/-- one instruction — every opcode, including its error and panic paths — assigns none of them -/
theorem step_keeps_bytecode (F : FloatOps) (s : State) :
    (exec (step F) s).2.codes = s.codes ∧ (exec (step F) s).2.consts = s.consts ∧
    (exec (step F) s).2.mainFn = s.mainFn ∧ (exec (step F) s).2.numModules = s.numModules :=
  (keeps_step (codes := s.codes) (consts := s.consts) (mainFn := s.mainFn) (nm := s.numModules) F).elim s
    ⟨rfl, rfl, rfl, rfl⟩

/-- the recovery path does not either -/
theorem handlePanic_keeps_bytecode (m : String) (s : State) :
    (exec (handlePanic m) s).2.codes = s.codes ∧ (exec (handlePanic m) s).2.consts = s.consts :=
  let h := (keeps_handlePanic (codes := s.codes) (consts := s.consts) (mainFn := s.mainFn) (nm := s.numModules) m).elim s
    ⟨rfl, rfl, rfl, rfl⟩
  ⟨h.1, h.2.1⟩

/-- **function_cells_immutable** (heap half of `bytecode_immutable`).  A function cell — the
    compiled functions among the constants, every closure — is never overwritten by `Run`,
    from any state, ending in any way, for any fuel: the model overwrites existing heap cells
    only through `heapUpd` (same-kind update of an array, map or iterator cell) and `boxSet`
    (write through an `*ObjectPtr`); allocation and `Copy()` append. -/
theorem function_cells_immutable (F : FloatOps) (fuel : Nat) (g : V) (args : List V) (s : State)
    (a : Nat) (c : Nat) (f : Option (List Addr)) (h : s.heap[a]? = some (Cell.fn c f)) :
    (runFrom F fuel g args s).2.heap[a]? = some (Cell.fn c f) :=
  runFrom_fnk (h0 := s.heap) F fuel g args s (fun _ _ _ h => h) a c f h

/-- one instruction never overwrites a function cell -/
theorem step_keeps_function_cells (F : FloatOps) (s : State) (a : Nat) (c : Nat) (f : Option (List Addr))
    (h : s.heap[a]? = some (Cell.fn c f)) : (exec (step F) s).2.heap[a]? = some (Cell.fn c f) :=
  (fnk_step (h0 := s.heap) F).elim s (fun _ _ _ h => h) a c f h

/-- structural half, over the table REGENERATED from vm.go (and objects.go, modules.go,
    bytecode.go, parser/source_file.go): functions that may store to data rooted at the shared
    Bytecode.  `loop`, `Run`, `Clear`, every `xOp…` helper are NOT in the list. -/
def storeAllowed : List (String × String) :=
  [("vm.go", "SetBytecode"), ("vm.go", "NewVM"), ("vm.go", "_acquire"), ("vm.go", "_release"),
   ("parser/source_file.go", "AddFile"), ("parser/source_file.go", "AddLine")]

/-- **no store to shared data outside the allow-list**: adding an assignment / `IndexSet` /
    `append` / `copy` / `delete` / `&` whose target is rooted at `vm.constants`, `vm.bytecode.*`,
    a `*Bytecode`/`*CompiledFunction` field or a file-set field to an opcode breaks this. -/
theorem no_shared_store_outside_allowlist :
    Gen.VmWrites.stores.all (fun w => storeAllowed.contains (w.file, w.func)) = true := by decide

/-! ### history independence -/

/-- **step_live.**  One instruction — operand fetch, the H1 record, any of the 44 opcodes with
    its error and Go-panic paths — ends the same way on two states that differ only in dead
    frame data and the recorded trace, and leaves such states again. -/
theorem step_live (F : FloatOps) (s t : State) (h : LiveS s t) : Both LiveS (exec (step F) s) (exec (step F) t) :=
  LiveS.of_live (live_step F) h

/-- **panic_live.**  The recovery path (`handlePanic` → `throw` → `handleThrownError`, frame
    search included) does too — although the model's fuel for it counts dead handlers. -/
theorem panic_live (m : String) (s t : State) (h : LiveS s t) :
    Both LiveS (exec (handlePanic m) s) (exec (handlePanic m) t) :=
  LiveS.of_live (live_handlePanic m) h

/-- **lifting_run** (full).  For ANY relation `R ⊆ liveEq` preserved by one instruction, by
    the recovery path, by the abort assignment and by the deferred `clearCurrentFrame`: if the
    prologue maps two states to `R`-related states, `Run` returns the same outcome from both,
    for every fuel — through `loopF`, the reruns after recovered panics and the epilogue. -/
theorem lifting_run {F : FloatOps} {R : State → State → Prop} (hR : LiveRel F R) (fuel : Nat) (g : V)
    (args : List V) (s t : State) (hpro : SameEnd R (exec (prologue g args) s) (exec (prologue g args) t)) :
    (runFrom F fuel g args s).1 = (runFrom F fuel g args t).1 :=
  runFrom_live hR fuel g args s t hpro

/-- the full statement: after ANY history (`s` arbitrary), `SetBytecode(bc)`, `Clear()` then
    `SetBytecode(bc)`, or `Clear()` alone, `Run` returns what it returns on a new VM; for every
    bytecode (also hand-made or decoded), globals, arguments and fuel. -/
def C07_full : Prop :=
  ∀ (F : FloatOps) (fuel : Nat) (g : V) (args : List V) (c : Array V) (m : Addr) (n : Nat) (s : State), Shape s →
    (runFrom F fuel g args (setBytecode c m n s)).1 = (runFrom F fuel g args (freshFor s c m n)).1 ∧
    (runFrom F fuel g args (setBytecode c m n (clear s))).1 = (runFrom F fuel g args (freshFor s c m n)).1 ∧
    (runFrom F fuel g args (clear s)).1 = (runFrom F fuel g args (freshFor s s.consts s.mainFn s.numModules)).1

/-- **run_history_independent.**  No hypothesis about the bytecode, none about the history. -/
theorem run_history_independent (F : FloatOps) (fuel : Nat) (g : V) (args : List V) (c : Array V) (m : Addr) (n : Nat)
    (s : State) (hs : Shape s) :
    (runFrom F fuel g args (setBytecode c m n s)).1 = (runFrom F fuel g args (freshFor s c m n)).1 ∧
    (runFrom F fuel g args (setBytecode c m n (clear s))).1 = (runFrom F fuel g args (freshFor s c m n)).1 ∧
    (runFrom F fuel g args (clear s)).1 = (runFrom F fuel g args (freshFor s s.consts s.mainFn s.numModules)).1 :=
  have hp := prologue_live_cleared g args c m n s hs
  ⟨lifting_run (liveRel_LiveS F) fuel g args _ _ (hp.1.mono (fun _ _ h => liveS_of_liveEqW h)),
   lifting_run (liveRel_LiveS F) fuel g args _ _ (hp.2.1.mono (fun _ _ h => liveS_of_liveEqW h)),
   lifting_run (liveRel_LiveS F) fuel g args _ _ (hp.2.2.mono (fun _ _ h => liveS_of_liveEqW h))⟩

theorem C07_holds : C07_full := fun F fuel g args c m n s hs => run_history_independent F fuel g args c m n s hs

/-- **rerun_same.**  Running the same Bytecode again on the cleared VM gives the outcome of a
    run on a new VM — whatever the first run (any globals, arguments, fuel, any end) did. -/
theorem rerun_same (F : FloatOps) (fuel fuel' : Nat) (g g' : V) (args args' : List V) (s0 : State)
    (hs : Shape (runFrom F fuel' g' args' s0).2) :
    let used := (runFrom F fuel' g' args' s0).2
    (runFrom F fuel g args (clear used)).1 =
      (runFrom F fuel g args (freshFor used s0.consts s0.mainFn s0.numModules)).1 := by
  intro used
  have hb := bytecode_immutable F fuel' g' args' s0
  have := (run_history_independent F fuel g args used.consts used.mainFn used.numModules used hs).2.2
  rw [hb.2.1, hb.2.2.1, hb.2.2.2] at this
  exact this

/-! ### non-vacuity -/

/-- a new VM has the shape the theorems ask for … -/
example : Shape (newState #[] #[] #[] 0 0) := ⟨by simp [newState], by simp [newState, emptyFrames]⟩

/-- … `liveEq` relates states that differ in dead data only: for every state whose current
    frame is the top one, overwriting any stack slot at or above `sp` gives a `liveEq` state -/
example (s : State) (hl : (s.curFrame : Int) + 1 = s.frameIndex) (k : Nat) (hk : s.sp ≤ (k : Int)) (v : V) :
    liveEq s { s with stack := s.stack.set! k v } := by
  refine { heap := rfl, codes := rfl, consts := rfl, mainFn := rfl, numModules := rfl, globals := rfl, modules := rfl,
           noPanic := rfl, err := rfl, abort := rfl, ip := rfl, sp := rfl, frameIndex := rfl, curFrame := rfl,
           steps := rfl, traceOn := rfl, stackSize := ?_, framesSize := rfl,
           stack := ?_, cur := ⟨rfl, rfl, rfl, rfl, rfl⟩, below := fun _ _ => rfl, link := hl }
  · simp only [Array.set!_eq_setIfInBounds, Array.size_setIfInBounds]
  · intro i hi
    show s.stack[i]! = (s.stack.set! k v)[i]!
    rw [getElem!_set!]
    have : ¬ (k = i ∧ k < s.stack.size) := by
      intro h
      have := h.1
      omega
    simp only [this, if_false]

/-- … and such states exist: a VM right after `frameIndex = 1` -/
example : ((({ newState #[] #[] #[] 0 0 with frameIndex := 1 } : State).curFrame : Nat) : Int) + 1
    = ({ newState #[] #[] #[] 0 0 with frameIndex := 1 } : State).frameIndex := rfl

/-- the regenerated store table is not empty (the `decide` fact is about real entries) -/
example : Gen.VmWrites.stores.length > 0 := by decide

end UgoVerif.Props.C07
