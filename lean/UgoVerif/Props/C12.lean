import UgoVerif.Proofs.ModStore
import UgoVerif.Proofs.Copy
import UgoVerif.Proofs.ModCache
/-
  C12 — a module is loaded once per run and every import sees the same object.

  Compile side: Model/ModStore.lean (moduleStore, checkCyclicImports, the store part of
  compileImportExpr), tied by request `ms` of the `modules` stream.
  Run side: the VM model (VM/Step.lean `execLoadModule`, `execStoreModule`, VM/Copy.lean),
  tied by the lock-step `vm` requests of the `modules` stream.
-/
namespace UgoVerif.Props.C12
open UgoVerif UgoVerif.Go UgoVerif.VM
open UgoVerif.Model.ModStore UgoVerif.Proofs.ModStore UgoVerif.Proofs.Copy UgoVerif.Proofs.ModCache

/-! ## compile side -/

private theorem main_post {mm : ModMap} {fuel : Nat} {imports : List String} {st : St}
    (hmain : mm.get "(main)" ≠ some .builtin) (h : compileMain mm fuel imports = .ok st) :
    Post mm ["(main)"] imports {} st :=
  (compile_post mm fuel).2 ["(main)"] imports {} st
    (by intro p hp; simp at hp; subst hp; exact hmain) (inv_empty mm) h

/-- One (kind, constant index, module index) per module name, across all forked compilers:
    every LOADMODULE emitted anywhere during the compilation carries the store's triple for its
    module name, so two import expressions naming the same module are compiled with identical
    operands; and every module index is below `NumModules`. -/
theorem store_functional (mm : ModMap) (fuel : Nat) (imports : List String) (st : St)
    (hmain : mm.get "(main)" ≠ some .builtin) (h : compileMain mm fuel imports = .ok st) :
    (∀ n it1 it2, (n, it1) ∈ st.emitted → (n, it2) ∈ st.emitted → it1 = it2) ∧
    (∀ n it, (n, it) ∈ st.emitted → it.modIdx < numModules st) := by
  obtain ⟨⟨hok, hem, _, _⟩, _, _, _⟩ := main_post hmain h
  constructor
  · intro n it1 it2 h1 h2
    have a := hem _ h1
    have b := hem _ h2
    simp at a b
    rw [a] at b
    exact Option.some.inj b
  · intro n it h1
    exact hok n it (hem _ h1)

/-- … and the triple of a name never changes while compilation proceeds (forks share the store):
    compiling further imports leaves every stored triple as it is. -/
theorem store_stable (mm : ModMap) (fuel : Nat) (path names : List String) (st st' : St)
    (hp : PathOK mm path) (hinv : Inv mm st) (h : compileImports mm fuel path names st = .ok st') :
    ∀ n it, st.store.get n = some it → st'.store.get n = some it :=
  ((compile_post mm fuel).2 path names st st' hp hinv h).2.1

/-- A static import cycle of any length is a compile error: if compilation succeeds, no module
    that was compiled (every module reachable from the main script's imports is) lies on a chain
    of import edges leading back to itself. -/
theorem cycle_rejected (mm : ModMap) (fuel : Nat) (imports : List String) (st : St)
    (hmain : mm.get "(main)" ≠ some .builtin) (h : compileMain mm fuel imports = .ok st) :
    ∀ m, (st.store.get m).isSome → ¬ Chain mm m m := by
  obtain ⟨⟨hok, _, htopo, _⟩, _, _, _⟩ := main_post hmain h
  intro m hm hc
  cases hg : st.store.get m with
  | none => rw [hg] at hm; cases hm
  | some it =>
    obtain ⟨it', h1, h2⟩ := chain_decreases htopo hc it hg
    rw [hg] at h1
    cases h1
    exact Nat.lt_irrefl _ h2

/-- everything reachable is compiled: the modules the main script imports are stored, and so are
    the imports of every stored source module -/
theorem reachable_compiled (mm : ModMap) (fuel : Nat) (imports : List String) (st : St)
    (hmain : mm.get "(main)" ≠ some .builtin) (h : compileMain mm fuel imports = .ok st) :
    (∀ m ∈ imports, (st.store.get m).isSome) ∧
    (∀ m is, (st.store.get m).isSome → mm.get m = some (.source is) → ∀ i ∈ is, (st.store.get i).isSome) := by
  obtain ⟨⟨_, _, htopo, _⟩, _, hall, _⟩ := main_post hmain h
  refine ⟨hall, ?_⟩
  intro m is hm hsrc i hi
  cases hg : st.store.get m with
  | none => rw [hg] at hm; cases hm
  | some it =>
    obtain ⟨it', h1, _⟩ := htopo m it is hg hsrc i hi
    simp [h1]

/-- the local form of cycle detection: importing a module that is being compiled (it is on the
    path of parent compilers and not stored yet) is the error "cyclic module import" -/
theorem cycle_rejected_at (mm : ModMap) (fuel : Nat) (path : List String) (name : String) (st : St)
    (is : List String) (hsrc : mm.get name = some (.source is)) (hp : name ∈ path)
    (hn : st.store.get name = none) :
    compileImport mm (fuel+1) path name st = .error (.cyclic name) := by
  simp [compileImport, hsrc, hn, checkCyclic, hp]

/-- An unknown module is a compile error at the import expression … -/
theorem unknown_rejected_at (mm : ModMap) (fuel : Nat) (path : List String) (name : String) (st : St)
    (h : mm.get name = none) : compileImport mm (fuel+1) path name st = .error (.notFound name) := by
  simp [compileImport, h]

/-- … hence a successful compilation stored only modules the module map knows, and every import
    expression of every compiled module names a known module. -/
theorem unknown_rejected (mm : ModMap) (fuel : Nat) (imports : List String) (st : St)
    (hmain : mm.get "(main)" ≠ some .builtin) (h : compileMain mm fuel imports = .ok st) :
    (∀ m ∈ imports, (mm.get m).isSome) ∧
    (∀ m is, (st.store.get m).isSome → mm.get m = some (.source is) → ∀ i ∈ is, (mm.get i).isSome) := by
  obtain ⟨⟨_, _, _, hknown⟩, _, _, _⟩ := main_post hmain h
  obtain ⟨r1, r2⟩ := reachable_compiled mm fuel imports st hmain h
  constructor
  · intro m hm
    cases hg : st.store.get m with
    | none => have := r1 m hm; rw [hg] at this; cases this
    | some it => exact hknown m it hg
  · intro m is hm hsrc i hi
    cases hg : st.store.get i with
    | none => have := r2 m is hm hsrc i hi; rw [hg] at this; cases this
    | some it => exact hknown i it hg

/-- non-vacuity: a diamond over a builtin module compiles, a 3-cycle and an unknown module do not -/
example : (compileMain [("a", .source ["b", "c"]), ("b", .source ["d"]), ("c", .source ["d", "b"]), ("d", .builtin)] 50 ["a", "c"]).toOption.map
    (fun st => (numModules st, st.emitted.length)) = some (4, 7) := by decide
example : compileMain [("a", .source ["b"]), ("b", .source ["c"]), ("c", .source ["a"])] 50 ["a"] = .error (.cyclic "a") := by decide
example : compileMain [("a", .source ["zz"])] 50 ["a"] = .error (.notFound "zz") := by decide

/-! ## run side -/

/-- `copy_fresh`: the value STOREMODULE caches is built from fresh objects only — every array, map,
    function, error object reachable from it (through arrays and maps, to any depth `d`) lies at
    an address that did not exist before the copy, and nothing that existed is modified.  Hence
    the cached module shares no mutable object with the Bytecode constant it was copied from
    (nor with the Go-side attribute map): builtin-module state is private per VM.  (Captured
    variable boxes of closures are shared on purpose — `CompiledFunction.Copy` keeps `Free` —
    and constants never carry free variables.) -/
theorem copy_fresh (fuel : Nat) (h : Array Cell) (v v' : V) (h' : Array Cell)
    (hc : copyVal fuel h v = some (v', h')) :
    (h.size ≤ h'.size ∧ ∀ i, i < h.size → h'[i]? = h[i]?) ∧ ∀ d, FreshVal h.size h' d v' :=
  copyVal_spec fuel h v v' h' hc

/-- non-vacuity: copying the nested constant `{k: [1]}` -/
example : ∃ v' h', copyVal 5 #[.arr #[.int 1], .map [([107], .arr 0 0 1)]] (.map 1) = some (v', h') ∧ v' = .map 3 :=
  ⟨_, _, rfl, rfl⟩

/-- LOADMODULE on a miss pushes the constant and `true`; on a hit it pushes the cached value — the
    very value STOREMODULE put there, so every import of a loaded module yields the same object
    (same address) — and `false`.  It never changes the cache or the heap. -/
theorem loadmodule_spec (s : State) (r : Except Exc Ctl) (s' : State)
    (h : execLoadModule.run.run s = (r, s')) : s'.modules = s.modules ∧ s'.heap = s.heap :=
  ⟨(pm_execLoadModule s).trans' h, (ph_execLoadModule s).trans' h⟩

/-- `only_storemodule_writes_cache`: no instruction other than STOREMODULE changes the module
    cache — whatever the instruction does, including raising errors, unwinding frames or panicking. -/
theorem only_storemodule_writes_cache (F : FloatOps) (op : Nat) (hop : op ≠ OpStoreModule)
    (s : State) : ((dispatch F op).run.run s).2.modules = s.modules :=
  pm_dispatch F op hop s

/-- the same for a whole instruction (`step` = fetch, trace, dispatch) unless it is a STOREMODULE -/
theorem step_keeps_cache (F : FloatOps) (s : State)
    (hop : ∀ op s1, ((do bumpIp 1; instAt (← getIp) : M Nat).run.run s) = (.ok op, s1) → op ≠ OpStoreModule) :
    ((step F).run.run s).2.modules = s.modules :=
  pm_step F s hop

/-- STOREMODULE changes exactly one entry of the cache (and none if it fails) -/
theorem storemodule_writes_one (s : State) :
    let s' := (execStoreModule.run.run s).2
    s'.modules.size = s.modules.size ∧
    ∃ midx, ∀ j, j ≠ midx → s'.modules[j]? = s.modules[j]? :=
  pm_execStoreModule s

/-- the prologue of `Run` only grows the cache: what was loaded stays loaded (REPL reuse),
    new entries are nil -/
theorem prologue_grows_cache (g : V) (args : List V) (s : State) :
    let s' := ((prologue g args).run.run s).2
    ∀ j, j < s.modules.size → s'.modules[j]? = s.modules[j]? :=
  pm_prologue g args s

/-- ### the trace invariant with ghost counters

    `completed m` counts the STOREMODULE m instructions that completed.  Along every execution
    (`Reach`: any number of instructions, from any state in which the invariant holds, e.g. the
    state after the prologue of a new VM: all entries nil, all counters 0):
      a cache entry that is not nil has a completed STOREMODULE behind it (`cache[m] ≠ nil → completed m > 0`,
      equivalently `completed m = 0 → cache[m] = nil`): a hit is only possible after a completion. -/
theorem cache_nil_until_stored (F : FloatOps) (g g' : Ghost) (s s' : State)
    (hr : Reach F (g, s) (g', s')) (hinv : GInv g s) : GInv g' s' :=
  reach_inv F hr hinv

/-- the full run-side statement (not proved in full): along every run of well-formed bytecode,
    (1) `cache[m] = nil ↔ completed m = 0`; (2) the body of module m (the CALL between
    `LOADMODULE c,m; JUMPFALSY` and `STOREMODULE m`) is entered only after a LOADMODULE miss on m;
    (3) at most one body execution of each module is ever started.
    (3) is FALSE of the code — see `known_findings.jsonl`
    `C12:body-rerun-after-throw` and `C12:body-reentered-via-global`: a body that ends in an error
    leaves the cache entry nil, and a body can reach, through a function stored in the globals, an
    import of its own module while the entry is still nil.  What holds (and is what the theorems
    above establish about the model) is: at most one *completed* body execution is ever observed
    through the cache; a second *start* needs a miss, i.e. no completed STOREMODULE for m so far. -/
def C12_full : Prop :=
  ∀ (F : FloatOps) (g' : Ghost) (s0 s' : State), GInv {} s0 → Reach F ({}, s0) (g', s') →
    ∀ m, g'.started m ≤ 1

end UgoVerif.Props.C12
